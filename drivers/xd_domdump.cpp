#include "xd_dump.hpp"
#include <algorithm>
#include <xercesc/dom/DOMTypeInfo.hpp>

using namespace xercesc;

namespace xv {

static std::string attrLine(const DOMAttr* a, const DomDumpOpts& o) {
    std::string t = "~";
    const DOMTypeInfo* ti = a->getSchemaTypeInfo();
    if (ti) t = esc(ti->getTypeName());
    std::string s = "AT\t" + esc(a->getNamespaceURI()) + "\t" + esc(a->getLocalName()) + "\t" + esc(a->getName()) + "\t" + t + "\t" +
                    (a->getSpecified() ? "1" : "0") + "\t" + esc(a->getValue());
    if (o.typeinfo && ti) s += "\tTI=" + esc(ti->getTypeNamespace()) + "|" + esc(ti->getTypeName());
    return s;
}

static void lookups(const char* who, const DOMNode* n, Dump& d, const DomDumpOpts& o) {
    for (size_t i = 0; i < o.lkPrefixes.size(); i++) {
        const xstr& p = o.lkPrefixes[i];
        d.ev(std::string("LK\t") + who + "\tns\t" + escx(p) + "\t" + esc(n->lookupNamespaceURI(p.empty() ? 0 : p.c_str())));
    }
    for (size_t i = 0; i < o.lkUris.size(); i++) {
        const xstr& u = o.lkUris[i];
        d.ev(std::string("LK\t") + who + "\tpfx\t" + escx(u) + "\t" + esc(n->lookupPrefix(u.empty() ? 0 : u.c_str())));
        d.ev(std::string("LK\t") + who + "\tdef\t" + escx(u) + "\t" + (n->isDefaultNamespace(u.empty() ? 0 : u.c_str()) ? "1" : "0"));
    }
}

static void startNode(const DOMNode* n, Dump& d, const DomDumpOpts& o) {
    switch (n->getNodeType()) {
        case DOMNode::ELEMENT_NODE: {
            const DOMElement* e = static_cast<const DOMElement*>(n);
            std::string s = "SE\t" + esc(e->getNamespaceURI()) + "\t" + esc(e->getLocalName()) + "\t" + esc(e->getTagName());
            if (o.typeinfo) { const DOMTypeInfo* ti = e->getSchemaTypeInfo(); if (ti) s += "\tTI=" + esc(ti->getTypeNamespace()) + "|" + esc(ti->getTypeName()); }
            d.ev(s);
            DOMNamedNodeMap* m = e->getAttributes();
            std::vector<std::pair<std::string, std::string> > al;
            if (m) for (XMLSize_t i = 0; i < m->getLength(); i++) {
                const DOMAttr* a = static_cast<const DOMAttr*>(m->item(i));
                al.push_back(std::make_pair(esc(a->getName()), attrLine(a, o)));
            }
            std::sort(al.begin(), al.end());
            for (size_t i = 0; i < al.size(); i++) d.ev(al[i].second);
            d.ev("SEX");
            if (o.lookups) {
                static unsigned long nth = 0;
                lookups("el", n, d, o);
                // attribute / child nodes delegate to the element: sample every third element to bound the log size
                if (++nth % 3 == 0) {
                    if (m && m->getLength()) lookups("at", m->item(0), d, o);
                    const DOMNode* fc = n->getFirstChild();
                    if (fc && fc->getNodeType() != DOMNode::ELEMENT_NODE) lookups("ch", fc, d, o);
                }
            }
            break;
        }
        case DOMNode::TEXT_NODE: {
            const DOMText* t = static_cast<const DOMText*>(n);
            const XMLCh* v = t->getData(); size_t len = XMLString::stringLen(v);
            if (t->isIgnorableWhitespace()) d.iws(v, len); else d.chars(v, len);
            break;
        }
        case DOMNode::CDATA_SECTION_NODE: {
            const XMLCh* v = n->getNodeValue();
            d.ev("CD0"); d.chars(v, XMLString::stringLen(v)); d.ev("CD1");
            break;
        }
        case DOMNode::COMMENT_NODE: d.ev("CM\t" + esc(n->getNodeValue())); break;
        case DOMNode::PROCESSING_INSTRUCTION_NODE: d.ev("PI\t" + esc(n->getNodeName()) + "\t" + esc(n->getNodeValue())); break;
        case DOMNode::ENTITY_REFERENCE_NODE: d.ev("SER\t" + esc(n->getNodeName())); break;
        case DOMNode::DOCUMENT_TYPE_NODE: {
            const DOMDocumentType* dt = static_cast<const DOMDocumentType*>(n);
            d.ev("DT\t" + esc(dt->getName()) + "\t" + esc(dt->getPublicId()) + "\t" + esc(dt->getSystemId()));
            std::vector<std::string> v;
            DOMNamedNodeMap* em = dt->getEntities();
            if (em) for (XMLSize_t i = 0; i < em->getLength(); i++) {
                const DOMEntity* en = static_cast<const DOMEntity*>(em->item(i));
                v.push_back("DE\t" + esc(en->getNodeName()) + "\t" + esc(en->getPublicId()) + "\t" + esc(en->getSystemId()) + "\t" + esc(en->getNotationName()));
            }
            std::sort(v.begin(), v.end()); for (size_t i = 0; i < v.size(); i++) d.ev(v[i]);
            v.clear();
            DOMNamedNodeMap* nm = dt->getNotations();
            if (nm) for (XMLSize_t i = 0; i < nm->getLength(); i++) {
                const DOMNotation* no = static_cast<const DOMNotation*>(nm->item(i));
                v.push_back("DN\t" + esc(no->getNodeName()) + "\t" + esc(no->getPublicId()) + "\t" + esc(no->getSystemId()));
            }
            std::sort(v.begin(), v.end()); for (size_t i = 0; i < v.size(); i++) d.ev(v[i]);
            d.ev("DIS\t" + esc(dt->getInternalSubset()));
            d.ev("EDT");
            break;
        }
        case DOMNode::DOCUMENT_NODE: d.ev("SD"); break;
        case DOMNode::DOCUMENT_FRAGMENT_NODE: d.ev("SF"); break;
        default: d.ev("NODE\t" + itos(n->getNodeType()) + "\t" + esc(n->getNodeName())); break;
    }
}

static void endNode(const DOMNode* n, Dump& d) {
    switch (n->getNodeType()) {
        case DOMNode::ELEMENT_NODE: {
            const DOMElement* e = static_cast<const DOMElement*>(n);
            d.ev("EE\t" + esc(e->getNamespaceURI()) + "\t" + esc(e->getLocalName()) + "\t" + esc(e->getTagName()));
            break;
        }
        case DOMNode::ENTITY_REFERENCE_NODE: d.ev("EER\t" + esc(n->getNodeName())); break;
        case DOMNode::DOCUMENT_NODE: d.ev("ED"); break;
        case DOMNode::DOCUMENT_FRAGMENT_NODE: d.ev("EF"); break;
        default: break;
    }
}

static bool descends(const DOMNode* n) {
    short t = n->getNodeType();
    return t == DOMNode::ELEMENT_NODE || t == DOMNode::ENTITY_REFERENCE_NODE || t == DOMNode::DOCUMENT_NODE || t == DOMNode::DOCUMENT_FRAGMENT_NODE;
}

void dumpDOM(const DOMNode* root, Dump& d, const DomDumpOpts& o) {
    if (!root) { d.ev("NULLDOC"); return; }
    const DOMNode* n = root;
    // iterative pre/post-order walk bounded by a step budget (a cyclic tree must not hang the monitor)
    unsigned long budget = 50000000UL;
    for (;;) {
        if (!budget--) { d.ev("WALK-BUDGET-EXCEEDED"); return; }
        startNode(n, d, o);
        const DOMNode* c = descends(n) ? n->getFirstChild() : 0;
        if (c) { n = c; continue; }
        for (;;) {
            endNode(n, d);
            if (n == root) return;
            const DOMNode* s = n->getNextSibling();
            if (s) { n = s; break; }
            n = n->getParentNode();
            if (!n) { d.ev("WALK-LOST-PARENT"); return; }
            if (!budget--) { d.ev("WALK-BUDGET-EXCEEDED"); return; }
        }
    }
}

}  // namespace xv
