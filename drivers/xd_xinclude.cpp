// xinclude command: one case = a file graph (ENT lines: relative path -> bytes) written into a private directory, and one
// parse of its root document with XInclude processing on.  Logs: the error reporter boundary (severity + code), the
// handler callbacks, what the XInclude code offered to the entity resolver, the resulting DOM (shared dump) and, for every
// element of the result in document order, its resolved base URI (DOMNode::getBaseURI()) and its own xml:base attribute.
#include "xd_dump.hpp"
#include <typeinfo>
#include <unistd.h>
#include <sys/stat.h>
#include <dirent.h>
#include <cxxabi.h>

#include <xercesc/util/PlatformUtils.hpp>
#include <xercesc/util/XMLUni.hpp>
#include <xercesc/util/OutOfMemoryException.hpp>
#include <xercesc/util/XMLEntityResolver.hpp>
#include <xercesc/util/XMLResourceIdentifier.hpp>
#include <xercesc/sax/ErrorHandler.hpp>
#include <xercesc/sax/SAXParseException.hpp>
#include <xercesc/sax/SAXException.hpp>
#include <xercesc/parsers/XercesDOMParser.hpp>
#include <xercesc/parsers/DOMLSParserImpl.hpp>
#include <xercesc/framework/LocalFileInputSource.hpp>
#include <xercesc/framework/Wrapper4InputSource.hpp>
#include <xercesc/dom/DOM.hpp>
#include <xercesc/dom/DOMLSException.hpp>

using namespace xercesc;

namespace xv {
namespace {

std::string baseDir() {
    static std::string d;
    if (d.empty()) {
        const char* e = getenv("XV_SCRATCH");
        d = std::string(e ? e : "/var/tmp/xv-scratch") + "/xi" + itos(getpid());
    }
    return d;
}

void mkdirs(const std::string& p) {
    for (size_t i = 1; i <= p.size(); i++)
        if (i == p.size() || p[i] == '/') { std::string s = p.substr(0, i); if (mkdir(s.c_str(), 0777)) {} }
}

void rmtree(const std::string& p) {
    DIR* d = opendir(p.c_str());
    if (d) {
        while (struct dirent* e = readdir(d)) {
            std::string n = e->d_name; if (n == "." || n == "..") continue;
            std::string q = p + "/" + n; struct stat st;
            if (!lstat(q.c_str(), &st) && S_ISDIR(st.st_mode)) rmtree(q); else unlink(q.c_str());
        }
        closedir(d);
    }
    rmdir(p.c_str());
}

struct Log {
    Dump d; unsigned long nW, nE, nF;
    Log() : nW(0), nE(0), nF(0) {}
};

class Handler : public ErrorHandler, public DOMErrorHandler, public XMLEntityResolver {
public:
    Log* lg;
    Handler(Log* l) : lg(l) {}
    void rep(const char* sev, const SAXParseException& e) { lg->d.side(std::string("EH\t") + sev + "\t" + itos((long long)e.getLineNumber()) + "\t" + itos((long long)e.getColumnNumber()) + "\t" + esc(e.getSystemId())); }
    void warning(const SAXParseException& e) { lg->nW++; rep("W", e); }
    void error(const SAXParseException& e) { lg->nE++; rep("E", e); }
    void fatalError(const SAXParseException& e) { lg->nF++; rep("F", e); }
    void resetErrors() {}
    bool handleError(const DOMError& e) {
        const char* sev = e.getSeverity() == DOMError::DOM_SEVERITY_WARNING ? "W" : e.getSeverity() == DOMError::DOM_SEVERITY_ERROR ? "E" : "F";
        if (*sev == 'W') lg->nW++; else if (*sev == 'E') lg->nE++; else lg->nF++;
        DOMLocator* l = e.getLocation();
        lg->d.side(std::string("EH\t") + sev + "\t" + itos(l ? (long long)l->getLineNumber() : -1) + "\t" + itos(l ? (long long)l->getColumnNumber() : -1) + "\t" + esc(l ? l->getURI() : 0));
        return true;
    }
    // records what is offered; never supplies a source (the default resolution of the library is what is under test)
    InputSource* resolveEntity(XMLResourceIdentifier* ri) {
        lg->d.side("RES\tx" + itos(ri->getResourceIdentifierType()) + "\t" + esc(ri->getPublicId()) + "\t" + esc(ri->getSystemId()) + "\t" + esc(ri->getBaseURI()));
        return 0;
    }
};

std::string errLine(unsigned int code, const XMLCh* dom, XMLErrorReporter::ErrTypes t, const XMLCh* sys, XMLFileLoc l, XMLFileLoc c) {
    const char* sev = t == XMLErrorReporter::ErrType_Warning ? "W" : t == XMLErrorReporter::ErrType_Error ? "E" : "F";
    std::string ds = u8(dom); size_t p = ds.rfind('/'); if (p != std::string::npos) ds = ds.substr(p + 1);
    return std::string("ERR\t") + sev + "\t" + ds + "\t" + itos(code) + "\t" + itos((long long)l) + "\t" + itos((long long)c) + "\t" + esc(sys);
}
#define XI_ERROR_OVERRIDE(BASE) \
    void error(const unsigned int code, const XMLCh* const dom, const XMLErrorReporter::ErrTypes t, const XMLCh* const txt, \
               const XMLCh* const sys, const XMLCh* const pub, const XMLFileLoc l, const XMLFileLoc c) { \
        if (lg) lg->d.side(errLine(code, dom, t, sys, l, c)); \
        BASE::error(code, dom, t, txt, sys, pub, l, c); }
struct XiDom : public XercesDOMParser { Log* lg; XiDom() : XercesDOMParser(), lg(0) {} XI_ERROR_OVERRIDE(XercesDOMParser) };
struct XiLs : public DOMLSParserImpl { Log* lg; XiLs() : DOMLSParserImpl(), lg(0) {} XI_ERROR_OVERRIDE(DOMLSParserImpl) };

std::string demangle(const char* n) {
    int st = 0; char* r = abi::__cxa_demangle(n, 0, 0, &st);
    std::string s = (st == 0 && r) ? r : n; free(r); return s;
}

// every element in document order: ordinal, qualified name, resolved base URI, own xml:base attribute
void dumpBases(const DOMDocument* doc, Log& lg) {
    lg.d.side("DU\t" + esc(doc->getDocumentURI()) + "\t" + esc(doc->getBaseURI()));
    const DOMNode* n = doc; long k = 0; unsigned long budget = 20000000UL;
    static const XMLCh xb[] = { 'x', 'm', 'l', ':', 'b', 'a', 's', 'e', 0 };
    while (n) {
        if (!budget--) { lg.d.side("BU-BUDGET"); return; }
        if (n->getNodeType() == DOMNode::ELEMENT_NODE) {
            const DOMElement* e = static_cast<const DOMElement*>(n);
            const DOMAttr* a = e->getAttributeNode(xb);
            lg.d.side("BU\t" + itos(k++) + "\t" + esc(e->getTagName()) + "\t" + esc(e->getBaseURI()) + "\t" + (a ? esc(a->getValue()) : std::string("~")));
        }
        const DOMNode* c = (n->getNodeType() == DOMNode::ELEMENT_NODE || n->getNodeType() == DOMNode::DOCUMENT_NODE || n->getNodeType() == DOMNode::ENTITY_REFERENCE_NODE) ? n->getFirstChild() : 0;
        if (c) { n = c; continue; }
        while (n && n != doc && !n->getNextSibling()) n = n->getParentNode();
        if (!n || n == doc) break;
        n = n->getNextSibling();
    }
}

void cmdXInclude(const Case& c) {
    static unsigned long serial = 0;
    std::string dir = baseDir() + "/c" + itos((long long)serial++);
    mkdirs(dir);
    for (size_t i = 0; i < c.ents.size(); i++) {
        std::string rel = c.ents[i].first, full = dir + "/" + rel;
        if (!rel.empty() && rel[rel.size() - 1] == '/') { mkdirs(full.substr(0, full.size() - 1)); continue; }
        size_t sl = full.rfind('/'); mkdirs(full.substr(0, sl));
        FILE* f = fopen(full.c_str(), "wb");
        if (f) { fwrite(c.ents[i].second.data(), 1, c.ents[i].second.size(), f); fclose(f); }
        else gOut.line("HARNESS\tcannot-write\t" + pctenc(rel));
    }
    gOut.line("ROOT\t" + pctenc(dir));
    std::string api = c.get("api", "dom"), how = c.get("how", "path"), root = c.get("root", "a.xml");
    bool xinc = c.geti("xinclude", 1) != 0, ns = c.geti("ns", 1) != 0, useRes = c.get("resolver", "none") == "x";
    std::string full = dir + "/" + root;
    if (!c.get("abs").empty()) full = c.get("abs");   // an existing file outside the scratch directory (in-repo test data)
    std::string status = "ok";
    Log lg; Handler h(&lg);
    XiDom* dom = 0; XiLs* ls = 0;
    char* oldcwd = 0;
    try {
        const DOMDocument* doc = 0;
        xstr sys;
        if (how == "url") sys = u16("file://" + full);
        else if (how == "rel") {   // a relative file name, as the XInclude sample program is used
            oldcwd = getcwd(0, 0);
            size_t sl = full.rfind('/');
            if (chdir(full.substr(0, sl).c_str())) {}
            sys = u16(full.substr(sl + 1));
        }
        else sys = u16(full);
        if (api == "dom") {
            dom = new XiDom(); dom->lg = &lg;
            dom->setErrorHandler(&h); dom->setDoNamespaces(ns); dom->setDoXInclude(xinc);
            dom->setExitOnFirstFatalError(true);   // continue-after-fatal is documented as undetermined: stays off
            if (useRes) dom->setXMLEntityResolver(&h);
            if (how == "lfis") { LocalFileInputSource is(sys.c_str()); dom->parse(is); }
            else dom->parse(sys.c_str());
            doc = dom->getDocument();
        } else {
            ls = new XiLs(); ls->lg = &lg;
            DOMConfiguration* cf = ls->getDomConfig();
            cf->setParameter(XMLUni::fgDOMErrorHandler, (const void*)static_cast<DOMErrorHandler*>(&h));
            cf->setParameter(XMLUni::fgDOMNamespaces, ns);
            cf->setParameter(XMLUni::fgXercesDoXInclude, xinc);
            cf->setParameter(XMLUni::fgXercesContinueAfterFatalError, false);
            if (useRes) cf->setParameter(XMLUni::fgXercesEntityResolver, (const void*)static_cast<XMLEntityResolver*>(&h));
            if (how == "lfis") { LocalFileInputSource* is = new LocalFileInputSource(sys.c_str()); Wrapper4InputSource w(is, true); doc = ls->parse(&w); }
            else doc = ls->parseURI(sys.c_str());
        }
        if (doc) {
            try { dumpDOM(doc, lg.d); dumpBases(doc, lg); }
            catch (const DOMException& e) { lg.d.side("EXC\tDOMException-in-walk\t" + itos(e.code)); }
        } else lg.d.ev("NULLDOC");
    }
    catch (const OutOfMemoryException&) { status = "exc"; lg.d.side("EXC\tOutOfMemoryException\t0"); }
    catch (const XMLException& e) { status = "exc"; lg.d.side("EXC\tXMLException:" + u8(e.getType()) + "\t" + itos(e.getCode())); }
    catch (const SAXParseException& e) { status = "exc"; lg.d.side("EXC\tSAXParseException\t" + itos((long long)e.getLineNumber())); }
    catch (const SAXException& e) { status = "exc"; lg.d.side("EXC\tSAXException:" + demangle(typeid(e).name()) + "\t0"); }
    catch (const DOMLSException& e) { status = "exc"; lg.d.side("EXC\tDOMLSException\t" + itos(e.code)); }
    catch (const DOMException& e) { status = "exc"; lg.d.side("EXC\tDOMException:" + demangle(typeid(e).name()) + "\t" + itos(e.code)); }
    catch (const std::exception& e) { status = "foreign"; lg.d.side("EXC\tFOREIGN:" + demangle(typeid(e).name()) + "\t0"); }
    catch (...) { status = "foreign"; std::type_info* t = abi::__cxa_current_exception_type(); lg.d.side("EXC\tFOREIGN:" + (t ? demangle(t->name()) : std::string("?")) + "\t0"); }
    long long ec = -1;
    try { if (dom) ec = (long long)dom->getErrorCount(); else if (ls) ec = (long long)ls->getErrorCount(); } catch (...) {}
    try { delete dom; if (ls) ls->release(); } catch (...) { gOut.line("EXC\tdtor:threw"); }
    if (oldcwd) { if (chdir(oldcwd)) {} free(oldcwd); }
    lg.d.side("R\t" + status + "\t" + itos(lg.nW) + "\t" + itos(lg.nE) + "\t" + itos(lg.nF) + "\t" + itos(ec));
    lg.d.emitTo(gOut, "");
    rmtree(dir);
}
CmdReg regXInclude("xinclude", cmdXInclude);

}  // namespace
}  // namespace xv
