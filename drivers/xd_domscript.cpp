// domscript: interpreter of DOM operation scripts (properties C13 / C14).
//
// One case = one or more TXT steps; every line of a step is one operation over numbered node handles
// (n<k>) and numbered views (v<k>: NodeIterator / TreeWalker / Range / NodeList / NamedNodeMap).
// Handle numbers are chosen by the script (the python reference model allocates them) - the driver only
// stores pointers.  After every operation (or every chk-th) the driver logs
//   U  <idx> <operation> <key> <data> <src> <dst>            user-data handler calls seen during the op
//   O  <idx> <outcome> <result> <invariants> <crc32> <nlines>  outcome, value, local invariants, dump hash
//   D  ...                                                   full structural dump (when dump is on)
// The structural dump and the invariants use PUBLIC getters only; all bookkeeping (handle table, visited
// sets) lives in the driver.  Every walk has a step budget: a cyclic tree cannot hang the monitor.
#include "xd_common.hpp"
#include <xercesc/dom/DOM.hpp>
#include <xercesc/util/OutOfMemoryException.hpp>
#include <xercesc/util/XMLException.hpp>
#include <set>
#include <algorithm>
#include <typeinfo>
#include <cxxabi.h>

using namespace xercesc;

namespace xv {
namespace {

static std::string demangle(const char* n) {
    int st = 0; char* d = abi::__cxa_demangle(n, 0, 0, &st);
    std::string r = (st == 0 && d) ? d : n; free(d); return r;
}

static uint32_t crcTab[256];
static void crcInit() {
    static bool done = false; if (done) return; done = true;
    for (uint32_t i = 0; i < 256; i++) { uint32_t c = i; for (int k = 0; k < 8; k++) c = (c & 1) ? 0xEDB88320u ^ (c >> 1) : c >> 1; crcTab[i] = c; }
}
static uint32_t crcUpd(uint32_t crc, const std::string& s) {
    crc = ~crc;
    for (size_t i = 0; i < s.size(); i++) crc = crcTab[(crc ^ (unsigned char)s[i]) & 0xFF] ^ (crc >> 8);
    return ~crc;
}

struct Tok {
    std::vector<std::string> raw;
    size_t n() const { return raw.size(); }
};

static std::vector<std::string> splitSp(const std::string& s) {
    std::vector<std::string> v; size_t p = 0;
    while (p < s.size()) {
        size_t q = s.find(' ', p);
        if (q == std::string::npos) q = s.size();
        if (q > p) v.push_back(s.substr(p, q - p));
        p = q + 1;
    }
    return v;
}

class Interp;

struct UDHandler : public DOMUserDataHandler {
    Interp* I;
    explicit UDHandler(Interp* i) : I(i) {}
    virtual void handle(DOMOperationType operation, const XMLCh* const key, void* data, const DOMNode* src, DOMNode* dst);
};

// filter used by iterators / walkers: decision is a pure function of node type and node name
//   kind 0: no filter object;  kind 1: elements whose name starts with 'a' => SKIP, with 'b' => REJECT
//   kind 2: text/cdata => SKIP when empty, comments => REJECT;   kind 3: everything with children => SKIP
struct ScriptFilter : public DOMNodeFilter {
    int kind; mutable unsigned long calls;
    explicit ScriptFilter(int k) : kind(k), calls(0) {}
    virtual FilterAction acceptNode(const DOMNode* n) const {
        calls++;
        short t = n->getNodeType();
        const XMLCh* nm = n->getNodeName();
        switch (kind) {
            case 1:
                if (t == DOMNode::ELEMENT_NODE && nm) {
                    if (nm[0] == 'a') return FILTER_SKIP;
                    if (nm[0] == 'b') return FILTER_REJECT;
                }
                return FILTER_ACCEPT;
            case 2:
                if (t == DOMNode::TEXT_NODE || t == DOMNode::CDATA_SECTION_NODE) {
                    const XMLCh* v = n->getNodeValue();
                    return (v && *v) ? FILTER_ACCEPT : FILTER_SKIP;
                }
                if (t == DOMNode::COMMENT_NODE) return FILTER_REJECT;
                return FILTER_ACCEPT;
            case 3:
                if (t == DOMNode::ELEMENT_NODE && nm && nm[0] == 'c') return FILTER_REJECT;
                if (t == DOMNode::ELEMENT_NODE && nm && nm[0] == 'x') return FILTER_SKIP;
                return FILTER_ACCEPT;
            default: return FILTER_ACCEPT;
        }
    }
};

struct View {
    char kind;   // 'I' iterator, 'W' walker, 'R' range, 'L' node list, 'M' named node map, 0 = dead
    DOMNodeIterator* it; DOMTreeWalker* tw; DOMRange* rg; DOMNodeList* nl; DOMNamedNodeMap* nm;
    ScriptFilter* flt; int doc;
    View() : kind(0), it(0), tw(0), rg(0), nl(0), nm(0), flt(0), doc(-1) {}
};

class Interp {
public:
    std::vector<DOMNode*> H;                 // handle -> node (0 = dead / unused)
    std::map<const DOMNode*, int> P;         // live node -> handle
    std::vector<int> docs;                   // handles of documents created (for clean-up)
    std::set<int> docReleased;
    std::vector<View> V;
    std::vector<std::string> ud;             // user data events of the current op
    std::vector<ScriptFilter*> filters;
    UDHandler udh;
    long chkEvery, dumpEvery, quietN;
    long opIndex;
    unsigned long budget;
    std::string invFail;
    std::vector<std::string> dumpLines;

    Interp() : udh(this), chkEvery(1), dumpEvery(0), quietN(0), opIndex(0), budget(0) {}

    // ---------------------------------------------------------------- handles
    DOMNode* node(const std::string& t) {
        if (t == "~") return 0;
        if (t.size() < 2 || t[0] != 'n') throw std::string("BADTOK:" + t);
        long k = atol(t.c_str() + 1);
        if (k < 0 || (size_t)k >= H.size() || !H[k]) throw std::string("BADH:" + t);
        return H[k];
    }
    int hnum(const std::string& t) { if (t.size() < 2 || t[0] != 'n') throw std::string("BADTOK:" + t); return atoi(t.c_str() + 1); }
    void bind(int h, DOMNode* n) {
        if (h < 0) return;
        if ((size_t)h >= H.size()) H.resize(h + 1, 0);
        if (H[h]) { std::map<const DOMNode*, int>::iterator i = P.find(H[h]); if (i != P.end() && i->second == h) P.erase(i); }
        H[h] = n; P[n] = h;
    }
    void kill(int h) {
        if (h < 0 || (size_t)h >= H.size() || !H[h]) return;
        std::map<const DOMNode*, int>::iterator i = P.find(H[h]);
        if (i != P.end() && i->second == h) P.erase(i);
        H[h] = 0;
    }
    std::string ref(const DOMNode* n) {
        if (!n) return "null";
        std::map<const DOMNode*, int>::iterator i = P.find(n);
        if (i == P.end()) return "anon";
        return "n" + itos(i->second);
    }
    // result of an operation returning a node: bind to the handle requested by "op=h" when the node is new
    std::string result(DOMNode* r, int want) {
        if (!r) return "null";
        std::map<const DOMNode*, int>::iterator i = P.find(r);
        if (i != P.end()) return "n" + itos(i->second);
        if (want >= 0) {
            bind(want, r);
            if (r->getNodeType() == DOMNode::DOCUMENT_NODE) docPtrs.push_back(std::make_pair(static_cast<DOMDocument*>(r), false));
            return "new:n" + itos(want);
        }
        return "anon";
    }
    DOMDocument* docOf(const std::string& t) {
        DOMNode* n = node(t);
        if (!n || n->getNodeType() != DOMNode::DOCUMENT_NODE) throw std::string("NOTDOC:" + t);
        return static_cast<DOMDocument*>(n);
    }
    DOMElement* elem(const std::string& t) {
        DOMNode* n = node(t);
        if (!n || n->getNodeType() != DOMNode::ELEMENT_NODE) throw std::string("NOTELEM:" + t);
        return static_cast<DOMElement*>(n);
    }
    DOMAttr* attr(const std::string& t) {
        DOMNode* n = node(t);
        if (!n || n->getNodeType() != DOMNode::ATTRIBUTE_NODE) throw std::string("NOTATTR:" + t);
        return static_cast<DOMAttr*>(n);
    }
    DOMCharacterData* cdat(const std::string& t) {
        DOMNode* n = node(t);
        short ty = n ? n->getNodeType() : 0;
        if (ty != DOMNode::TEXT_NODE && ty != DOMNode::CDATA_SECTION_NODE && ty != DOMNode::COMMENT_NODE) throw std::string("NOTCDATA:" + t);
        return static_cast<DOMCharacterData*>(n);
    }
    DOMText* text(const std::string& t) {
        DOMNode* n = node(t);
        short ty = n ? n->getNodeType() : 0;
        if (ty != DOMNode::TEXT_NODE && ty != DOMNode::CDATA_SECTION_NODE) throw std::string("NOTTEXT:" + t);
        return static_cast<DOMText*>(n);
    }
    // string operand: "~" => null pointer; otherwise percent-decoded UTF-8 (CESU style lone surrogates allowed)
    struct S { xstr s; bool isNull; const XMLCh* p() const { return isNull ? 0 : s.c_str(); } };
    S str(const std::string& t) { S r; r.isNull = (t == "~"); if (!r.isNull) r.s = u16(pctdec(t == "%" ? "" : t)); return r; }
    static unsigned long num(const std::string& t) { return strtoul(t.c_str(), 0, 10); }

    View& view(const std::string& t, char kind) {
        if (t.size() < 2 || t[0] != 'v') throw std::string("BADTOK:" + t);
        long k = atol(t.c_str() + 1);
        if (k < 0 || (size_t)k >= V.size() || !V[k].kind) throw std::string("BADV:" + t);
        if (kind && V[k].kind != kind) throw std::string("BADVKIND:" + t);
        return V[k];
    }
    View& newView(const std::string& t) {
        if (t.size() < 2 || t[0] != 'v') throw std::string("BADTOK:" + t);
        long k = atol(t.c_str() + 1);
        if (k < 0) throw std::string("BADV:" + t);
        if ((size_t)k >= V.size()) V.resize(k + 1);
        V[k] = View();
        return V[k];
    }

    // ---------------------------------------------------------------- structural dump + invariants
    struct Walk {
        std::vector<const DOMNode*> order;
        std::map<const DOMNode*, int> wi;
    };
    bool step() { if (budget == 0) return false; budget--; return true; }
    void fail(const std::string& code, const DOMNode* n) {
        if (invFail.empty()) invFail = code + "@" + ref(n);
    }
    static bool attrLess(const DOMNode* a, const DOMNode* b) {
        xstr an(a->getNodeName() ? a->getNodeName() : (const XMLCh*)u""), bn(b->getNodeName() ? b->getNodeName() : (const XMLCh*)u"");
        if (an != bn) return an < bn;
        xstr au(a->getNamespaceURI() ? a->getNamespaceURI() : (const XMLCh*)u""), bu(b->getNamespaceURI() ? b->getNamespaceURI() : (const XMLCh*)u"");
        return au < bu;
    }
    std::vector<const DOMNode*> sortedAttrs(const DOMNode* e) {
        std::vector<const DOMNode*> v;
        DOMNamedNodeMap* m = e->getAttributes();
        if (!m) return v;
        XMLSize_t n = m->getLength();
        if (n > 100000) { fail("attrcount", e); n = 0; }
        for (XMLSize_t i = 0; i < n; i++) { const DOMNode* a = m->item(i); if (!a) { fail("attritem-null", e); continue; } v.push_back(a); }
        std::stable_sort(v.begin(), v.end(), attrLess);
        return v;
    }
    // iterative pre-order: node, its attributes (each with its own subtree), its children
    void collect(const DOMNode* root, Walk& w) {
        std::vector<const DOMNode*> stack;
        stack.push_back(root);
        while (!stack.empty()) {
            const DOMNode* n = stack.back(); stack.pop_back();
            if (!step()) { fail("budget", n); return; }
            if (w.wi.count(n)) { fail("twice", n); continue; }
            w.wi[n] = (int)w.order.size(); w.order.push_back(n);
            std::vector<const DOMNode*> next;
            if (n->getNodeType() == DOMNode::ELEMENT_NODE) {
                std::vector<const DOMNode*> at = sortedAttrs(n);
                for (size_t i = 0; i < at.size(); i++) next.push_back(at[i]);
            }
            unsigned long cnt = 0;
            for (const DOMNode* c = n->getFirstChild(); c; c = c->getNextSibling()) {
                if (!step() || ++cnt > 1000000) { fail("budget-children", n); break; }
                next.push_back(c);
            }
            for (size_t i = next.size(); i > 0; i--) stack.push_back(next[i - 1]);
        }
    }
    std::string wref(const Walk& w, const DOMNode* n) {
        if (!n) return "-";
        std::map<const DOMNode*, int>::const_iterator i = w.wi.find(n);
        if (i != w.wi.end()) return itos(i->second);
        std::map<const DOMNode*, int>::iterator j = P.find(n);
        if (j != P.end()) return "?n" + itos(j->second);
        return "??";
    }
    void checkNode(const DOMNode* n, const Walk& w, const DOMDocument* rootDoc) {
        short t = n->getNodeType();
        // children
        const DOMNode* first = n->getFirstChild();
        const DOMNode* last = n->getLastChild();
        if ((first != 0) != n->hasChildNodes()) fail("haschildren", n);
        if ((first == 0) != (last == 0)) fail("firstlast", n);
        if (first && first->getPreviousSibling()) fail("firstprev", n);
        if (last && last->getNextSibling()) fail("lastnext", n);
        DOMNodeList* cl = n->getChildNodes();
        XMLSize_t idx = 0;
        const DOMNode* prev = 0;
        for (const DOMNode* c = first; c; c = c->getNextSibling()) {
            if (!step()) { fail("budget", n); return; }
            if (c->getParentNode() != n) fail("parent", c);
            if (c->getPreviousSibling() != prev) fail("sibinv", c);
            if (cl && cl->item(idx) != c) fail("childlist-item", n);
            if (c == n) fail("selfchild", n);
            prev = c; idx++;
        }
        if (prev != last) fail("lastchild", n);
        if (cl) {
            if (cl->getLength() != idx) fail("childlist-length", n);
            if (cl->item(idx) != 0) fail("childlist-beyond", n);
        } else fail("childlist-null", n);
        // owner document
        if (t == DOMNode::DOCUMENT_NODE) { if (n->getOwnerDocument() != 0) fail("owner-doc-nonnull", n); }
        else if (n->getOwnerDocument() != rootDoc) fail("owner", n);
        // attributes
        if (t == DOMNode::ELEMENT_NODE) {
            DOMNamedNodeMap* m = n->getAttributes();
            if (!m) fail("attrs-null", n);
            else {
                XMLSize_t len = m->getLength();
                if ((len != 0) != n->hasAttributes()) fail("hasattributes", n);
                std::set<const DOMNode*> seen;
                for (XMLSize_t i = 0; i < len && i < 100000; i++) {
                    const DOMNode* a = m->item(i);
                    if (!a) { fail("attritem-null", n); continue; }
                    if (a->getNodeType() != DOMNode::ATTRIBUTE_NODE) { fail("attr-type", n); continue; }
                    if (!seen.insert(a).second) fail("attr-dup", n);
                    const DOMAttr* at = static_cast<const DOMAttr*>(a);
                    if (at->getOwnerElement() != n) fail("attrowner", a);
                    if (a->getParentNode() != 0) fail("attr-parent", a);
                    if (a->getNextSibling() != 0 || a->getPreviousSibling() != 0) fail("attr-sibling", a);
                }
                if (m->item(len) != 0) fail("attrmap-beyond", n);
            }
        } else if (n->getAttributes() != 0) fail("attrs-nonnull", n);
        if (t == DOMNode::ATTRIBUTE_NODE) {
            if (n->getParentNode() != 0) fail("attr-parent", n);
        }
        if (t == DOMNode::DOCUMENT_NODE) {
            const DOMDocument* d = static_cast<const DOMDocument*>(n);
            const DOMNode* de = 0; const DOMNode* dt = 0; int ne = 0, nt = 0;
            for (const DOMNode* c = first; c; c = c->getNextSibling()) {
                if (!step()) { fail("budget", n); return; }
                if (c->getNodeType() == DOMNode::ELEMENT_NODE) { if (!de) de = c; ne++; }
                if (c->getNodeType() == DOMNode::DOCUMENT_TYPE_NODE) { if (!dt) dt = c; nt++; }
            }
            if (ne > 1) fail("two-docelements", n);
            if (nt > 1) fail("two-doctypes", n);
            if (d->getDocumentElement() != de) fail("docelement-cache", n);
            if (d->getDoctype() != dt) fail("doctype-cache", n);
        }
    }
    std::string line(const DOMNode* n, const Walk& w) {
        short t = n->getNodeType();
        std::string s = "D\t" + wref(w, n) + "\t";
        std::map<const DOMNode*, int>::iterator hi = P.find(n);
        s += (hi == P.end() ? std::string("-") : itos(hi->second));
        s += "\t" + itos(t) + "\t" + esc(n->getNodeName()) + "\t" + esc(n->getNodeValue()) + "\t" + esc(n->getNamespaceURI()) + "\t" +
             esc(n->getPrefix()) + "\t" + esc(n->getLocalName());
        s += "\t" + wref(w, n->getParentNode()) + "\t" + wref(w, n->getFirstChild()) + "\t" + wref(w, n->getLastChild()) + "\t" +
             wref(w, n->getPreviousSibling()) + "\t" + wref(w, n->getNextSibling());
        const DOMDocument* od = n->getOwnerDocument();
        s += "\t" + (od ? ref(od) : std::string("~"));
        DOMNodeList* cl = n->getChildNodes();
        XMLSize_t len = cl ? cl->getLength() : 0;
        if (len > 100000) len = 100000;
        s += "\t" + itos((long long)len) + ":";
        for (XMLSize_t i = 0; i < len; i++) { if (i) s += ","; s += wref(w, cl->item(i)); }
        s += "\t";
        if (t == DOMNode::ELEMENT_NODE) {
            std::vector<const DOMNode*> at = sortedAttrs(n);
            s += "A" + itos((long long)at.size()) + ":";
            for (size_t i = 0; i < at.size(); i++) { if (i) s += ","; s += wref(w, at[i]); }
        } else if (t == DOMNode::ATTRIBUTE_NODE) {
            const DOMAttr* a = static_cast<const DOMAttr*>(n);
            s += "E" + wref(w, a->getOwnerElement()) + ",S" + (a->getSpecified() ? "1" : "0") + ",I" + (a->isId() ? "1" : "0");
        } else if (t == DOMNode::DOCUMENT_NODE) {
            const DOMDocument* d = static_cast<const DOMDocument*>(n);
            s += "DE" + wref(w, d->getDocumentElement()) + ",DT" + wref(w, d->getDoctype());
        } else s += "-";
        return s;
    }
    // ancestor walk of one live handle with a step budget
    void checkHandle(int h, const Walk& w) {
        const DOMNode* n = H[h];
        const DOMNode* a = n; unsigned long steps = 0;
        for (;;) {
            const DOMNode* p = a->getParentNode();
            if (!p && a->getNodeType() == DOMNode::ATTRIBUTE_NODE) p = static_cast<const DOMAttr*>(a)->getOwnerElement();
            if (!p) break;
            if (p == n) { fail("own-ancestor", n); return; }
            if (++steps > 100000 || !step()) { fail("ancestor-cycle", n); return; }
            a = p;
        }
        if (!w.wi.count(n)) fail("unreachable", n);
    }
    void dumpAndCheck(bool wantLines) {
        budget = 4000000UL; invFail.clear(); dumpLines.clear();
        Walk w;
        std::vector<const DOMNode*> roots;
        for (size_t h = 0; h < H.size(); h++) {
            const DOMNode* n = H[h];
            if (!n) continue;
            if (n->getParentNode()) continue;
            if (n->getNodeType() == DOMNode::ATTRIBUTE_NODE && static_cast<const DOMAttr*>(n)->getOwnerElement()) continue;
            roots.push_back(n);
        }
        std::vector<std::pair<size_t, size_t> > spans;
        for (size_t r = 0; r < roots.size(); r++) {
            size_t b = w.order.size();
            collect(roots[r], w);
            spans.push_back(std::make_pair(b, w.order.size()));
        }
        for (size_t r = 0; r < roots.size(); r++) {
            const DOMDocument* rd = roots[r]->getNodeType() == DOMNode::DOCUMENT_NODE ? static_cast<const DOMDocument*>(roots[r]) : roots[r]->getOwnerDocument();
            for (size_t i = spans[r].first; i < spans[r].second; i++) checkNode(w.order[i], w, rd);
        }
        for (size_t h = 0; h < H.size(); h++) if (H[h]) checkHandle((int)h, w);
        for (size_t i = 0; i < w.order.size(); i++) dumpLines.push_back(line(w.order[i], w));
        (void)wantLines;
    }

    // ---------------------------------------------------------------- one operation
    // returns the textual result; exceptions propagate to run()
    std::string exec(const std::string& op, int want, const std::vector<std::string>& a);
    std::string execView(const std::string& op, int want, const std::vector<std::string>& a, bool& handled);

    void run(const Case& c) {
        chkEvery = c.geti("chk", 1); dumpEvery = c.geti("dump", 0); quietN = c.geti("quiet", 0);
        if (chkEvery < 1) chkEvery = 1;
        crcInit();
        std::vector<std::string> lines;
        for (size_t s = 0; s < c.steps.size(); s++) {
            const std::string& p = c.steps[s].payload; size_t b = 0;
            while (b <= p.size()) {
                size_t e = p.find('\n', b); if (e == std::string::npos) e = p.size();
                if (e > b) lines.push_back(p.substr(b, e - b));
                b = e + 1;
            }
        }
        for (size_t li = 0; li < lines.size(); li++) {
            std::vector<std::string> tk = splitSp(lines[li]);
            if (tk.empty()) continue;
            std::string op = tk[0]; int want = -1;
            size_t eq = op.find('=');
            if (eq != std::string::npos) { want = atoi(op.c_str() + eq + 2); op = op.substr(0, eq); }
            std::vector<std::string> args(tk.begin() + 1, tk.end());
            // trailing "!n<k>" tokens: handles that die when the operation succeeds (nodes the library releases)
            std::vector<int> dies;
            while (!args.empty() && args.back().size() > 2 && args.back()[0] == '!') { dies.push_back(atoi(args.back().c_str() + 2)); args.pop_back(); }
            if (op == "kill") { for (size_t i = 0; i < args.size(); i++) kill(hnum(args[i])); continue; }
            if (op == "#") continue;
            ud.clear();
            std::string outcome = "ok", res = "-";
            try { res = exec(op, want, args); }
            catch (const std::string& e) { outcome = "harness:" + e; }
            catch (const OutOfMemoryException&) { outcome = "oom"; }
            catch (const DOMRangeException& e) { outcome = "range:" + itos(e.code); }
            catch (const DOMLSException& e) { outcome = "ls:" + itos(e.code); }
            catch (const DOMXPathException& e) { outcome = "xpath:" + itos(e.code); }
            catch (const DOMException& e) { outcome = "dom:" + itos(e.code); }
            catch (const XMLException& e) { outcome = "xml:" + u8(e.getType()); }
            catch (const std::exception& e) { outcome = "foreign:" + demangle(typeid(e).name()); }
            catch (...) { std::type_info* t = abi::__cxa_current_exception_type(); outcome = "foreign:" + (t ? demangle(t->name()) : std::string("?")); }
            if (outcome == "ok") for (size_t i = 0; i < dies.size(); i++) kill(dies[i]);
            bool last = (li + 1 == lines.size());
            // set-up operations of enumerated scripts: nothing is logged while they succeed
            if (opIndex < quietN && outcome == "ok" && !last) { opIndex++; continue; }
            for (size_t i = 0; i < ud.size(); i++) gOut.line("U\t" + itos(opIndex) + "\t" + ud[i]);
            bool doChk = last || ((opIndex + 1) % chkEvery == 0);
            bool doDump = (dumpEvery > 0 && ((opIndex + 1) % dumpEvery == 0)) || (last && dumpEvery >= 0);
            std::string inv = "-", hs = "-", nl = "-";
            if (doChk || doDump) {
                try { dumpAndCheck(doDump); inv = invFail.empty() ? "ok" : "FAIL:" + invFail; }
                catch (const DOMException& e) { inv = "FAIL:dump-threw-dom:" + itos(e.code); }
                catch (...) { inv = "FAIL:dump-threw"; }
                uint32_t crc = 0;
                for (size_t i = 0; i < dumpLines.size(); i++) { crc = crcUpd(crc, dumpLines[i]); crc = crcUpd(crc, "\n"); }
                hs = itos(crc); nl = itos((long long)dumpLines.size());
            }
            gOut.line("O\t" + itos(opIndex) + "\t" + outcome + "\t" + res + "\t" + inv + "\t" + hs + "\t" + nl);
            if (doDump) for (size_t i = 0; i < dumpLines.size(); i++) gOut.line(dumpLines[i]);
            opIndex++;
        }
    }

    void cleanup() {
        // views first (they are owned by their documents; release() only detaches), then documents
        for (size_t i = 0; i < V.size(); i++) {
            View& v = V[i];
            if (!v.kind) continue;
            bool docAlive = v.doc >= 0 && !docReleased.count(v.doc);
            try {
                if (docAlive) {
                    if (v.kind == 'I' && v.it) v.it->release();
                    if (v.kind == 'W' && v.tw) v.tw->release();
                    if (v.kind == 'R' && v.rg) v.rg->release();
                }
            } catch (...) {}
            v.kind = 0;
        }
        for (size_t i = 0; i < docs.size(); i++) {
            int h = docs[i];
            if (docReleased.count(h)) continue;
            DOMNode* d = (size_t)h < H.size() ? H[h] : 0;
            // the document pointer is kept separately: the handle may have been killed by the script
            (void)d;
        }
        for (size_t i = 0; i < docPtrs.size(); i++) {
            if (docPtrs[i].second) continue;
            try { docPtrs[i].first->release(); } catch (...) { gOut.line("X\tdocument-release-threw"); }
        }
        for (size_t i = 0; i < filters.size(); i++) delete filters[i];
        filters.clear();
    }
    std::vector<std::pair<DOMDocument*, bool> > docPtrs;   // (document, already released by the script)
    void noteDocReleased(DOMNode* d) {
        for (size_t i = 0; i < docPtrs.size(); i++) if (docPtrs[i].first == d) docPtrs[i].second = true;
    }
    int docHandleOf(const DOMNode* n) {
        const DOMNode* d = n->getNodeType() == DOMNode::DOCUMENT_NODE ? n : n->getOwnerDocument();
        std::map<const DOMNode*, int>::iterator i = P.find(d);
        return i == P.end() ? -1 : i->second;
    }
};

void UDHandler::handle(DOMOperationType operation, const XMLCh* const key, void* data, const DOMNode* src, DOMNode* dst) {
    I->ud.push_back(itos((long long)operation) + "\t" + esc(key) + "\t" + itos((long long)(intptr_t)data) + "\t" + I->ref(src) + "\t" + I->ref(dst));
}

static std::string b2s(bool b) { return b ? "true" : "false"; }

std::string Interp::exec(const std::string& op, int want, const std::vector<std::string>& a) {
    #define NEED(k) if (a.size() < (k)) throw std::string("ARGS:" + op)
    // ---- documents
    if (op == "newdoc") {           // newdoc=h ns qname doctype(0/1)
        NEED(3);
        S ns = str(a[0]), qn = str(a[1]);
        DOMImplementation* impl = DOMImplementation::getImplementation();
        DOMDocument* d;
        if (qn.isNull && ns.isNull && a[2] == "0") d = impl->createDocument();
        else {
            DOMDocumentType* dt = 0;
            if (a[2] == "1") dt = impl->createDocumentType(qn.isNull ? (const XMLCh*)u"dt" : qn.p(), 0, 0);
            try { d = impl->createDocument(ns.p(), qn.p(), dt); }
            catch (...) { if (dt) dt->release(); throw; }
        }
        docPtrs.push_back(std::make_pair(d, false));
        bind(want, d);
        return "new:n" + itos(want);
    }
    if (op == "bind") {             // bind=h base c <i> | a <name> | ans <ns> <local> | de | dt
        NEED(2);
        DOMNode* b = node(a[0]); DOMNode* r = 0;
        if (a[1] == "c") { NEED(3); r = b->getChildNodes()->item(num(a[2])); }
        else if (a[1] == "a") { NEED(3); r = b->getAttributes() ? b->getAttributes()->getNamedItem(str(a[2]).p()) : 0; }
        else if (a[1] == "ans") { NEED(4); r = b->getAttributes() ? b->getAttributes()->getNamedItemNS(str(a[2]).p(), str(a[3]).p()) : 0; }
        else if (a[1] == "de") r = static_cast<DOMDocument*>(b)->getDocumentElement();
        else if (a[1] == "dt") r = static_cast<DOMDocument*>(b)->getDoctype();
        else if (a[1] == "fc") r = b->getFirstChild();
        else throw std::string("ARGS:bind");
        return result(r, want);
    }
    // ---- factories
    if (op == "cE") { NEED(2); return result(docOf(a[0])->createElement(str(a[1]).p()), want); }
    if (op == "cENS") { NEED(3); return result(docOf(a[0])->createElementNS(str(a[1]).p(), str(a[2]).p()), want); }
    if (op == "cT") { NEED(2); return result(docOf(a[0])->createTextNode(str(a[1]).p()), want); }
    if (op == "cC") { NEED(2); return result(docOf(a[0])->createComment(str(a[1]).p()), want); }
    if (op == "cCD") { NEED(2); return result(docOf(a[0])->createCDATASection(str(a[1]).p()), want); }
    if (op == "cPI") { NEED(3); return result(docOf(a[0])->createProcessingInstruction(str(a[1]).p(), str(a[2]).p()), want); }
    if (op == "cA") { NEED(2); return result(docOf(a[0])->createAttribute(str(a[1]).p()), want); }
    if (op == "cANS") { NEED(3); return result(docOf(a[0])->createAttributeNS(str(a[1]).p(), str(a[2]).p()), want); }
    if (op == "cDF") { NEED(1); return result(docOf(a[0])->createDocumentFragment(), want); }
    if (op == "cER") { NEED(2); return result(docOf(a[0])->createEntityReference(str(a[1]).p()), want); }
    // ---- tree surgery
    if (op == "ins") { NEED(3); return result(node(a[0])->insertBefore(node(a[1]), node(a[2])), -1); }
    if (op == "app") { NEED(2); return result(node(a[0])->appendChild(node(a[1])), -1); }
    if (op == "rem") { NEED(2); return result(node(a[0])->removeChild(node(a[1])), -1); }
    if (op == "rep") { NEED(3); return result(node(a[0])->replaceChild(node(a[1]), node(a[2])), -1); }
    if (op == "clone") { NEED(2); return result(node(a[0])->cloneNode(a[1] == "1"), want); }
    if (op == "import") { NEED(3); return result(docOf(a[0])->importNode(node(a[1]), a[2] == "1"), want); }
    if (op == "adopt") { NEED(2); return result(docOf(a[0])->adoptNode(node(a[1])), -1); }
    if (op == "rename") { NEED(4); return result(docOf(a[0])->renameNode(node(a[1]), str(a[2]).p(), str(a[3]).p()), want); }
    if (op == "normalize") { NEED(1); node(a[0])->normalize(); return "-"; }
    if (op == "setPrefix") { NEED(2); node(a[0])->setPrefix(str(a[1]).p()); return "-"; }
    // ---- attributes
    if (op == "setAttr") { NEED(3); elem(a[0])->setAttribute(str(a[1]).p(), str(a[2]).p()); return "-"; }
    if (op == "getAttr") { NEED(2); return "s:" + esc(elem(a[0])->getAttribute(str(a[1]).p())); }
    if (op == "hasAttr") { NEED(2); return b2s(elem(a[0])->hasAttribute(str(a[1]).p())); }
    if (op == "remAttr") { NEED(2); elem(a[0])->removeAttribute(str(a[1]).p()); return "-"; }
    if (op == "setAttrNS") { NEED(4); elem(a[0])->setAttributeNS(str(a[1]).p(), str(a[2]).p(), str(a[3]).p()); return "-"; }
    if (op == "getAttrNS") { NEED(3); return "s:" + esc(elem(a[0])->getAttributeNS(str(a[1]).p(), str(a[2]).p())); }
    if (op == "hasAttrNS") { NEED(3); return b2s(elem(a[0])->hasAttributeNS(str(a[1]).p(), str(a[2]).p())); }
    if (op == "remAttrNS") { NEED(3); elem(a[0])->removeAttributeNS(str(a[1]).p(), str(a[2]).p()); return "-"; }
    if (op == "getAttrNode") { NEED(2); return result(elem(a[0])->getAttributeNode(str(a[1]).p()), want); }
    if (op == "getAttrNodeNS") { NEED(3); return result(elem(a[0])->getAttributeNodeNS(str(a[1]).p(), str(a[2]).p()), want); }
    if (op == "setAttrNode") { NEED(2); return result(elem(a[0])->setAttributeNode(attr(a[1])), want); }
    if (op == "setAttrNodeNS") { NEED(2); return result(elem(a[0])->setAttributeNodeNS(attr(a[1])), want); }
    if (op == "remAttrNode") { NEED(2); return result(elem(a[0])->removeAttributeNode(attr(a[1])), -1); }
    if (op == "setId") { NEED(3); elem(a[0])->setIdAttribute(str(a[1]).p(), a[2] == "1"); return "-"; }
    if (op == "setIdNS") { NEED(4); elem(a[0])->setIdAttributeNS(str(a[1]).p(), str(a[2]).p(), a[3] == "1"); return "-"; }
    if (op == "setIdNode") { NEED(3); elem(a[0])->setIdAttributeNode(attr(a[1]), a[2] == "1"); return "-"; }
    if (op == "getById") { NEED(2); return result(docOf(a[0])->getElementById(str(a[1]).p()), -1); }
    // ---- character data
    if (op == "appendData") { NEED(2); cdat(a[0])->appendData(str(a[1]).p()); return "-"; }
    if (op == "insertData") { NEED(3); cdat(a[0])->insertData(num(a[1]), str(a[2]).p()); return "-"; }
    if (op == "deleteData") { NEED(3); cdat(a[0])->deleteData(num(a[1]), num(a[2])); return "-"; }
    if (op == "replaceData") { NEED(4); cdat(a[0])->replaceData(num(a[1]), num(a[2]), str(a[3]).p()); return "-"; }
    if (op == "substringData") { NEED(3); return "s:" + esc(cdat(a[0])->substringData(num(a[1]), num(a[2]))); }
    if (op == "setData") { NEED(2); cdat(a[0])->setData(str(a[1]).p()); return "-"; }
    if (op == "getLength") { NEED(1); return "i:" + itos((long long)cdat(a[0])->getLength()); }
    if (op == "setPIData") { NEED(2); DOMNode* n = node(a[0]); if (n->getNodeType() != DOMNode::PROCESSING_INSTRUCTION_NODE) throw std::string("NOTPI"); static_cast<DOMProcessingInstruction*>(n)->setData(str(a[1]).p()); return "-"; }
    if (op == "splitText") { NEED(2); return result(text(a[0])->splitText(num(a[1])), want); }
    if (op == "replaceWholeText") { NEED(2); return result(text(a[0])->replaceWholeText(str(a[1]).p()), want); }
    if (op == "wholeText") { NEED(1); return "s:" + esc(text(a[0])->getWholeText()); }
    if (op == "setValue") { NEED(2); node(a[0])->setNodeValue(str(a[1]).p()); return "-"; }
    if (op == "setTC") { NEED(2); node(a[0])->setTextContent(str(a[1]).p()); return "-"; }
    if (op == "getTC") { NEED(1); return "s:" + esc(node(a[0])->getTextContent()); }
    // ---- user data
    if (op == "setUD") {            // setUD n key value(0 = remove) handler(0/1)
        NEED(4);
        void* old = node(a[0])->setUserData(str(a[1]).p(), (void*)(intptr_t)num(a[2]), a[3] == "1" ? &udh : 0);
        return "i:" + itos((long long)(intptr_t)old);
    }
    if (op == "getUD") { NEED(2); return "i:" + itos((long long)(intptr_t)node(a[0])->getUserData(str(a[1]).p())); }
    // ---- queries
    if (op == "eq") { NEED(2); return b2s(node(a[0])->isEqualNode(node(a[1]))); }
    if (op == "same") { NEED(2); return b2s(node(a[0])->isSameNode(node(a[1]))); }
    if (op == "cmp") { NEED(2); return "i:" + itos(node(a[0])->compareDocumentPosition(node(a[1]))); }
    // ---- release
    if (op == "release") {
        NEED(1);
        DOMNode* n = node(a[0]);
        bool isDoc = n->getNodeType() == DOMNode::DOCUMENT_NODE;
        int h = hnum(a[0]);
        // handles that die with the node (doc/program-dom.xml: a released node takes its children along, a released document
        // everything it owns).  Collected BEFORE the call, through public getters, dropped only when the call succeeds.
        std::vector<int> dying;
        if (isDoc) {
            for (size_t k = 0; k < H.size(); k++) if (H[k] && (H[k] == n || H[k]->getOwnerDocument() == n)) dying.push_back((int)k);
        } else if (!n->getParentNode() && !(n->getNodeType() == DOMNode::ATTRIBUTE_NODE && static_cast<DOMAttr*>(n)->getOwnerElement())) {
            std::vector<const DOMNode*> st; st.push_back(n); unsigned long guard = 0;
            while (!st.empty() && ++guard < 1000000UL) {
                const DOMNode* x = st.back(); st.pop_back();
                std::map<const DOMNode*, int>::iterator pi = P.find(x);
                if (pi != P.end()) dying.push_back(pi->second);
                DOMNamedNodeMap* m = x->getNodeType() == DOMNode::ELEMENT_NODE ? x->getAttributes() : 0;
                if (m) for (XMLSize_t i = 0; i < m->getLength() && i < 100000; i++) if (m->item(i)) st.push_back(m->item(i));
                unsigned long cnt = 0;
                for (const DOMNode* c = x->getFirstChild(); c && ++cnt < 1000000UL; c = c->getNextSibling()) st.push_back(c);
            }
        }
        n->release();
        for (size_t i = 0; i < dying.size(); i++) kill(dying[i]);
        if (isDoc) {
            noteDocReleased(n); docReleased.insert(h);
            for (size_t i = 0; i < V.size(); i++) if (V[i].kind && V[i].doc == h) V[i].kind = 0;
        }
        return "-";
    }
    bool handled = false;
    std::string r = execView(op, want, a, handled);
    if (handled) return r;
    throw std::string("BADOP:" + op);
}

// ------------------------------------------------------------------------------------ views (C14)
std::string Interp::execView(const std::string& op, int want, const std::vector<std::string>& a, bool& handled) {
    handled = true;
    #define NEEDV(k) if (a.size() < (k)) throw std::string("ARGS:" + op)
    if (op == "mkIter" || op == "mkWalker") {       // mkIter v root whatToShow filterKind expandEntityRefs
        NEEDV(5);
        DOMNode* root = node(a[1]);
        DOMDocument* d = root->getNodeType() == DOMNode::DOCUMENT_NODE ? static_cast<DOMDocument*>(root) : root->getOwnerDocument();
        int fk = atoi(a[3].c_str());
        ScriptFilter* f = 0;
        if (fk) { f = new ScriptFilter(fk); filters.push_back(f); }
        int dh = docHandleOf(root);
        if (op == "mkIter") {
            DOMNodeIterator* it = d->createNodeIterator(root, (DOMNodeFilter::ShowType)num(a[2]), f, a[4] == "1");
            View& v = newView(a[0]); v.kind = 'I'; v.it = it; v.flt = f; v.doc = dh;
        } else {
            DOMTreeWalker* tw = d->createTreeWalker(root, (DOMNodeFilter::ShowType)num(a[2]), f, a[4] == "1");
            View& v = newView(a[0]); v.kind = 'W'; v.tw = tw; v.flt = f; v.doc = dh;
        }
        return "-";
    }
    if (op == "it") {                               // it v next|prev|detach|root
        NEEDV(2);
        View& v = view(a[0], 'I');
        if (a[1] == "next") return ref(v.it->nextNode());
        if (a[1] == "prev") return ref(v.it->previousNode());
        if (a[1] == "root") return ref(v.it->getRoot());
        if (a[1] == "detach") { v.it->detach(); return "-"; }
        if (a[1] == "release") { v.it->release(); v.kind = 0; return "-"; }
        throw std::string("ARGS:it");
    }
    if (op == "tw") {                               // tw v parent|first|last|prevSib|nextSib|prev|next|cur|set <n>
        NEEDV(2);
        View& v = view(a[0], 'W');
        const std::string& m = a[1];
        if (m == "parent") return ref(v.tw->parentNode());
        if (m == "first") return ref(v.tw->firstChild());
        if (m == "last") return ref(v.tw->lastChild());
        if (m == "prevSib") return ref(v.tw->previousSibling());
        if (m == "nextSib") return ref(v.tw->nextSibling());
        if (m == "prev") return ref(v.tw->previousNode());
        if (m == "next") return ref(v.tw->nextNode());
        if (m == "cur") return ref(v.tw->getCurrentNode());
        if (m == "root") return ref(v.tw->getRoot());
        if (m == "set") { NEEDV(3); v.tw->setCurrentNode(node(a[2])); return "-"; }
        if (m == "release") { v.tw->release(); v.kind = 0; return "-"; }
        throw std::string("ARGS:tw");
    }
    if (op == "mkList") {                           // mkList v kind node [args]: children | tag <name> | tagNS <ns> <local>
        NEEDV(3);
        DOMNode* n = node(a[2]);
        DOMNodeList* l = 0;
        if (a[1] == "children") l = n->getChildNodes();
        else if (a[1] == "tag") {
            NEEDV(4);
            if (n->getNodeType() == DOMNode::DOCUMENT_NODE) l = static_cast<DOMDocument*>(n)->getElementsByTagName(str(a[3]).p());
            else l = elem(a[2])->getElementsByTagName(str(a[3]).p());
        } else if (a[1] == "tagNS") {
            NEEDV(5);
            if (n->getNodeType() == DOMNode::DOCUMENT_NODE) l = static_cast<DOMDocument*>(n)->getElementsByTagNameNS(str(a[3]).p(), str(a[4]).p());
            else l = elem(a[2])->getElementsByTagNameNS(str(a[3]).p(), str(a[4]).p());
        } else throw std::string("ARGS:mkList");
        View& v = newView(a[0]); v.kind = 'L'; v.nl = l; v.doc = docHandleOf(n);
        return "-";
    }
    if (op == "list") {                             // list v len | item <i> | all
        NEEDV(2);
        View& v = view(a[0], 'L');
        if (a[1] == "len") return "i:" + itos((long long)v.nl->getLength());
        if (a[1] == "item") { NEEDV(3); return ref(v.nl->item(num(a[2]))); }
        if (a[1] == "all") {
            XMLSize_t n = v.nl->getLength(); std::string s = "l:" + itos((long long)n) + ":";
            for (XMLSize_t i = 0; i < n && i < 100000; i++) { if (i) s += ","; s += ref(v.nl->item(i)); }
            return s;
        }
        if (a[1] == "drop") { v.kind = 0; return "-"; }
        throw std::string("ARGS:list");
    }
    if (op == "mkMap") {                            // mkMap v element
        NEEDV(2);
        DOMNode* n = node(a[1]);
        View& v = newView(a[0]); v.kind = 'M'; v.nm = n->getAttributes(); v.doc = docHandleOf(n);
        if (!v.nm) { v.kind = 0; return "null"; }
        return "-";
    }
    if (op == "map") {                              // map v len | names | get <name> | getNS <ns> <local>
        NEEDV(2);
        View& v = view(a[0], 'M');
        if (a[1] == "len") return "i:" + itos((long long)v.nm->getLength());
        if (a[1] == "get") { NEEDV(3); return ref(v.nm->getNamedItem(str(a[2]).p())); }
        if (a[1] == "getNS") { NEEDV(4); return ref(v.nm->getNamedItemNS(str(a[2]).p(), str(a[3]).p())); }
        if (a[1] == "names") {
            XMLSize_t n = v.nm->getLength(); std::vector<std::string> names;
            for (XMLSize_t i = 0; i < n && i < 100000; i++) { DOMNode* x = v.nm->item(i); names.push_back(x ? esc(x->getNodeName()) + "=" + esc(x->getNodeValue()) : std::string("NULL")); }
            std::sort(names.begin(), names.end());
            std::string s = "l:" + itos((long long)n) + ":";
            for (size_t i = 0; i < names.size(); i++) { if (i) s += ","; s += names[i]; }
            return s;
        }
        if (a[1] == "drop") { v.kind = 0; return "-"; }
        throw std::string("ARGS:map");
    }
    if (op == "mkRange") {                          // mkRange v doc
        NEEDV(2);
        DOMDocument* d = docOf(a[1]);
        DOMRange* r = d->createRange();
        View& v = newView(a[0]); v.kind = 'R'; v.rg = r; v.doc = hnum(a[1]);
        return "-";
    }
    if (op == "rg") {
        NEEDV(2);
        View& v = view(a[0], 'R');
        DOMRange* r = v.rg;
        const std::string& m = a[1];
        struct St { static std::string of(Interp* I, DOMRange* r) {
            return "r:" + I->ref(r->getStartContainer()) + "," + itos((long long)r->getStartOffset()) + "," + I->ref(r->getEndContainer()) + "," +
                   itos((long long)r->getEndOffset()) + "," + (r->getCollapsed() ? "1" : "0"); } };
        if (m == "get") return St::of(this, r);
        if (m == "cac") return ref(r->getCommonAncestorContainer());
        if (m == "setStart") { NEEDV(4); r->setStart(node(a[2]), num(a[3])); return St::of(this, r); }
        if (m == "setEnd") { NEEDV(4); r->setEnd(node(a[2]), num(a[3])); return St::of(this, r); }
        if (m == "setStartBefore") { NEEDV(3); r->setStartBefore(node(a[2])); return St::of(this, r); }
        if (m == "setStartAfter") { NEEDV(3); r->setStartAfter(node(a[2])); return St::of(this, r); }
        if (m == "setEndBefore") { NEEDV(3); r->setEndBefore(node(a[2])); return St::of(this, r); }
        if (m == "setEndAfter") { NEEDV(3); r->setEndAfter(node(a[2])); return St::of(this, r); }
        if (m == "collapse") { NEEDV(3); r->collapse(a[2] == "1"); return St::of(this, r); }
        if (m == "selectNode") { NEEDV(3); r->selectNode(node(a[2])); return St::of(this, r); }
        if (m == "selectNodeContents") { NEEDV(3); r->selectNodeContents(node(a[2])); return St::of(this, r); }
        if (m == "cmp") { NEEDV(4); View& o = view(a[3], 'R'); return "i:" + itos(r->compareBoundaryPoints((DOMRange::CompareHow)num(a[2]), o.rg)); }
        if (m == "delete") { r->deleteContents(); return St::of(this, r); }
        if (m == "toString") { return "s:" + esc(r->toString()); }
        if (m == "detach") { r->detach(); return "-"; }
        if (m == "release") { r->release(); v.kind = 0; return "-"; }
        if (m == "insertNode") { NEEDV(3); r->insertNode(node(a[2])); return St::of(this, r); }
        if (m == "surround") { NEEDV(3); r->surroundContents(node(a[2])); return St::of(this, r); }
        if (m == "extract" || m == "cloneContents" || m == "cloneRange") {
            if (m == "extract") return result(r->extractContents(), want);
            if (m == "cloneContents") return result(r->cloneContents(), want);
            NEEDV(3);
            DOMRange* c = r->cloneRange();
            int vdoc = v.doc;                       // (newView may reallocate the table: v is dead afterwards)
            View& nv = newView(a[2]); nv.kind = 'R'; nv.rg = c; nv.doc = vdoc;
            return "-";
        }
        throw std::string("ARGS:rg");
    }
    handled = false;
    return "";
}

static void cmdDomScript(const Case& c) {
    Interp* I = new Interp();
    try { I->run(c); }
    catch (const std::string& e) { gOut.line("X\tharness:" + e); }
    catch (...) { gOut.line("X\tescaped"); }
    try { I->cleanup(); } catch (...) { gOut.line("X\tcleanup-threw"); }
    delete I;
}

static CmdReg regDomScript("domscript", cmdDomScript);

}  // namespace
}  // namespace xv
