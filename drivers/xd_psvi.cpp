// psvi command: schema-validating parse that additionally logs the post-schema-validation infoset.
//   api=sax2 : SAX2XMLReaderImpl + ContentHandler + PSVIHandler  (PE / PA lines: type definition, validity, defaults)
//   api=dom  : XercesDOMParser with setCreateSchemaInfo(true), dumped through dumpDOM(typeinfo) (TI= fields)
// Line formats of the event stream / ERR / EH / R lines equal those of the parse command (xd_parse.cpp), so that
// parsecmp.parse_record reads both.  Schemas are served from the case's ENT list (relative ids joined against the base).
#include "xd_dump.hpp"
#include <algorithm>
#include <xercesc/util/PlatformUtils.hpp>
#include <xercesc/util/XMLUni.hpp>
#include <xercesc/util/OutOfMemoryException.hpp>
#include <xercesc/util/XMLEntityResolver.hpp>
#include <xercesc/util/XMLResourceIdentifier.hpp>
#include <xercesc/sax/SAXParseException.hpp>
#include <xercesc/sax/SAXException.hpp>
#include <xercesc/sax/ErrorHandler.hpp>
#include <xercesc/sax2/ContentHandler.hpp>
#include <xercesc/sax2/Attributes.hpp>
#include <xercesc/parsers/SAX2XMLReaderImpl.hpp>
#include <xercesc/parsers/XercesDOMParser.hpp>
#include <xercesc/framework/MemBufInputSource.hpp>
#include <xercesc/framework/psvi/PSVIHandler.hpp>
#include <xercesc/framework/psvi/PSVIElement.hpp>
#include <xercesc/framework/psvi/PSVIAttribute.hpp>
#include <xercesc/framework/psvi/PSVIAttributeList.hpp>
#include <xercesc/framework/psvi/XSTypeDefinition.hpp>
#include <xercesc/framework/psvi/XSElementDeclaration.hpp>
#include <xercesc/framework/psvi/XSAttributeDeclaration.hpp>
#include <xercesc/dom/DOM.hpp>

using namespace xercesc;

namespace xv {
namespace {

std::string typeStr(XSTypeDefinition* t) {
    if (!t) return "~";
    return esc(t->getNamespace()) + "|" + esc(t->getName()) + "|" + (t->getAnonymous() ? "1" : "0") + "|" +
           (t->getTypeCategory() == XSTypeDefinition::COMPLEX_TYPE ? "C" : "S");
}

class PRec : public ContentHandler, public ErrorHandler, public PSVIHandler, public XMLEntityResolver {
public:
    Dump d; const Case* cs; unsigned long nW, nE, nF; bool psviLines;
    PRec() : cs(0), nW(0), nE(0), nF(0), psviLines(true) {}
    // ContentHandler
    void characters(const XMLCh* const c, const XMLSize_t n) { d.chars(c, n); }
    void endDocument() { d.ev("ED"); }
    void endElement(const XMLCh* const uri, const XMLCh* const ln, const XMLCh* const qn) { d.ev("EE\t" + esc(uri) + "\t" + esc(ln) + "\t" + esc(qn)); }
    void ignorableWhitespace(const XMLCh* const c, const XMLSize_t n) { d.iws(c, n); }
    void processingInstruction(const XMLCh* const t, const XMLCh* const data) { d.ev("PI\t" + esc(t) + "\t" + esc(data)); }
    void setDocumentLocator(const Locator* const) {}
    void startDocument() { d.ev("SD"); }
    void startElement(const XMLCh* const uri, const XMLCh* const ln, const XMLCh* const qn, const Attributes& a) {
        d.ev("SE\t" + esc(uri) + "\t" + esc(ln) + "\t" + esc(qn));
        std::vector<std::pair<std::string, std::string> > al;
        for (XMLSize_t i = 0; i < a.getLength(); i++)
            al.push_back(std::make_pair(esc(a.getQName(i)), "AT\t" + esc(a.getURI(i)) + "\t" + esc(a.getLocalName(i)) + "\t" + esc(a.getQName(i)) + "\t" + esc(a.getType(i)) + "\t~\t" + esc(a.getValue(i))));
        std::sort(al.begin(), al.end());
        for (size_t i = 0; i < al.size(); i++) d.ev(al[i].second);
        d.ev("SEX");
    }
    void startPrefixMapping(const XMLCh* const, const XMLCh* const) {}
    void endPrefixMapping(const XMLCh* const) {}
    void skippedEntity(const XMLCh* const n) { d.ev("SKE\t" + esc(n)); }
    // ErrorHandler
    void rep(const char* sev, const SAXParseException& e) {
        d.side(std::string("EH\t") + sev + "\t" + itos((long long)e.getLineNumber()) + "\t" + itos((long long)e.getColumnNumber()) + "\t" + esc(e.getSystemId()));
    }
    void warning(const SAXParseException& e) { nW++; rep("W", e); }
    void error(const SAXParseException& e) { nE++; rep("E", e); }
    void fatalError(const SAXParseException& e) { nF++; rep("F", e); }
    void resetErrors() {}
    // PSVIHandler
    void handleElementPSVI(const XMLCh* const ln, const XMLCh* const uri, PSVIElement* e) {
        if (!psviLines) return;
        XSElementDeclaration* ed = e->getElementDeclaration();
        d.ev("PE\t" + esc(uri) + "\t" + esc(ln) + "\t" + typeStr(e->getTypeDefinition()) + "\t" + itos(e->getValidity()) + "\t" + itos(e->getValidationAttempted()) +
             "\t" + (e->getIsSchemaSpecified() ? "1" : "0") + "\t" + esc(e->getSchemaNormalizedValue()) + "\t" + esc(e->getSchemaDefault()) +
             "\t" + (ed ? esc(ed->getNamespace()) + "|" + esc(ed->getName()) : std::string("~")));
    }
    void handlePartialElementPSVI(const XMLCh* const, const XMLCh* const, PSVIElement*) {}
    void handleAttributesPSVI(const XMLCh* const ln, const XMLCh* const uri, PSVIAttributeList* al) {
        if (!psviLines) return;
        std::vector<std::string> v;
        for (XMLSize_t i = 0; al && i < al->getLength(); i++) {
            PSVIAttribute* a = al->getAttributePSVIAtIndex(i);
            XSAttributeDeclaration* ad = a ? a->getAttributeDeclaration() : 0;
            v.push_back("PA\t" + esc(al->getAttributeNamespaceAtIndex(i)) + "\t" + esc(al->getAttributeNameAtIndex(i)) + "\t" + (a ? typeStr(a->getTypeDefinition()) : std::string("~")) +
                        "\t" + (a ? itos(a->getValidity()) : std::string("~")) + "\t" + (a ? itos(a->getValidationAttempted()) : std::string("~")) +
                        "\t" + (a && a->getIsSchemaSpecified() ? "1" : "0") + "\t" + (a ? esc(a->getSchemaNormalizedValue()) : std::string("~")) + "\t" + (a ? esc(a->getSchemaDefault()) : std::string("~")) +
                        "\t" + (ad ? esc(ad->getNamespace()) + "|" + esc(ad->getName()) : std::string("~")));
        }
        std::sort(v.begin(), v.end());
        d.ev("PAS\t" + esc(uri) + "\t" + esc(ln) + "\t" + itos((long long)v.size()));
        for (size_t i = 0; i < v.size(); i++) d.ev(v[i]);
    }
    // resolver (monitor-side join: only the simple relative forms used by the workloads)
    static std::string join(const std::string& base, const std::string& rel) {
        if (rel.empty()) return base;
        if (rel[0] == '/' || rel.find("://") != std::string::npos || rel.compare(0, 5, "file:") == 0) return rel;
        size_t cut = base.rfind('/');
        std::string p = (cut == std::string::npos ? std::string() : base.substr(0, cut + 1)) + rel;
        // remove "./" and "x/../" segments
        for (;;) { size_t q = p.find("/./"); if (q == std::string::npos) break; p.erase(q, 2); }
        for (;;) {
            size_t q = p.find("/../"); if (q == std::string::npos || q == 0) break;
            size_t a = p.rfind('/', q - 1); if (a == std::string::npos) break;
            p.erase(a, q + 3 - a);
        }
        return p;
    }
    InputSource* serve(const std::string& k) {
        for (size_t i = 0; cs && i < cs->ents.size(); i++) if (cs->ents[i].first == k) {
            xstr sys = u16(k);
            d.side("SRV\t" + escx(sys));
            return new MemBufInputSource((const XMLByte*)cs->ents[i].second.data(), cs->ents[i].second.size(), sys.c_str(), false);
        }
        return 0;
    }
    InputSource* resolveEntity(XMLResourceIdentifier* ri) {
        d.side("RES\tx" + itos(ri->getResourceIdentifierType()) + "\t" + esc(ri->getPublicId()) + "\t" + esc(ri->getSystemId()) + "\t" + esc(ri->getBaseURI()) + "\t" + esc(ri->getNameSpace()) + "\t" + esc(ri->getSchemaLocation()));
        const XMLCh* sys = ri->getSystemId();
        if (ri->getResourceIdentifierType() != XMLResourceIdentifier::ExternalEntity && ri->getSchemaLocation()) sys = ri->getSchemaLocation();
        if (!sys) return 0;
        InputSource* s = serve(u8(sys));
        if (s) return s;
        std::string base = ri->getBaseURI() ? u8(ri->getBaseURI()) : std::string("file:///xv/doc.xml");
        s = serve(join(base, u8(sys)));
        if (s) return s;
        static const XMLByte z[1] = { 0 };
        return new MemBufInputSource(z, 0, sys, false);   // never touch the file system or the network
    }
};

std::string errLine(unsigned int code, const XMLCh* dom, XMLErrorReporter::ErrTypes t, const XMLCh* sys, XMLFileLoc l, XMLFileLoc c) {
    const char* sev = t == XMLErrorReporter::ErrType_Warning ? "W" : t == XMLErrorReporter::ErrType_Error ? "E" : "F";
    std::string ds = u8(dom); size_t p = ds.rfind('/'); if (p != std::string::npos) ds = ds.substr(p + 1);
    return std::string("ERR\t") + sev + "\t" + ds + "\t" + itos(code) + "\t" + itos((long long)l) + "\t" + itos((long long)c) + "\t" + esc(sys);
}
#define XVP_ERROR_OVERRIDE(BASE) \
    void error(const unsigned int code, const XMLCh* const dom, const XMLErrorReporter::ErrTypes t, const XMLCh* const txt, \
               const XMLCh* const sys, const XMLCh* const pub, const XMLFileLoc l, const XMLFileLoc c) { \
        if (rec) rec->d.side(errLine(code, dom, t, sys, l, c)); \
        BASE::error(code, dom, t, txt, sys, pub, l, c); }
struct PSax2 : public SAX2XMLReaderImpl { PRec* rec; PSax2() : SAX2XMLReaderImpl(), rec(0) {} XVP_ERROR_OVERRIDE(SAX2XMLReaderImpl) };
struct PDom : public XercesDOMParser { PRec* rec; PDom() : XercesDOMParser(), rec(0) {} XVP_ERROR_OVERRIDE(XercesDOMParser) };

bool ob(const std::map<std::string, std::string>& m, const char* k, bool d) {
    std::map<std::string, std::string>::const_iterator i = m.find(k); if (i == m.end()) return d; return i->second != "0";
}
std::string os(const std::map<std::string, std::string>& m, const char* k, const char* d) {
    std::map<std::string, std::string>::const_iterator i = m.find(k); if (i == m.end()) return d; return i->second;
}

void cmdPsvi(const Case& c) {
    std::string api = c.get("api", "sax2");
    PRec rec; rec.cs = &c;
    PSax2* sax = 0; PDom* dom = 0;
    try {
        if (api == "dom") { dom = new PDom(); dom->rec = &rec; dom->setErrorHandler(&rec); dom->setXMLEntityResolver(&rec); }
        else { sax = new PSax2(); sax->rec = &rec; sax->setContentHandler(&rec); sax->setErrorHandler(&rec); sax->setXMLEntityResolver(&rec); sax->setPSVIHandler(&rec); }
    } catch (...) { gOut.line("EXC\tctor"); delete sax; delete dom; return; }
    for (size_t idx = 0; idx < c.steps.size(); idx++) {
        const Step& st = c.steps[idx];
        std::map<std::string, std::string> o = c.opt;
        for (std::map<std::string, std::string>::const_iterator i = st.opt.begin(); i != st.opt.end(); ++i) o[i->first] = i->second;
        rec.d = Dump(); rec.d.on = ob(o, "dump", true); rec.nW = rec.nE = rec.nF = 0; rec.psviLines = ob(o, "psvi", true);
        gOut.line("S\t" + itos((long long)idx));
        std::string status = "ok";
        const XMLCh* sc = os(o, "scanner", "IG") == "SG" ? XMLUni::fgSGXMLScanner : XMLUni::fgIGXMLScanner;
        bool full = ob(o, "full", false), ic = ob(o, "ic", true), always = os(o, "val", "always") != "never";
        xstr sysId = u16(os(o, "sysid", "file:///xv/doc.xml"));
        const DOMDocument* doc = 0;
        try {
            MemBufInputSource is((const XMLByte*)st.payload.data(), st.payload.size(), sysId.c_str(), false);
            if (sax) {
                sax->setProperty(XMLUni::fgXercesScannerName, (void*)sc);
                sax->setFeature(XMLUni::fgSAX2CoreNameSpaces, true); sax->setFeature(XMLUni::fgSAX2CoreNameSpacePrefixes, false);
                sax->setFeature(XMLUni::fgXercesSchema, true); sax->setFeature(XMLUni::fgXercesSchemaFullChecking, full);
                sax->setFeature(XMLUni::fgSAX2CoreValidation, always); sax->setFeature(XMLUni::fgXercesDynamic, false);
                sax->setFeature(XMLUni::fgXercesIdentityConstraintChecking, ic);
                sax->setFeature(XMLUni::fgXercesHandleMultipleImports, ob(o, "multiimport", false));
                sax->parse(is);
            } else {
                dom->useScanner(sc);
                dom->setDoNamespaces(true); dom->setDoSchema(true); dom->setValidationSchemaFullChecking(full);
                dom->setValidationScheme(always ? XercesDOMParser::Val_Always : XercesDOMParser::Val_Never);
                dom->setIdentityConstraintChecking(ic); dom->setCreateSchemaInfo(true);
                dom->setHandleMultipleImports(ob(o, "multiimport", false));
                dom->parse(is);
                doc = dom->getDocument();
            }
        }
        catch (const OutOfMemoryException&) { status = "exc"; rec.d.side("EXC\tOutOfMemoryException\t0"); }
        catch (const XMLException& e) { status = "exc"; rec.d.side("EXC\tXMLException:" + u8(e.getType()) + "\t" + itos(e.getCode())); }
        catch (const SAXParseException& e) { status = "exc"; rec.d.side("EXC\tSAXParseException\t" + itos((long long)e.getLineNumber())); }
        catch (const SAXException&) { status = "exc"; rec.d.side("EXC\tSAXException\t0"); }
        catch (const DOMException& e) { status = "exc"; rec.d.side("EXC\tDOMException\t" + itos(e.code)); }
        catch (...) { status = "foreign"; rec.d.side("EXC\tFOREIGN\t0"); }
        if (doc && rec.d.on) {
            try { DomDumpOpts dopt; dopt.typeinfo = true; dumpDOM(doc, rec.d, dopt); }
            catch (const DOMException& e) { rec.d.side("EXC\tDOMException-in-walk\t" + itos(e.code)); }
        }
        XMLSize_t ec = sax ? sax->getErrorCount() : dom->getErrorCount();
        rec.d.side("R\t" + status + "\t" + itos(rec.nW) + "\t" + itos(rec.nE) + "\t" + itos(rec.nF) + "\t" + itos((long long)ec));
        rec.d.emitTo(gOut, "");
    }
    delete sax; delete dom;
}
static CmdReg regPsvi("psvi", cmdPsvi);

}  // namespace
}  // namespace xv
