// parse-family command: one case = a history of parse operations on one parser object of one API.
#include "xd_dump.hpp"
#include <algorithm>
#include <stdexcept>
#include <typeinfo>
#include <thread>
#include <unordered_map>
#include <mutex>
#include <unistd.h>
#include <fcntl.h>
#include <sys/stat.h>
#include <cxxabi.h>

#include <xercesc/util/PlatformUtils.hpp>
#include <xercesc/util/XMLUni.hpp>
#include <xercesc/util/BinInputStream.hpp>
#include <xercesc/util/OutOfMemoryException.hpp>
#include <xercesc/util/SecurityManager.hpp>
#include <xercesc/util/XMLEntityResolver.hpp>
#include <xercesc/util/XMLResourceIdentifier.hpp>
#include <xercesc/util/XMLNetAccessor.hpp>
#include <xercesc/util/XMLFileMgr.hpp>
#include <xercesc/sax/InputSource.hpp>
#include <xercesc/sax/SAXParseException.hpp>
#include <xercesc/sax/SAXException.hpp>
#include <xercesc/sax/DocumentHandler.hpp>
#include <xercesc/sax/DTDHandler.hpp>
#include <xercesc/sax/ErrorHandler.hpp>
#include <xercesc/sax/EntityResolver.hpp>
#include <xercesc/sax/AttributeList.hpp>
#include <xercesc/sax/Locator.hpp>
#include <xercesc/sax2/ContentHandler.hpp>
#include <xercesc/sax2/LexicalHandler.hpp>
#include <xercesc/sax2/DeclHandler.hpp>
#include <xercesc/sax2/Attributes.hpp>
#include <xercesc/parsers/SAXParser.hpp>
#include <xercesc/parsers/SAX2XMLReaderImpl.hpp>
#include <xercesc/parsers/XercesDOMParser.hpp>
#include <xercesc/parsers/DOMLSParserImpl.hpp>
#include <xercesc/framework/MemBufInputSource.hpp>
#include <xercesc/framework/LocalFileInputSource.hpp>
#include <xercesc/framework/StdInInputSource.hpp>
#include <xercesc/framework/Wrapper4InputSource.hpp>
#include <xercesc/framework/XMLGrammarPoolImpl.hpp>
#include <xercesc/framework/MemoryManager.hpp>
#include <xercesc/dom/DOM.hpp>
#include <xercesc/dom/DOMLSParserFilter.hpp>
#include <xercesc/dom/DOMLSException.hpp>
#include <xercesc/validators/common/Grammar.hpp>
#include <xercesc/framework/XMLGrammarDescription.hpp>
#include <xercesc/util/RefHashTableOf.hpp>

using namespace xercesc;

namespace xv {

// ------------------------------------------------------------------------------------------------
//  Ledger memory manager: exact bookkeeping of what the library does with an application manager
// ------------------------------------------------------------------------------------------------
class Ledger : public MemoryManager {
public:
    std::unordered_map<void*, size_t> live;
    std::mutex mu;
    unsigned long allocs, frees, foreign, bytes;
    std::string name;
    Ledger* other;   // to classify a foreign free as "belongs to the other ledger"
    unsigned long crossed;
    Ledger(const std::string& n) : allocs(0), frees(0), foreign(0), bytes(0), name(n), other(0), crossed(0) {}
    MemoryManager* getExceptionMemoryManager() { return XMLPlatformUtils::fgMemoryManager; }
    void* allocate(XMLSize_t size) {
        void* p = ::malloc(size ? size : 1);
        if (!p) throw OutOfMemoryException();
        std::lock_guard<std::mutex> g(mu);
        live[p] = size; allocs++; bytes += size;
        return p;
    }
    void deallocate(void* p) {
        if (!p) return;
        {
            std::lock_guard<std::mutex> g(mu);
            std::unordered_map<void*, size_t>::iterator i = live.find(p);
            if (i == live.end()) {
                foreign++;
                if (other) { std::lock_guard<std::mutex> g2(other->mu); if (other->live.count(p)) crossed++; }
                return;   // do not free what we do not own: keeps the process alive so the ledger can report
            }
            live.erase(i); frees++;
        }
        ::free(p);
    }
    size_t outstanding() { std::lock_guard<std::mutex> g(mu); return live.size(); }
};

static Ledger* gGlobalLedgerMM = 0;
extern bool gGlobalLedger;
void globalLedgerInit() {
    gGlobalLedgerMM = new Ledger("global");
    XMLPlatformUtils::Initialize(XMLUni::fgXercescDefaultLocale, 0, 0, gGlobalLedgerMM);
}
void globalLedgerReport() {
    XMLPlatformUtils::Terminate();
    gOut.line("BEGIN\t__global__");
    gOut.line("GLOBAL-LEDGER\tallocs=" + itos(gGlobalLedgerMM->allocs) + "\toutstanding=" + itos((long long)gGlobalLedgerMM->outstanding()) +
              "\tforeign=" + itos(gGlobalLedgerMM->foreign));
    gOut.line("END\t__global__");
}

// ------------------------------------------------------------------------------------------------
//  Input delivery
// ------------------------------------------------------------------------------------------------
struct ChunkSpec {
    // "" => everything the caller asks for; "N" fixed size; "rSEEDmMAX" random 1..MAX; "lA,B,C,*" list then all
    int fixed; unsigned long rnd; int rmax; std::vector<long> list; bool isList; bool isRnd; long first;
    ChunkSpec() : fixed(0), rnd(0), rmax(0), isList(false), isRnd(false), first(0) {}
    static ChunkSpec parse(const std::string& s0) {
        std::string s = s0; long first = 0;
        // "fN:<spec>": the first read delivers up to N bytes, then <spec> applies
        if (!s.empty() && s[0] == 'f') { size_t c = s.find(':'); first = atol(s.c_str() + 1); s = c == std::string::npos ? "" : s.substr(c + 1); }
        ChunkSpec c = parse2(s); c.first = first; return c;
    }
    static ChunkSpec parse2(const std::string& s) {
        ChunkSpec c; if (s.empty()) return c;
        if (s[0] == 'r') { c.isRnd = true; size_t m = s.find('m'); c.rnd = strtoul(s.substr(1, m - 1).c_str(), 0, 10) * 2654435761UL + 12345; c.rmax = m == std::string::npos ? 7 : atoi(s.c_str() + m + 1); if (c.rmax < 1) c.rmax = 1; }
        else if (s[0] == 'l') { c.isList = true; size_t p = 1; while (p <= s.size()) { size_t q = s.find(',', p); std::string t = s.substr(p, q == std::string::npos ? std::string::npos : q - p); c.list.push_back(t == "*" ? -1 : atol(t.c_str())); if (q == std::string::npos) break; p = q + 1; } }
        else c.fixed = atoi(s.c_str());
        return c;
    }
};

class ChunkStream : public BinInputStream {
    std::string data; size_t pos; ChunkSpec spec; size_t idx;
public:
    ChunkStream(const std::string& d, const ChunkSpec& s) : data(d), pos(0), spec(s), idx(0) {}
    XMLFilePos curPos() const { return pos; }
    const XMLCh* getContentType() const { return 0; }
    XMLSize_t readBytes(XMLByte* const to, const XMLSize_t maxToRead) {
        size_t left = data.size() - pos; size_t want = maxToRead;
        if (spec.first > 0 && pos == 0) want = (size_t)spec.first;
        else if (spec.isRnd) { spec.rnd = spec.rnd * 6364136223846793005ULL + 1442695040888963407ULL; want = 1 + (size_t)((spec.rnd >> 33) % (unsigned long)spec.rmax); }
        else if (spec.isList) { long v = idx < spec.list.size() ? spec.list[idx] : -1; idx++; want = v <= 0 ? maxToRead : (size_t)v; }
        else if (spec.fixed > 0) want = spec.fixed;
        if (want > maxToRead) want = maxToRead;
        if (want > left) want = left;
        memcpy(to, data.data() + pos, want); pos += want;
        return want;
    }
};
class ChunkSource : public InputSource {
    std::string data; ChunkSpec spec;
public:
    ChunkSource(const std::string& d, const ChunkSpec& s, const XMLCh* sysId, MemoryManager* mm = XMLPlatformUtils::fgMemoryManager) : InputSource(sysId, mm), data(d), spec(s) {}
    BinInputStream* makeStream() const { return new (getMemoryManager()) ChunkStream(data, spec); }
};

static std::string scratchDir() {
    static std::string d;
    if (d.empty()) {
        const char* e = getenv("XV_SCRATCH");
        d = std::string(e ? e : "/var/tmp/xv-scratch") + "/p" + itos(getpid());
        std::string cmd = "mkdir -p '" + d + "'"; if (system(cmd.c_str())) {}
    }
    return d;
}

// ------------------------------------------------------------------------------------------------
//  The recorder: every handler interface, counts callbacks, can throw at the k-th
// ------------------------------------------------------------------------------------------------
struct ThrowPlan { long at; std::string kind; long count; ThrowPlan() : at(0), count(0) {} };
struct XvAppException : public std::exception { const char* what() const noexcept { return "xv-app-exception"; } };

class Rec : public DocumentHandler, public DTDHandler, public ErrorHandler, public ContentHandler, public LexicalHandler,
            public DeclHandler, public DOMErrorHandler, public EntityResolver, public XMLEntityResolver, public DOMLSResourceResolver {
public:
    Dump d; ThrowPlan tp; const Locator* loc; bool wantLoc;
    const Case* cs; ChunkSpec chunk; bool chunkEnts; std::string resMiss; MemoryManager* mm;
    unsigned long nW, nE, nF; long callbacks;
    Rec() : loc(0), wantLoc(true), cs(0), chunkEnts(false), mm(XMLPlatformUtils::fgMemoryManager), nW(0), nE(0), nF(0), callbacks(0), joining(false) {}
    void cb() {
        callbacks++;
        if (tp.at && callbacks == tp.at) {
            if (tp.kind == "std") throw std::runtime_error("xv-std");
            if (tp.kind == "app") throw XvAppException();
            if (tp.kind == "int") throw 42;
            static const XMLCh m[] = { 'x', 'v', 0 };
            throw SAXException(m);
        }
    }
    // --- SAX1 DocumentHandler
    void characters(const XMLCh* const c, const XMLSize_t n) { cb(); d.chars(c, n); }
    void endDocument() { cb(); d.ev("ED"); }
    void endElement(const XMLCh* const name) { cb(); d.ev("EE\t~\t~\t" + esc(name)); }
    void ignorableWhitespace(const XMLCh* const c, const XMLSize_t n) { cb(); d.iws(c, n); }
    void processingInstruction(const XMLCh* const t, const XMLCh* const data) { cb(); d.ev("PI\t" + esc(t) + "\t" + esc(data)); }
    void resetDocument() {}
    void setDocumentLocator(const Locator* const l) { loc = l; }
    void startDocument() { cb(); d.ev("SD"); }
    void locLine() { if (wantLoc && loc) d.ev("LOC\t" + itos((long long)loc->getLineNumber()) + "\t" + itos((long long)loc->getColumnNumber())); }
    void startElement(const XMLCh* const name, AttributeList& a) {
        cb();
        d.ev("SE\t~\t~\t" + esc(name));
        std::vector<std::pair<std::string, std::string> > al;
        for (XMLSize_t i = 0; i < a.getLength(); i++)
            al.push_back(std::make_pair(esc(a.getName(i)), "AT\t~\t~\t" + esc(a.getName(i)) + "\t" + esc(a.getType(i)) + "\t~\t" + esc(a.getValue(i))));
        std::sort(al.begin(), al.end());
        for (size_t i = 0; i < al.size(); i++) d.ev(al[i].second);
        d.ev("SEX"); locLine();
    }
    // --- DTDHandler
    void notationDecl(const XMLCh* const n, const XMLCh* const p, const XMLCh* const s) { cb(); d.ev("DN\t" + esc(n) + "\t" + esc(p) + "\t" + esc(s)); }
    void unparsedEntityDecl(const XMLCh* const n, const XMLCh* const p, const XMLCh* const s, const XMLCh* const nn) { cb(); d.ev("DE\t" + esc(n) + "\t" + esc(p) + "\t" + esc(s) + "\t" + esc(nn)); }
    void resetDocType() {}
    // --- ErrorHandler
    void rep(const char* sev, const SAXParseException& e) {
        d.side(std::string("EH\t") + sev + "\t" + itos((long long)e.getLineNumber()) + "\t" + itos((long long)e.getColumnNumber()) + "\t" + esc(e.getSystemId()));
    }
    void warning(const SAXParseException& e) { nW++; rep("W", e); cb(); }
    void error(const SAXParseException& e) { nE++; rep("E", e); cb(); }
    void fatalError(const SAXParseException& e) { nF++; rep("F", e); cb(); }
    void resetErrors() {}
    // --- DOMErrorHandler
    bool handleError(const DOMError& e) {
        const char* sev = e.getSeverity() == DOMError::DOM_SEVERITY_WARNING ? "W" : e.getSeverity() == DOMError::DOM_SEVERITY_ERROR ? "E" : "F";
        if (*sev == 'W') nW++; else if (*sev == 'E') nE++; else nF++;
        DOMLocator* l = e.getLocation();
        d.side(std::string("EH\t") + sev + "\t" + itos(l ? (long long)l->getLineNumber() : -1) + "\t" + itos(l ? (long long)l->getColumnNumber() : -1) + "\t" + esc(l ? l->getURI() : 0));
        cb();
        return true;
    }
    // --- SAX2 ContentHandler
    void endElement(const XMLCh* const uri, const XMLCh* const ln, const XMLCh* const qn) { cb(); d.ev("EE\t" + esc(uri) + "\t" + esc(ln) + "\t" + esc(qn)); }
    void startElement(const XMLCh* const uri, const XMLCh* const ln, const XMLCh* const qn, const Attributes& a) {
        cb();
        d.ev("SE\t" + esc(uri) + "\t" + esc(ln) + "\t" + esc(qn));
        std::vector<std::pair<std::string, std::string> > al;
        for (XMLSize_t i = 0; i < a.getLength(); i++)
            al.push_back(std::make_pair(esc(a.getQName(i)), "AT\t" + esc(a.getURI(i)) + "\t" + esc(a.getLocalName(i)) + "\t" + esc(a.getQName(i)) + "\t" + esc(a.getType(i)) + "\t~\t" + esc(a.getValue(i))));
        std::sort(al.begin(), al.end());
        for (size_t i = 0; i < al.size(); i++) d.ev(al[i].second);
        d.ev("SEX"); locLine();
    }
    void startPrefixMapping(const XMLCh* const p, const XMLCh* const u) { cb(); d.ev("SPM\t" + esc(p) + "\t" + esc(u)); }
    void endPrefixMapping(const XMLCh* const p) { cb(); d.ev("EPM\t" + esc(p)); }
    void skippedEntity(const XMLCh* const n) { cb(); d.ev("SKE\t" + esc(n)); }
    // --- LexicalHandler
    void comment(const XMLCh* const c, const XMLSize_t n) { cb(); d.ev("CM\t" + esc(c, n)); }
    void endCDATA() { cb(); d.ev("CD1"); }
    void endDTD() { cb(); d.ev("EDT"); }
    void endEntity(const XMLCh* const n) { cb(); d.ev("EER\t" + esc(n)); }
    void startCDATA() { cb(); d.ev("CD0"); }
    void startDTD(const XMLCh* const n, const XMLCh* const p, const XMLCh* const s) { cb(); d.ev("DT\t" + esc(n) + "\t" + esc(p) + "\t" + esc(s)); }
    void startEntity(const XMLCh* const n) { cb(); d.ev("SER\t" + esc(n)); }
    // --- DeclHandler
    void elementDecl(const XMLCh* const n, const XMLCh* const m) { cb(); d.ev("ELD\t" + esc(n) + "\t" + esc(m)); }
    void attributeDecl(const XMLCh* const e, const XMLCh* const a, const XMLCh* const t, const XMLCh* const m, const XMLCh* const v) { cb(); d.ev("ATD\t" + esc(e) + "\t" + esc(a) + "\t" + esc(t) + "\t" + esc(m) + "\t" + esc(v)); }
    void internalEntityDecl(const XMLCh* const n, const XMLCh* const v) { cb(); d.ev("IED\t" + esc(n) + "\t" + esc(v)); }
    void externalEntityDecl(const XMLCh* const n, const XMLCh* const p, const XMLCh* const s) { cb(); d.ev("XED\t" + esc(n) + "\t" + esc(p) + "\t" + esc(s)); }

    // --- resolvers
    // monitor-side reference resolution (RFC 2396 5.2 for the hierarchical cases used by the workloads): the library's own
    // URL code is under test, so the driver must not use it to decide which resource a reference designates
    static std::string joinUri(const std::string& base, const std::string& rel) {
        if (rel.empty()) return base;
        if (rel[0] == '/' || rel.find("://") != std::string::npos || rel.compare(0, 5, "file:") == 0 || rel.compare(0, 3, "xv:") == 0) return rel;
        size_t cut = base.rfind('/');
        std::string path = (cut == std::string::npos ? std::string() : base.substr(0, cut + 1)) + rel;
        // split off the scheme://authority prefix
        std::string pre; size_t s3 = path.find("://");
        if (s3 != std::string::npos) { size_t sl = path.find('/', s3 + 3); if (sl == std::string::npos) return path; pre = path.substr(0, sl); path = path.substr(sl); }
        std::vector<std::string> seg; size_t a = 0; bool lead = !path.empty() && path[0] == '/';
        while (a <= path.size()) { size_t b = path.find('/', a); std::string t = path.substr(a, b == std::string::npos ? std::string::npos : b - a);
            if (t == "..") { if (!seg.empty() && seg.back() != "..") seg.pop_back(); else if (!lead) seg.push_back(t); }
            else if (t != "." && !(t.empty() && b != std::string::npos && a != 0)) { if (!(t.empty() && a == 0)) seg.push_back(t); }
            if (b == std::string::npos) break; a = b + 1; }
        std::string out = pre + (lead ? "/" : "");
        for (size_t i = 0; i < seg.size(); i++) { if (i) out += "/"; out += seg[i]; }
        return out;
    }
    InputSource* serveJoined(const XMLCh* sys, const XMLCh* base) {
        if (!cs) return 0;
        joining = true;
        InputSource* s = serve(sys);
        joining = false;
        if (s || !sys) return s;
        xstr j = u16(joinUri(u8(base), u8(sys)));
        d.side("JOIN\t" + escx(j));
        joining = true;
        s = serve(j.c_str());
        joining = false;
        if (s) return s;
        // last resort (document delivered from a temp file or stdin has another base): same last path segment
        std::string want = u8(sys); size_t sl = want.rfind('/'); if (sl != std::string::npos) want = want.substr(sl + 1);
        for (size_t i = 0; i < cs->ents.size(); i++) {
            const std::string& k = cs->ents[i].first; size_t q = k.rfind('/');
            if ((q == std::string::npos ? k : k.substr(q + 1)) == want) { xstr kk = u16(k); return serve(kk.c_str()); }
        }
        return serve(j.c_str());
    }
    InputSource* serve(const XMLCh* sys) {
        if (!cs) return 0;
        std::string k = u8(sys);
        for (size_t i = 0; i < cs->ents.size(); i++) if (cs->ents[i].first == k) {
            d.side("SRV\t" + esc(sys));
            InputSource* s;
            if (chunkEnts) s = new (mm) ChunkSource(cs->ents[i].second, chunk, sys, mm);
            else s = new (mm) MemBufInputSource((const XMLByte*)cs->ents[i].second.data(), cs->ents[i].second.size(), sys, false, mm);
            if (!entEnc.empty()) s->setEncoding(entEnc.c_str());     // encoding forced by the application on a resolver-supplied source
            return s;
        }
        if (resMiss == "empty" && !joining) { static const XMLByte z[1] = { 0 }; return new (mm) MemBufInputSource(z, 0, sys, false, mm); }
        return 0;
    }
    bool joining;
    xstr entEnc;
    InputSource* resolveEntity(const XMLCh* const pub, const XMLCh* const sys) {
        d.side("RES\tsax\t" + esc(pub) + "\t" + esc(sys) + "\t~\t~");
        cb();
        // the SAX interface carries no base URI; schema locations arrive unexpanded: fall back to the document's own id
        xstr docBase = u16(cs ? cs->get("sysid", "file:///xv/doc.xml") : std::string("file:///xv/doc.xml"));
        return serveJoined(sys, docBase.c_str());
    }
    InputSource* resolveEntity(XMLResourceIdentifier* ri) {
        d.side("RES\tx" + itos(ri->getResourceIdentifierType()) + "\t" + esc(ri->getPublicId()) + "\t" + esc(ri->getSystemId()) + "\t" + esc(ri->getBaseURI()) + "\t" + esc(ri->getNameSpace()) + "\t" + esc(ri->getSchemaLocation()));
        cb();
        const XMLCh* sys = ri->getSystemId();
        if (ri->getResourceIdentifierType() != XMLResourceIdentifier::ExternalEntity && ri->getSchemaLocation()) sys = ri->getSchemaLocation();
        return serveJoined(sys, ri->getBaseURI());
    }
    DOMLSInput* resolveResource(const XMLCh* const type, const XMLCh* const ns, const XMLCh* const pub, const XMLCh* const sys, const XMLCh* const base) {
        d.side("RES\tls\t" + esc(pub) + "\t" + esc(sys) + "\t" + esc(base) + "\t" + esc(ns) + "\t" + esc(type));
        cb();
        InputSource* s = serve(sys);
        if (!s) return 0;
        return new (mm) Wrapper4InputSource(s, true, mm);
    }
};

// ------------------------------------------------------------------------------------------------
//  Parser subclasses: observe error codes at the XMLErrorReporter boundary, then delegate
// ------------------------------------------------------------------------------------------------
static std::string errLine(unsigned int code, const XMLCh* dom, XMLErrorReporter::ErrTypes t, const XMLCh* sys, XMLFileLoc l, XMLFileLoc c) {
    const char* sev = t == XMLErrorReporter::ErrType_Warning ? "W" : t == XMLErrorReporter::ErrType_Error ? "E" : "F";
    std::string ds = u8(dom); size_t p = ds.rfind('/'); if (p != std::string::npos) ds = ds.substr(p + 1);
    return std::string("ERR\t") + sev + "\t" + ds + "\t" + itos(code) + "\t" + itos((long long)l) + "\t" + itos((long long)c) + "\t" + esc(sys);
}
#define XV_ERROR_OVERRIDE(BASE) \
    void error(const unsigned int code, const XMLCh* const dom, const XMLErrorReporter::ErrTypes t, const XMLCh* const txt, \
               const XMLCh* const sys, const XMLCh* const pub, const XMLFileLoc l, const XMLFileLoc c) { \
        if (rec) rec->d.side(errLine(code, dom, t, sys, l, c)); \
        BASE::error(code, dom, t, txt, sys, pub, l, c); }

struct XSax1 : public SAXParser { Rec* rec; XSax1(MemoryManager* m, XMLGrammarPool* g) : SAXParser(0, m, g), rec(0) {} XV_ERROR_OVERRIDE(SAXParser) };
struct XSax2 : public SAX2XMLReaderImpl { Rec* rec; XSax2(MemoryManager* m, XMLGrammarPool* g) : SAX2XMLReaderImpl(m, g), rec(0) {} XV_ERROR_OVERRIDE(SAX2XMLReaderImpl) };
struct XDom : public XercesDOMParser { Rec* rec; XDom(MemoryManager* m, XMLGrammarPool* g) : XercesDOMParser(0, m, g), rec(0) {} XV_ERROR_OVERRIDE(XercesDOMParser) };
struct XLs : public DOMLSParserImpl { Rec* rec; XLs(MemoryManager* m, XMLGrammarPool* g) : DOMLSParserImpl(0, m, g), rec(0) {} XV_ERROR_OVERRIDE(DOMLSParserImpl) };

// LS filter: mode "pass" accepts everything; "rej:<name>" rejects elements named so; "skip:<name>" skips them
class Filter : public DOMLSParserFilter {
public:
    std::string mode; xstr name;
    FilterAction acceptNode(DOMNode* n) {
        if (mode == "rej" && n->getNodeType() == DOMNode::ELEMENT_NODE && xstr(n->getNodeName()) == name) return FILTER_REJECT;
        if (mode == "skip" && n->getNodeType() == DOMNode::ELEMENT_NODE && xstr(n->getNodeName()) == name) return FILTER_SKIP;
        if (mode == "nocomment" && n->getNodeType() == DOMNode::COMMENT_NODE) return FILTER_REJECT;
        return FILTER_ACCEPT;
    }
    FilterAction startElement(DOMElement* e) {
        if (mode == "srej" && xstr(e->getNodeName()) == name) return FILTER_REJECT;
        return FILTER_ACCEPT;
    }
    DOMNodeFilter::ShowType getWhatToShow() const { return DOMNodeFilter::SHOW_ALL; }
};

static std::string demangle(const char* n) {
    int st = 0; char* r = abi::__cxa_demangle(n, 0, 0, &st);
    std::string s = (st == 0 && r) ? r : n; free(r); return s;
}

// ------------------------------------------------------------------------------------------------
struct Session {
    std::string api;
    Ledger* led; MemoryManager* mm;
    XMLGrammarPool* pool;
    XSax1* sax1; XSax2* sax2; XDom* dom; XLs* ls;
    Rec rec; Filter filter; SecurityManager* sec;
    xstr scannerName;
    std::vector<DOMDocument*> adopted;
    Session() : led(0), mm(XMLPlatformUtils::fgMemoryManager), pool(0), sax1(0), sax2(0), dom(0), ls(0), sec(0), scannerName(XMLUni::fgIGXMLScanner) {}
};

static bool optb(const std::map<std::string, std::string>& m, const char* k, bool d) {
    std::map<std::string, std::string>::const_iterator i = m.find(k); if (i == m.end()) return d; return i->second != "0";
}
static std::string opts(const std::map<std::string, std::string>& m, const char* k, const char* d) {
    std::map<std::string, std::string>::const_iterator i = m.find(k); if (i == m.end()) return d; return i->second;
}

static const XMLCh* scannerConst(const std::string& s) {
    if (s == "WF") return XMLUni::fgWFXMLScanner;
    if (s == "DG") return XMLUni::fgDGXMLScanner;
    if (s == "SG") return XMLUni::fgSGXMLScanner;
    return XMLUni::fgIGXMLScanner;
}

static void configure(Session& S, const std::map<std::string, std::string>& o) {
    bool ns = optb(o, "ns", true), schema = optb(o, "schema", false), full = optb(o, "full", false), extdtd = optb(o, "extdtd", true);
    bool cont = optb(o, "cont", false), disdef = optb(o, "disdef", false), loadschema = optb(o, "loadschema", true);
    bool ic = optb(o, "ic", true), nspfx = optb(o, "nspfx", false), eref = optb(o, "eref", false), iws = optb(o, "iws", true);
    bool cache = optb(o, "cache", false), usecached = optb(o, "usecached", false), skipdtd = optb(o, "skipdtd", false);
    bool vcf = optb(o, "vcf", false), stduri = optb(o, "stduri", false), xinc = optb(o, "xinclude", false), calc = optb(o, "calcsrc", false);
    bool hmi = optb(o, "multiimport", false), comments = optb(o, "comments", true);
    std::string val = opts(o, "val", "never"), scanner = opts(o, "scanner", "IG");
    long seclimit = atol(opts(o, "seclimit", "-1").c_str());
    std::string esl = opts(o, "schemaloc", ""), ennsl = opts(o, "nnsschemaloc", "");
    if (seclimit >= 0) { if (!S.sec) S.sec = new SecurityManager(); S.sec->setEntityExpansionLimit((XMLSize_t)seclimit); }
    SecurityManager* sm = seclimit >= 0 ? S.sec : 0;
    const XMLCh* sc = scannerConst(scanner);
    // selecting a scanner replaces the scanner object (and with it all per-parser scanning state): do it only when
    // the requested scanner differs from the current one, otherwise every step would silently get a fresh scanner
    bool switchScanner = (S.scannerName != xstr(sc));
    S.scannerName = xstr(sc);
    xstr xesl = u16(esl), xennsl = u16(ennsl);
    if (S.sax1) {
        SAXParser* p = S.sax1;
        if (switchScanner) p->useScanner(sc);
        p->setDoNamespaces(ns); p->setDoSchema(schema); p->setValidationSchemaFullChecking(full); p->setLoadExternalDTD(extdtd);
        p->setValidationScheme(val == "always" ? SAXParser::Val_Always : val == "auto" ? SAXParser::Val_Auto : SAXParser::Val_Never);
        p->setExitOnFirstFatalError(!cont); p->setDisableDefaultEntityResolution(disdef); p->setLoadSchema(loadschema);
        p->setIdentityConstraintChecking(ic); p->cacheGrammarFromParse(cache); p->useCachedGrammarInParse(usecached); p->setSkipDTDValidation(skipdtd);
        p->setValidationConstraintFatal(vcf); p->setStandardUriConformant(stduri); p->setCalculateSrcOfs(calc); p->setHandleMultipleImports(hmi);
        p->setSecurityManager(sm);
        if (!esl.empty()) p->setExternalSchemaLocation(xesl.c_str());
        if (!ennsl.empty()) p->setExternalNoNamespaceSchemaLocation(xennsl.c_str());
    } else if (S.sax2) {
        SAX2XMLReader* p = S.sax2;
        if (switchScanner) p->setProperty(XMLUni::fgXercesScannerName, (void*)sc);
        p->setFeature(XMLUni::fgSAX2CoreNameSpaces, ns); p->setFeature(XMLUni::fgSAX2CoreNameSpacePrefixes, nspfx);
        p->setFeature(XMLUni::fgXercesSchema, schema); p->setFeature(XMLUni::fgXercesSchemaFullChecking, full);
        p->setFeature(XMLUni::fgXercesLoadExternalDTD, extdtd);
        p->setFeature(XMLUni::fgSAX2CoreValidation, val != "never"); p->setFeature(XMLUni::fgXercesDynamic, val == "auto");
        p->setFeature(XMLUni::fgXercesContinueAfterFatalError, cont); p->setFeature(XMLUni::fgXercesDisableDefaultEntityResolution, disdef);
        p->setFeature(XMLUni::fgXercesLoadSchema, loadschema); p->setFeature(XMLUni::fgXercesIdentityConstraintChecking, ic);
        p->setFeature(XMLUni::fgXercesCacheGrammarFromParse, cache); p->setFeature(XMLUni::fgXercesUseCachedGrammarInParse, usecached);
        p->setFeature(XMLUni::fgXercesSkipDTDValidation, skipdtd); p->setFeature(XMLUni::fgXercesValidationErrorAsFatal, vcf);
        p->setFeature(XMLUni::fgXercesStandardUriConformant, stduri); p->setFeature(XMLUni::fgXercesCalculateSrcOfs, calc);
        p->setFeature(XMLUni::fgXercesHandleMultipleImports, hmi);
        p->setProperty(XMLUni::fgXercesSecurityManager, sm);
        if (!esl.empty()) p->setProperty(XMLUni::fgXercesSchemaExternalSchemaLocation, (void*)xesl.c_str());
        if (!ennsl.empty()) p->setProperty(XMLUni::fgXercesSchemaExternalNoNameSpaceSchemaLocation, (void*)xennsl.c_str());
    } else if (S.dom) {
        XercesDOMParser* p = S.dom;
        if (switchScanner) p->useScanner(sc);
        p->setDoNamespaces(ns); p->setDoSchema(schema); p->setValidationSchemaFullChecking(full); p->setLoadExternalDTD(extdtd);
        p->setValidationScheme(val == "always" ? XercesDOMParser::Val_Always : val == "auto" ? XercesDOMParser::Val_Auto : XercesDOMParser::Val_Never);
        p->setExitOnFirstFatalError(!cont); p->setDisableDefaultEntityResolution(disdef); p->setLoadSchema(loadschema);
        p->setIdentityConstraintChecking(ic); p->cacheGrammarFromParse(cache); p->useCachedGrammarInParse(usecached); p->setSkipDTDValidation(skipdtd);
        p->setValidationConstraintFatal(vcf); p->setStandardUriConformant(stduri); p->setCalculateSrcOfs(calc); p->setHandleMultipleImports(hmi);
        p->setCreateEntityReferenceNodes(eref); p->setIncludeIgnorableWhitespace(iws); p->setDoXInclude(xinc); p->setCreateCommentNodes(comments);
        p->setSecurityManager(sm);
        if (!esl.empty()) p->setExternalSchemaLocation(xesl.c_str());
        if (!ennsl.empty()) p->setExternalNoNamespaceSchemaLocation(xennsl.c_str());
    } else if (S.ls) {
        DOMConfiguration* c = S.ls->getDomConfig();
        if (switchScanner) c->setParameter(XMLUni::fgXercesScannerName, (const void*)sc);
        c->setParameter(XMLUni::fgDOMNamespaces, ns); c->setParameter(XMLUni::fgXercesSchema, schema); c->setParameter(XMLUni::fgXercesSchemaFullChecking, full);
        c->setParameter(XMLUni::fgXercesLoadExternalDTD, extdtd);
        // the two parameters share one validation scheme underneath: reset it, then select (order matters)
        c->setParameter(XMLUni::fgDOMValidate, false);
        if (val == "always") c->setParameter(XMLUni::fgDOMValidate, true);
        else if (val == "auto") c->setParameter(XMLUni::fgDOMValidateIfSchema, true);
        c->setParameter(XMLUni::fgXercesContinueAfterFatalError, cont); c->setParameter(XMLUni::fgXercesDisableDefaultEntityResolution, disdef);
        c->setParameter(XMLUni::fgXercesLoadSchema, loadschema); c->setParameter(XMLUni::fgXercesIdentityConstraintChecking, ic);
        c->setParameter(XMLUni::fgXercesCacheGrammarFromParse, cache); c->setParameter(XMLUni::fgXercesUseCachedGrammarInParse, usecached);
        c->setParameter(XMLUni::fgXercesSkipDTDValidation, skipdtd); c->setParameter(XMLUni::fgXercesValidationErrorAsFatal, vcf);
        c->setParameter(XMLUni::fgXercesStandardUriConformant, stduri); c->setParameter(XMLUni::fgXercesCalculateSrcOfs, calc);
        c->setParameter(XMLUni::fgXercesHandleMultipleImports, hmi);
        c->setParameter(XMLUni::fgDOMEntities, eref); c->setParameter(XMLUni::fgDOMElementContentWhitespace, iws); c->setParameter(XMLUni::fgDOMComments, comments);
        c->setParameter(XMLUni::fgXercesDoXInclude, xinc);
        c->setParameter(XMLUni::fgXercesSecurityManager, (const void*)sm);
        if (!esl.empty()) c->setParameter(XMLUni::fgXercesSchemaExternalSchemaLocation, (const void*)xesl.c_str());
        if (!ennsl.empty()) c->setParameter(XMLUni::fgXercesSchemaExternalNoNameSpaceSchemaLocation, (const void*)xennsl.c_str());
    }
}

static void makeParser(Session& S, const Case& c) {
    S.api = c.get("api", "sax2");
    if (c.geti("mm", 0)) {
        S.led = new Ledger("parser"); S.mm = S.led;
        if (gGlobalLedgerMM) { S.led->other = gGlobalLedgerMM; }
    }
    if (c.geti("pool", 0)) S.pool = new (S.mm) XMLGrammarPoolImpl(S.mm);
    Rec* r = &S.rec; r->cs = &c; r->mm = S.mm;
    r->resMiss = c.get("resmiss", "empty");
    std::string rk = c.get("resolver", "x");   // x: XMLEntityResolver, sax: EntityResolver, none
    if (S.api == "sax1" || S.api == "progsax1") {
        S.sax1 = new XSax1(S.mm, S.pool); S.sax1->rec = r;
        S.sax1->setDocumentHandler(r); S.sax1->setDTDHandler(r); S.sax1->setErrorHandler(r);
        if (rk == "x") S.sax1->setXMLEntityResolver(r); else if (rk == "sax") S.sax1->setEntityResolver(r);
    } else if (S.api == "sax2" || S.api == "prog") {
        S.sax2 = new XSax2(S.mm, S.pool); S.sax2->rec = r;
        S.sax2->setContentHandler(r); S.sax2->setDTDHandler(r); S.sax2->setErrorHandler(r); S.sax2->setLexicalHandler(r); S.sax2->setDeclarationHandler(r);
        if (rk == "x") S.sax2->setXMLEntityResolver(r); else if (rk == "sax") S.sax2->setEntityResolver(r);
    } else if (S.api == "dom" || S.api == "progdom") {
        S.dom = new XDom(S.mm, S.pool); S.dom->rec = r;
        S.dom->setErrorHandler(r);
        if (rk == "x") S.dom->setXMLEntityResolver(r); else if (rk == "sax") S.dom->setEntityResolver(r);
    } else {  // domls, domlsf
        S.ls = new XLs(S.mm, S.pool); S.ls->rec = r;
        DOMConfiguration* cf = S.ls->getDomConfig();
        cf->setParameter(XMLUni::fgDOMErrorHandler, (const void*)static_cast<DOMErrorHandler*>(r));
        if (rk == "x") cf->setParameter(XMLUni::fgXercesEntityResolver, (const void*)static_cast<XMLEntityResolver*>(r)); else if (rk != "none") cf->setParameter(XMLUni::fgDOMResourceResolver, (const void*)static_cast<DOMLSResourceResolver*>(r));
        std::string f = c.get("filter", "");
        if (!f.empty()) {
            size_t p = f.find(':'); S.filter.mode = f.substr(0, p); if (p != std::string::npos) S.filter.name = u16(f.substr(p + 1));
            S.ls->setFilter(&S.filter);
        }
    }
}

static void destroyParser(Session& S) {
    delete S.sax1; S.sax1 = 0; delete S.sax2; S.sax2 = 0; delete S.dom; S.dom = 0;
    if (S.ls) { S.ls->release(); S.ls = 0; }
    for (size_t i = 0; i < S.adopted.size(); i++) S.adopted[i]->release();
    S.adopted.clear();
    delete S.pool; S.pool = 0;
    delete S.sec; S.sec = 0;
}

struct StdinFeeder {
    int saved; std::thread th; bool active;
    StdinFeeder() : saved(-1), active(false) {}
    void start(const std::string& data) {
        int fds[2]; if (pipe(fds)) return;
        saved = dup(0); dup2(fds[0], 0); close(fds[0]);
        int w = fds[1]; active = true;
        th = std::thread([w, data]() { size_t p = 0; while (p < data.size()) { size_t n = std::min<size_t>(data.size() - p, 1 + (p * 7919) % 4096); ssize_t k = write(w, data.data() + p, n); if (k <= 0) break; p += k; } close(w); });
    }
    void stop() { if (!active) return; // drain: close our stdin so the writer gets EPIPE if the parser stopped early
        int devnull = open("/dev/null", O_RDONLY); dup2(devnull, 0); close(devnull); th.join(); if (saved >= 0) { dup2(saved, 0); close(saved); } active = false; }
};

static void runStep(Session& S, const Case& c, const Step& st, size_t idx) {
    std::map<std::string, std::string> o = c.opt;
    for (std::map<std::string, std::string>::const_iterator i = st.opt.begin(); i != st.opt.end(); ++i) o[i->first] = i->second;
    Rec& r = S.rec;
    r.d = Dump(); r.d.on = optb(o, "dump", true); r.nW = r.nE = r.nF = 0; r.callbacks = 0; r.loc = 0;
    r.wantLoc = optb(o, "loc", true);
    r.tp = ThrowPlan(); r.tp.at = atol(opts(o, "throw_at", "0").c_str()); r.tp.kind = opts(o, "throw_kind", "sax");
    r.chunk = ChunkSpec::parse(opts(o, "chunk", "")); r.chunkEnts = optb(o, "chunkents", false);
    r.entEnc = u16(opts(o, "entenc", ""));
    tlHooks.reset();
    gOut.line("S\t" + itos((long long)idx));
    std::string op = opts(o, "op", "parse");
    std::string status = "ok";
    std::string src = opts(o, "src", "mem");
    xstr sysId = u16(opts(o, "sysid", "file:///xv/doc.xml"));
    StdinFeeder feeder;
    InputSource* is = 0;
    const DOMDocument* doc = 0;
    try {
        configure(S, o);
        if (op == "resetdocpool") { if (S.dom) S.dom->resetDocumentPool(); if (S.ls) S.ls->resetDocumentPool(); }
        else if (op == "resetgrammarpool") { if (S.sax1) S.sax1->resetCachedGrammarPool(); if (S.sax2) S.sax2->resetCachedGrammarPool(); if (S.dom) S.dom->resetCachedGrammarPool(); if (S.ls) S.ls->resetCachedGrammarPool(); }
        else if (op == "dumppool") {
            // enumeration of the pool's grammars through the public API (type, target namespace / system id), sorted
            std::vector<std::string> v;
            if (S.pool) {
                RefHashTableOfEnumerator<Grammar> e = S.pool->getGrammarEnumerator();
                while (e.hasMoreElements()) {
                    Grammar& g = e.nextElement();
                    XMLGrammarDescription* gd = g.getGrammarDescription();
                    v.push_back(std::string("GP\t") + (g.getGrammarType() == Grammar::SchemaGrammarType ? "xsd" : "dtd") + "\t" + esc(g.getTargetNamespace()) + "\t" + esc(gd ? gd->getGrammarKey() : 0));
                }
            }
            std::sort(v.begin(), v.end());
            for (size_t i = 0; i < v.size(); i++) r.d.ev(v[i]);
            r.d.ev("GPN\t" + itos((long long)v.size()));
        }
        else if (op == "lockpool") { if (S.pool) S.pool->lockPool(); }
        else if (op == "unlockpool") { if (S.pool) S.pool->unlockPool(); }
        else {
            if (src == "path") {
                // a file that already exists on disk (resource-access workloads); the payload is ignored
                xstr xp = u16(opts(o, "srcpath", ""));
                is = new (S.mm) LocalFileInputSource(xp.c_str(), S.mm);
            } else if (src == "file") {
                std::string path = scratchDir() + "/doc" + itos((long long)idx) + ".xml";
                FILE* f = fopen(path.c_str(), "wb"); if (f) { fwrite(st.payload.data(), 1, st.payload.size(), f); fclose(f); }
                xstr xp = u16(path);
                is = new (S.mm) LocalFileInputSource(xp.c_str(), S.mm);
            } else if (src == "stdin") {
                feeder.start(st.payload);
                is = new (S.mm) StdInInputSource(S.mm);
            } else if (src == "chunk") {
                is = new (S.mm) ChunkSource(st.payload, r.chunk, sysId.c_str(), S.mm);
            } else {
                is = new (S.mm) MemBufInputSource((const XMLByte*)st.payload.data(), st.payload.size(), sysId.c_str(), false, S.mm);
            }
            std::string enc = opts(o, "forceenc", ""); xstr xenc = u16(enc);
            if (!enc.empty()) is->setEncoding(xenc.c_str());
            if (op == "loadgrammar") {
                Grammar::GrammarType gt = opts(o, "gtype", "dtd") == "xsd" ? Grammar::SchemaGrammarType : Grammar::DTDGrammarType;
                bool tc = optb(o, "tocache", true);
                Grammar* g = 0;
                if (S.sax1) g = S.sax1->loadGrammar(*is, gt, tc); else if (S.sax2) g = S.sax2->loadGrammar(*is, gt, tc);
                else if (S.dom) g = S.dom->loadGrammar(*is, gt, tc);
                else if (S.ls) { Wrapper4InputSource w(is, false, S.mm); g = S.ls->loadGrammar(&w, gt, tc); }
                r.d.ev(std::string("GRAMMAR\t") + (g ? "1" : "0"));
            } else if (S.api == "prog" || S.api == "progsax1" || S.api == "progdom") {
                XMLPScanToken tok; long abandon = atol(opts(o, "abandon_at", "-1").c_str()); long steps = 0; bool more;
                if (S.sax2) more = S.sax2->parseFirst(*is, tok); else if (S.sax1) more = S.sax1->parseFirst(*is, tok); else more = S.dom->parseFirst(*is, tok);
                if (!more) status = "first-false";
                while (more) {
                    if (abandon >= 0 && steps >= abandon) { status = "abandoned"; break; }
                    if (S.sax2) more = S.sax2->parseNext(tok); else if (S.sax1) more = S.sax1->parseNext(tok); else more = S.dom->parseNext(tok);
                    steps++;
                    if (steps > 100000000L) { status = "step-budget"; break; }
                }
                if (status == "abandoned" && optb(o, "abandon_reset", true)) {
                    if (S.sax2) S.sax2->parseReset(tok); else if (S.sax1) S.sax1->parseReset(tok); else S.dom->parseReset(tok);
                }
                r.d.side("PSTEPS\t" + itos(steps));
                if (S.dom && status != "abandoned") doc = S.dom->getDocument();
            } else if (S.sax1) S.sax1->parse(*is);
            else if (S.sax2) S.sax2->parse(*is);
            else if (S.dom) { S.dom->parse(*is); doc = S.dom->getDocument(); }
            else if (S.ls) { Wrapper4InputSource w(is, false, S.mm); doc = S.ls->parse(&w); }
        }
    }
    catch (const OutOfMemoryException&) { status = "exc"; r.d.side("EXC\tOutOfMemoryException\t0"); }
    catch (const XMLException& e) { status = "exc"; r.d.side("EXC\tXMLException:" + u8(e.getType()) + "\t" + itos(e.getCode())); }
    catch (const SAXParseException& e) { status = "exc"; r.d.side("EXC\tSAXParseException\t" + itos((long long)e.getLineNumber())); }
    catch (const SAXException& e) { status = "exc"; r.d.side("EXC\tSAXException:" + demangle(typeid(e).name()) + "\t0"); }
    catch (const DOMLSException& e) { status = "exc"; r.d.side("EXC\tDOMLSException\t" + itos(e.code)); }
    catch (const DOMException& e) { status = "exc"; r.d.side("EXC\tDOMException:" + demangle(typeid(e).name()) + "\t" + itos(e.code)); }
    catch (const XvAppException&) { status = "appexc"; r.d.side("EXC\tapp\t0"); }
    catch (const std::runtime_error& e) { if (std::string(e.what()) == "xv-std") { status = "appexc"; r.d.side("EXC\tapp-std\t0"); } else { status = "foreign"; r.d.side("EXC\tFOREIGN:" + demangle(typeid(e).name()) + "\t0"); } }
    catch (const std::exception& e) { status = "foreign"; r.d.side("EXC\tFOREIGN:" + demangle(typeid(e).name()) + "\t0"); }
    catch (int v) { if (v == 42) { status = "appexc"; r.d.side("EXC\tapp-int\t0"); } else { status = "foreign"; r.d.side("EXC\tFOREIGN:int\t0"); } }
    catch (...) { status = "foreign"; std::type_info* t = abi::__cxa_current_exception_type(); r.d.side("EXC\tFOREIGN:" + (t ? demangle(t->name()) : std::string("?")) + "\t0"); }
    feeder.stop();
    delete is;
    if (doc && r.d.on && optb(o, "domdump", true)) {
        try {
            DomDumpOpts dopt; dopt.typeinfo = optb(o, "typeinfo", false); dopt.lookups = optb(o, "lookups", false);
            if (dopt.lookups) {
                std::string lp = opts(o, "lkp", ""), lu = opts(o, "lku", "");
                size_t a = 0; for (;;) { size_t b = lp.find(',', a); dopt.lkPrefixes.push_back(u16(lp.substr(a, b == std::string::npos ? std::string::npos : b - a))); if (b == std::string::npos) break; a = b + 1; }
                a = 0; for (;;) { size_t b = lu.find('|', a); dopt.lkUris.push_back(u16(lu.substr(a, b == std::string::npos ? std::string::npos : b - a))); if (b == std::string::npos) break; a = b + 1; }
            }
            dumpDOM(doc, r.d, dopt);
        }
        catch (const DOMException& e) { r.d.side("EXC\tDOMException-in-walk\t" + itos(e.code)); }
    }
    if (optb(o, "adopt", false) && (S.dom || S.ls) && doc) {
        DOMDocument* ad = S.dom ? S.dom->adoptDocument() : 0;
        if (ad) { S.adopted.push_back(ad); r.d.side("ADOPT\t" + itos((long long)(S.adopted.size() - 1))); }
    }
    if (optb(o, "redump_adopted", false)) {
        for (size_t i = 0; i < S.adopted.size(); i++) { r.d.ev("ADOPTED\t" + itos((long long)i)); dumpDOM(S.adopted[i], r.d); }
    }
    XMLSize_t ec = 0;
    if (S.sax1) ec = S.sax1->getErrorCount(); else if (S.sax2) ec = S.sax2->getErrorCount(); else if (S.dom) ec = S.dom->getErrorCount(); else if (S.ls) ec = S.ls->getErrorCount();
    r.d.side("HK\t" + itos(tlHooks.rawRefresh) + "\t" + itos(tlHooks.charRefresh) + "\t" + itos(tlHooks.entityPush) + "\t" + itos(tlHooks.entityPushDecl) + "\t" + itos(tlHooks.maxDepth) + "\t" + itos(r.callbacks));
    r.d.side("R\t" + status + "\t" + itos(r.nW) + "\t" + itos(r.nE) + "\t" + itos(r.nF) + "\t" + itos((long long)ec));
    r.d.emitTo(gOut, "");
}

static void cmdParse(const Case& c) {
    Session* S = new Session();
    try { makeParser(*S, c); }
    catch (const XMLException& e) { gOut.line("EXC\tctor:XMLException:" + u8(e.getType())); delete S; return; }
    catch (...) { gOut.line("EXC\tctor:FOREIGN"); delete S; return; }
    for (size_t i = 0; i < c.steps.size(); i++) runStep(*S, c, c.steps[i], i);
    Ledger* led = S->led;
    try { destroyParser(*S); } catch (...) { gOut.line("EXC\tdtor:threw"); }
    if (led) {
        gOut.line("MM\tallocs=" + itos(led->allocs) + "\tfrees=" + itos(led->frees) + "\toutstanding=" + itos((long long)led->outstanding()) + "\tforeign=" + itos(led->foreign) + "\tcrossed=" + itos(led->crossed));
        delete led;
    }
    delete S;
}
static CmdReg regParse("parse", cmdParse);

// initterm: balanced Initialize/Terminate cycles with a custom global manager.  The driver has Initialized once at start
// (count 1): nest first, then drop to zero and run full cycles on a ledger, then restore the default initialisation.
static void cmdInitTerm(const Case& c) {
    long cycles = c.geti("cycles", 2), nest = c.geti("nest", 1);
    if (gGlobalLedgerMM) { gOut.line("SKIP\tglobal-ledger-mode"); return; }
    std::string doc = c.steps.empty() ? std::string("<a/>") : c.steps[0].payload;
    // nested (the library stays initialised; nothing may be torn down)
    for (long i = 0; i < nest; i++) XMLPlatformUtils::Initialize();
    for (long i = 0; i < nest; i++) XMLPlatformUtils::Terminate();
    XMLPlatformUtils::Terminate();   // count -> 0: full termination of the driver's own initialisation
    for (long k = 0; k < cycles; k++) {
        Ledger* led = new Ledger("cycle");
        XMLPlatformUtils::Initialize(XMLUni::fgXercescDefaultLocale, 0, 0, led);
        for (long i = 0; i < nest; i++) XMLPlatformUtils::Initialize(XMLUni::fgXercescDefaultLocale, 0, 0, led);
        std::string status = "ok";
        try {
            Case cc; cc.id = "it"; cc.cmd = "parse"; cc.opt = c.opt; cc.ents = c.ents; cc.steps = c.steps;
            cc.opt.erase("cycles"); cc.opt.erase("nest");
            if (cc.steps.empty()) { Step st; st.kind = "DOC"; st.payload = doc; cc.steps.push_back(st); }
            cmdParse(cc);
        } catch (...) { status = "threw"; }
        for (long i = 0; i < nest; i++) XMLPlatformUtils::Terminate();
        XMLPlatformUtils::Terminate();
        gOut.line("CYCLE\t" + itos(k) + "\t" + status + "\tallocs=" + itos(led->allocs) + "\toutstanding=" + itos((long long)led->outstanding()) + "\tforeign=" + itos(led->foreign));
        delete led;
    }
    XMLPlatformUtils::Initialize();
    installCountingHook();
}
static CmdReg regInitTerm("initterm", cmdInitTerm);

}  // namespace xv
