// thr_stress: C17 workload for the ThreadSanitizer build.  Every library object is used by one thread at a time; the
// only sharing is what the property allows: a locked grammar pool, and the library's own lazily initialised facilities.
// usage: thr_stress <seed> <nthreads> <items> <focus> [serial]
//   focus selects the facility all threads hit first, right after the barrier (first-use race window)
//   serial: run every thread's item list sequentially in one thread (reference digests)
#include <atomic>
#include <thread>
#include <vector>
#include <string>
#include <cstdio>
#include <cstdlib>
#include <cstring>
#include <mutex>
#include <condition_variable>
#include <unistd.h>
#include <sched.h>
#include <xercesc/util/PlatformUtils.hpp>
#include <xercesc/util/XMLString.hpp>
#include <xercesc/util/XMLUni.hpp>
#include <xercesc/util/XMLURL.hpp>
#include <xercesc/util/XMLException.hpp>
#include <xercesc/util/TransService.hpp>
#include <xercesc/util/XMLEntityResolver.hpp>
#include <xercesc/util/XMLResourceIdentifier.hpp>
#include <xercesc/util/XercesVerifHooks.hpp>
#include <xercesc/util/regx/RegularExpression.hpp>
#include <xercesc/sax2/DefaultHandler.hpp>
#include <xercesc/sax2/SAX2XMLReader.hpp>
#include <xercesc/sax2/XMLReaderFactory.hpp>
#include <xercesc/sax2/Attributes.hpp>
#include <xercesc/sax/SAXException.hpp>
#include <xercesc/parsers/XercesDOMParser.hpp>
#include <xercesc/parsers/SAX2XMLReaderImpl.hpp>
#include <xercesc/framework/MemBufInputSource.hpp>
#include <xercesc/framework/XMLGrammarPoolImpl.hpp>
#include <xercesc/framework/MemBufFormatTarget.hpp>
#include <xercesc/dom/DOM.hpp>
#include <xercesc/validators/common/Grammar.hpp>

using namespace xercesc;
typedef std::basic_string<XMLCh> xstr;

static xstr u16(const std::string& s) { xstr o; for (size_t i = 0; i < s.size(); i++) o += XMLCh((unsigned char)s[i]); return o; }

// ---------------------------------------------------------------------------------------------------------------------
//  schedule perturbation + overlap evidence at the library's hook points
// ---------------------------------------------------------------------------------------------------------------------
static std::atomic<unsigned long> gLockCount(0), gLazyEnter(0), gYields(0), gOverlap(0);
static unsigned long gSeed = 1;
static thread_local unsigned long tlRng = 0;
static thread_local int tlThread = -1;
// last thread that entered a lazy window for an object (open-addressed table of (obj -> thread)); a second, different
// thread entering for the same object means both saw it un-built: an overlapped first-use window
static std::atomic<uintptr_t> gLazyObj[4096];
static std::atomic<int> gLazyThr[4096];
static std::atomic<unsigned long> gOrderHash(0);

static unsigned long rnd() { tlRng = tlRng * 6364136223846793005ULL + 1442695040888963407ULL; return tlRng >> 33; }

static void hook(int point, const void* obj, XMLSize_t a, XMLSize_t) {
    if (tlThread < 0) return;
    switch (point) {
        case VerifHooks::MutexPre:
        case VerifHooks::MutexUnlock:
            // between critical sections only (never while holding the lock)
            if ((rnd() & 15) == 0) { gYields++; if (rnd() & 1) sched_yield(); else usleep(50 + rnd() % 450); }
            break;
        case VerifHooks::MutexPost:
            gLockCount++;
            gOrderHash.store(gOrderHash.load(std::memory_order_relaxed) * 31 + (unsigned long)tlThread + 1, std::memory_order_relaxed);
            break;
        case VerifHooks::LazyEnter: {
            gLazyEnter++;
            uintptr_t o = (uintptr_t)obj ^ ((uintptr_t)a << 60);
            size_t h = (o >> 4) & 4095;
            for (int k = 0; k < 8; k++, h = (h + 1) & 4095) {
                uintptr_t cur = gLazyObj[h].load();
                if (cur == 0) { uintptr_t z = 0; if (gLazyObj[h].compare_exchange_strong(z, o)) { gLazyThr[h].store(tlThread); break; } cur = gLazyObj[h].load(); }
                if (cur == o) { if (gLazyThr[h].load() != tlThread) gOverlap++; break; }
            }
            // widen the window: the object has been found un-built, it is not built yet
            if ((rnd() & 3) != 0) { gYields++; usleep(100 + rnd() % 400); }
            break;
        }
        default: break;
    }
}

// ---------------------------------------------------------------------------------------------------------------------
struct Barrier {
    std::mutex m; std::condition_variable cv; int n, waiting; unsigned gen;
    Barrier(int n_) : n(n_), waiting(0), gen(0) {}
    void wait() { std::unique_lock<std::mutex> l(m); unsigned g = gen; if (++waiting == n) { gen++; waiting = 0; cv.notify_all(); } else cv.wait(l, [&] { return g != gen; }); }
};

static const char* XSD =
    "<xs:schema xmlns:xs='http://www.w3.org/2001/XMLSchema' targetNamespace='urn:s' xmlns='urn:s' elementFormDefault='qualified'>"
    "<xs:element name='r'><xs:complexType><xs:sequence><xs:element ref='a' maxOccurs='unbounded'/><xs:element ref='b' minOccurs='0'/><xs:any namespace='##other' processContents='lax' minOccurs='0' maxOccurs='unbounded'/></xs:sequence></xs:complexType></xs:element>"
    "<xs:element name='a'><xs:complexType><xs:choice minOccurs='0' maxOccurs='5'><xs:element name='x' type='T1'/><xs:element name='y' type='T2'/></xs:choice><xs:attribute name='k' type='xs:token' default='d'/></xs:complexType></xs:element>"
    "<xs:element name='b'><xs:complexType><xs:all><xs:element name='p' type='xs:int'/><xs:element name='q' type='T3' minOccurs='0'/></xs:all></xs:complexType></xs:element>"
    "<xs:complexType name='T1'><xs:sequence><xs:element name='m' type='xs:date' minOccurs='0' maxOccurs='3'/><xs:element name='n' type='T3' minOccurs='0'/></xs:sequence></xs:complexType>"
    "<xs:complexType name='T2'><xs:simpleContent><xs:extension base='T3'><xs:attribute name='u' type='xs:anyURI'/></xs:extension></xs:simpleContent></xs:complexType>"
    "<xs:simpleType name='T3'><xs:restriction base='xs:string'><xs:pattern value='\\p{Lu}\\p{Ll}*[\\p{IsGreek}\\d]?'/></xs:restriction></xs:simpleType>"
    "<xs:complexType name='T4'><xs:sequence><xs:element name='d1' type='T1'/><xs:element name='d2' type='T5' minOccurs='0'/></xs:sequence></xs:complexType>"
    "<xs:complexType name='T5'><xs:choice><xs:element name='e1' type='xs:decimal'/><xs:element name='e2' type='T4'/></xs:choice></xs:complexType>"
    "<xs:element name='c' type='T4'/><xs:element name='d' type='T5'/>"
    "</xs:schema>";
static const char* DTD = "<!ELEMENT r (a|b)*><!ELEMENT a (c,d?)><!ELEMENT b (#PCDATA|c)*><!ELEMENT c EMPTY><!ELEMENT d (c+)><!ATTLIST a k NMTOKEN 'v' i ID #IMPLIED>";

struct Res : public XMLEntityResolver {
    InputSource* resolveEntity(XMLResourceIdentifier* ri) {
        const XMLCh* s = ri->getSystemId(); if (ri->getSchemaLocation()) s = ri->getSchemaLocation();
        std::string k; for (const XMLCh* p = s; p && *p; p++) k += char(*p);
        if (k.find("s.xsd") != std::string::npos) return new MemBufInputSource((const XMLByte*)XSD, strlen(XSD), s);
        if (k.find("d.dtd") != std::string::npos) return new MemBufInputSource((const XMLByte*)DTD, strlen(DTD), s);
        static const XMLByte z[1] = {0};
        return new MemBufInputSource(z, 0, s ? s : XMLUni::fgZeroLenString);
    }
};
struct Count : public DefaultHandler {
    unsigned long h; unsigned errs;
    Count() : h(1469598103934665603UL), errs(0) {}
    void mix(const XMLCh* s) { for (; s && *s; s++) h = (h ^ *s) * 1099511628211UL; h = (h ^ 0xff) * 1099511628211UL; }
    void startElement(const XMLCh* const u, const XMLCh* const l, const XMLCh* const q, const Attributes& a) { mix(u); mix(l); mix(q); for (XMLSize_t i = 0; i < a.getLength(); i++) { mix(a.getQName(i)); mix(a.getValue(i)); } }
    void characters(const XMLCh* const c, const XMLSize_t n) { for (XMLSize_t i = 0; i < n; i++) h = (h ^ c[i]) * 1099511628211UL; }
    void warning(const SAXParseException&) {} void error(const SAXParseException& e) { errs++; h = (h ^ (unsigned long)e.getLineNumber()) * 31; } void fatalError(const SAXParseException& e) { errs += 100; h = (h ^ (unsigned long)e.getColumnNumber()) * 37; }
};

static XMLGrammarPool* gPool = 0;
static Res gRes;

static std::string docFor(unsigned long r, int kind) {
    char b[64];
    switch (kind % 6) {
        case 0: return "<r xmlns='urn:s' xmlns:xsi='http://www.w3.org/2001/XMLSchema-instance' xsi:schemaLocation='urn:s s.xsd'><a><x><m>2001-02-03</m><n>Ab</n></x></a><b><p>1</p></b></r>";
        case 1: snprintf(b, sizeof b, "urn:new:%lu", r % 97); return std::string("<r xmlns='urn:s' xmlns:o='") + b + "'><a k=' t '><y u='http://x/'>Xyz1</y></a><o:any/></r>";
        case 2: return "<c xmlns='urn:s'><d1><m>2001-02-30</m></d1><d2><e2><d1/></e2></d2></c>";
        case 3: return "<d xmlns='urn:s'><e1>1.50</e1></d>";
        case 4: return "<r xmlns='urn:s'><b><q>Q</q><p>x</p></b></r>";
        default: return "<r xmlns='urn:s'><a><x><n>ab</n></x><y>Z\xce\xb1</y></a></r>";
    }
}

static unsigned long item(int kind, unsigned long r) {
    Count c;
    try {
        switch (kind) {
            case 0: {   // private parser, DTD validation, document with internal subset
                SAX2XMLReaderImpl p; p.setContentHandler(&c); p.setErrorHandler(&c); p.setXMLEntityResolver(&gRes);
                p.setFeature(XMLUni::fgSAX2CoreValidation, true);
                std::string d = std::string("<!DOCTYPE r SYSTEM 'd.dtd'><r><a i='i") + std::to_string(r % 5) + "'><c/>" + ((r & 1) ? "<d><c/></d>" : "") + "</a><b>t<c/></b>" + ((r & 2) ? "<z/>" : "") + "</r>";
                MemBufInputSource is((const XMLByte*)d.data(), d.size(), "mem"); p.parse(is);
                break;
            }
            case 1: case 2: {   // parser on the shared, locked grammar pool
                SAX2XMLReaderImpl p(XMLPlatformUtils::fgMemoryManager, gPool); p.setContentHandler(&c); p.setErrorHandler(&c); p.setXMLEntityResolver(&gRes);
                p.setFeature(XMLUni::fgSAX2CoreValidation, true); p.setFeature(XMLUni::fgXercesSchema, true); p.setFeature(XMLUni::fgXercesUseCachedGrammarInParse, true);
                p.setFeature(XMLUni::fgSAX2CoreNameSpaces, true); p.setFeature(XMLUni::fgXercesSchemaFullChecking, kind == 2);
                std::string d = docFor(r, (int)(r % 6));
                MemBufInputSource is((const XMLByte*)d.data(), d.size(), "mem"); p.parse(is);
                break;
            }
            case 3: {   // private DOM: build, mutate, serialise
                static const XMLCh ls[] = { 'L', 'S', 0 };
                DOMImplementation* impl = DOMImplementationRegistry::getDOMImplementation(ls);
                xstr q = u16("p:root"), ns = u16("urn:dom");
                DOMDocument* doc = impl->createDocument(ns.c_str(), q.c_str(), 0);
                DOMElement* root = doc->getDocumentElement();
                for (unsigned i = 0; i < 3 + r % 5; i++) { xstr n = u16("e" + std::to_string(i)); DOMElement* e = doc->createElement(n.c_str()); root->appendChild(e); xstr t = u16("t<&" + std::to_string(r + i)); e->appendChild(doc->createTextNode(t.c_str())); e->setAttribute(n.c_str(), t.c_str()); }
                if (root->getFirstChild() && (r & 1)) root->removeChild(root->getFirstChild());
                DOMLSSerializer* ser = ((DOMImplementationLS*)impl)->createLSSerializer();
                XMLCh* out = ser->writeToString(doc); c.mix(out); XMLString::release(&out); ser->release(); doc->release();
                break;
            }
            case 4: {   // owner-less document type + registry lookup
                static const XMLCh core[] = { 'C', 'o', 'r', 'e', 0 };
                DOMImplementation* impl = DOMImplementationRegistry::getDOMImplementation(core);
                xstr n = u16("dt" + std::to_string(r % 7)), sys = u16("s.dtd");
                DOMDocumentType* dt = impl->createDocumentType(n.c_str(), 0, sys.c_str());
                c.mix(dt->getName()); c.mix(dt->getSystemId());
                DOMDocument* doc = impl->createDocument(0, n.c_str(), dt);
                c.mix(doc->getDoctype()->getName()); doc->release();
                break;
            }
            case 5: {   // regular expressions with category / block escapes (shared range tokens, lazily completed)
                static const char* pats[] = { "\\p{L}+\\P{IsAlpha}", "[\\p{Lu}-[A-C]]\\p{Nd}*", "\\P{ALL}|\\p{IsGreek}+", "\\P{IsAlnum}\\P{ASSIGNED}?x", "\\i\\c*\\s\\w+", "\\p{IsCyrillic}|\\p{IsBasicLatin}{2,3}", "\\P{Lu}\\p{Sm}" };
                static const char* strs[] = { "ab1", "Dx9", "\xce\xb1\xce\xb2", "-x", "a:b c_d", "ab", "a+" };
                xstr p = u16(pats[r % 7]);
                RegularExpression re(p.c_str(), u16("X").c_str());
                for (int i = 0; i < 7; i++) { xstr s; const char* u = strs[i]; for (; *u; u++) { unsigned char ch = *u; if (ch == 0xce) { s += XMLCh(0x380 + ((unsigned char)u[1] - 0x80)); u++; } else s += XMLCh(ch); } c.h = c.h * 3 + (re.matches(s.c_str()) ? 1 : 2); }
                break;
            }
            case 6: {   // local-code-page and named transcoders
                std::string s = "hello w\xc3\xb6rld " + std::to_string(r);
                XMLCh* x = XMLString::transcode(s.c_str()); char* back = XMLString::transcode(x); c.mix(x); c.h ^= strlen(back); XMLString::release(&x); XMLString::release(&back);
                XMLTransService::Codes fr; static const char* encs[] = { "UTF-8", "ISO-8859-1", "windows-1252", "IBM1140", "UTF-16", "ISO-8859-5", "KOI8-R" };
                XMLTranscoder* t = XMLPlatformUtils::fgTransService->makeNewTranscoderFor(encs[r % 7], fr, 1024, XMLPlatformUtils::fgMemoryManager);
                if (t) { XMLCh buf[64]; unsigned char sizes[64]; XMLSize_t eaten = 0; const XMLByte src[] = { 'a', 'b', 'c', 0x41, 0x42 }; XMLSize_t n = t->transcodeFrom(src, 4, buf, 64, eaten, sizes); c.h = c.h * 7 + n + eaten; delete t; }
                break;
            }
            case 7: {   // exceptions with message loading
                try { XMLURL u(u16("no-scheme/" + std::to_string(r)).c_str()); c.h ^= 1; } catch (const XMLException& e) { c.mix(e.getMessage()); c.h ^= e.getCode(); }
                try { xstr bad = u16("(a"); RegularExpression re(bad.c_str()); } catch (const XMLException& e) { c.mix(e.getMessage()); }
                break;
            }
            case 8: {   // create / destroy parsers, DOM parser with schema on the shared pool
                XercesDOMParser p(0, XMLPlatformUtils::fgMemoryManager, gPool); p.setErrorHandler(&c); p.setXMLEntityResolver(&gRes);
                p.setDoNamespaces(true); p.setDoSchema(true); p.setValidationScheme(XercesDOMParser::Val_Always); p.useCachedGrammarInParse(true);
                std::string d = docFor(r, (int)((r >> 3) % 6));
                MemBufInputSource is((const XMLByte*)d.data(), d.size(), "mem"); p.parse(is);
                DOMDocument* doc = p.getDocument(); if (doc && doc->getDocumentElement()) { c.mix(doc->getDocumentElement()->getTextContent()); c.h ^= p.getErrorCount(); }
                break;
            }
        }
    }
    catch (const XMLException& e) { c.h ^= 0xE000 + e.getCode(); }
    catch (const SAXException&) { c.h ^= 0xE1; }
    catch (const DOMException& e) { c.h ^= 0xD000 + e.code; }
    catch (...) { c.h ^= 0xFFFF; }
    return c.h * 1000003UL + c.errs;
}

static const int NKINDS = 9;

int main(int argc, char** argv) {
    if (argc < 5) { fprintf(stderr, "usage: thr_stress seed nthreads items focus [serial]\n"); return 2; }
    gSeed = strtoul(argv[1], 0, 10); int nthreads = atoi(argv[2]); int items = atoi(argv[3]); int focus = atoi(argv[4]); bool serial = argc > 5;
    XMLPlatformUtils::Initialize();
    {
        gPool = new XMLGrammarPoolImpl(XMLPlatformUtils::fgMemoryManager);
        SAX2XMLReaderImpl loader(XMLPlatformUtils::fgMemoryManager, gPool);
        loader.setFeature(XMLUni::fgXercesSchema, true); loader.setFeature(XMLUni::fgSAX2CoreNameSpaces, true);
        MemBufInputSource xs((const XMLByte*)XSD, strlen(XSD), "s.xsd");
        loader.loadGrammar(xs, Grammar::SchemaGrammarType, true);
        gPool->lockPool();
    }
    VerifHooks::fgHook = hook;
    std::vector<std::vector<unsigned long> > digests(nthreads, std::vector<unsigned long>(items, 0));
    std::vector<std::vector<int> > kinds(nthreads, std::vector<int>(items, 0));
    Barrier bar(serial ? 1 : nthreads);
    auto body = [&](int t) {
        tlThread = t; tlRng = gSeed * 2654435761UL + (unsigned long)t * 40503UL + 12345;
        unsigned long wl = gSeed * 1000003UL + (unsigned long)t * 7919UL;     // work-list stream: independent of the scheduler stream
        if (!serial) bar.wait();
        for (int i = 0; i < items; i++) {
            wl = wl * 6364136223846793005ULL + 1442695040888963407ULL;
            int kind = (i == 0) ? focus : (int)((wl >> 33) % NKINDS);
            unsigned long r = (i == 0) ? gSeed : (wl >> 20);
            kinds[t][i] = kind;
            digests[t][i] = item(kind, r);
        }
        tlThread = -1;
    };
    if (serial) { for (int t = 0; t < nthreads; t++) body(t); }
    else { std::vector<std::thread> th; for (int t = 0; t < nthreads; t++) th.emplace_back(body, t); for (auto& x : th) x.join(); }
    VerifHooks::fgHook = 0;
    for (int t = 0; t < nthreads; t++) for (int i = 0; i < items; i++) printf("D %d %d %d %lx\n", t, i, kinds[t][i], digests[t][i]);
    printf("H locks=%lu lazy=%lu yields=%lu overlap=%lu order=%lx\n", gLockCount.load(), gLazyEnter.load(), gYields.load(), gOverlap.load(), gOrderHash.load());
    gPool->unlockPool(); delete gPool;
    XMLPlatformUtils::Terminate();
    return 0;
}
