// Canonical event dump shared by the parse-family and DOM commands.
#pragma once
#include "xd_common.hpp"
#include <xercesc/dom/DOM.hpp>

namespace xv {

struct Dump {
    std::vector<std::string> lines;
    xstr pendCh; bool havePendCh; xstr pendIw; bool havePendIw;
    bool on;
    Dump() : havePendCh(false), havePendIw(false), on(true) {}
    void flushText() {
        if (havePendCh) { lines.push_back("CH\t" + escx(pendCh)); pendCh.clear(); havePendCh = false; }
        if (havePendIw) { lines.push_back("IW\t" + escx(pendIw)); pendIw.clear(); havePendIw = false; }
    }
    void chars(const XMLCh* s, size_t n) { if (!on) return; if (havePendIw) flushText(); pendCh.append(s, n); havePendCh = true; }
    void iws(const XMLCh* s, size_t n) { if (!on) return; if (havePendCh) flushText(); pendIw.append(s, n); havePendIw = true; }
    void ev(const std::string& s) { if (!on) return; flushText(); lines.push_back(s); }
    // side-channel lines (errors, resolver calls, hooks): do not break text coalescing
    void side(const std::string& s) { sideLines.push_back(s); }
    std::vector<std::string> sideLines;
    void emitTo(Out& o, const std::string& prefix) {
        flushText();
        for (size_t i = 0; i < lines.size(); i++) o.line(prefix + lines[i]);
        for (size_t i = 0; i < sideLines.size(); i++) o.line(prefix + sideLines[i]);
        lines.clear(); sideLines.clear();
    }
};

struct DomDumpOpts {
    bool ids;          // emit node identity numbers (for domscript)
    bool typeinfo;     // emit schema type info for elements/attrs
    bool lookups;
    std::vector<xstr> lkPrefixes, lkUris;   // arguments for lookupNamespaceURI / lookupPrefix / isDefaultNamespace
    DomDumpOpts() : ids(false), typeinfo(false), lookups(false) {}
};
// Iterative walk of a DOM (sub)tree through public getters only.
void dumpDOM(const xercesc::DOMNode* root, Dump& d, const DomDumpOpts& o = DomDumpOpts());

}  // namespace xv
