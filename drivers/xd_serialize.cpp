// serialize: DOMLSSerializer round trip (property C12) + XMLFormatter table probe.
//
// mode=rt (default).  One DOC step = document bytes, then zero or more TXT steps = DOM edit operations.
//   1. parse (XercesDOMParser), apply the edit operations, dump the tree to serialise          lines  A\t...
//   2. serialise with DOMLSSerializer (DOMErrorHandler installed)                                    DE / W / OUT
//   3. re-parse the produced bytes with a fresh parser, dump                                         P2 / B\t...
//      isEqualNode(original, re-parsed) both ways                                                    EQ
//   4. serialise the re-parsed tree with the same settings, compare the bytes                        W2 / OUT2
// mode=fmt.  Every TXT step is a string; it is formatted by XMLFormatter with every EscapeFlags x UnRepFlags pair.
//
// Everything that decides anything lives in the python checker; this file only executes and records.
#include "xd_dump.hpp"
#include <typeinfo>
#include <cxxabi.h>
#include <unistd.h>
#include <stdexcept>
#include <algorithm>

#include <xercesc/util/PlatformUtils.hpp>
#include <xercesc/util/XMLUni.hpp>
#include <xercesc/util/OutOfMemoryException.hpp>
#include <xercesc/util/TranscodingException.hpp>
#include <xercesc/util/XMLException.hpp>
#include <xercesc/sax/SAXParseException.hpp>
#include <xercesc/sax/SAXException.hpp>
#include <xercesc/sax/ErrorHandler.hpp>
#include <xercesc/sax/EntityResolver.hpp>
#include <xercesc/parsers/XercesDOMParser.hpp>
#include <xercesc/framework/MemBufInputSource.hpp>
#include <xercesc/framework/MemBufFormatTarget.hpp>
#include <xercesc/framework/LocalFileFormatTarget.hpp>
#include <xercesc/framework/XMLFormatter.hpp>
#include <xercesc/dom/DOM.hpp>
#include <xercesc/dom/DOMLSException.hpp>

using namespace xercesc;

namespace xv {
namespace {

static std::string demangleS(const char* n) {
    int st = 0; char* r = abi::__cxa_demangle(n, 0, 0, &st);
    std::string s = (st == 0 && r) ? r : n; free(r);
    size_t p = s.rfind("::"); if (p != std::string::npos) s = s.substr(p + 2);
    return s;
}

// run f, log any exception as "<tag>\texc\t<type>\t<code>"; returns true when nothing was thrown
template <class F> static bool guarded(const std::string& tag, F f) {
    try { f(); return true; }
    catch (const OutOfMemoryException&) { gOut.line(tag + "\texc\tOutOfMemoryException\t0"); }
    catch (const DOMLSException& e) { gOut.line(tag + "\texc\tDOMLSException\t" + itos(e.code)); }
    catch (const DOMException& e) { gOut.line(tag + "\texc\tDOMException\t" + itos(e.code)); }
    catch (const SAXParseException& e) { gOut.line(tag + "\texc\tSAXParseException\t0"); }
    catch (const SAXException& e) { gOut.line(tag + "\texc\tSAXException\t0"); }
    catch (const XMLException& e) { gOut.line(tag + "\texc\t" + esc(e.getType()) + "\t" + itos(e.getCode())); }
    catch (const std::exception& e) { gOut.line(tag + "\texc\t" + demangleS(typeid(e).name()) + "\t0"); }
    catch (...) { gOut.line(tag + "\texc\tunknown\t0"); }
    return false;
}

struct ParseErr { char sev; unsigned int code; std::string dom; XMLFileLoc line, col; };

struct XDomP : public XercesDOMParser, public ErrorHandler, public EntityResolver {
    std::vector<ParseErr> errs; unsigned long nF, nE, nW; const Case* cs; unsigned long served;
    XDomP() : XercesDOMParser(0, XMLPlatformUtils::fgMemoryManager, 0), nF(0), nE(0), nW(0), cs(0), served(0) { setErrorHandler(this); setEntityResolver(this); }
    void error(const unsigned int code, const XMLCh* const dom, const XMLErrorReporter::ErrTypes t, const XMLCh* const txt,
               const XMLCh* const sys, const XMLCh* const pub, const XMLFileLoc l, const XMLFileLoc c) {
        ParseErr e; e.sev = t == XMLErrorReporter::ErrType_Warning ? 'W' : t == XMLErrorReporter::ErrType_Error ? 'E' : 'F';
        e.code = code; e.dom = u8(dom); size_t p = e.dom.rfind('/'); if (p != std::string::npos) e.dom = e.dom.substr(p + 1);
        e.line = l; e.col = c;
        if (errs.size() < 4) errs.push_back(e);
        XercesDOMParser::error(code, dom, t, txt, sys, pub, l, c);
    }
    void warning(const SAXParseException&) { nW++; }
    void error(const SAXParseException&) { nE++; }
    void fatalError(const SAXParseException&) { nF++; }
    void resetErrors() {}
    // external identifiers are answered from the case's ENT table (system id as expanded by the parser against file:///xv/doc.xml, or the
    // bare relative form); anything else gets an empty entity.  Both parses of a case see the same table.
    InputSource* resolveEntity(const XMLCh* const, const XMLCh* const sys) {
        static const XMLByte z[1] = { 0 };
        std::string k = u8(sys);
        if (cs) for (size_t i = 0; i < cs->ents.size(); i++) {
            const std::string& name = cs->ents[i].first;
            if (name == k || name == "file:///xv/" + k) {
                served++;
                return new MemBufInputSource((const XMLByte*)cs->ents[i].second.data(), cs->ents[i].second.size(), sys, false);
            }
        }
        return new MemBufInputSource(z, 0, sys ? sys : XMLUni::fgZeroLenString, false);
    }
};

// status line: <tag>\t<ok|fatal|exc>\t<nW>\t<nE>\t<nF>[\t<sev>:<domain>:<code>:<line>:<col>]*
static bool doParse(XDomP& p, const std::string& data, const Case& c, const std::string& tag, const char* forcedEnc) {
    p.cs = &c;
    p.setDoNamespaces(c.geti("ns", 1) != 0);
    p.setCreateEntityReferenceNodes(c.geti("eref", 0) != 0);
    p.setValidationScheme(XercesDOMParser::Val_Never);
    p.setLoadExternalDTD(true);
    p.setIncludeIgnorableWhitespace(true);
    p.setCreateCommentNodes(true);
    static const XMLCh sysid[] = { 'f', 'i', 'l', 'e', ':', '/', '/', '/', 'x', 'v', '/', 'd', 'o', 'c', '.', 'x', 'm', 'l', 0 };
    MemBufInputSource src((const XMLByte*)data.data(), data.size(), sysid, false);
    xstr fe; if (forcedEnc && *forcedEnc) { fe = u16(forcedEnc); src.setEncoding(fe.c_str()); }
    bool thrown = !guarded(tag, [&]() { p.parse(src); });
    std::string l = tag + "\t" + (thrown ? "exc" : p.nF ? "fatal" : "ok") + "\t" + itos(p.nW) + "\t" + itos(p.nE) + "\t" + itos(p.nF);
    if (p.served) gOut.line(tag + "SRV\t" + itos(p.served));
    for (size_t i = 0; i < p.errs.size(); i++)
        l += std::string("\t") + p.errs[i].sev + ":" + p.errs[i].dom + ":" + itos(p.errs[i].code) + ":" + itos((long long)p.errs[i].line) + ":" + itos((long long)p.errs[i].col);
    gOut.line(l);
    return !thrown && !p.nF && p.getDocument() && p.getDocument()->getDocumentElement();
}

// lengths of Text / CDATA nodes in document order: the division of character data, which the coalescing dump hides
static std::string textShape(const DOMNode* root) {
    std::string o; const DOMNode* n = root; unsigned long budget = 20000000UL;
    if (!root) return o;
    for (;;) {
        if (!budget--) return o + "!";
        short t = n->getNodeType();
        if (t == DOMNode::TEXT_NODE || t == DOMNode::CDATA_SECTION_NODE) {
            if (!o.empty()) o += ',';
            if (t == DOMNode::CDATA_SECTION_NODE) o += 'c';
            o += itos((long long)XMLString::stringLen(n->getNodeValue()));
        } else if (t == DOMNode::ELEMENT_NODE || t == DOMNode::ENTITY_REFERENCE_NODE) {
            if (!o.empty()) o += ',';
            o += t == DOMNode::ELEMENT_NODE ? '<' : '&';
        }
        const DOMNode* ch = (t == DOMNode::ELEMENT_NODE || t == DOMNode::ENTITY_REFERENCE_NODE || t == DOMNode::DOCUMENT_NODE) ? n->getFirstChild() : 0;
        if (ch) { n = ch; continue; }
        for (;;) {
            if (n == root) return o;
            if (n->getNodeType() == DOMNode::ELEMENT_NODE || n->getNodeType() == DOMNode::ENTITY_REFERENCE_NODE) o += ",>";
            const DOMNode* s = n->getNextSibling();
            if (s) { n = s; break; }
            n = n->getParentNode();
            if (!n) return o + "?";
        }
    }
}

static void collectElements(DOMNode* root, std::vector<DOMElement*>& v) {
    DOMNode* n = root; unsigned long budget = 20000000UL;
    if (!root) return;
    for (;;) {
        if (!budget--) return;
        if (n->getNodeType() == DOMNode::ELEMENT_NODE) v.push_back(static_cast<DOMElement*>(n));
        // do not descend into entity references: their content is read-only
        DOMNode* ch = (n->getNodeType() == DOMNode::ELEMENT_NODE || n->getNodeType() == DOMNode::DOCUMENT_NODE) ? n->getFirstChild() : 0;
        if (ch) { n = ch; continue; }
        for (;;) {
            if (n == root) return;
            DOMNode* s = n->getNextSibling();
            if (s) { n = s; break; }
            n = n->getParentNode();
            if (!n) return;
        }
    }
}

static const XMLCh* orNull(const xstr& s, bool isNull) { return isNull ? 0 : s.c_str(); }

// the element created by the most recent el / elns operation of the current case (at=-1 addresses it, so that a script
// can build a chain ancestor -> new child -> new grandchild; an index cannot, it counts in document order)
static DOMElement* gLastCreated = 0;

// One edit operation.  payload = main string argument; options: op, at (element index; -1 = the element created last), name, uri ("~" = null), a2
static void applyOp(DOMDocument* doc, const Step& st, size_t idx) {
    std::map<std::string, std::string>::const_iterator it;
    std::string op = (it = st.opt.find("op")) != st.opt.end() ? it->second : "";
    std::string name = (it = st.opt.find("name")) != st.opt.end() ? it->second : "";
    std::string uri = (it = st.opt.find("uri")) != st.opt.end() ? it->second : "~";
    std::string a2 = (it = st.opt.find("a2")) != st.opt.end() ? it->second : "~";
    long at = (it = st.opt.find("at")) != st.opt.end() ? atol(it->second.c_str()) : 0;
    xstr xname = u16(name), xuri = u16(uri), xa2 = u16(a2), xval = u16(st.payload);
    bool uriNull = uri == "~", a2Null = a2 == "~";
    std::string tag = "OP\t" + itos((long long)idx) + "\t" + op;
    bool ok = guarded(tag, [&]() {
        std::vector<DOMElement*> els; collectElements(doc, els);
        DOMElement* e = els.empty() ? 0 : els[(size_t)(at < 0 ? 0 : at) % els.size()];
        if (at < 0 && gLastCreated && std::find(els.begin(), els.end(), gLastCreated) != els.end()) e = gLastCreated;
        if (op == "rmdoctype") { DOMDocumentType* dt = doc->getDoctype(); if (dt) { doc->removeChild(dt); } return; }
        if (op == "setver") { doc->setXmlVersion(xval.c_str()); return; }
        if (op == "standalone") { doc->setXmlStandalone(st.payload == "1"); return; }
        if (op == "doctype") {
            DOMDocumentType* old = doc->getDoctype(); if (old) doc->removeChild(old);
            DOMDocumentType* dt = doc->getImplementation()->createDocumentType(xname.c_str(), orNull(xuri, uriNull), orNull(xa2, a2Null));
            doc->insertBefore(dt, doc->getDocumentElement());
            return;
        }
        if (op == "doccomment") { doc->appendChild(doc->createComment(xval.c_str())); return; }
        if (op == "docpi") { doc->insertBefore(doc->createProcessingInstruction(xname.c_str(), xval.c_str()), doc->getDocumentElement()); return; }
        if (!e) throw std::runtime_error("no element");
        if (op == "elns") { gLastCreated = doc->createElementNS(orNull(xuri, uriNull), xname.c_str()); e->appendChild(gLastCreated); }
        else if (op == "el") { gLastCreated = doc->createElement(xname.c_str()); e->appendChild(gLastCreated); }
        else if (op == "attns") e->setAttributeNS(orNull(xuri, uriNull), xname.c_str(), xval.c_str());
        else if (op == "att") e->setAttribute(xname.c_str(), xval.c_str());
        else if (op == "rmatt") e->removeAttribute(xname.c_str());
        else if (op == "rmxmlns") {
            // remove every namespace declaration attribute of the element: descendants keep their namespace URIs
            DOMNamedNodeMap* m = e->getAttributes(); std::vector<xstr> names;
            for (XMLSize_t i = 0; m && i < m->getLength(); i++) {
                const XMLCh* n = m->item(i)->getNodeName(); xstr s(n);
                static const XMLCh x5[] = { 'x', 'm', 'l', 'n', 's', 0 };
                if (s == x5 || (s.size() > 6 && s.compare(0, 5, x5) == 0 && s[5] == ':')) names.push_back(s);
            }
            for (size_t i = 0; i < names.size(); i++) e->removeAttribute(names[i].c_str());
        }
        else if (op == "text") {
            DOMNode* last = e->getLastChild();
            if (last && last->getNodeType() == DOMNode::TEXT_NODE) static_cast<DOMText*>(last)->appendData(xval.c_str());
            else e->appendChild(doc->createTextNode(xval.c_str()));
        }
        else if (op == "textnode") e->appendChild(doc->createTextNode(xval.c_str()));
        else if (op == "cdata") e->appendChild(doc->createCDATASection(xval.c_str()));
        else if (op == "comment") e->appendChild(doc->createComment(xval.c_str()));
        else if (op == "pi") e->appendChild(doc->createProcessingInstruction(xname.c_str(), xval.c_str()));
        else if (op == "eref") e->appendChild(doc->createEntityReference(xname.c_str()));
        else if (op == "clear") { while (e->getFirstChild()) e->removeChild(e->getFirstChild()); }
        else throw std::runtime_error("bad op");
    });
    if (ok) gOut.line(tag + "\tok");
}

struct SerErrors : public DOMErrorHandler {
    std::vector<std::string> lines; bool cont; unsigned long nW, nE, nF;
    SerErrors() : cont(true), nW(0), nE(0), nF(0) {}
    bool handleError(const DOMError& e) {
        const char* sev = e.getSeverity() == DOMError::DOM_SEVERITY_WARNING ? "W" : e.getSeverity() == DOMError::DOM_SEVERITY_ERROR ? "E" : "F";
        if (*sev == 'W') nW++; else if (*sev == 'E') nE++; else nF++;
        DOMLocator* l = e.getLocation(); DOMNode* n = l ? l->getRelatedNode() : 0;
        if (lines.size() < 40)
            lines.push_back(std::string("DE\t") + sev + "\t" + (n ? itos(n->getNodeType()) : std::string("~")) + "\t" + (n ? esc(n->getNodeName()) : std::string("~")) +
                            "\t" + esc(e.getType()) + "\t" + esc(e.getMessage()));
        return cont;
    }
};

static const XMLCh* featName(const std::string& k) {
    if (k == "xmldecl") return XMLUni::fgDOMXMLDeclaration;
    if (k == "split") return XMLUni::fgDOMWRTSplitCdataSections;
    if (k == "ddc") return XMLUni::fgDOMWRTDiscardDefaultContent;
    if (k == "bom") return XMLUni::fgDOMWRTBOM;
    if (k == "ents") return XMLUni::fgDOMWRTEntities;
    if (k == "pretty") return XMLUni::fgDOMWRTFormatPrettyPrint;
    return 0;
}

static std::string scratchFile() {
    const char* e = getenv("XV_SCRATCH");
    std::string d = std::string(e ? e : "/var/tmp/xv-scratch");
    std::string cmd = "mkdir -p '" + d + "'";
    static bool made = false; if (!made) { if (system(cmd.c_str())) {} made = true; }
    return d + "/ser" + itos(getpid()) + ".xml";
}

static bool readFile(const std::string& path, std::string& out) {
    FILE* f = fopen(path.c_str(), "rb"); if (!f) return false;
    char buf[65536]; size_t n; out.clear();
    while ((n = fread(buf, 1, sizeof buf, f)) > 0) out.append(buf, n);
    fclose(f); return true;
}

// Serialise `node`; returns true when bytes were obtained (even if the serializer reported failure).
// Lines: <tag>\t<ret 0|1|null>\t<nW>\t<nE>\t<nF>  preceded by DE lines and possibly "<tag>\texc..."
static bool serialise(const DOMNode* node, const Case& c, const std::string& tag, std::string& bytes) {
    bytes.clear();
    static const XMLCh ls[] = { 'L', 'S', 0 };
    DOMImplementation* impl = DOMImplementationRegistry::getDOMImplementation(ls);
    if (!impl) { gOut.line(tag + "\tnoimpl"); return false; }
    DOMLSSerializer* ser = 0; DOMLSOutput* out = 0;
    SerErrors eh; eh.cont = c.geti("hcont", 1) != 0;
    std::string target = c.get("target", "mem");
    std::string ret = "?"; bool have = false; bool thrown = false;
    std::string path;
    {
        ser = impl->createLSSerializer();
        out = impl->createLSOutput();
        DOMConfiguration* cfg = ser->getDomConfig();
        bool cfgOk = guarded(tag + "\tcfg", [&]() {
            cfg->setParameter(XMLUni::fgDOMErrorHandler, (const void*)static_cast<DOMErrorHandler*>(&eh));
            static const char* feats[] = { "xmldecl", "split", "ddc", "bom", "ents", "pretty", 0 };
            for (int i = 0; feats[i]; i++) {
                std::map<std::string, std::string>::const_iterator it = c.opt.find(feats[i]);
                if (it == c.opt.end()) continue;
                cfg->setParameter(featName(feats[i]), it->second != "0");
            }
            std::string nl = c.get("nl", "");
            if (nl == "CR") { static const XMLCh s[] = { 13, 0 }; ser->setNewLine(s); }
            else if (nl == "CRLF") { static const XMLCh s[] = { 13, 10, 0 }; ser->setNewLine(s); }
            else if (nl == "LF") { static const XMLCh s[] = { 10, 0 }; ser->setNewLine(s); }
        });
        xstr enc = u16(c.get("enc", ""));
        if (cfgOk) {
            MemBufFormatTarget* mem = 0; LocalFileFormatTarget* file = 0;
            thrown = !guarded(tag, [&]() {
                if (target == "str") {
                    XMLCh* s = ser->writeToString(node);
                    if (!s) ret = "null";
                    else {
                        ret = "1"; have = true;
                        size_t n = XMLString::stringLen(s);
                        bytes.assign((const char*)s, n * sizeof(XMLCh));   // native (little-endian) UTF-16 code units, no BOM
                        XMLString::release(&s);
                    }
                } else if (target == "uri") {
                    path = scratchFile(); unlink(path.c_str());
                    xstr xp = u16(path);
                    // writeToURI offers no way to choose the encoding: it is taken from the document
                    bool r = ser->writeToURI(node, xp.c_str());
                    ret = r ? "1" : "0";
                } else {
                    if (!enc.empty()) out->setEncoding(enc.c_str());
                    if (target == "file") {
                        path = scratchFile(); unlink(path.c_str());
                        xstr xp = u16(path);
                        file = new LocalFileFormatTarget(xp.c_str());
                        out->setByteStream(file);
                    } else {
                        mem = new MemBufFormatTarget();
                        out->setByteStream(mem);
                    }
                    bool r = ser->write(node, out);
                    ret = r ? "1" : "0";
                }
            });
            if (mem) { bytes.assign((const char*)mem->getRawBuffer(), mem->getLen()); have = true; }
            delete file;   // closes the file
            delete mem;
            if (!path.empty()) { have = readFile(path, bytes); unlink(path.c_str()); }
        }
        out->release(); ser->release();
    }
    for (size_t i = 0; i < eh.lines.size(); i++) gOut.line(eh.lines[i]);
    gOut.line(tag + "\t" + (thrown ? "exc" : ret) + "\t" + itos(eh.nW) + "\t" + itos(eh.nE) + "\t" + itos(eh.nF));
    return have;
}

static DOMNode* pickNode(DOMDocument* doc, const std::string& sub) {
    if (sub.empty() || sub == "doc") return doc;
    if (sub.compare(0, 2, "el") == 0) {
        std::vector<DOMElement*> els; collectElements(doc, els);
        if (els.empty()) return doc;
        return els[(size_t)atol(sub.c_str() + 2) % els.size()];
    }
    return doc;
}

static void dumpTree(const DOMNode* n, const std::string& prefix) {
    Dump d; dumpDOM(n, d); d.emitTo(gOut, prefix);
    gOut.line("TL\t" + prefix.substr(0, 1) + "\t" + textShape(n));
}

static void roundTrip(const Case& c) {
    if (c.steps.empty() || c.steps[0].kind != "DOC") { gOut.line("BADCASE"); return; }
    XDomP p1;
    if (!doParse(p1, c.steps[0].payload, c, "P1", 0)) return;
    DOMDocument* doc = p1.getDocument();
    gLastCreated = 0;
    for (size_t i = 1; i < c.steps.size(); i++) if (c.steps[i].kind == "TXT") applyOp(doc, c.steps[i], i);
    gLastCreated = 0;
    if (c.geti("normalize", 0)) {
        // DOM Level 3 normalizeDocument with namespace fix-up (DOMNormalizer::namespaceFixUp)
        guarded("NORM", [&]() {
            DOMConfiguration* dc = doc->getDOMConfig();
            dc->setParameter(XMLUni::fgDOMNamespaces, true);
            if (c.geti("eref", 0)) dc->setParameter(XMLUni::fgDOMEntities, true);
            dc->setParameter(XMLUni::fgDOMCDATASections, true);
            dc->setParameter(XMLUni::fgDOMComments, true);
            doc->normalizeDocument();
        });
    }
    std::string sub = c.get("sub", "");
    DOMNode* a = pickNode(doc, sub);
    bool whole = a == doc;
    gOut.line(std::string("NODE\t") + (whole ? "doc" : "el") + "\t" + esc(doc->getXmlVersion()) + "\t" + esc(doc->getInputEncoding()) + "\t" + esc(doc->getXmlEncoding()) +
              "\t" + (doc->getXmlStandalone() ? "1" : "0"));
    dumpTree(a, "A\t");
    std::string out1;
    if (!serialise(a, c, "W", out1)) return;
    gOut.line("OUT\t" + hexenc(out1));
    // the re-parse is told the encoding only when the output cannot carry it itself
    std::string forced = c.get("reparse_enc", "");
    XDomP p2;
    if (!doParse(p2, out1, c, "P2", forced.c_str())) return;
    DOMDocument* doc2 = p2.getDocument();
    DOMNode* b = whole ? static_cast<DOMNode*>(doc2) : static_cast<DOMNode*>(doc2->getDocumentElement());
    dumpTree(b, "B\t");
    bool eq1 = false, eq2 = false;
    if (guarded("EQ", [&]() { eq1 = a->isEqualNode(b); eq2 = b->isEqualNode(a); }))
        gOut.line(std::string("EQ\t") + (eq1 ? "1" : "0") + "\t" + (eq2 ? "1" : "0"));
    std::string out2;
    if (!serialise(b, c, "W2", out2)) return;
    if (out2 == out1) gOut.line("OUT2\tsame"); else gOut.line("OUT2\t" + hexenc(out2));
}

// ------------------------------------------------------------------------------------------------
//  XMLFormatter probe
// ------------------------------------------------------------------------------------------------
static void fmtProbe(const Case& c) {
    xstr enc = u16(c.get("enc", "UTF-8")), ver = u16(c.get("ver", "1.0"));
    static const XMLFormatter::EscapeFlags EF[] = { XMLFormatter::NoEscapes, XMLFormatter::StdEscapes, XMLFormatter::AttrEscapes, XMLFormatter::CharEscapes };
    static const char* EFN[] = { "no", "std", "attr", "char" };
    static const XMLFormatter::UnRepFlags UF[] = { XMLFormatter::UnRep_Fail, XMLFormatter::UnRep_CharRef, XMLFormatter::UnRep_Replace };
    static const char* UFN[] = { "fail", "ref", "rep" };
    bool viaOps = c.geti("ops", 0) != 0;
    for (size_t si = 0; si < c.steps.size(); si++) {
        if (c.steps[si].kind != "TXT") continue;
        xstr s = u16(c.steps[si].payload);
        for (int e = 0; e < 4; e++) for (int u = 0; u < 3; u++) {
            std::string tag = "F\t" + itos((long long)si) + "\t" + EFN[e] + "\t" + UFN[u];
            MemBufFormatTarget tgt;
            XMLFormatter* f = 0;
            bool ok = guarded(tag, [&]() {
                if (viaOps) {
                    // state set through the stream operators, string through operator<<
                    f = new XMLFormatter(enc.c_str(), ver.c_str(), &tgt, XMLFormatter::NoEscapes, XMLFormatter::UnRep_Fail);
                    *f << EF[e] << UF[u] << s.c_str();
                } else {
                    f = new XMLFormatter(enc.c_str(), ver.c_str(), &tgt, XMLFormatter::NoEscapes, XMLFormatter::UnRep_Fail);
                    f->formatBuf(s.data(), s.size(), EF[e], UF[u]);
                }
            });
            std::string got((const char*)tgt.getRawBuffer(), tgt.getLen());
            delete f;
            if (ok) gOut.line(tag + "\tok\t" + hexenc(got));
            else gOut.line(tag + "\tpartial\t" + hexenc(got));
        }
    }
}

static void serializeCmd(const Case& c) {
    std::string mode = c.get("mode", "rt");
    try {
        if (mode == "fmt") fmtProbe(c); else roundTrip(c);
    } catch (...) { gOut.line("CMDCATCH"); }
}

static CmdReg r("serialize", serializeCmd);

}  // namespace
}  // namespace xv
