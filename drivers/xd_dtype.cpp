// dtype command (property C09): exercise the schema datatype machinery of the real library on
// (type, facets, value) cases through three independent routes and log what each one answered.
//
//   route 1  DatatypeValidatorFactory built-in / derived validators: validate, compare, getCanonicalRepresentation
//   route 2  XSValue::validate / getCanonicalRepresentation / getActualValue
//   route 3  a SAX2 parse of a tiny instance against a schema (served from memory) + PSVI
//
// The command is a pure recorder: every verdict is decided by the python checker (xvlib/chk/c09.py).
//
// Case layout (all steps are TXT or DOC; the step option k selects the operation):
//   k=type  name=<n> var=R base=<b>   payload = facets  "name\x02value" joined by \x01 (pattern/enumeration may repeat)
//   k=type  name=<n> var=L base=<item>
//   k=type  name=<n> var=U            payload = member names joined by \x01
//   k=v     t=<type> i=<tag>          payload = value (already whitespace-normalised by the monitor)    routes 1 (+2 if x=1)
//   k=m     t=<type> i=<tag>          payload = values joined by \x01: compare() matrix
//   k=schema                          DOC payload = schema document; loaded once into the case's parser
//   k=p     i=<tag>                   DOC payload = instance document: route 3
#include "xd_common.hpp"
#include <list>
#include <xercesc/util/PlatformUtils.hpp>
#include <xercesc/util/XMLUni.hpp>
#include <xercesc/util/XMLException.hpp>
#include <xercesc/util/OutOfMemoryException.hpp>
#include <xercesc/util/KVStringPair.hpp>
#include <xercesc/util/RefHashTableOf.hpp>
#include <xercesc/util/RefArrayVectorOf.hpp>
#include <xercesc/util/RefVectorOf.hpp>
#include <xercesc/validators/datatype/DatatypeValidatorFactory.hpp>
#include <xercesc/validators/datatype/DatatypeValidator.hpp>
#include <xercesc/validators/schema/SchemaSymbols.hpp>
#include <xercesc/validators/common/Grammar.hpp>
#include <xercesc/framework/psvi/XSValue.hpp>
#include <xercesc/framework/psvi/PSVIHandler.hpp>
#include <xercesc/framework/psvi/PSVIElement.hpp>
#include <xercesc/framework/psvi/PSVIAttribute.hpp>
#include <xercesc/framework/psvi/PSVIAttributeList.hpp>
#include <xercesc/framework/psvi/XSSimpleTypeDefinition.hpp>
#include <xercesc/framework/MemBufInputSource.hpp>
#include <xercesc/parsers/SAX2XMLReaderImpl.hpp>
#include <xercesc/sax/ErrorHandler.hpp>
#include <xercesc/sax/SAXParseException.hpp>
#include <xercesc/sax/SAXException.hpp>
#include <xercesc/sax2/DefaultHandler.hpp>

using namespace xercesc;

namespace xv {

static MemoryManager* MM() { return XMLPlatformUtils::fgMemoryManager; }

// nullable string field: "~" = null pointer, otherwise ":" + escaped text (so that a literal "~" or "!..." stays distinguishable)
static std::string sesc(const XMLCh* s) { return s ? ":" + esc(s) : std::string("~"); }

static std::string excName(const XMLException& e) {
    std::string t = u8(e.getType());
    return "X:" + t + ":" + itos((long long)e.getCode());
}

static std::vector<std::string> splitc(const std::string& s, char sep) {
    std::vector<std::string> v; size_t p = 0;
    if (s.empty()) return v;
    for (;;) { size_t q = s.find(sep, p); if (q == std::string::npos) { v.push_back(s.substr(p)); break; } v.push_back(s.substr(p, q - p)); p = q + 1; }
    return v;
}

static const XMLCh* facetKey(const std::string& n) {
    if (n == "length") return SchemaSymbols::fgELT_LENGTH;
    if (n == "minLength") return SchemaSymbols::fgELT_MINLENGTH;
    if (n == "maxLength") return SchemaSymbols::fgELT_MAXLENGTH;
    if (n == "pattern") return SchemaSymbols::fgELT_PATTERN;
    if (n == "whiteSpace") return SchemaSymbols::fgELT_WHITESPACE;
    if (n == "maxInclusive") return SchemaSymbols::fgELT_MAXINCLUSIVE;
    if (n == "maxExclusive") return SchemaSymbols::fgELT_MAXEXCLUSIVE;
    if (n == "minInclusive") return SchemaSymbols::fgELT_MININCLUSIVE;
    if (n == "minExclusive") return SchemaSymbols::fgELT_MINEXCLUSIVE;
    if (n == "totalDigits") return SchemaSymbols::fgELT_TOTALDIGITS;
    if (n == "fractionDigits") return SchemaSymbols::fgELT_FRACTIONDIGITS;
    return 0;
}

struct TypeEnv {
    DatatypeValidatorFactory fac;
    std::list<xstr> names;                              // keys of the user registry must outlive the factory's registry
    std::map<std::string, DatatypeValidator*> user;
    DatatypeValidator* find(const std::string& n) {
        std::map<std::string, DatatypeValidator*>::iterator i = user.find(n);
        if (i != user.end()) return i->second;
        xstr x = u16(n);
        return fac.getDatatypeValidator(x.c_str());     // built-in registry
    }
};

static void defineType(TypeEnv& E, const Step& st) {
    std::map<std::string, std::string>::const_iterator it;
    std::string name = st.opt.count("name") ? st.opt.find("name")->second : "";
    std::string var = st.opt.count("var") ? st.opt.find("var")->second : "R";
    std::string base = st.opt.count("base") ? st.opt.find("base")->second : "";
    E.names.push_back(u16(name));
    const XMLCh* xname = E.names.back().c_str();
    DatatypeValidator* dv = 0;
    std::string res;
    try {
        if (var == "U") {
            std::vector<std::string> ms = splitc(st.payload, '\x01');
            RefVectorOf<DatatypeValidator>* v = new (MM()) RefVectorOf<DatatypeValidator>(4, false, MM());
            bool ok = true;
            for (size_t i = 0; i < ms.size(); i++) { DatatypeValidator* m = E.find(ms[i]); if (!m) { ok = false; break; } v->addElement(m); }
            if (!ok) { delete v; res = "NOBASE"; }
            else dv = E.fac.createDatatypeValidator(xname, v, 0, true, MM());
        } else {
            DatatypeValidator* b = E.find(base);
            if (!b) res = "NOBASE";
            else if (var == "L") dv = E.fac.createDatatypeValidator(xname, b, 0, 0, true, 0, true, MM());
            else {
                RefHashTableOf<KVStringPair>* facets = 0;
                RefArrayVectorOf<XMLCh>* enums = 0;
                xstr pattern; bool sawPattern = false;
                std::vector<std::string> fs = splitc(st.payload, '\x01');
                for (size_t i = 0; i < fs.size(); i++) {
                    size_t p = fs[i].find('\x02');
                    std::string fn = fs[i].substr(0, p), fv = p == std::string::npos ? "" : fs[i].substr(p + 1);
                    xstr xv16 = u16(fv);
                    if (fn == "enumeration") {
                        if (!enums) enums = new (MM()) RefArrayVectorOf<XMLCh>(8, true, MM());
                        enums->addElement(XMLString::replicate(xv16.c_str(), MM()));
                        if (b->getType() == DatatypeValidator::QName)       // TraverseSchema stores (lexical, uri) pairs
                            enums->addElement(XMLString::replicate(st.opt.count("qnuri") ? u16(st.opt.find("qnuri")->second).c_str() : XMLUni::fgZeroLenString, MM()));
                    } else if (fn == "pattern") {
                        // several pattern facets of ONE derivation step are alternatives (XSD Part 2, 4.3.4): same as TraverseSchema
                        if (sawPattern) pattern += XMLCh('|');
                        pattern += xv16; sawPattern = true;
                    } else {
                        const XMLCh* k = facetKey(fn);
                        if (!k) { res = "BADFACET"; continue; }
                        if (!facets) facets = new (MM()) RefHashTableOf<KVStringPair>(29, true, MM());
                        if (facets->containsKey(k)) { res = "DUPFACET"; continue; }
                        facets->put((void*)k, new (MM()) KVStringPair(k, xv16.c_str(), MM()));
                    }
                }
                if (sawPattern) {
                    if (!facets) facets = new (MM()) RefHashTableOf<KVStringPair>(29, true, MM());
                    facets->put((void*)SchemaSymbols::fgELT_PATTERN, new (MM()) KVStringPair(SchemaSymbols::fgELT_PATTERN, pattern.c_str(), MM()));
                }
                dv = E.fac.createDatatypeValidator(xname, b, facets, enums, false, 0, true, MM());
            }
        }
        if (res.empty()) res = dv ? "OK" : "NULL";
    }
    catch (const XMLException& e) { res = excName(e); dv = 0; }
    catch (const OutOfMemoryException&) { res = "OOM"; dv = 0; }
    catch (...) { res = "X:unknown"; dv = 0; }
    if (dv) E.user[name] = dv;
    std::string l = "T\t" + name + "\t" + res;
    if (dv) {
        l += "\tvt=" + itos(dv->getType()) + "\tws=" + itos(dv->getWSFacet()) + "\tord=" + itos((int)dv->getOrdered()) +
             "\tbnd=" + itos(dv->getBounded()) + "\tfin=" + itos(dv->getFinite()) + "\tnum=" + itos(dv->getNumeric());
    }
    gOut.line(l);
}

static std::string doValidate(DatatypeValidator* dv, const XMLCh* s) {
    try { dv->validate(s, 0, MM()); return "OK"; }
    catch (const XMLException& e) { return excName(e); }
    catch (const OutOfMemoryException&) { return "OOM"; }
    catch (...) { return "X:unknown"; }
}
static std::string doCompare(DatatypeValidator* dv, const XMLCh* a, const XMLCh* b) {
    try { return itos(dv->compare(a, b, MM())); }
    catch (const XMLException& e) { return excName(e); }
    catch (const OutOfMemoryException&) { return "OOM"; }
    catch (...) { return "X:unknown"; }
}
// canonical form as a nullable string field (sesc); when the call threw: "~" and *exc = exception
static std::string doCanon(DatatypeValidator* dv, const XMLCh* s, bool toValidate, xstr* keep, std::string* exc) {
    try {
        const XMLCh* c = dv->getCanonicalRepresentation(s, MM(), toValidate);
        std::string r = sesc(c);
        if (c) { if (keep) *keep = c; MM()->deallocate((void*)c); }
        return r;
    }
    catch (const XMLException& e) { if (exc) *exc = excName(e); return "~"; }
    catch (const OutOfMemoryException&) { if (exc) *exc = "OOM"; return "~"; }
    catch (...) { if (exc) *exc = "X:unknown"; return "~"; }
}

static std::string hexbytes(const XMLByte* p, size_t n) {
    static const char* d = "0123456789abcdef"; std::string o;
    for (size_t i = 0; i < n; i++) { o += d[p[i] >> 4]; o += d[p[i] & 15]; }
    return o;
}
static std::string dblbits(double v) { uint64_t u; memcpy(&u, &v, 8); char b[24]; snprintf(b, sizeof b, "%016llx", (unsigned long long)u); return b; }
static std::string fltbits(float v) { uint32_t u; memcpy(&u, &v, 4); char b[16]; snprintf(b, sizeof b, "%08x", u); return b; }

static std::string renderActual(const XSValue* v, XSValue::DataType dt, const xstr& content) {
    if (!v) return "~";
    const XSValue::XSValue_Data& D = v->fData;
    char b[160];
    switch (dt) {
    case XSValue::dt_boolean: return D.fValue.f_bool ? "b:1" : "b:0";
    case XSValue::dt_decimal: return "dec:" + dblbits(D.fValue.f_decimal.f_dvalue);
    case XSValue::dt_float: return "f:" + itos(D.fValue.f_floatType.f_floatEnum) + ":" + fltbits(D.fValue.f_floatType.f_float);
    case XSValue::dt_double: return "d:" + itos(D.fValue.f_doubleType.f_doubleEnum) + ":" + dblbits(D.fValue.f_doubleType.f_double);
    case XSValue::dt_integer: case XSValue::dt_nonPositiveInteger: case XSValue::dt_negativeInteger: case XSValue::dt_long:
        snprintf(b, sizeof b, "i:%lld", (long long)D.fValue.f_long); return b;
    case XSValue::dt_nonNegativeInteger: case XSValue::dt_positiveInteger:
        // the implementation stores these through f_long (from an unsigned parse): show the 64 bits as unsigned
        snprintf(b, sizeof b, "i:%llu", (unsigned long long)D.fValue.f_long); return b;
    case XSValue::dt_unsignedLong: snprintf(b, sizeof b, "i:%llu", (unsigned long long)D.fValue.f_ulong); return b;
    case XSValue::dt_int: snprintf(b, sizeof b, "i:%d", (int)D.fValue.f_int); return b;
    case XSValue::dt_short: snprintf(b, sizeof b, "i:%d", (int)D.fValue.f_short); return b;
    case XSValue::dt_byte: snprintf(b, sizeof b, "i:%d", (int)D.fValue.f_char); return b;
    case XSValue::dt_unsignedInt: snprintf(b, sizeof b, "i:%u", (unsigned)D.fValue.f_uint); return b;
    case XSValue::dt_unsignedShort: snprintf(b, sizeof b, "i:%u", (unsigned)D.fValue.f_ushort); return b;
    case XSValue::dt_unsignedByte: snprintf(b, sizeof b, "i:%u", (unsigned)D.fValue.f_uchar); return b;
    case XSValue::dt_duration: case XSValue::dt_dateTime: case XSValue::dt_time: case XSValue::dt_date: case XSValue::dt_gYearMonth:
    case XSValue::dt_gYear: case XSValue::dt_gMonthDay: case XSValue::dt_gDay: case XSValue::dt_gMonth:
        snprintf(b, sizeof b, "dt:%d:%d:%d:%d:%d:%d:", D.fValue.f_datetime.f_year, D.fValue.f_datetime.f_month, D.fValue.f_datetime.f_day,
                 D.fValue.f_datetime.f_hour, D.fValue.f_datetime.f_min, D.fValue.f_datetime.f_second);
        return std::string(b) + dblbits(D.fValue.f_datetime.f_milisec);
    case XSValue::dt_hexBinary: {
        size_t n = 0; for (size_t i = 0; i < content.size(); i++) { XMLCh c = content[i]; if (!(c == 0x20 || c == 9 || c == 10 || c == 13)) n++; }
        return "bin:" + hexbytes(D.fValue.f_byteVal, n / 2);
    }
    case XSValue::dt_base64Binary: {
        size_t n = 0; for (size_t i = 0; i < content.size(); i++) { XMLCh c = content[i]; if ((c >= 'A' && c <= 'Z') || (c >= 'a' && c <= 'z') || (c >= '0' && c <= '9') || c == '+' || c == '/') n++; }
        return "bin:" + hexbytes(D.fValue.f_byteVal, n * 6 / 8);
    }
    default: return "?";
    }
}

static void valueStep(TypeEnv& E, const Step& st) {
    std::string t = st.opt.count("t") ? st.opt.find("t")->second : "";
    std::string tag = st.opt.count("i") ? st.opt.find("i")->second : "";
    bool wantX = st.opt.count("x") && st.opt.find("x")->second == "1";
    bool noCanon = st.opt.count("nc") && st.opt.find("nc")->second == "1";   // validate/compare only (see notes/C09.md: crash-prone canonical forms are sampled)
    xstr v = u16(st.payload);
    DatatypeValidator* dv = E.find(t);
    if (!dv) { gOut.line("V\t" + tag + "\tNOTYPE"); }
    else {
        std::string r1 = doValidate(dv, v.c_str());
        std::string l = "V\t" + tag + "\t" + r1;
        // canonical form, asked both ways (validating / trusting the caller)
        xstr canon;
        std::string cx;
        std::string c1 = noCanon ? std::string("skipped") : doCanon(dv, v.c_str(), true, &canon, &cx);
        l += "\tcv=" + c1;
        if (!cx.empty()) l += "\tcvx=" + cx;
        if (r1 == "OK" && noCanon) l += "\tself=" + doCompare(dv, v.c_str(), v.c_str());
        else if (r1 == "OK") {
            std::string cx0, cx2;
            std::string c0 = doCanon(dv, v.c_str(), false, 0, &cx0);
            l += "\tcn=" + c0;
            if (!cx0.empty()) l += "\tcnx=" + cx0;
            l += "\tself=" + doCompare(dv, v.c_str(), v.c_str());
            if (c1 != "~") {
                l += "\tvc=" + doValidate(dv, canon.c_str());
                l += "\tcmp=" + doCompare(dv, v.c_str(), canon.c_str());
                l += "\tcmpr=" + doCompare(dv, canon.c_str(), v.c_str());
                l += "\tcc=" + doCanon(dv, canon.c_str(), true, 0, &cx2);
                if (!cx2.empty()) l += "\tccx=" + cx2;
            }
        }
        gOut.line(l);
    }
    if (wantX) {
        xstr tn = u16(t);
        XSValue::DataType dt = XSValue::getDataType(tn.c_str());
        if (dt == XSValue::dt_MAXCOUNT) { gOut.line("X\t" + tag + "\tNOTYPE"); return; }
        std::string l = "X\t" + tag;
        try {
            XSValue::Status s1 = XSValue::st_Init, s2 = XSValue::st_Init, s3 = XSValue::st_Init, s4 = XSValue::st_Init;
            bool ok = XSValue::validate(v.c_str(), dt, s1, XSValue::ver_10, MM());
            l += std::string("\t") + (ok ? "1" : "0") + "\tst=" + itos(s1);
            XMLCh* c = noCanon ? 0 : XSValue::getCanonicalRepresentation(v.c_str(), dt, s2, XSValue::ver_10, true, MM());
            if (noCanon) s2 = XSValue::st_NoCanRep;
            l += "\tcan=" + sesc(c) + "\tcst=" + itos(s2);
            if (c) {
                // idempotence and validity of XSValue's own canonical form
                XSValue::Status s5 = XSValue::st_Init, s6 = XSValue::st_Init;
                bool okc = XSValue::validate(c, dt, s5, XSValue::ver_10, MM());
                XMLCh* c2 = XSValue::getCanonicalRepresentation(c, dt, s6, XSValue::ver_10, true, MM());
                l += std::string("\tcanv=") + (okc ? "1" : "0") + "\tcan2=" + sesc(c2);
                if (c2) MM()->deallocate(c2);
                MM()->deallocate(c);
            }
            XSValue* a = XSValue::getActualValue(v.c_str(), dt, s3, XSValue::ver_10, true, MM());
            l += "\tact=" + renderActual(a, dt, v) + "\tast=" + itos(s3);
            delete a;
            (void)s4;
        }
        catch (const XMLException& e) { l += "\tTHROW=" + excName(e); }
        catch (const OutOfMemoryException&) { l += "\tTHROW=OOM"; }
        catch (...) { l += "\tTHROW=unknown"; }
        gOut.line(l);
    }
}

static void matrixStep(TypeEnv& E, const Step& st) {
    std::string t = st.opt.count("t") ? st.opt.find("t")->second : "";
    std::string tag = st.opt.count("i") ? st.opt.find("i")->second : "";
    DatatypeValidator* dv = E.find(t);
    if (!dv) { gOut.line("M\t" + tag + "\tNOTYPE"); return; }
    std::vector<std::string> vs = splitc(st.payload, '\x01');
    if (st.payload.empty()) vs.clear();
    std::vector<xstr> xs; for (size_t i = 0; i < vs.size(); i++) xs.push_back(u16(vs[i]));
    std::string val = "MV\t" + tag;
    for (size_t i = 0; i < xs.size(); i++) val += "\t" + std::string(doValidate(dv, xs[i].c_str()) == "OK" ? "1" : "0");
    gOut.line(val);
    for (size_t i = 0; i < xs.size(); i++) {
        std::string l = "M\t" + tag + "\t" + itos((long long)i);
        for (size_t j = 0; j < xs.size(); j++) l += "\t" + doCompare(dv, xs[i].c_str(), xs[j].c_str());
        gOut.line(l);
    }
}

// ---- route 3 --------------------------------------------------------------------------------------
struct PRec : public DefaultHandler, public PSVIHandler {
    std::vector<std::string> lines;
    void add(const char* sev, const SAXParseException&) { (void)sev; }
    void warning(const SAXParseException&) {}
    void error(const SAXParseException&) {}
    void fatalError(const SAXParseException&) {}
    void resetErrors() {}
    static std::string item(PSVIItem* it) {
        std::string s = "val=" + itos((int)it->getValidity()) + "\tatt=" + itos((int)it->getValidationAttempted());
        s += "\tnorm=" + sesc(it->getSchemaNormalizedValue());
        s += "\tcan=" + sesc(it->getCanonicalRepresentation());
        XSSimpleTypeDefinition* m = 0;
        try { m = it->getMemberTypeDefinition(); } catch (...) {}
        s += "\tmem=" + (m ? esc(m->getName()) : std::string("~"));
        return s;
    }
    void handleElementPSVI(const XMLCh* const ln, const XMLCh* const, PSVIElement* e) {
        try { lines.push_back("PE\t" + esc(ln) + "\t" + item(e)); } catch (...) { lines.push_back("PE\t" + esc(ln) + "\tTHROW"); }
    }
    void handleAttributesPSVI(const XMLCh* const ln, const XMLCh* const, PSVIAttributeList* al) {
        try {
            for (XMLSize_t i = 0; i < al->getLength(); i++)
                lines.push_back("PA\t" + esc(al->getAttributeNameAtIndex(i)) + "\t" + item(al->getAttributePSVIAtIndex(i)));
        } catch (...) { lines.push_back("PA\t" + esc(ln) + "\tTHROW"); }
    }
};

struct XReader : public SAX2XMLReaderImpl {
    PRec* rec;
    XReader() : SAX2XMLReaderImpl(MM(), 0), rec(0) {}
    void error(const unsigned int code, const XMLCh* const dom, const XMLErrorReporter::ErrTypes t, const XMLCh* const txt,
               const XMLCh* const sys, const XMLCh* const pub, const XMLFileLoc l, const XMLFileLoc c) {
        const char* sev = t == XMLErrorReporter::ErrType_Warning ? "W" : t == XMLErrorReporter::ErrType_Error ? "E" : "F";
        std::string ds = u8(dom); size_t p = ds.rfind('/'); if (p != std::string::npos) ds = ds.substr(p + 1);
        if (rec) rec->lines.push_back(std::string("ERR\t") + sev + "\t" + ds + "\t" + itos(code));
        SAX2XMLReaderImpl::error(code, dom, t, txt, sys, pub, l, c);
    }
};

struct ParseEnv {
    XReader* rd; PRec rec; bool loaded;
    ParseEnv() : rd(0), loaded(false) {}
    ~ParseEnv() { delete rd; }
    void make() {
        rd = new XReader(); rd->rec = &rec;
        rd->setErrorHandler(&rec); rd->setContentHandler(&rec); rd->setPSVIHandler(&rec);
        rd->setFeature(XMLUni::fgSAX2CoreNameSpaces, true);
        rd->setFeature(XMLUni::fgSAX2CoreValidation, true);
        rd->setFeature(XMLUni::fgXercesDynamic, false);
        rd->setFeature(XMLUni::fgXercesSchema, true);
        rd->setFeature(XMLUni::fgXercesSchemaFullChecking, true);
        rd->setFeature(XMLUni::fgXercesLoadExternalDTD, false);
        rd->setFeature(XMLUni::fgXercesUseCachedGrammarInParse, true);
    }
    void flush(const std::string& head) {
        gOut.line(head);
        for (size_t i = 0; i < rec.lines.size(); i++) gOut.line(rec.lines[i]);
        rec.lines.clear();
    }
};

static void schemaStep(ParseEnv& P, const Step& st) {
    if (!P.rd) P.make();
    std::string res = "OK";
    try {
        static const XMLCh sid[] = { 'x', 'v', ':', 's', 'c', 'h', 'e', 'm', 'a', 0 };
        MemBufInputSource src((const XMLByte*)st.payload.data(), st.payload.size(), sid, false, MM());
        Grammar* g = P.rd->loadGrammar(src, Grammar::SchemaGrammarType, true);
        if (!g) res = "NOGRAMMAR";
        P.loaded = true;
    }
    catch (const XMLException& e) { res = excName(e); }
    catch (const SAXException& e) { res = "X:SAXException"; }
    catch (const OutOfMemoryException&) { res = "OOM"; }
    catch (...) { res = "X:unknown"; }
    P.flush("SCH\t" + res);
}

static void parseStep(ParseEnv& P, const Step& st) {
    std::string tag = st.opt.count("i") ? st.opt.find("i")->second : "";
    if (!P.rd) P.make();
    std::string res = "OK";
    try {
        static const XMLCh sid[] = { 'x', 'v', ':', 'd', 'o', 'c', 0 };
        MemBufInputSource src((const XMLByte*)st.payload.data(), st.payload.size(), sid, false, MM());
        P.rd->parse(src);
    }
    catch (const XMLException& e) { res = excName(e); }
    catch (const SAXParseException&) { res = "X:SAXParseException"; }
    catch (const SAXException&) { res = "X:SAXException"; }
    catch (const OutOfMemoryException&) { res = "OOM"; }
    catch (...) { res = "X:unknown"; }
    P.flush("P\t" + tag + "\t" + res);
}

static void cmdDtype(const Case& c) {
    ParseEnv P;                       // destroyed after the type environment (independent objects)
    {
        TypeEnv E;
        for (size_t i = 0; i < c.steps.size(); i++) {
            const Step& st = c.steps[i];
            std::string k = st.opt.count("k") ? st.opt.find("k")->second : "";
            // step marker, flushed before the step runs: a crash is attributable to one step, the rest of the case is re-run
            gOut.line("S\t" + itos((long long)i)); gOut.flush();
            try {
                if (k == "type") defineType(E, st);
                else if (k == "v") valueStep(E, st);
                else if (k == "m") matrixStep(E, st);
                else if (k == "schema") schemaStep(P, st);
                else if (k == "p") parseStep(P, st);
                else gOut.line("BADSTEP\t" + k);
            }
            catch (const XMLException& e) { gOut.line("STEPTHROW\t" + k + "\t" + excName(e)); }
            catch (const OutOfMemoryException&) { gOut.line("STEPTHROW\t" + k + "\tOOM"); }
            catch (...) { gOut.line("STEPTHROW\t" + k + "\tunknown"); }
        }
    }
}

static CmdReg regDtype("dtype", cmdDtype);

}  // namespace xv
