// xd_regex: command `regex` -- one regular expression per case (property C11).
//
//   CASE <id> regex v=<opts0>,<opts1>,...      option strings of the variants to compile (first = main), e.g. v=X,XFH
//   TXT  <pattern>                             step 0: the expression
//   TXT  <string> [w=a:b] [t=1]                test strings, in the order in which they must be matched;
//                                              w: window in UTF-16 units, t: also allMatches/tokenize/replace (variant 0)
//
// Log lines (per case):
//   C  <variant> <opts> ok | rej <type> <code> | xml <type> <code> | foreign <what>
//   M  <step> <r...>                 pass 1, given order:   matches(s) / matches(s,a,b)             one char per variant
//   N  <step> <r,st,en ...>          pass 2, reverse order: matches(s,&Match) / matches(s,a,b,&m)   result,start0,end0
//   R  <step> <r...>                 pass 3, given order again: matches(s)
//        r: 1 match, 0 no match, - variant not compiled, x XMLException, f foreign exception
//   A  <step> <st:en ...>            allMatches on variant 0   (AX <step> <type> <code> on exception)
//   T  <step> <n> <tok>...           tokenize                  (TX ...)
//   P  <step> <replaced>             replace with "<$0>"       (PX ...)
// The monitor keeps all test data in its own containers; conversions do not use the library's transcoders.
#include "xd_common.hpp"
#include <xercesc/util/regx/RegularExpression.hpp>
#include <xercesc/util/regx/Match.hpp>
#include <xercesc/util/XMLException.hpp>
#include <xercesc/util/OutOfMemoryException.hpp>
#include <xercesc/util/RefVectorOf.hpp>
#include <xercesc/util/RefArrayVectorOf.hpp>
#include <xercesc/util/PlatformUtils.hpp>

using namespace xercesc;

namespace xv {

static std::vector<std::string> splitc(const std::string& s, char sep) {
    std::vector<std::string> v; size_t p = 0;
    for (;;) { size_t q = s.find(sep, p); if (q == std::string::npos) { v.push_back(s.substr(p)); break; } v.push_back(s.substr(p, q - p)); p = q + 1; }
    return v;
}

struct Var {
    std::string opts;
    RegularExpression* re;
    Var() : re(0) {}
};

struct Str {
    xstr s;
    bool win; size_t a, b;
    bool tok;
};

static std::string excLine(const XMLException& e) { return esc(e.getType()) + "\t" + itos((long long)e.getCode()); }

static char doMatch(RegularExpression* re, const Str& t, Match* m) {
    if (!re) return '-';
    try {
        bool r;
        if (t.win) r = m ? re->matches(t.s.c_str(), t.a, t.b, m) : re->matches(t.s.c_str(), t.a, t.b);
        else r = m ? re->matches(t.s.c_str(), m) : re->matches(t.s.c_str());
        return r ? '1' : '0';
    } catch (const XMLException&) { return 'x'; }
    catch (const OutOfMemoryException&) { return 'f'; }
    catch (...) { return 'f'; }
}

static void cmdRegex(const Case& c) {
    if (c.steps.empty()) { gOut.line("BADCASE\tno pattern"); return; }
    std::vector<Var> vars;
    {
        std::vector<std::string> vo = splitc(c.get("v", "X"), ',');
        for (size_t i = 0; i < vo.size(); i++) { Var v; v.opts = vo[i]; vars.push_back(v); }
    }
    const xstr pat = u16(c.steps[0].payload);
    std::vector<Str> strs;
    for (size_t i = 1; i < c.steps.size(); i++) {
        Str t; t.s = u16(c.steps[i].payload); t.win = false; t.a = t.b = 0; t.tok = false;
        std::map<std::string, std::string>::const_iterator w = c.steps[i].opt.find("w");
        if (w != c.steps[i].opt.end()) {
            size_t k = w->second.find(':');
            if (k != std::string::npos) { t.win = true; t.a = (size_t)atol(w->second.c_str()); t.b = (size_t)atol(w->second.c_str() + k + 1); }
            if (t.a > t.b || t.b > t.s.size()) t.win = false;     // the monitor never passes an invalid window
        }
        t.tok = c.steps[i].opt.count("t") != 0;
        strs.push_back(t);
    }

    // ---- compile every variant --------------------------------------------------------------------
    for (size_t i = 0; i < vars.size(); i++) {
        std::string head = "C\t" + itos((long long)i) + "\t" + (vars[i].opts.empty() ? std::string("~") : vars[i].opts) + "\t";
        const xstr o = u16(vars[i].opts);
        try {
            vars[i].re = new RegularExpression(pat.c_str(), o.c_str());
            gOut.line(head + "ok");
        } catch (const XMLException& e) {
            std::string ty = esc(e.getType());
            gOut.line(head + (ty == "ParseException" ? "rej\t" : "xml\t") + excLine(e));
        } catch (const OutOfMemoryException&) {
            gOut.line(head + "foreign\tOutOfMemoryException");
        } catch (int v) {
            gOut.line(head + "foreign\tint:" + itos(v));
        } catch (unsigned v) {
            gOut.line(head + "foreign\tunsigned:" + itos((long long)v));
        } catch (const std::exception& e) {
            gOut.line(head + "foreign\tstd:" + pctenc(e.what()));
        } catch (...) {
            // RegxParser throws a bare enumerator (XMLErrs::Codes) for an unpaired surrogate
            gOut.line(head + "foreign\tunknown");
        }
    }
    gOut.flush();

    bool any = false;
    for (size_t i = 0; i < vars.size(); i++) if (vars[i].re) any = true;

    if (any) {
        const size_t n = strs.size();
        // ---- pass 1: given order, matches(s) ------------------------------------------------------
        for (size_t k = 0; k < n; k++) {
            std::string l = "M\t" + itos((long long)(k + 1)) + "\t";
            for (size_t i = 0; i < vars.size(); i++) l += doMatch(vars[i].re, strs[k], 0);
            gOut.line(l);
        }
        // ---- pass 2: reverse order, with a Match object ---------------------------------------------
        for (size_t kk = n; kk > 0; kk--) {
            size_t k = kk - 1;
            std::string l = "N\t" + itos((long long)(k + 1));
            for (size_t i = 0; i < vars.size(); i++) {
                l += '\t';
                if (!vars[i].re) { l += "-"; continue; }
                Match m;
                char r = doMatch(vars[i].re, strs[k], &m);
                l += r;
                if (r == '1') {
                    try { l += "," + itos(m.getStartPos(0)) + "," + itos(m.getEndPos(0)); }
                    catch (const XMLException& e) { l += ",x,x"; }
                }
            }
            gOut.line(l);
        }
        // ---- pass 3: given order again --------------------------------------------------------------
        for (size_t k = 0; k < n; k++) {
            std::string l = "R\t" + itos((long long)(k + 1)) + "\t";
            for (size_t i = 0; i < vars.size(); i++) l += doMatch(vars[i].re, strs[k], 0);
            gOut.line(l);
        }
        // ---- allMatches / tokenize / replace on variant 0 -------------------------------------------
        RegularExpression* re = vars[0].re;
        if (re) {
            static const XMLCh repl[] = { '<', '$', '0', '>', 0 };
            for (size_t k = 0; k < n; k++) {
                if (!strs[k].tok || strs[k].win) continue;
                const xstr& s = strs[k].s;
                std::string ks = itos((long long)(k + 1));
                bool nullable = true;
                try { nullable = re->matches(XMLUni::fgZeroLenString); } catch (...) { nullable = true; }
                if (!nullable) {
                    // allMatches does not terminate for an expression that matches the empty string: guarded above
                    try {
                        RefVectorOf<Match> sub(10, true, XMLPlatformUtils::fgMemoryManager);
                        re->allMatches(s.c_str(), 0, s.size(), &sub);
                        std::string l = "A\t" + ks + "\t";
                        for (XMLSize_t j = 0; j < sub.size(); j++) {
                            if (j) l += ' ';
                            l += itos(sub.elementAt(j)->getStartPos(0)) + ":" + itos(sub.elementAt(j)->getEndPos(0));
                        }
                        gOut.line(l);
                    } catch (const XMLException& e) { gOut.line("AX\t" + ks + "\t" + excLine(e)); }
                    catch (...) { gOut.line("AX\t" + ks + "\tforeign\t0"); }
                } else gOut.line("A\t" + ks + "\tnullable");
                try {
                    RefArrayVectorOf<XMLCh>* tk = re->tokenize(s.c_str());
                    std::string l = "T\t" + ks + "\t" + itos((long long)tk->size());
                    for (XMLSize_t j = 0; j < tk->size(); j++) l += "\t" + esc(tk->elementAt(j));
                    delete tk;
                    gOut.line(l);
                } catch (const XMLException& e) { gOut.line("TX\t" + ks + "\t" + excLine(e)); }
                catch (...) { gOut.line("TX\t" + ks + "\tforeign\t0"); }
                try {
                    XMLCh* r = re->replace(s.c_str(), repl);
                    gOut.line("P\t" + ks + "\t" + esc(r));
                    XMLPlatformUtils::fgMemoryManager->deallocate(r);
                } catch (const XMLException& e) { gOut.line("PX\t" + ks + "\t" + excLine(e)); }
                catch (...) { gOut.line("PX\t" + ks + "\tforeign\t0"); }
            }
        }
    }
    for (size_t i = 0; i < vars.size(); i++) { delete vars[i].re; vars[i].re = 0; }
}

static CmdReg regRegex("regex", cmdRegex);

}  // namespace xv
