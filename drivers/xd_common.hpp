// Shared helpers for the xvdrive batch driver (monitor side: nothing here is part of xerces-c).
#pragma once
#include <string>
#include <vector>
#include <map>
#include <cstdio>
#include <cstdlib>
#include <cstring>
#include <cstdint>
#include <atomic>
#include <xercesc/util/XercesDefs.hpp>
#include <xercesc/util/XMLString.hpp>

namespace xv {


typedef std::basic_string<XMLCh> xstr;

// ---- case description -------------------------------------------------------------------------
struct Step {
    std::string payload;                       // decoded bytes (DOC) or raw text
    std::map<std::string, std::string> opt;    // per-step overrides
    std::string kind;                          // STEP keyword variant
};
struct Case {
    std::string id, cmd;
    std::map<std::string, std::string> opt;
    std::vector<std::pair<std::string, std::string> > ents;   // systemId -> bytes
    std::vector<Step> steps;
    std::string get(const std::string& k, const std::string& d = "") const {
        std::map<std::string, std::string>::const_iterator i = opt.find(k);
        return i == opt.end() ? d : i->second;
    }
    long geti(const std::string& k, long d = 0) const {
        std::map<std::string, std::string>::const_iterator i = opt.find(k);
        return i == opt.end() ? d : atol(i->second.c_str());
    }
};

// ---- output -----------------------------------------------------------------------------------
struct Out {
    FILE* f;
    std::string buf;
    Out() : f(stdout) {}
    void line(const std::string& s) { buf += s; buf += '\n'; if (buf.size() > (1u << 16)) flush(); }
    void flush() { if (!buf.empty()) { fwrite(buf.data(), 1, buf.size(), f); buf.clear(); } fflush(f); }
};
extern Out gOut;

// ---- string helpers ---------------------------------------------------------------------------
std::string hexdec(const std::string& h);
std::string hexenc(const std::string& b);
std::string pctdec(const std::string& s);
// escape arbitrary bytes so that they contain no TAB/LF/CR/'%' and no control characters
std::string pctenc(const std::string& s);
// UTF-16 (XMLCh*) -> escaped UTF-8; lone surrogates become %uXXXX.  Null pointer -> "~" (distinct from empty "")
std::string esc(const XMLCh* s);
std::string esc(const XMLCh* s, size_t n);
std::string escx(const xstr& s);
// UTF-8 -> UTF-16 (monitor-side, independent of the library's transcoders)
xstr u16(const std::string& utf8);
std::string u8(const XMLCh* s);
std::string itos(long long v);

// ---- hook counters (thread-local, reset per step) -----------------------------------------------
struct HookCounters {
    unsigned long rawRefresh, charRefresh, entityPush, entityPushDecl, maxDepth, mutexLocks, lazy;
    void reset() { memset(this, 0, sizeof(*this)); }
};
extern thread_local HookCounters tlHooks;
void installCountingHook();

// command entry points (each in its own xd_*.cpp)
typedef void (*CmdFn)(const Case&);
void registerCmd(const char* name, CmdFn fn);
struct CmdReg { CmdReg(const char* n, CmdFn f) { registerCmd(n, f); } };

}  // namespace xv
