// xcode command (property C05): drives XMLTranscoder objects obtained the way users get them
// (XMLPlatformUtils::fgTransService->makeNewTranscoderFor) and XMLRecognizer::basicEncodingProbe.
//
// Everything in this file is monitor code.  In particular the reference decoders/encoders below
// (UTF-8 per Unicode Table 3-7, UTF-16, UCS-4, 256-entry tables handed in by the python side) are
// written for the check and share nothing with the library.  The big enumerations run here, next to the
// library, and only counts plus the first mismatches are logged.
//
// modes (option mode=...):
//   u8sweep   all byte sequences of a given length / lead-byte range through transcodeFrom, bare and padded,
//             optionally behind a prefix and at every split position x maxChars 1..4
//   cpsweep   every code point of a range: transcodeTo (several maxBytes), canTranscodeTo, transcodeFrom back
//   sbsweep   single-byte page against a 256-entry table (both directions, both UnRep options, canTranscodeTo)
//   icurt     ICU-backed encodings: decode(encode(x)) == x for representable x + split invariance
//   str       one byte string / unit string, full result logged (python reference decides)
//   names     alias -> transcoder class
//   probe     XMLRecognizer::basicEncodingProbe on given bytes, or on a BOM followed by all 65536 byte pairs
#include "xd_common.hpp"
#include <typeinfo>
#include <cxxabi.h>
#include <algorithm>
#include <xercesc/util/PlatformUtils.hpp>
#include <xercesc/util/TransService.hpp>
#include <xercesc/util/XMLException.hpp>
#include <xercesc/util/OutOfMemoryException.hpp>
#include <xercesc/framework/XMLRecognizer.hpp>

#if defined(__SANITIZE_ADDRESS__)
#  define XV_ASAN 1
#elif defined(__has_feature)
#  if __has_feature(address_sanitizer)
#    define XV_ASAN 1
#  endif
#endif
#ifdef XV_ASAN
#  include <sanitizer/asan_interface.h>
#  define XV_POISON(p, n) __asan_poison_memory_region((p), (n))
#  define XV_UNPOISON(p, n) __asan_unpoison_memory_region((p), (n))
#else
#  define XV_POISON(p, n) ((void)0)
#  define XV_UNPOISON(p, n) ((void)0)
#endif

using namespace xercesc;

namespace xv {
namespace {

const size_t CAPU = 2048;      // max units / bytes handled per test string
const size_t BLOCK = 1024;     // blockSize given to makeNewTranscoderFor; maxChars never exceeds it

std::string demangle(const char* n) {
    int st = 0; char* r = abi::__cxa_demangle(n, 0, 0, &st);
    std::string s = (st == 0 && r) ? r : n; free(r);
    size_t p = s.rfind("::"); if (p != std::string::npos) s = s.substr(p + 2);
    return s;
}
std::string hex2(unsigned v) { char b[8]; snprintf(b, sizeof b, "%02X", v & 0xFF); return b; }
std::string hex4(unsigned v) { char b[12]; snprintf(b, sizeof b, "%04X", v); return b; }
std::string hexBytes(const XMLByte* p, size_t n) { std::string s; for (size_t i = 0; i < n; i++) s += hex2(p[i]); return s; }
std::string hexUnits(const XMLCh* p, size_t n) { std::string s; for (size_t i = 0; i < n; i++) { if (i) s += ' '; s += hex4(p[i]); } return s; }

// ---- guarded buffers -----------------------------------------------------------------------------
// Source data is copied to the start of an aligned heap block whose tail is poisoned: a transcoder that
// reads past srcCount is reported by ASan.  Output buffers are heap blocks of exactly the advertised size.
template <class T> struct Guarded {
    T* p; size_t cap;
    explicit Guarded(size_t units) : cap(units) { void* q = 0; if (posix_memalign(&q, 16, cap * sizeof(T) + 16)) abort(); p = (T*)q; }
    ~Guarded() { XV_UNPOISON(p, cap * sizeof(T) + 16); free(p); }
    void load(const T* s, size_t n) {
        XV_UNPOISON(p, cap * sizeof(T) + 16);
        if (n) memcpy(p, s, n * sizeof(T));
        XV_POISON(p + n, (cap - n) * sizeof(T) + 16);
    }
};
template <class T> struct ExactBufs {
    std::vector<T*> v;
    ~ExactBufs() { for (size_t i = 0; i < v.size(); i++) delete[] v[i]; }
    T* get(size_t n) { if (n >= v.size()) v.resize(n + 1, (T*)0); if (!v[n]) v[n] = new T[n ? n : 1]; return v[n]; }
};

struct Bufs {
    Guarded<XMLByte> srcB; Guarded<XMLCh> srcU;
    ExactBufs<XMLCh> outU; ExactBufs<unsigned char> outS; ExactBufs<XMLByte> outB;
    Bufs() : srcB(CAPU), srcU(CAPU) {}
};

// ---- transcoder factory ---------------------------------------------------------------------------
XMLTranscoder* mk(const std::string& name, int* code = 0) {
    XMLTransService::Codes rc = XMLTransService::Ok;
    xstr n = u16(name);
    XMLTranscoder* t = 0;
    try { t = XMLPlatformUtils::fgTransService->makeNewTranscoderFor(n.c_str(), rc, BLOCK, XMLPlatformUtils::fgMemoryManager); }
    catch (...) { t = 0; rc = XMLTransService::InternalFailure; }
    if (code) *code = (int)rc;
    return t;
}

// ---- reference codecs (monitor) --------------------------------------------------------------------
enum Kind { K_UTF8, K_U16LE, K_U16BE, K_UCS4LE, K_UCS4BE, K_TABLE, K_NONE };
Kind kindOf(const std::string& s) {
    if (s == "utf8") return K_UTF8; if (s == "utf16le") return K_U16LE; if (s == "utf16be") return K_U16BE;
    if (s == "ucs4le") return K_UCS4LE; if (s == "ucs4be") return K_UCS4BE; if (s == "table") return K_TABLE; return K_NONE;
}
enum { R_OK = 0, R_ERR = 1, R_TRUNC = 2 };
struct Ref {
    XMLCh out[CAPU]; unsigned char sz[CAPU]; size_t n; int status; size_t at; const char* cls;
    void put(unsigned long cp, unsigned char len) {
        if (cp >= 0x10000) { cp -= 0x10000; out[n] = XMLCh(0xD800 + (cp >> 10)); sz[n++] = len; out[n] = XMLCh(0xDC00 + (cp & 0x3FF)); sz[n++] = 0; }
        else { out[n] = XMLCh(cp); sz[n++] = len; }
    }
};
// Unicode Table 3-7, one row per lead-byte class
struct U8Row { unsigned char lo, hi, len, b2lo, b2hi; };
const U8Row kU8Rows[] = {
    { 0x00, 0x7F, 1, 0x00, 0x00 }, { 0xC2, 0xDF, 2, 0x80, 0xBF }, { 0xE0, 0xE0, 3, 0xA0, 0xBF }, { 0xE1, 0xEC, 3, 0x80, 0xBF },
    { 0xED, 0xED, 3, 0x80, 0x9F }, { 0xEE, 0xEF, 3, 0x80, 0xBF }, { 0xF0, 0xF0, 4, 0x90, 0xBF }, { 0xF1, 0xF3, 4, 0x80, 0xBF },
    { 0xF4, 0xF4, 4, 0x80, 0x8F },
};
const U8Row* u8Row(unsigned char b) {
    for (size_t i = 0; i < sizeof(kU8Rows) / sizeof(kU8Rows[0]); i++) if (b >= kU8Rows[i].lo && b <= kU8Rows[i].hi) return &kU8Rows[i];
    return 0;
}
const U8Row* gU8Lead[256];
struct U8Init { U8Init() { for (int b = 0; b < 256; b++) gU8Lead[b] = u8Row((unsigned char)b); } } gU8Init;
unsigned u8GenericLen(unsigned char lead) { return lead < 0xC0 ? 1 : lead < 0xE0 ? 2 : lead < 0xF0 ? 3 : lead < 0xF8 ? 4 : lead < 0xFC ? 5 : 6; }
const char* u8Class(const XMLByte* s, size_t n, size_t at) {
    unsigned char b0 = s[at];
    if (b0 >= 0x80 && b0 <= 0xBF) return "lone-continuation";
    if (b0 == 0xC0 || b0 == 0xC1) return "overlong2";
    if (b0 >= 0xF5) return "lead-F5-FF";
    const U8Row* r = gU8Lead[b0];
    if (at + 1 < n) {
        unsigned char b1 = s[at + 1];
        if (!(b1 >= r->b2lo && b1 <= r->b2hi) && b1 >= 0x80 && b1 <= 0xBF) {
            if (b0 == 0xE0) return "overlong3"; if (b0 == 0xED) return "surrogate"; if (b0 == 0xF0) return "overlong4"; if (b0 == 0xF4) return "above-10FFFF";
        }
    }
    return "bad-continuation";
}
void refDecode(Kind k, const long* table, const XMLByte* s, size_t n, Ref& r) {
    r.n = 0; r.status = R_OK; r.at = 0; r.cls = "";
    size_t p = 0;
    if (k == K_UTF8) {
        while (p < n) {
            const U8Row* row = gU8Lead[s[p]];
            if (!row) { r.status = R_ERR; r.at = p; r.cls = u8Class(s, n, p); return; }
            unsigned long cp = row->len == 1 ? s[p] : (s[p] & (0x7F >> row->len));
            for (unsigned j = 1; j < row->len; j++) {
                if (p + j >= n) { r.status = R_TRUNC; r.at = p; return; }
                unsigned char b = s[p + j], lo = j == 1 ? row->b2lo : 0x80, hi = j == 1 ? row->b2hi : 0xBF;
                if (b < lo || b > hi) { r.status = R_ERR; r.at = p; r.cls = u8Class(s, n, p); return; }
                cp = (cp << 6) | (b & 0x3F);
            }
            r.put(cp, row->len); p += row->len;
        }
    } else if (k == K_U16LE || k == K_U16BE) {
        for (; p + 1 < n; p += 2) { r.out[r.n] = XMLCh(k == K_U16BE ? (s[p] << 8 | s[p + 1]) : (s[p + 1] << 8 | s[p])); r.sz[r.n++] = 2; }
        if (p < n) { r.status = R_TRUNC; r.at = p; return; }
    } else if (k == K_UCS4LE || k == K_UCS4BE) {
        for (; p + 3 < n; p += 4) {
            unsigned long v = k == K_UCS4BE ? ((unsigned long)s[p] << 24 | s[p + 1] << 16 | s[p + 2] << 8 | s[p + 3])
                                            : ((unsigned long)s[p + 3] << 24 | s[p + 2] << 16 | s[p + 1] << 8 | s[p]);
            if (v > 0x10FFFF) { r.status = R_ERR; r.at = p; r.cls = "above-10FFFF"; return; }
            if (v >= 0xD800 && v < 0xE000) { r.status = R_ERR; r.at = p; r.cls = "surrogate"; return; }
            r.put(v, 4);
        }
        if (p < n) { r.status = R_TRUNC; r.at = p; return; }
    } else {
        for (; p < n; p++) {
            long cp = table[s[p]];
            if (cp < 0) { r.status = R_ERR; r.at = p; r.cls = "undefined-byte"; return; }
            r.out[r.n] = XMLCh(cp); r.sz[r.n++] = 1;
        }
    }
    r.at = n;
}
// reference encoding of one scalar value
size_t refEncodeCp(Kind k, unsigned long cp, XMLByte* o) {
    switch (k) {
        case K_UTF8:
            if (cp < 0x80) { o[0] = XMLByte(cp); return 1; }
            if (cp < 0x800) { o[0] = XMLByte(0xC0 | (cp >> 6)); o[1] = XMLByte(0x80 | (cp & 63)); return 2; }
            if (cp < 0x10000) { o[0] = XMLByte(0xE0 | (cp >> 12)); o[1] = XMLByte(0x80 | ((cp >> 6) & 63)); o[2] = XMLByte(0x80 | (cp & 63)); return 3; }
            o[0] = XMLByte(0xF0 | (cp >> 18)); o[1] = XMLByte(0x80 | ((cp >> 12) & 63)); o[2] = XMLByte(0x80 | ((cp >> 6) & 63)); o[3] = XMLByte(0x80 | (cp & 63)); return 4;
        case K_U16LE: case K_U16BE: {
            unsigned u[2]; size_t nu = 1;
            if (cp >= 0x10000) { unsigned long c = cp - 0x10000; u[0] = 0xD800 + (c >> 10); u[1] = 0xDC00 + (c & 0x3FF); nu = 2; } else u[0] = (unsigned)cp;
            for (size_t i = 0; i < nu; i++) { if (k == K_U16BE) { o[2 * i] = XMLByte(u[i] >> 8); o[2 * i + 1] = XMLByte(u[i]); } else { o[2 * i + 1] = XMLByte(u[i] >> 8); o[2 * i] = XMLByte(u[i]); } }
            return nu * 2; }
        case K_UCS4BE: o[0] = XMLByte(cp >> 24); o[1] = XMLByte(cp >> 16); o[2] = XMLByte(cp >> 8); o[3] = XMLByte(cp); return 4;
        case K_UCS4LE: o[3] = XMLByte(cp >> 24); o[2] = XMLByte(cp >> 16); o[1] = XMLByte(cp >> 8); o[0] = XMLByte(cp); return 4;
        default: return 0;
    }
}

// ---- driving the library ---------------------------------------------------------------------------
enum { L_OK = 0, L_EXC = 1, L_STALL = 2, L_BROKEN = 3 };
const char* stName(int s) { return s == L_OK ? "ok" : s == L_EXC ? "exc" : s == L_STALL ? "stall" : "broken"; }
struct Run {
    XMLCh out[CAPU]; unsigned char sz[CAPU]; size_t n;     // decode: units + sizes
    XMLByte bytes[CAPU * 4]; size_t nb;                      // encode: bytes
    int status; size_t pos; unsigned calls; std::string exc; const char* bad; bool sizeSumBad;
    void reset() { n = 0; nb = 0; status = L_OK; pos = 0; calls = 0; exc.clear(); bad = 0; sizeSumBad = false; }
};
std::string excName(const XMLException& e) { return u8(e.getType()) + ":" + itos(e.getCode()); }

// Feed src[0..n) to transcodeFrom.  First only src[0..split) is offered; when the transcoder makes no progress the
// rest becomes available (a block boundary at `split`).  Each call may produce at most maxChars units.
void libDecode(XMLTranscoder* t, const XMLByte* src, size_t n, size_t split, size_t maxChars, Run& r, Bufs& B) {
    r.reset();
    size_t wend = split < n ? split : n, mc = maxChars;
    while (r.pos < n) {
        size_t avail = wend - r.pos;
        XMLCh* ob = B.outU.get(mc); unsigned char* zb = B.outS.get(mc);
        memset(zb, 0xEE, mc);
        B.srcB.load(src + r.pos, avail);
        XMLSize_t eaten = 0, got = 0;
        try { got = t->transcodeFrom(B.srcB.p, avail, ob, mc, eaten, zb); }
        catch (const OutOfMemoryException&) { r.status = L_EXC; r.exc = "OutOfMemoryException:0"; return; }
        catch (const XMLException& e) { r.status = L_EXC; r.exc = excName(e); return; }
        catch (...) { r.status = L_EXC; r.exc = "FOREIGN:0"; return; }
        r.calls++;
        if (got > mc || eaten > avail) { r.status = L_BROKEN; r.bad = got > mc ? "more-chars-than-maxChars" : "bytesEaten-exceeds-srcCount"; return; }
        if (got == 0 && eaten == 0) {
            if (wend < n) { wend = n; continue; }
            if (mc < 2) { mc = 2; continue; }          // a surrogate pair needs room for two units
            r.status = L_STALL; return;
        }
        if (r.n + got > CAPU || r.calls > 8 * CAPU) { r.status = L_BROKEN; r.bad = "no-termination"; return; }
        size_t sum = 0;
        for (size_t i = 0; i < got; i++) { r.out[r.n] = ob[i]; r.sz[r.n++] = zb[i]; sum += zb[i]; }
        if (sum != eaten) r.sizeSumBad = true;
        r.pos += eaten; mc = maxChars;
    }
}
void libEncode(XMLTranscoder* t, const XMLCh* src, size_t n, size_t split, size_t maxBytes, XMLTranscoder::UnRepOpts opt, Run& r, Bufs& B) {
    r.reset();
    size_t wend = split < n ? split : n, mb = maxBytes;
    while (r.pos < n) {
        size_t avail = wend - r.pos;
        XMLByte* ob = B.outB.get(mb);
        B.srcU.load(src + r.pos, avail);
        XMLSize_t eaten = 0, got = 0;
        try { got = t->transcodeTo(B.srcU.p, avail, ob, mb, eaten, opt); }
        catch (const OutOfMemoryException&) { r.status = L_EXC; r.exc = "OutOfMemoryException:0"; return; }
        catch (const XMLException& e) { r.status = L_EXC; r.exc = excName(e); return; }
        catch (...) { r.status = L_EXC; r.exc = "FOREIGN:0"; return; }
        r.calls++;
        if (got > mb || eaten > avail) { r.status = L_BROKEN; r.bad = got > mb ? "more-bytes-than-maxBytes" : "charsEaten-exceeds-srcCount"; return; }
        if (got == 0 && eaten == 0) {
            if (wend < n) { wend = n; continue; }
            if (mb < 8) { mb = 8; continue; }          // room for the longest single character
            r.status = L_STALL; return;
        }
        if (r.nb + got > sizeof(r.bytes) || r.calls > 8 * CAPU) { r.status = L_BROKEN; r.bad = "no-termination"; return; }
        memcpy(r.bytes + r.nb, ob, got); r.nb += got;
        r.pos += eaten; mb = maxBytes;
    }
}

// compare a decode run with the reference; returns 0 or a short mismatch kind
const char* cmpDecode(const Ref& R, const Run& L, const XMLByte* src, size_t n, Kind k, bool judgeSizes) {
    if (L.status == L_BROKEN) return L.bad;
    bool prefix = L.n <= R.n && memcmp(L.out, R.out, L.n * sizeof(XMLCh)) == 0;
    if (R.status == R_OK) {
        if (L.status == L_EXC) return "rejected-wellformed";
        if (L.status == L_STALL) return "stalled-wellformed";
        if (L.n != R.n || !prefix) return "wrong-chars";
        if (L.pos != n) return "bytes-eaten";
        if (judgeSizes && (L.sizeSumBad || memcmp(L.sz, R.sz, R.n))) return "char-sizes";
        return 0;
    }
    if (!prefix) return L.n > R.n && memcmp(L.out, R.out, R.n * sizeof(XMLCh)) == 0 ? (R.status == R_ERR ? "accepted-illformed" : "decoded-truncated") : "wrong-chars";
    if (R.status == R_ERR) {
        if (L.status == L_EXC) return 0;
        if (L.status == L_STALL) {
            // the tail is ill-formed but shorter than the length its lead byte announces: "need more input" is legitimate
            if (k == K_UTF8 && L.pos == R.at && n - R.at < u8GenericLen(src[R.at])) return 0;
            return "stalled-illformed";
        }
        return "skipped-illformed";     // everything eaten, no exception, the ill-formed bytes produced nothing
    }
    // truncated but so far well-formed
    if (L.status == L_STALL) return (L.pos == R.at && L.n == R.n) ? (judgeSizes && (L.sizeSumBad || memcmp(L.sz, R.sz, R.n)) ? "char-sizes" : 0) : "bytes-eaten";
    if (L.status == L_EXC) return "rejected-incomplete";
    return "decoded-truncated";
}

struct Tally {
    std::map<std::string, unsigned long> kinds; std::vector<std::string> first; unsigned long runs, seqs; size_t keep;
    std::map<std::string, unsigned long> exc; unsigned long rOk, rErr, rTrunc;
    std::map<std::string, unsigned long> excByClass;     // "<class of ill-formedness>\t<exception type:code>" (unsplit runs)
    Tally() : runs(0), seqs(0), keep(12), rOk(0), rErr(0), rTrunc(0), lastTick(0) {}
    // progress: the runner's watchdog wants to see the log grow while a long enumeration is running
    unsigned long lastTick;
    void tick() { if (runs - lastTick >= 100000) { lastTick = runs; gOut.line("T\t" + itos(runs)); gOut.flush(); } }
    // count a mismatch; true when its details should be logged (the first three of each kind)
    bool hit(const std::string& kind) { unsigned long& c = kinds[kind]; c++; return c <= 3 && first.size() < keep * 4; }
    void detail(const std::string& kind, const std::string& d) { first.push_back("M\t" + kind + "\t" + d); }
    void emit() {
        gOut.line("N\tseqs=" + itos(seqs) + "\truns=" + itos(runs) + "\tref_ok=" + itos(rOk) + "\tref_err=" + itos(rErr) + "\tref_trunc=" + itos(rTrunc));
        for (std::map<std::string, unsigned long>::iterator i = exc.begin(); i != exc.end(); ++i) gOut.line("X\t" + i->first + "\t" + itos(i->second));
        for (std::map<std::string, unsigned long>::iterator i = excByClass.begin(); i != excByClass.end(); ++i) gOut.line("XC\t" + i->first + "\t" + itos(i->second));
        for (std::map<std::string, unsigned long>::iterator i = kinds.begin(); i != kinds.end(); ++i) gOut.line("K\t" + i->first + "\t" + itos(i->second));
        for (size_t i = 0; i < first.size(); i++) gOut.line(first[i]);
    }
};
#define XV_MIS(T, KIND, DETAIL) do { std::string k_ = (KIND); if ((T).hit(k_)) (T).detail(k_, (DETAIL)); } while (0)
std::string runDesc(const Run& L) {
    return std::string(stName(L.status)) + (L.exc.empty() ? "" : "(" + L.exc + ")") + " pos=" + itos(L.pos) + " units=[" + hexUnits(L.out, L.n) + "] sizes=[" + hexBytes(L.sz, L.n) + "]";
}
std::string refDesc(const Ref& R) {
    return std::string(R.status == R_OK ? "ok" : R.status == R_ERR ? "err" : "trunc") + " at=" + itos(R.at) + " units=[" + hexUnits(R.out, R.n) + "] sizes=[" + hexBytes(R.sz, R.n) + "]";
}

struct Lcg { unsigned long long s; explicit Lcg(unsigned long long seed) : s(seed * 2862933555777941757ULL + 3037000493ULL) {} unsigned next() { s = s * 6364136223846793005ULL + 1442695040888963407ULL; return (unsigned)(s >> 33); } };

// ---- u8sweep ---------------------------------------------------------------------------------------
// One byte string through the reference and the library (unsplit, then optionally all splits x maxChars 1..4).
struct SweepCtx { XMLTranscoder* t; Kind k; Bufs* B; Tally* T; Ref R; Run L; bool splits; size_t splitLo, splitHi; size_t mcMain; bool judgeSizes; };
void sweepOne(SweepCtx& c, const XMLByte* s, size_t n, const char* variant) {
    refDecode(c.k, 0, s, n, c.R);
    if (c.R.status == R_OK) c.T->rOk++; else if (c.R.status == R_ERR) c.T->rErr++; else c.T->rTrunc++;
    libDecode(c.t, s, n, n, c.mcMain, c.L, *c.B); c.T->runs++;
    if (c.L.status == L_EXC) { c.T->exc[c.L.exc]++; if (c.R.status == R_ERR) c.T->excByClass[std::string(c.R.cls) + "\t" + c.L.exc]++; }
    const char* m = cmpDecode(c.R, c.L, s, n, c.k, c.judgeSizes);
    if (m) XV_MIS(*c.T, std::string(m) + ":" + (c.R.status == R_ERR ? c.R.cls : c.R.status == R_TRUNC ? "truncated" : "wellformed"),
                         hexBytes(s, n) + "\t" + variant + " split=- maxChars=" + itos(c.mcMain) + "\texp=" + refDesc(c.R) + "\tobs=" + runDesc(c.L));
    if (!c.splits) return;
    size_t hi = c.splitHi < n ? c.splitHi : n - 1;
    for (size_t sp = c.splitLo; sp <= hi; sp++)
        for (size_t mc = 1; mc <= 4; mc++) {
            libDecode(c.t, s, n, sp, mc, c.L, *c.B); c.T->runs++;
            const char* m2 = cmpDecode(c.R, c.L, s, n, c.k, c.judgeSizes);
            if (m2) XV_MIS(*c.T, std::string(m2) + ":" + (c.R.status == R_ERR ? c.R.cls : c.R.status == R_TRUNC ? "truncated" : "wellformed") + ":split",
                                  hexBytes(s, n) + "\t" + variant + " split=" + itos(sp) + " maxChars=" + itos(mc) + "\texp=" + refDesc(c.R) + "\tobs=" + runDesc(c.L));
        }
}
void modeU8Sweep(const Case& cs) {
    std::string enc = cs.get("enc", "UTF-8");
    XMLTranscoder* t = mk(enc);
    if (!t) { gOut.line("NOTRANS\t" + enc); return; }
    {
        Bufs B; Tally T; SweepCtx c; c.t = t; c.k = K_UTF8; c.B = &B; c.T = &T; c.judgeSizes = true;
        long len = cs.geti("len", 3), b0lo = cs.geti("b0lo", 0), b0hi = cs.geti("b0hi", 255), b1lo = cs.geti("b1lo", 0), b1hi = cs.geti("b1hi", 255);
        long pre = cs.geti("pre", 0), sample = cs.geti("sample", 0);   // sample>0 (len 4): boundary pairs + that many random (b2,b3) pairs
        bool bare = cs.geti("bare", 1) != 0, padded = cs.geti("pad", 1) != 0;
        c.splits = cs.geti("splits", 0) != 0; c.mcMain = (size_t)cs.geti("mc", 64);
        Lcg rng((unsigned long long)cs.geti("seed", 1));
        static const unsigned char kEdge[] = { 0x00, 0x7F, 0x80, 0x8F, 0x90, 0x9F, 0xA0, 0xBF, 0xC0, 0xFF };
        XMLByte buf[128]; memset(buf, 'a', sizeof buf);
        static const XMLByte kPad[5] = { 'A', 'A', 'A', 'A', 'A' };
        std::vector<unsigned> tails;     // (b2<<8|b3) for len 4, b2 for len 3
        std::vector<bool> seen; bool edges = cs.geti("edges", 1) != 0;
        for (long b0 = b0lo; b0 <= b0hi; b0++) {
            for (long b1 = (len >= 2 ? b1lo : 0); b1 <= (len >= 2 ? b1hi : 0); b1++) {
                tails.clear();
                if (len <= 2) tails.push_back(0);
                else if (len == 3) for (unsigned x = 0; x < 256; x++) tails.push_back(x);
                else if (sample <= 0) for (unsigned x = 0; x < 65536; x++) tails.push_back(x);
                else {
                    // boundary pairs + `sample` random pairs, without repetition (every sequence of a sweep is distinct)
                    seen.assign(65536, false);
                    if (edges) for (size_t i = 0; i < sizeof kEdge; i++) for (size_t j = 0; j < sizeof kEdge; j++) { unsigned x = kEdge[i] << 8 | kEdge[j]; if (!seen[x]) { seen[x] = true; tails.push_back(x); } }
                    for (long i = 0; i < sample; i++) { unsigned x = rng.next() & 0xFFFF; while (seen[x]) x = (x + 1) & 0xFFFF; seen[x] = true; tails.push_back(x); }
                }
                for (size_t ti = 0; ti < tails.size(); ti++) {
                    XMLByte* s = buf + pre;
                    s[0] = XMLByte(b0); if (len >= 2) s[1] = XMLByte(b1);
                    if (len == 3) s[2] = XMLByte(tails[ti]); else if (len == 4) { s[2] = XMLByte(tails[ti] >> 8); s[3] = XMLByte(tails[ti]); }
                    T.seqs++; T.tick();
                    c.splitLo = pre > 1 ? (size_t)pre : 1; c.splitHi = (size_t)(pre + len);
                    if (bare) { bool sv = c.splits; c.splits = sv && !padded; sweepOne(c, buf, pre + len, "bare"); c.splits = sv; }
                    if (padded) { memcpy(s + len, kPad, 5); sweepOne(c, buf, pre + len + 5, "padded"); memset(s + len, 'a', 5); }
                }
            }
        }
        T.emit();
    }
    delete t;
}

// ---- cpsweep ---------------------------------------------------------------------------------------
void modeCpSweep(const Case& cs) {
    std::string enc = cs.get("enc"); Kind k = kindOf(cs.get("kind"));
    XMLTranscoder* t = mk(enc);
    if (!t || k == K_NONE || k == K_TABLE) { gOut.line("NOTRANS\t" + enc); delete t; return; }
    {
        Bufs B; Tally T; Run L; Ref R;
        unsigned long lo = (unsigned long)cs.geti("lo", 0), hi = (unsigned long)cs.geti("hi", 0x110000), canBad = 0;
        static const size_t kMB[] = { 64, 1, 2, 3, 4, 5, 7 };
        static const size_t kMC[] = { 64, 1, 2, 3 };
        for (unsigned long cp = lo; cp < hi; cp++) {
            if (cp >= 0xD800 && cp < 0xE000) continue;
            T.seqs++; T.tick();
            XMLCh u[2]; size_t nu = 1;
            if (cp >= 0x10000) { unsigned long c = cp - 0x10000; u[0] = XMLCh(0xD800 + (c >> 10)); u[1] = XMLCh(0xDC00 + (c & 0x3FF)); nu = 2; } else u[0] = XMLCh(cp);
            XMLByte eb[8]; size_t en = refEncodeCp(k, cp, eb);
            for (size_t i = 0; i < sizeof kMB / sizeof kMB[0]; i++) {
                libEncode(t, u, nu, nu, kMB[i], XMLTranscoder::UnRep_Throw, L, B); T.runs++;
                if (L.status != L_OK || L.nb != en || memcmp(L.bytes, eb, en) || L.pos != nu)
                    XV_MIS(T, std::string("to:") + (L.status == L_EXC ? "rejected-representable" : L.status == L_OK ? "wrong-bytes" : stName(L.status)) + (cp >= 0x10000 ? ":supplementary" : ":bmp"),
                               "U+" + hex4(cp) + "\tmaxBytes=" + itos(kMB[i]) + "\texp=" + hexBytes(eb, en) + "\tobs=" + stName(L.status) + (L.exc.empty() ? "" : "(" + L.exc + ")") + " eaten=" + itos(L.pos) + " bytes=" + hexBytes(L.bytes, L.nb));
            }
            bool can = false; try { can = t->canTranscodeTo((unsigned int)cp); } catch (...) {}
            if (!can) { canBad++; XV_MIS(T, "canto:false-for-representable", "U+" + hex4(cp) + "\t\texp=true\tobs=false"); }
            refDecode(k, 0, eb, en, R);
            for (size_t i = 0; i < sizeof kMC / sizeof kMC[0]; i++) {
                libDecode(t, eb, en, en, kMC[i], L, B); T.runs++;
                const char* m = cmpDecode(R, L, eb, en, k, true);
                if (m) XV_MIS(T, std::string("from:") + m + (cp >= 0x10000 ? ":supplementary" : ":bmp"), "U+" + hex4(cp) + "\tbytes=" + hexBytes(eb, en) + " maxChars=" + itos(kMC[i]) + "\texp=" + refDesc(R) + "\tobs=" + runDesc(L));
            }
            if (en > 1) for (size_t sp = 1; sp < en; sp++) {       // the code point split over two blocks
                libDecode(t, eb, en, sp, 2, L, B); T.runs++;
                const char* m = cmpDecode(R, L, eb, en, k, true);
                if (m) XV_MIS(T, std::string("from:") + m + ":split", "U+" + hex4(cp) + "\tbytes=" + hexBytes(eb, en) + " split=" + itos(sp) + "\texp=" + refDesc(R) + "\tobs=" + runDesc(L));
            }
        }
        T.emit();
    }
    delete t;
}

// ---- sbsweep ---------------------------------------------------------------------------------------
// TXT step 0: 256 comma separated entries: hex code point, '-' (no mapping: a decoder must reject the byte),
// '?' (not judged).  Option ucps: comma separated hex code points whose encoding is not judged.
// Option icu=1: only code points of the table are judged in the encode direction (ICU knows more mappings).
void modeSbSweep(const Case& cs) {
    std::string enc = cs.get("enc"); bool icu = cs.geti("icu", 0) != 0;
    if (cs.steps.empty()) { gOut.line("BADCASE\tno table"); return; }
    long table[256]; bool judged[256]; int ti = 0;
    { const std::string& p = cs.steps[0].payload; size_t a = 0;
      while (ti < 256) { size_t b = p.find(',', a); std::string tok = p.substr(a, b == std::string::npos ? std::string::npos : b - a);
        judged[ti] = tok != "?"; table[ti] = (tok == "-" || tok == "?" || tok.empty()) ? -1 : strtol(tok.c_str(), 0, 16); ti++;
        if (b == std::string::npos) break; a = b + 1; } }
    if (ti != 256) { gOut.line("BADCASE\ttable has " + itos(ti) + " entries"); return; }
    std::vector<bool> skipCp(0x110000, false);
    { std::string u = cs.get("ucps"); size_t a = 0; while (a < u.size()) { size_t b = u.find(',', a); std::string tok = u.substr(a, b == std::string::npos ? std::string::npos : b - a); if (!tok.empty()) skipCp[strtoul(tok.c_str(), 0, 16) % 0x110000] = true; if (b == std::string::npos) break; a = b + 1; } }
    std::vector<bool> bestFit(0x110000, false);
    { std::string u = cs.get("bf"); size_t a = 0; while (a < u.size()) { size_t b = u.find(',', a); std::string tok = u.substr(a, b == std::string::npos ? std::string::npos : b - a); if (!tok.empty()) bestFit[strtoul(tok.c_str(), 0, 16) % 0x110000] = true; if (b == std::string::npos) break; a = b + 1; } }
    bool dumpBf = cs.geti("dumpbf", 0) != 0;
    std::vector<int> inv(0x110000, -1);
    for (int b = 255; b >= 0; b--) if (table[b] >= 0) inv[table[b]] = b;
    XMLTranscoder* t = mk(enc);
    if (!t) { gOut.line("NOTRANS\t" + enc); return; }
    gOut.line("CLASS\t" + demangle(typeid(*t).name()));
    {
        Bufs B; Tally T; Run L; Ref R; unsigned long undecided = 0;
        // A. every byte on its own
        for (int b = 0; b < 256; b++) {
            XMLByte s[1] = { XMLByte(b) };
            libDecode(t, s, 1, 1, 4, L, B); T.runs++; T.seqs++;
            if (L.status == L_EXC) { T.exc[L.exc]++; if (icu) { delete t; t = mk(enc); } }
            if (!judged[b]) { undecided++; gOut.line("UND\tfrom\t" + hex2(b) + "\t" + runDesc(L)); continue; }
            refDecode(K_TABLE, table, s, 1, R);
            const char* m = cmpDecode(R, L, s, 1, K_TABLE, !icu);
            if (m) XV_MIS(T, std::string("from:") + m, hex2(b) + "\t\texp=" + refDesc(R) + "\tobs=" + runDesc(L));
        }
        // B. all judged+defined bytes as one string, every split x maxChars
        { XMLByte s[256]; size_t n = 0; for (int b = 0; b < 256; b++) if (judged[b] && table[b] >= 0) s[n++] = XMLByte(b);
          refDecode(K_TABLE, table, s, n, R);
          static const size_t kMC[] = { 1, 2, 3, 4, 300 };
          for (size_t sp = 0; sp <= n; sp += (icu ? 7 : 1)) for (size_t i = 0; i < 5; i++) {
              if (icu) { delete t; t = mk(enc); if (!t) break; }
              libDecode(t, s, n, sp, kMC[i], L, B); T.runs++;
              const char* m = cmpDecode(R, L, s, n, K_TABLE, !icu);
              if (m) XV_MIS(T, std::string("from:") + m + ":string", "all-bytes\tsplit=" + itos(sp) + " maxChars=" + itos(kMC[i]) + "\texp=" + refDesc(R).substr(0, 60) + "\tobs=" + runDesc(L).substr(0, 200));
          } }
        if (!t) { gOut.line("NOTRANS\t" + enc); return; }
        // C. every BMP code point (+ a few supplementary) -> byte, both UnRep options; lone surrogates
        std::map<unsigned, unsigned long> repBytes;
        for (unsigned long cp = 0; cp < 0x10000 + 3; cp++) {
            unsigned long c = cp < 0x10000 ? cp : cp == 0x10000 ? 0x10000UL : cp == 0x10001 ? 0x1F600UL : 0x10FFFFUL;
            T.tick();
            if (skipCp[c]) { undecided++; continue; }
            XMLCh u[2]; size_t nu = 1; bool sur = c >= 0xD800 && c < 0xE000;
            if (sur && c != 0xD800 && c != 0xDBFF && c != 0xDC00 && c != 0xDFFF) continue;
            if (c >= 0x10000) { unsigned long d = c - 0x10000; u[0] = XMLCh(0xD800 + (d >> 10)); u[1] = XMLCh(0xDC00 + (d & 0x3FF)); nu = 2; } else u[0] = XMLCh(c);
            int eb = sur ? -1 : inv[c];
            if (icu && eb < 0) continue;
            const char* cls = c == 0 ? ":nul" : sur ? ":lone-surrogate" : bestFit[c] ? ":bestfit" : "";
            libEncode(t, u, nu, nu, 16, XMLTranscoder::UnRep_Throw, L, B); T.runs++; T.seqs++;
            if (L.status == L_EXC) T.exc[L.exc]++;
            if (eb >= 0) {
                if (L.status != L_OK || L.nb != 1 || L.bytes[0] != eb || L.pos != nu)
                    XV_MIS(T, std::string("to:") + (L.status == L_EXC ? "rejected-representable" : L.status == L_OK ? "wrong-byte" : stName(L.status)) + cls,
                               "U+" + hex4(c) + "\tthrow\texp=" + hex2(eb) + "\tobs=" + stName(L.status) + (L.exc.empty() ? "" : "(" + L.exc + ")") + " bytes=" + hexBytes(L.bytes, L.nb));
            } else {
                // a lone high surrogate at the very end may also legitimately wait for its partner (stall)
                bool okStall = sur && c < 0xDC00 && L.status == L_STALL;
                if (dumpBf && L.status == L_OK && L.nb == 1) gOut.line("BF\t" + hex4(c) + "\t" + hex2(L.bytes[0]));
                if (L.status != L_EXC && !okStall)
                    XV_MIS(T, std::string("to:unrepresentable-not-reported") + cls, "U+" + hex4(c) + "\tthrow\texp=exception\tobs=" + stName(L.status) + " bytes=" + hexBytes(L.bytes, L.nb));
            }
            if (icu) continue;
            libEncode(t, u, nu, nu, 16, XMLTranscoder::UnRep_RepChar, L, B); T.runs++;
            if (eb >= 0) {
                if (L.status != L_OK || L.nb != 1 || L.bytes[0] != eb || L.pos != nu)
                    XV_MIS(T, std::string("to:") + (L.status == L_EXC ? "rejected-representable" : L.status == L_OK ? "wrong-byte" : stName(L.status)) + cls,
                               "U+" + hex4(c) + "\trepchar\texp=" + hex2(eb) + "\tobs=" + stName(L.status) + (L.exc.empty() ? "" : "(" + L.exc + ")") + " bytes=" + hexBytes(L.bytes, L.nb));
            } else {
                bool okStall = sur && c < 0xDC00 && L.status == L_STALL;
                if (okStall) continue;
                if (L.status != L_OK || L.pos != nu || L.nb < 1 || L.nb > nu)
                    XV_MIS(T, std::string("to:repchar-protocol") + cls, "U+" + hex4(c) + "\trepchar\texp=1.." + itos(nu) + " replacement byte(s), all units eaten\tobs=" + stName(L.status) + (L.exc.empty() ? "" : "(" + L.exc + ")") + " eaten=" + itos(L.pos) + " bytes=" + hexBytes(L.bytes, L.nb));
                else for (size_t i = 0; i < L.nb; i++) repBytes[L.bytes[i]]++;
            }
        }
        { // the replacement byte(s) used: the most frequent ones
          std::vector<std::pair<unsigned long, unsigned> > rb; for (std::map<unsigned, unsigned long>::iterator i = repBytes.begin(); i != repBytes.end(); ++i) rb.push_back(std::make_pair(i->second, i->first));
          std::sort(rb.rbegin(), rb.rend());
          for (size_t i = 0; i < rb.size() && i < 2; i++) gOut.line("REP\t" + hex2(rb[i].second) + "\t" + itos(rb[i].first) + "\t" + itos((long long)rb.size())); }
        // D. canTranscodeTo over the whole code space
        unsigned long canT = 0, canF = 0;
        for (unsigned long cp = 0; cp < 0x110000; cp++) {
            if (skipCp[cp]) continue;
            bool sur = cp >= 0xD800 && cp < 0xE000;
            bool exp = !sur && inv[cp] >= 0;
            if (icu && !exp) continue;
            bool can = false; try { can = t->canTranscodeTo((unsigned int)cp); } catch (...) { XV_MIS(T, "canto:threw", "U+" + hex4(cp) + "\t\texp=bool\tobs=exception"); continue; }
            T.runs++; T.tick(); (can ? canT : canF)++;
            if (can != exp) XV_MIS(T, std::string("canto:") + (exp ? "false-for-representable" : "true-for-unrepresentable") + (cp == 0 ? ":nul" : sur ? ":lone-surrogate" : cp >= 0x10000 ? ":supplementary" : bestFit[cp] ? ":bestfit" : ""), "U+" + hex4(cp) + "\t\texp=" + (exp ? "true" : "false") + "\tobs=" + (can ? "true" : "false"));
        }
        gOut.line("CAN\ttrue=" + itos(canT) + "\tfalse=" + itos(canF));
        // E. all representable code points as one string, several maxBytes and splits
        { XMLCh u[256]; XMLByte eb[256]; size_t n = 0;
          for (int b = 0; b < 256; b++) if (judged[b] && table[b] > 0 && !skipCp[table[b]] && inv[table[b]] == b) { u[n] = XMLCh(table[b]); eb[n++] = XMLByte(b); }
          static const size_t kMB[] = { 1, 2, 3, 300 };
          for (size_t sp = 0; sp <= n; sp += 5) for (size_t i = 0; i < 4; i++) {
              libEncode(t, u, n, sp, kMB[i], XMLTranscoder::UnRep_Throw, L, B); T.runs++;
              if (L.status != L_OK || L.nb != n || memcmp(L.bytes, eb, n) || L.pos != n)
                  XV_MIS(T, "to:string", "all-chars\tsplit=" + itos(sp) + " maxBytes=" + itos(kMB[i]) + "\texp=" + itos(n) + " bytes\tobs=" + stName(L.status) + (L.exc.empty() ? "" : "(" + L.exc + ")") + " eaten=" + itos(L.pos) + " nbytes=" + itos(L.nb));
          } }
        gOut.line("UNDECIDED\t" + itos(undecided));
        T.emit();
    }
    delete t;
}

// ---- icurt -----------------------------------------------------------------------------------------
// decode(encode(x)) == x for chunks x of code points the transcoder itself declares representable; the byte
// stream of every `splitEvery`-th chunk is also decoded at every split position x maxChars 1..4.
// Fresh transcoders per stream (ICU converters are stateful).  A short ASCII pad closes each chunk so that
// stateful encoders (UTF-7, ISO-2022) have emitted everything that belongs to x (the library never flushes).
// Default_Ignorable_Code_Point (superset over Unicode versions): ICU's from-Unicode callbacks skip these silently when
// the target has no mapping (documented ICU behaviour), so canTranscodeTo says yes although no byte is produced.
// They are left out of the round trip (counted).
bool defaultIgnorable(unsigned long c) {
    return c == 0xAD || c == 0x34F || c == 0x61C || (c >= 0x115F && c <= 0x1160) || (c >= 0x17B4 && c <= 0x17B5) || (c >= 0x180B && c <= 0x180F) ||
           (c >= 0x200B && c <= 0x200F) || (c >= 0x202A && c <= 0x202E) || (c >= 0x2060 && c <= 0x206F) || c == 0x3164 || (c >= 0xFE00 && c <= 0xFE0F) ||
           c == 0xFEFF || c == 0xFFA0 || (c >= 0xFFF0 && c <= 0xFFF8) || (c >= 0x1BCA0 && c <= 0x1BCA3) || (c >= 0x1D173 && c <= 0x1D17A) || (c >= 0xE0000 && c <= 0xE0FFF);
}
void modeIcuRt(const Case& cs) {
    std::string enc = cs.get("enc");
    unsigned long lo = (unsigned long)cs.geti("lo", 0x20), hi = (unsigned long)cs.geti("hi", 0x10000), step = (unsigned long)cs.geti("step", 1);
    long chunk = cs.geti("chunk", 48), splitEvery = cs.geti("split_every", 8);
    XMLTranscoder* probe = mk(enc);
    if (!probe) { gOut.line("NOTRANS\t" + enc); return; }
    gOut.line("CLASS\t" + demangle(typeid(*probe).name()));
    {
        Bufs B; Tally T; Run E, D, D2; unsigned long repr = 0, unrepr = 0, chunks = 0, ignorable = 0;
        std::vector<XMLCh> x;
        unsigned long cp = lo;
        while (cp < hi) {
            x.clear(); long have = 0;
            while (cp < hi && have < chunk) {
                unsigned long c = cp; cp += step;
                if ((c >= 0xD800 && c < 0xE000) || c == 0xFFFE || c == 0xFFFF) continue;
                if (defaultIgnorable(c)) { ignorable++; continue; }
                // private use: ICU applies fallback (one-way) mappings from private-use code points even with fallbacks
                // switched off (documented), so they are not "representable x" in the round-trip sense
                if ((c >= 0xE000 && c <= 0xF8FF) || c >= 0xF0000) { ignorable++; continue; }
                bool can = false; try { can = probe->canTranscodeTo((unsigned int)c); } catch (...) {}
                if (!can) { unrepr++; continue; }
                repr++; have++;
                if (c >= 0x10000) { unsigned long d = c - 0x10000; x.push_back(XMLCh(0xD800 + (d >> 10))); x.push_back(XMLCh(0xDC00 + (d & 0x3FF))); } else x.push_back(XMLCh(c));
            }
            if (x.empty()) continue;
            size_t xn = x.size();
            for (int i = 0; i < 4; i++) x.push_back(XMLCh('A'));
            chunks++; T.seqs++; T.tick();
            XMLTranscoder* te = mk(enc); XMLTranscoder* td = mk(enc);
            if (!te || !td) { delete te; delete td; gOut.line("NOTRANS\t" + enc); break; }
            libEncode(te, x.data(), x.size(), x.size(), BLOCK, XMLTranscoder::UnRep_Throw, E, B); T.runs++;
            if (E.status != L_OK) {
                XV_MIS(T, std::string("rt:encode-") + stName(E.status), "U+" + hex4(x[0]) + "..\t\texp=ok (canTranscodeTo said yes)\tobs=" + stName(E.status) + (E.exc.empty() ? "" : "(" + E.exc + ")") + " eaten=" + itos(E.pos));
            } else if (E.nb <= CAPU) {
                libDecode(td, E.bytes, E.nb, E.nb, BLOCK, D, B); T.runs++;
                if (D.status == L_EXC) T.exc[D.exc]++;
                if (D.status == L_BROKEN || D.n < xn || memcmp(D.out, x.data(), xn * sizeof(XMLCh)))
                    XV_MIS(T, "rt:decode-of-encode-differs", "U+" + hex4(x[0]) + "..\tbytes=" + hexBytes(E.bytes, E.nb > 48 ? 48 : E.nb) + "\texp=[" + hexUnits(x.data(), xn > 16 ? 16 : xn) + "]\tobs=" + runDesc(D).substr(0, 200));
                else if (splitEvery > 0 && chunks % splitEvery == 0) {
                    for (size_t sp = 1; sp < E.nb; sp++) for (size_t mc = 1; mc <= 4; mc++) {
                        XMLTranscoder* t2 = mk(enc); if (!t2) break;
                        libDecode(t2, E.bytes, E.nb, sp, mc, D2, B); T.runs++;
                        delete t2;
                        if (D2.status != D.status || D2.n != D.n || memcmp(D2.out, D.out, D.n * sizeof(XMLCh)) || D2.pos != D.pos)
                            XV_MIS(T, "rt:split-variance", "U+" + hex4(x[0]) + "..\tbytes=" + hexBytes(E.bytes, E.nb > 48 ? 48 : E.nb) + " split=" + itos(sp) + " maxChars=" + itos(mc) + "\texp=" + runDesc(D).substr(0, 160) + "\tobs=" + runDesc(D2).substr(0, 160));
                    }
                }
            }
            delete te; delete td;
        }
        gOut.line("RT\trepresentable=" + itos(repr) + "\tunrepresentable=" + itos(unrepr) + "\tchunks=" + itos(chunks) + "\tignorable=" + itos(ignorable));
        T.emit();
    }
    delete probe;
}

// ---- str -------------------------------------------------------------------------------------------
void logRun(const char* tag, const Run& L, bool dec) {
    gOut.line(std::string(tag) + "\t" + stName(L.status) + "\tpos=" + itos(L.pos) + "\texc=" + (L.exc.empty() ? "-" : L.exc) + "\tbad=" + (L.bad ? L.bad : (L.sizeSumBad ? "sizes-sum" : "-")) +
              (dec ? "\tout=" + hexUnits(L.out, L.n) + "\tsz=" + hexBytes(L.sz, L.n) : "\tout=" + hexBytes(L.bytes, L.nb)));
}
void modeStr(const Case& cs) {
    std::string enc = cs.get("enc"), dir = cs.get("dir", "from");
    if (cs.steps.empty()) { gOut.line("BADCASE\tno payload"); return; }
    const std::string& pl = cs.steps[0].payload;
    bool fresh = cs.geti("fresh", 0) != 0;     // new transcoder for every run (stateful ICU converters)
    bool allSplits = cs.get("splits", "all") == "all";
    std::vector<size_t> lims; { std::string m = cs.get(dir == "from" ? "mcs" : "mbs", dir == "from" ? "64,1,2,3,4" : "64,1,2,3,4,5"); size_t a = 0; while (a < m.size()) { size_t b = m.find(',', a); lims.push_back((size_t)atol(m.substr(a, b == std::string::npos ? std::string::npos : b - a).c_str())); if (b == std::string::npos) break; a = b + 1; } }
    if (lims.empty()) lims.push_back(64);
    for (size_t i = 0; i < lims.size(); i++) if (lims[i] < 1 || lims[i] > BLOCK) lims[i] = 64;
    int code = 0;
    XMLTranscoder* t = mk(enc, &code);
    if (!t) { gOut.line("NOTRANS\t" + enc + "\t" + itos(code)); return; }
    gOut.line("CLASS\t" + demangle(typeid(*t).name()));
    {
        Bufs B; Run L0, L; L0.reset(); L.reset(); unsigned long runs = 0, diffs = 0; std::vector<std::string> firstDiff;
        if (dir == "from") {
            const XMLByte* s = (const XMLByte*)pl.data(); size_t n = pl.size() > CAPU / 2 ? CAPU / 2 : pl.size();
            libDecode(t, s, n, n, lims[0], L0, B); logRun("R", L0, true);
            Run longest; longest.reset();
            for (size_t sp = (allSplits ? 0 : n); sp <= n; sp++) for (size_t i = 0; i < lims.size(); i++) {
                if (fresh || L.status == L_EXC || L0.status == L_EXC) { delete t; t = mk(enc); if (!t) break; }
                libDecode(t, s, n, sp, lims[i], L, B); runs++;
                bool same = L.status == L0.status;
                if (same && L.status != L_EXC) same = L.n == L0.n && !memcmp(L.out, L0.out, L.n * sizeof(XMLCh)) && L.pos == L0.pos;
                if (same && L.status == L_EXC) {
                    // an exception discards the units of the failing call: outputs must be prefixes of one another
                    const Run& a = L.n >= longest.n ? L : longest; const Run& b = L.n >= longest.n ? longest : L;
                    same = !memcmp(a.out, b.out, b.n * sizeof(XMLCh));
                    if (same && L.n > longest.n) { longest.n = L.n; memcpy(longest.out, L.out, L.n * sizeof(XMLCh)); }
                }
                if (!same) { diffs++; if (firstDiff.size() < 4) firstDiff.push_back("D\tsplit=" + itos(sp) + "\tlimit=" + itos(lims[i]) + "\t" + runDesc(L)); }
                if (!t) break;
            }
            gOut.line("V\truns=" + itos(runs) + "\tdiffs=" + itos(diffs) + "\tlongest=" + hexUnits(longest.out, longest.n));
            for (size_t i = 0; i < firstDiff.size(); i++) gOut.line(firstDiff[i]);
            if (cs.geti("helper", 0)) {
                try { TranscodeFromStr h(s, n, cs.get("enc").c_str()); gOut.line("H\tok\tout=" + hexUnits(h.str(), h.length())); }
                catch (const XMLException& e) { gOut.line("H\texc\t" + excName(e)); }
                catch (...) { gOut.line("H\texc\tFOREIGN:0"); }
            }
        } else {
            std::vector<XMLCh> u; for (size_t i = 0; i + 1 < pl.size() && u.size() < CAPU / 2; i += 2) u.push_back(XMLCh((unsigned char)pl[i] << 8 | (unsigned char)pl[i + 1]));
            XMLTranscoder::UnRepOpts opt = cs.get("unrep", "throw") == "rep" ? XMLTranscoder::UnRep_RepChar : XMLTranscoder::UnRep_Throw;
            size_t n = u.size();
            libEncode(t, u.data(), n, n, lims[0], opt, L0, B); logRun("R", L0, false);
            Run longest; longest.reset();
            for (size_t sp = (allSplits ? 0 : n); sp <= n; sp++) for (size_t i = 0; i < lims.size(); i++) {
                if (fresh || L.status == L_EXC || L0.status == L_EXC) { delete t; t = mk(enc); if (!t) break; }
                libEncode(t, u.data(), n, sp, lims[i], opt, L, B); runs++;
                bool same = L.status == L0.status;
                if (same && L.status != L_EXC) same = L.nb == L0.nb && !memcmp(L.bytes, L0.bytes, L.nb) && L.pos == L0.pos;
                if (same && L.status == L_EXC) {
                    const Run& a = L.nb >= longest.nb ? L : longest; const Run& b = L.nb >= longest.nb ? longest : L;
                    same = !memcmp(a.bytes, b.bytes, b.nb);
                    if (same && L.nb > longest.nb) { longest.nb = L.nb; memcpy(longest.bytes, L.bytes, L.nb); }
                }
                if (!same) { diffs++; if (firstDiff.size() < 4) firstDiff.push_back("D\tsplit=" + itos(sp) + "\tlimit=" + itos(lims[i]) + "\t" + stName(L.status) + (L.exc.empty() ? "" : "(" + L.exc + ")") + " eaten=" + itos(L.pos) + " bytes=" + hexBytes(L.bytes, L.nb)); }
            }
            gOut.line("V\truns=" + itos(runs) + "\tdiffs=" + itos(diffs) + "\tlongest=" + hexBytes(longest.bytes, longest.nb));
            for (size_t i = 0; i < firstDiff.size(); i++) gOut.line(firstDiff[i]);
            if (cs.geti("helper", 0) && opt == XMLTranscoder::UnRep_Throw) {
                try { TranscodeToStr h(u.data(), n, cs.get("enc").c_str()); gOut.line("H\tok\tout=" + hexBytes(h.str(), h.length())); }
                catch (const XMLException& e) { gOut.line("H\texc\t" + excName(e)); }
                catch (...) { gOut.line("H\texc\tFOREIGN:0"); }
            }
        }
    }
    delete t;
}

// ---- names -----------------------------------------------------------------------------------------
void modeNames(const Case& cs) {
    for (size_t i = 0; i < cs.steps.size(); i++) {
        const std::string& nm = cs.steps[i].payload; int code = 0;
        XMLTranscoder* t = mk(nm, &code);
        if (!t) { gOut.line("NM\t" + pctenc(nm) + "\tnone\t" + itos(code) + "\t-"); continue; }
        gOut.line("NM\t" + pctenc(nm) + "\t" + demangle(typeid(*t).name()) + "\t" + itos(code) + "\t" + esc(t->getEncodingName()));
        delete t;
    }
}

// ---- probe -----------------------------------------------------------------------------------------
void modeProbe(const Case& cs) {
    if (cs.geti("bomsweep", 0)) {
        // bytes b0 b1 followed by every pair (b2,b3): histogram of the answers
        if (cs.steps.empty() || cs.steps[0].payload.size() < 2) { gOut.line("BADCASE"); return; }
        XMLByte q[4] = { (XMLByte)cs.steps[0].payload[0], (XMLByte)cs.steps[0].payload[1], 0, 0 };
        std::map<int, unsigned long> hist; std::map<int, std::string> firstOf;
        for (unsigned x = 0; x < 65536; x++) {
            q[2] = XMLByte(x >> 8); q[3] = XMLByte(x);
            int e = -1; try { e = (int)XMLRecognizer::basicEncodingProbe(q, 4); } catch (...) { e = -2; }
            if (!hist[e]++) firstOf[e] = hexBytes(q, 4);
            if (hist[e] <= 2 && x) gOut.line("PF\t" + itos(e) + "\t" + hexBytes(q, 4));
        }
        for (std::map<int, unsigned long>::iterator i = hist.begin(); i != hist.end(); ++i) gOut.line("PH\t" + itos(i->first) + "\t" + itos(i->second) + "\t" + firstOf[i->first]);
        return;
    }
    for (size_t i = 0; i < cs.steps.size(); i++) {
        const std::string& p = cs.steps[i].payload;
        Guarded<XMLByte> g(p.size() + 1); g.load((const XMLByte*)p.data(), p.size());
        int e = -1; try { e = (int)XMLRecognizer::basicEncodingProbe(g.p, p.size()); } catch (...) { e = -2; }
        std::string nm = "~";
        if (e >= 0 && e < (int)XMLRecognizer::Encodings_Count) { try { nm = esc(XMLRecognizer::nameForEncoding((XMLRecognizer::Encodings)e, XMLPlatformUtils::fgMemoryManager)); } catch (...) { nm = "EXC"; } }
        gOut.line("P\t" + itos((long long)i) + "\t" + itos(e) + "\t" + nm);
    }
    if (cs.geti("enums", 0)) {
        for (int e = 0; e < (int)XMLRecognizer::Encodings_Count; e++) {
            try {
                const XMLCh* nm = XMLRecognizer::nameForEncoding((XMLRecognizer::Encodings)e, XMLPlatformUtils::fgMemoryManager);
                int back = (int)XMLRecognizer::encodingForName(nm);
                gOut.line("EN\t" + itos(e) + "\t" + esc(nm) + "\t" + itos(back));
            } catch (...) { gOut.line("EN\t" + itos(e) + "\tEXC\t-1"); }
        }
    }
}

void cmdXcode(const Case& c) {
    std::string mode = c.get("mode");
    try {
        if (mode == "u8sweep") modeU8Sweep(c);
        else if (mode == "cpsweep") modeCpSweep(c);
        else if (mode == "sbsweep") modeSbSweep(c);
        else if (mode == "icurt") modeIcuRt(c);
        else if (mode == "str") modeStr(c);
        else if (mode == "names") modeNames(c);
        else if (mode == "probe") modeProbe(c);
        else gOut.line("BADMODE\t" + mode);
    }
    catch (const OutOfMemoryException&) { gOut.line("ESCAPED\tOutOfMemoryException"); }
    catch (const XMLException& e) { gOut.line("ESCAPED\tXMLException:" + excName(e)); }
    catch (const std::exception& e) { gOut.line(std::string("ESCAPED\tstd:") + e.what()); }
    catch (...) { gOut.line("ESCAPED\tunknown"); }
}
CmdReg regXcode("xcode", cmdXcode);

}  // namespace
}  // namespace xv
