// libFuzzer harness for C01: the first two bytes select API x scanner x validation x features, the rest is the
// document; everything after the marker line "\n--XV-ENT--\n" is served by an in-harness resolver for every
// external identifier (DTD, external entity, schema), so nothing touches disk or network.
#include <cstdint>
#include <cstdio>
#include <cstdlib>
#include <cstring>
#include <string>
#include <typeinfo>
#include <cxxabi.h>
#include <xercesc/util/PlatformUtils.hpp>
#include <xercesc/util/XMLUni.hpp>
#include <xercesc/util/OutOfMemoryException.hpp>
#include <xercesc/util/SecurityManager.hpp>
#include <xercesc/util/XMLEntityResolver.hpp>
#include <xercesc/util/XMLResourceIdentifier.hpp>
#include <xercesc/util/BinInputStream.hpp>
#include <xercesc/util/XercesVerifHooks.hpp>
#include <xercesc/sax/InputSource.hpp>
#include <xercesc/sax/HandlerBase.hpp>
#include <xercesc/sax/SAXException.hpp>
#include <xercesc/sax2/DefaultHandler.hpp>
#include <xercesc/parsers/SAXParser.hpp>
#include <xercesc/parsers/SAX2XMLReaderImpl.hpp>
#include <xercesc/parsers/XercesDOMParser.hpp>
#include <xercesc/parsers/DOMLSParserImpl.hpp>
#include <xercesc/framework/MemBufInputSource.hpp>
#include <xercesc/framework/Wrapper4InputSource.hpp>
#include <xercesc/dom/DOM.hpp>
#include <xercesc/dom/DOMLSException.hpp>

using namespace xercesc;

static unsigned long gRefresh = 0, gPush = 0, gPushDecl = 0;
static void hook(int point, const void*, XMLSize_t a, XMLSize_t) {
    if (point == VerifHooks::CharRefresh) gRefresh++;
    else if (point == VerifHooks::EntityPush) { gPush++; if (a) gPushDecl++; }
}

class ChunkStream : public BinInputStream {
    const XMLByte* d; size_t n, pos; unsigned step;
public:
    ChunkStream(const XMLByte* data, size_t len, unsigned s) : d(data), n(len), pos(0), step(s) {}
    XMLFilePos curPos() const { return pos; }
    const XMLCh* getContentType() const { return 0; }
    XMLSize_t readBytes(XMLByte* const to, const XMLSize_t maxToRead) {
        size_t want = step ? 1 + (pos * 7 + step) % 7 : maxToRead;
        if (pos == 0 && step) want = 512;
        if (want > maxToRead) want = maxToRead;
        if (want > n - pos) want = n - pos;
        memcpy(to, d + pos, want); pos += want; return want;
    }
};
class ChunkSource : public InputSource {
    const XMLByte* d; size_t n; unsigned step;
public:
    ChunkSource(const XMLByte* data, size_t len, unsigned s, const XMLCh* sys) : InputSource(sys), d(data), n(len), step(s) {}
    BinInputStream* makeStream() const { return new ChunkStream(d, n, step); }
};

struct Res : public XMLEntityResolver, public DOMLSResourceResolver {
    const XMLByte* d; size_t n; unsigned calls;
    Res() : d(0), n(0), calls(0) {}
    InputSource* resolveEntity(XMLResourceIdentifier* ri) {
        if (++calls > 64) { static const XMLByte z[1] = {0}; return new MemBufInputSource(z, 0, ri->getSystemId() ? ri->getSystemId() : XMLUni::fgZeroLenString); }
        static const XMLCh fake[] = { 'x', 'v', ':', 'e', 0 };
        return new MemBufInputSource(d, n, ri->getSystemId() && *ri->getSystemId() ? ri->getSystemId() : fake);
    }
    DOMLSInput* resolveResource(const XMLCh* const, const XMLCh* const, const XMLCh* const, const XMLCh* const sys, const XMLCh* const) {
        static const XMLCh fake[] = { 'x', 'v', ':', 'e', 0 };
        if (++calls > 64) return 0;
        return new Wrapper4InputSource(new MemBufInputSource(d, n, sys && *sys ? sys : fake), true);
    }
};
struct Quiet : public DefaultHandler, public DOMErrorHandler {
    unsigned long cb;
    Quiet() : cb(0) {}
    void startElement(const XMLCh* const, const XMLCh* const, const XMLCh* const, const Attributes&) { cb++; }
    void characters(const XMLCh* const, const XMLSize_t) { cb++; }
    void warning(const SAXParseException&) {} void error(const SAXParseException&) {} void fatalError(const SAXParseException&) {}
    bool handleError(const DOMError&) { return true; }
};
struct Quiet1 : public HandlerBase {
    void warning(const SAXParseException&) {} void error(const SAXParseException&) {} void fatalError(const SAXParseException&) {}
};

static SAXParser* gSax1 = 0; static SAX2XMLReaderImpl* gSax2 = 0; static XercesDOMParser* gDom = 0; static DOMLSParserImpl* gLs = 0;
static Res gRes; static Quiet gQ; static Quiet1 gQ1; static SecurityManager* gSec = 0;
static unsigned long gExecs = 0;

static void makeParsers() {
    delete gSax1; delete gSax2; delete gDom; if (gLs) gLs->release();
    gSax1 = new SAXParser(); gSax1->setDocumentHandler(&gQ1); gSax1->setErrorHandler(&gQ1); gSax1->setXMLEntityResolver(&gRes);
    gSax2 = new SAX2XMLReaderImpl(); gSax2->setContentHandler(&gQ); gSax2->setErrorHandler(&gQ); gSax2->setXMLEntityResolver(&gRes); gSax2->setLexicalHandler(&gQ); gSax2->setDeclarationHandler(&gQ);
    gDom = new XercesDOMParser(); gDom->setErrorHandler(&gQ); gDom->setXMLEntityResolver(&gRes);
    gLs = new DOMLSParserImpl();
    gLs->getDomConfig()->setParameter(XMLUni::fgDOMErrorHandler, (const void*)static_cast<DOMErrorHandler*>(&gQ));
    gLs->getDomConfig()->setParameter(XMLUni::fgXercesEntityResolver, (const void*)static_cast<XMLEntityResolver*>(&gRes));
}

extern "C" int LLVMFuzzerInitialize(int*, char***) {
    XMLPlatformUtils::Initialize();
    VerifHooks::fgHook = hook;
    gSec = new SecurityManager();
    makeParsers();
    return 0;
}

static const XMLCh* scannerName(unsigned k) {
    switch (k & 3) { case 1: return XMLUni::fgWFXMLScanner; case 2: return XMLUni::fgDGXMLScanner; case 3: return XMLUni::fgSGXMLScanner; default: return XMLUni::fgIGXMLScanner; }
}

static void foreign(const char* what) {
    fprintf(stderr, "XV-FOREIGN-EXCEPTION %s\n", what);
    abort();
}

extern "C" int LLVMFuzzerTestOneInput(const uint8_t* data, size_t size) {
    if (size < 3) return 0;
    if ((++gExecs & 255) == 0 && getenv("XV_FUZZ_FRESH") == 0) makeParsers();
    if (getenv("XV_FUZZ_FRESH")) makeParsers();
    unsigned c0 = data[0], c1 = data[1];
    const uint8_t* doc = data + 2; size_t n = size - 2;
    static const char marker[] = "\n--XV-ENT--\n";
    const uint8_t* ent = 0; size_t en = 0;
    for (size_t i = 0; i + sizeof(marker) - 1 <= n; i++)
        if (!memcmp(doc + i, marker, sizeof(marker) - 1)) { ent = doc + i + sizeof(marker) - 1; en = n - (i + sizeof(marker) - 1); n = i; break; }
    static const XMLByte empty[1] = {0};
    gRes.d = ent ? ent : empty; gRes.n = en; gRes.calls = 0;
    unsigned api = c0 & 3, scanner = (c0 >> 2) & 3, val = (c0 >> 4) & 3; bool ns = (c0 >> 6) & 1, schema = (c0 >> 7) & 1;
    // continue-after-fatal-error is documented as "behaviour undetermined" (doc/program-sax2.xml): not part of the oracle
    bool full = c1 & 1, cont = false, extdtd = (c1 >> 2) & 1, eref = (c1 >> 3) & 1, lim = (c1 >> 4) & 1, chunk = (c1 >> 5) & 1, xinc = (c1 >> 6) & 1, ic = (c1 >> 7) & 1;
    unsigned long limit = lim ? 20 : 50000;
    gSec->setEntityExpansionLimit(limit);
    gRefresh = gPush = gPushDecl = 0;
    static const XMLCh sys[] = { 'f', 'i', 'l', 'e', ':', '/', '/', '/', 'x', 'v', '/', 'd', '.', 'x', 'm', 'l', 0 };
    ChunkSource src(doc, n, chunk ? 1 + (c1 >> 6) : 0, sys);
    const XMLCh* sc = scannerName(scanner);
    try {
        if (api == 0) {
            SAXParser* p = gSax1; p->useScanner(sc); p->setDoNamespaces(ns); p->setDoSchema(schema); p->setValidationSchemaFullChecking(full);
            p->setValidationScheme(val == 1 ? SAXParser::Val_Always : val == 2 ? SAXParser::Val_Auto : SAXParser::Val_Never);
            p->setExitOnFirstFatalError(!cont); p->setLoadExternalDTD(extdtd); p->setSecurityManager(gSec); p->setIdentityConstraintChecking(ic);
            p->parse(src);
        } else if (api == 1) {
            SAX2XMLReader* p = gSax2; p->setProperty(XMLUni::fgXercesScannerName, (void*)sc);
            p->setFeature(XMLUni::fgSAX2CoreNameSpaces, ns); p->setFeature(XMLUni::fgXercesSchema, schema); p->setFeature(XMLUni::fgXercesSchemaFullChecking, full);
            p->setFeature(XMLUni::fgSAX2CoreValidation, val != 0); p->setFeature(XMLUni::fgXercesDynamic, val == 2);
            p->setFeature(XMLUni::fgXercesContinueAfterFatalError, cont); p->setFeature(XMLUni::fgXercesLoadExternalDTD, extdtd);
            p->setFeature(XMLUni::fgXercesIdentityConstraintChecking, ic); p->setFeature(XMLUni::fgSAX2CoreNameSpacePrefixes, eref);
            p->setProperty(XMLUni::fgXercesSecurityManager, gSec);
            p->parse(src);
        } else if (api == 2) {
            XercesDOMParser* p = gDom; p->useScanner(sc); p->setDoNamespaces(ns); p->setDoSchema(schema); p->setValidationSchemaFullChecking(full);
            p->setValidationScheme(val == 1 ? XercesDOMParser::Val_Always : val == 2 ? XercesDOMParser::Val_Auto : XercesDOMParser::Val_Never);
            p->setExitOnFirstFatalError(!cont); p->setLoadExternalDTD(extdtd); p->setSecurityManager(gSec); p->setIdentityConstraintChecking(ic);
            p->setCreateEntityReferenceNodes(eref); p->setDoXInclude(xinc);
            p->parse(src);
            DOMDocument* d = p->getDocument();
            if (d && d->getDocumentElement()) { d->getDocumentElement()->getTextContent(); d->normalizeDocument(); }
            p->resetDocumentPool();
        } else {
            DOMLSParserImpl* p = gLs; DOMConfiguration* c = p->getDomConfig();
            c->setParameter(XMLUni::fgXercesScannerName, (const void*)sc);
            c->setParameter(XMLUni::fgDOMNamespaces, ns); c->setParameter(XMLUni::fgXercesSchema, schema); c->setParameter(XMLUni::fgXercesSchemaFullChecking, full);
            c->setParameter(XMLUni::fgDOMValidate, false);
            if (val == 1) c->setParameter(XMLUni::fgDOMValidate, true); else if (val == 2) c->setParameter(XMLUni::fgDOMValidateIfSchema, true);
            c->setParameter(XMLUni::fgXercesContinueAfterFatalError, cont); c->setParameter(XMLUni::fgXercesLoadExternalDTD, extdtd);
            c->setParameter(XMLUni::fgDOMEntities, eref); c->setParameter(XMLUni::fgXercesSecurityManager, (const void*)gSec);
            c->setParameter(XMLUni::fgXercesDoXInclude, xinc);
            Wrapper4InputSource w(&src, false);
            p->parse(&w);
            p->resetDocumentPool();
        }
    }
    catch (const OutOfMemoryException&) {}
    catch (const XMLException&) {}
    catch (const SAXException&) {}
    catch (const DOMLSException&) {}
    catch (const DOMException&) {}
    catch (const std::exception& e) { int st; char* n2 = abi::__cxa_demangle(typeid(e).name(), 0, 0, &st); foreign(n2 ? n2 : typeid(e).name()); }
    catch (...) { std::type_info* t = abi::__cxa_current_exception_type(); foreign(t ? t->name() : "?"); }
    // bounded work: with the small limit in force the number of general-entity pushes is bounded by the limit
    // (parameter entities are outside this oracle: known finding F10) and refills are linear in what was delivered
    if (getenv("XV_FUZZ_STATS")) fprintf(stderr, "XV-STAT size=%zu refresh=%lu push=%lu pushdecl=%lu\n", size, gRefresh, gPush, gPushDecl);
    return 0;
}
