// xvdrive: batch driver.  Reads cases, runs each against the real library, appends one record per case
// to the log.  BEGIN is flushed before a case runs, so a crash is attributable to a case.
#include "xd_common.hpp"
#include <fstream>
#include <iostream>
#include <unistd.h>
#include <xercesc/util/PlatformUtils.hpp>
#include <xercesc/util/XercesVerifHooks.hpp>

using namespace xercesc;

namespace xv {

Out gOut;
thread_local HookCounters tlHooks;

static std::map<std::string, CmdFn>& cmds() { static std::map<std::string, CmdFn> m; return m; }
void registerCmd(const char* name, CmdFn fn) { cmds()[name] = fn; }

static int hv(char c) { return c <= '9' ? c - '0' : (c | 32) - 'a' + 10; }
std::string hexdec(const std::string& h) {
    std::string o; o.reserve(h.size() / 2);
    for (size_t i = 0; i + 1 < h.size(); i += 2) o += char(hv(h[i]) * 16 + hv(h[i + 1]));
    return o;
}
std::string hexenc(const std::string& b) {
    static const char* d = "0123456789abcdef";
    std::string o; o.reserve(b.size() * 2);
    for (size_t i = 0; i < b.size(); i++) { unsigned char c = b[i]; o += d[c >> 4]; o += d[c & 15]; }
    return o;
}
std::string pctdec(const std::string& s) {
    std::string o;
    for (size_t i = 0; i < s.size(); i++) {
        if (s[i] == '%' && i + 2 < s.size() + 0 && s[i + 1] != 'u') { o += char(hv(s[i + 1]) * 16 + hv(s[i + 2])); i += 2; }
        else o += s[i];
    }
    return o;
}
std::string pctenc(const std::string& s) {
    static const char* d = "0123456789ABCDEF";
    std::string o;
    for (size_t i = 0; i < s.size(); i++) {
        unsigned char c = s[i];
        if (c < 0x20 || c == '%' || c == 0x7f) { o += '%'; o += d[c >> 4]; o += d[c & 15]; }
        else o += char(c);
    }
    return o;
}
static void put8(std::string& o, unsigned long cp) {
    if (cp < 0x80) {
        static const char* d = "0123456789ABCDEF";
        if (cp < 0x20 || cp == '%' || cp == 0x7f) { o += '%'; o += d[cp >> 4]; o += d[cp & 15]; }
        else o += char(cp);
    } else if (cp < 0x800) { o += char(0xC0 | (cp >> 6)); o += char(0x80 | (cp & 63)); }
    else if (cp < 0x10000) { o += char(0xE0 | (cp >> 12)); o += char(0x80 | ((cp >> 6) & 63)); o += char(0x80 | (cp & 63)); }
    else { o += char(0xF0 | (cp >> 18)); o += char(0x80 | ((cp >> 12) & 63)); o += char(0x80 | ((cp >> 6) & 63)); o += char(0x80 | (cp & 63)); }
}
std::string esc(const XMLCh* s, size_t n) {
    std::string o;
    static const char* d = "0123456789ABCDEF";
    for (size_t i = 0; i < n; i++) {
        unsigned c = s[i];
        if (c >= 0xD800 && c < 0xDC00 && i + 1 < n && s[i + 1] >= 0xDC00 && s[i + 1] < 0xE000) {
            put8(o, 0x10000 + ((c - 0xD800) << 10) + (s[i + 1] - 0xDC00)); i++;
        } else if ((c >= 0xD800 && c < 0xE000) || c == 0xFFFE || c == 0xFFFF) {
            o += "%u"; o += d[(c >> 12) & 15]; o += d[(c >> 8) & 15]; o += d[(c >> 4) & 15]; o += d[c & 15];
        } else put8(o, c);
    }
    if (o == "~") o = "%7E";   // a lone tilde is the marker for a null pointer
    return o;
}
std::string esc(const XMLCh* s) { if (!s) return "~"; size_t n = 0; while (s[n]) n++; return esc(s, n); }
std::string escx(const xstr& s) { return esc(s.data(), s.size()); }
xstr u16(const std::string& u) {
    xstr o;
    for (size_t i = 0; i < u.size();) {
        unsigned char c = u[i]; unsigned long cp; int n;
        if (c < 0x80) { cp = c; n = 1; } else if (c < 0xE0) { cp = c & 31; n = 2; } else if (c < 0xF0) { cp = c & 15; n = 3; } else { cp = c & 7; n = 4; }
        for (int k = 1; k < n && i + k < u.size(); k++) cp = (cp << 6) | (u[i + k] & 63);
        i += n;
        if (cp >= 0x10000) { cp -= 0x10000; o += XMLCh(0xD800 + (cp >> 10)); o += XMLCh(0xDC00 + (cp & 0x3FF)); } else o += XMLCh(cp);
    }
    return o;
}
std::string u8(const XMLCh* s) {
    // raw UTF-8 without escaping (lone surrogates -> U+FFFD)
    std::string o; if (!s) return o;
    for (size_t i = 0; s[i]; i++) {
        unsigned long c = s[i];
        if (c >= 0xD800 && c < 0xDC00 && s[i + 1] >= 0xDC00 && s[i + 1] < 0xE000) { c = 0x10000 + ((c - 0xD800) << 10) + (s[i + 1] - 0xDC00); i++; }
        else if (c >= 0xD800 && c < 0xE000) c = 0xFFFD;
        if (c < 0x80) o += char(c);
        else if (c < 0x800) { o += char(0xC0 | (c >> 6)); o += char(0x80 | (c & 63)); }
        else if (c < 0x10000) { o += char(0xE0 | (c >> 12)); o += char(0x80 | ((c >> 6) & 63)); o += char(0x80 | (c & 63)); }
        else { o += char(0xF0 | (c >> 18)); o += char(0x80 | ((c >> 12) & 63)); o += char(0x80 | ((c >> 6) & 63)); o += char(0x80 | (c & 63)); }
    }
    return o;
}
std::string itos(long long v) { char b[32]; snprintf(b, sizeof b, "%lld", v); return b; }

static void countingHook(int point, const void*, XMLSize_t a, XMLSize_t b) {
    HookCounters& h = tlHooks;
    switch (point) {
        case VerifHooks::RawRefresh: h.rawRefresh++; break;
        case VerifHooks::CharRefresh: h.charRefresh++; break;
        case VerifHooks::EntityPush: h.entityPush++; if (a) h.entityPushDecl++; if (b > h.maxDepth) h.maxDepth = b; break;
        case VerifHooks::MutexPost: h.mutexLocks++; break;
        case VerifHooks::LazyEnter: h.lazy++; break;
        default: break;
    }
}
void installCountingHook() { VerifHooks::fgHook = countingHook; }

static std::vector<std::string> split(const std::string& s, char sep) {
    std::vector<std::string> v; size_t p = 0;
    for (;;) { size_t q = s.find(sep, p); if (q == std::string::npos) { v.push_back(s.substr(p)); break; } v.push_back(s.substr(p, q - p)); p = q + 1; }
    return v;
}
static void kv(const std::vector<std::string>& f, size_t from, std::map<std::string, std::string>& m) {
    for (size_t i = from; i < f.size(); i++) {
        size_t e = f[i].find('=');
        if (e == std::string::npos) { if (!f[i].empty()) m[f[i]] = "1"; }
        else m[f[i].substr(0, e)] = pctdec(f[i].substr(e + 1));
    }
}

}  // namespace xv

using namespace xv;

extern "C" const char* __asan_default_options() { return "detect_leaks=0:allocator_may_return_null=1:detect_stack_use_after_return=0:handle_abort=1"; }
extern "C" const char* __ubsan_default_options() { return "print_stacktrace=1"; }

namespace xv { void globalLedgerInit(); void globalLedgerReport(); bool gGlobalLedger = false; }

int main(int argc, char** argv) {
    if (argc < 3) { fprintf(stderr, "usage: xvdrive <casefile> <logfile|-> [--global-ledger]\n"); return 2; }
    for (int i = 3; i < argc; i++) if (!strcmp(argv[i], "--global-ledger")) gGlobalLedger = true;
    std::ifstream in(argv[1]);
    if (!in) { fprintf(stderr, "cannot open %s\n", argv[1]); return 2; }
    if (strcmp(argv[2], "-")) { gOut.f = fopen(argv[2], "a"); if (!gOut.f) { perror("log"); return 2; } }
    try {
        if (gGlobalLedger) globalLedgerInit(); else XMLPlatformUtils::Initialize();
    } catch (...) { fprintf(stderr, "Initialize failed\n"); return 2; }
    installCountingHook();
    std::string ln; Case c; bool have = false;
    size_t ncase = 0;
    while (std::getline(in, ln)) {
        if (ln.empty() || ln[0] == '#') continue;
        std::vector<std::string> f = split(ln, '\t');
        if (f[0] == "CASE") {
            c = Case(); have = true;
            c.id = f.size() > 1 ? f[1] : "?"; c.cmd = f.size() > 2 ? f[2] : "";
            kv(f, 3, c.opt);
        } else if (f[0] == "ENT" && have) {
            c.ents.push_back(std::make_pair(pctdec(f.size() > 1 ? f[1] : ""), hexdec(f.size() > 2 ? f[2] : "")));
        } else if ((f[0] == "STEP" || f[0] == "DOC") && have) {
            Step s; s.kind = f[0]; s.payload = hexdec(f.size() > 1 ? f[1] : ""); kv(f, 2, s.opt); c.steps.push_back(s);
        } else if (f[0] == "TXT" && have) {
            Step s; s.kind = f[0]; s.payload = pctdec(f.size() > 1 ? f[1] : ""); kv(f, 2, s.opt); c.steps.push_back(s);
        } else if (f[0] == "END" && have) {
            gOut.line("BEGIN\t" + c.id); gOut.flush();
            if (getenv("XV_SYSCALL_MARKERS")) { std::string mk = "/xv-case/" + c.id; if (access(mk.c_str(), F_OK)) {} }   // visible to strace: attributes syscalls to cases
            std::map<std::string, CmdFn>::iterator it = cmds().find(c.cmd);
            if (it == cmds().end()) gOut.line("BADCMD\t" + c.cmd);
            else {
                try { it->second(c); }
                catch (...) { gOut.line("DRIVERCATCH\tunexpected exception escaped command"); }
            }
            gOut.line("END\t" + c.id); gOut.flush();
            have = false; ncase++;
        }
    }
    if (gGlobalLedger) globalLedgerReport(); else XMLPlatformUtils::Terminate();
    gOut.line("DONE\t" + itos((long long)ncase)); gOut.flush();
    return 0;
}
