// pool command (C16): build grammar pool A from the case's grammars, serialise it, restore it as pool B, serialise B and
// restore that as pool C; log (1) the serialised stream's length / checksum / class names of the prototypes written into
// it, (2) a component enumeration of every pool (XSModel through the public XS* API, DTD grammars and the schema grammar
// object graph through the exported getters), (3) for every instance document the canonical event dump + error codes +
// PSVI of a validating parse against the locked pool, (4) what deserializeGrammars does with a patched level word.
// The driver only records; equality of A / B / C is decided by xvlib/chk/c16.py (the checksums logged for B and C are
// compared there against a checksum the checker recomputes from A's lines).
#include "xd_dump.hpp"
#include <algorithm>
#include <set>
#include <deque>
#include <typeinfo>
#include <cxxabi.h>
#include <unistd.h>

#include <xercesc/util/PlatformUtils.hpp>
#include <xercesc/util/XMLUni.hpp>
#include <xercesc/util/OutOfMemoryException.hpp>
#include <xercesc/util/XMLEntityResolver.hpp>
#include <xercesc/util/XMLResourceIdentifier.hpp>
#include <xercesc/util/BinMemInputStream.hpp>
#include <xercesc/util/BinFileInputStream.hpp>
#include <xercesc/util/StringPool.hpp>
#include <xercesc/util/XMLNumber.hpp>
#include <xercesc/util/RefHashTableOf.hpp>
#include <xercesc/util/RefHash2KeysTableOf.hpp>
#include <xercesc/util/RefHash3KeysIdPool.hpp>
#include <xercesc/util/NameIdPool.hpp>
#include <xercesc/util/XercesVersion.hpp>
#include <xercesc/internal/BinMemOutputStream.hpp>
#include <xercesc/internal/BinFileOutputStream.hpp>
#include <xercesc/internal/XSerializationException.hpp>
#include <xercesc/sax/InputSource.hpp>
#include <xercesc/sax/SAXParseException.hpp>
#include <xercesc/sax/SAXException.hpp>
#include <xercesc/sax/ErrorHandler.hpp>
#include <xercesc/sax2/ContentHandler.hpp>
#include <xercesc/sax2/Attributes.hpp>
#include <xercesc/parsers/SAX2XMLReaderImpl.hpp>
#include <xercesc/framework/MemBufInputSource.hpp>
#include <xercesc/framework/XMLGrammarPoolImpl.hpp>
#include <xercesc/framework/XMLGrammarDescription.hpp>
#include <xercesc/framework/XMLSchemaDescription.hpp>
#include <xercesc/framework/XMLDTDDescription.hpp>
#include <xercesc/framework/XMLNotationDecl.hpp>
#include <xercesc/framework/XMLAttDefList.hpp>
#include <xercesc/framework/psvi/XSModel.hpp>
#include <xercesc/framework/psvi/XSNamedMap.hpp>
#include <xercesc/framework/psvi/XSNamespaceItem.hpp>
#include <xercesc/framework/psvi/XSElementDeclaration.hpp>
#include <xercesc/framework/psvi/XSAttributeDeclaration.hpp>
#include <xercesc/framework/psvi/XSAttributeUse.hpp>
#include <xercesc/framework/psvi/XSAttributeGroupDefinition.hpp>
#include <xercesc/framework/psvi/XSModelGroupDefinition.hpp>
#include <xercesc/framework/psvi/XSModelGroup.hpp>
#include <xercesc/framework/psvi/XSParticle.hpp>
#include <xercesc/framework/psvi/XSWildcard.hpp>
#include <xercesc/framework/psvi/XSNotationDeclaration.hpp>
#include <xercesc/framework/psvi/XSIDCDefinition.hpp>
#include <xercesc/framework/psvi/XSSimpleTypeDefinition.hpp>
#include <xercesc/framework/psvi/XSComplexTypeDefinition.hpp>
#include <xercesc/framework/psvi/XSFacet.hpp>
#include <xercesc/framework/psvi/XSMultiValueFacet.hpp>
#include <xercesc/framework/psvi/XSAnnotation.hpp>
#include <xercesc/framework/psvi/PSVIHandler.hpp>
#include <xercesc/framework/psvi/PSVIElement.hpp>
#include <xercesc/framework/psvi/PSVIAttribute.hpp>
#include <xercesc/framework/psvi/PSVIAttributeList.hpp>
#include <xercesc/validators/common/Grammar.hpp>
#include <xercesc/validators/common/ContentSpecNode.hpp>
#include <xercesc/framework/XMLContentModel.hpp>
#include <xercesc/validators/DTD/DTDGrammar.hpp>
#include <xercesc/validators/DTD/DTDElementDecl.hpp>
#include <xercesc/validators/DTD/DTDAttDef.hpp>
#include <xercesc/validators/DTD/DTDEntityDecl.hpp>
#include <xercesc/validators/schema/SchemaGrammar.hpp>
#include <xercesc/validators/schema/SchemaElementDecl.hpp>
#include <xercesc/validators/schema/SchemaAttDef.hpp>
#include <xercesc/validators/schema/SchemaAttDefList.hpp>
#include <xercesc/validators/schema/SchemaSymbols.hpp>
#include <xercesc/validators/schema/ComplexTypeInfo.hpp>
#include <xercesc/validators/schema/XercesGroupInfo.hpp>
#include <xercesc/validators/schema/XercesAttGroupInfo.hpp>
#include <xercesc/validators/schema/identity/IdentityConstraint.hpp>
#include <xercesc/validators/schema/identity/IC_Field.hpp>
#include <xercesc/validators/schema/identity/IC_Selector.hpp>
#include <xercesc/validators/schema/identity/IC_KeyRef.hpp>
#include <xercesc/validators/schema/identity/XercesXPath.hpp>
#include <xercesc/validators/datatype/DatatypeValidator.hpp>
#include <xercesc/validators/datatype/DatatypeValidatorFactory.hpp>
#include <xercesc/validators/datatype/AbstractStringValidator.hpp>
#include <xercesc/validators/datatype/AbstractNumericFacetValidator.hpp>
#include <xercesc/validators/datatype/DecimalDatatypeValidator.hpp>
#include <xercesc/validators/datatype/ListDatatypeValidator.hpp>
#include <xercesc/validators/datatype/UnionDatatypeValidator.hpp>

using namespace xercesc;

namespace xv {
namespace {

// ------------------------------------------------------------------------------------------------
//  monitor-side helpers
// ------------------------------------------------------------------------------------------------
static uint32_t crcTable[256];
static bool crcInit = false;
static uint32_t crc32(uint32_t crc, const unsigned char* p, size_t n) {
    if (!crcInit) {
        for (uint32_t i = 0; i < 256; i++) { uint32_t c = i; for (int k = 0; k < 8; k++) c = (c & 1) ? 0xEDB88320u ^ (c >> 1) : c >> 1; crcTable[i] = c; }
        crcInit = true;
    }
    crc = ~crc;
    for (size_t i = 0; i < n; i++) crc = crcTable[(crc ^ p[i]) & 0xFF] ^ (crc >> 8);
    return ~crc;
}
static std::string hex8(uint32_t v) { char b[16]; snprintf(b, sizeof b, "%08x", v); return b; }
// "<line count>:<byte count>:<crc32 of the lines, each followed by LF>" — recomputed by the checker with zlib.crc32
static std::string digest(const std::vector<std::string>& v) {
    uint32_t c = 0; size_t bytes = 0; static const unsigned char nl = '\n';
    for (size_t i = 0; i < v.size(); i++) { c = crc32(c, (const unsigned char*)v[i].data(), v[i].size()); c = crc32(c, &nl, 1); bytes += v[i].size() + 1; }
    return itos((long long)v.size()) + ":" + itos((long long)bytes) + ":" + hex8(c);
}
static std::string demangle(const char* n) {
    int st = 0; char* r = abi::__cxa_demangle(n, 0, 0, &st);
    std::string s = (st == 0 && r) ? r : n; free(r);
    size_t p = s.find("xercesc_4_0::"); while (p != std::string::npos) { s.erase(p, 13); p = s.find("xercesc_4_0::"); }
    return s;
}
static bool optb(const std::map<std::string, std::string>& m, const char* k, bool d) {
    std::map<std::string, std::string>::const_iterator i = m.find(k); if (i == m.end()) return d; return i->second != "0";
}
static std::string opts(const std::map<std::string, std::string>& m, const char* k, const char* d) {
    std::map<std::string, std::string>::const_iterator i = m.find(k); if (i == m.end()) return d; return i->second;
}
// one enumeration line: KIND <TAB> id <TAB> field=value ...
struct Ln {
    std::string s;
    Ln(const char* kind, const std::string& id) { s = kind; s += '\t'; s += id; }
    Ln& f(const char* k, const std::string& v) { s += '\t'; s += k; s += '='; s += v; return *this; }
    Ln& f(const char* k, const XMLCh* v) { return f(k, esc(v)); }
    Ln& f(const char* k, long long v) { return f(k, itos(v)); }
    Ln& f(const char* k, int v) { return f(k, itos(v)); }
    Ln& f(const char* k, unsigned int v) { return f(k, itos((long long)v)); }
    Ln& f(const char* k, unsigned long v) { return f(k, itos((long long)v)); }
    Ln& f(const char* k, bool v) { return f(k, std::string(v ? "1" : "0")); }
};
static std::string joinSorted(std::vector<std::string> v, const char* sep = "|") {
    std::sort(v.begin(), v.end()); std::string o; for (size_t i = 0; i < v.size(); i++) { if (i) o += sep; o += v[i]; } return o;
}
static std::string join(const std::vector<std::string>& v, const char* sep = "|") {
    std::string o; for (size_t i = 0; i < v.size(); i++) { if (i) o += sep; o += v[i]; } return o;
}
static std::string strList(const RefArrayVectorOf<XMLCh>* l, bool sorted = false) {
    if (!l) return "~";
    std::vector<std::string> v; for (XMLSize_t i = 0; i < l->size(); i++) v.push_back(esc(l->elementAt(i)));
    return "[" + (sorted ? joinSorted(v) : join(v)) + "]";
}

// ------------------------------------------------------------------------------------------------
//  XSModel enumeration (public XS* API only)
// ------------------------------------------------------------------------------------------------
struct XSDump {
    std::vector<std::string>& out; XSModel* model;
    std::set<const void*> seen; std::deque<std::pair<int, XSObject*> > q;   // kind 0 type, 1 element, 2 attribute declaration
    xstr xsNs;
    XSDump(std::vector<std::string>& o, XSModel* m) : out(o), model(m), xsNs(SchemaSymbols::fgURI_SCHEMAFORSCHEMA) {}

    static std::string qn(const XMLCh* ns, const XMLCh* name) { return "{" + esc(ns) + "}" + esc(name); }
    static std::string annot(XSAnnotation* a) {
        if (!a) return "~";
        std::string o; int guard = 0;
        for (; a && guard < 1000; a = a->getNext(), guard++) {
            XMLFileLoc l = 0, c = 0; a->getLineCol(l, c);
            o += "<" + itos((long long)l) + ":" + itos((long long)c) + ":" + esc(a->getSystemId()) + ":" + esc(a->getAnnotationString()) + ">";
        }
        return o;
    }
    static std::string annots(XSAnnotationList* l) {
        if (!l) return "~";
        std::vector<std::string> v; for (XMLSize_t i = 0; i < l->size(); i++) v.push_back(annot(l->elementAt(i)));
        return "[" + join(v) + "]";
    }
    bool builtinNs(const XMLCh* ns) { return ns && xstr(ns) == xsNs; }
    void push(int kind, XSObject* o) { if (o && seen.insert(o).second) q.push_back(std::make_pair(kind, o)); }
    std::string tref(XSTypeDefinition* t) {
        if (!t) return "~";
        std::string s = qn(t->getNamespace(), t->getName());
        if (t->getAnonymous()) s += "#anon";
        s += t->getTypeCategory() == XSTypeDefinition::SIMPLE_TYPE ? "/S" : "/C";
        if (!builtinNs(t->getNamespace())) push(0, t);
        return s;
    }
    std::string elid(XSElementDeclaration* e) {
        if (!e) return "~";
        std::string s = qn(e->getNamespace(), e->getName());
        if (e->getScope() != XSConstants::SCOPE_GLOBAL) {
            XSComplexTypeDefinition* ct = e->getEnclosingCTDefinition();
            s += "@" + itos((int)e->getScope()) + (ct ? qn(ct->getNamespace(), ct->getName()) : std::string("~"));
        }
        return s;
    }
    std::string eref(XSElementDeclaration* e) { if (e) push(1, e); return elid(e); }
    std::string wildcard(XSWildcard* w) {
        if (!w) return "~";
        return "W(" + itos((int)w->getConstraintType()) + ";" + strList(w->getNsConstraintList(), true) + ";" + itos((int)w->getProcessContents()) + ";" + annot(w->getAnnotation()) + ")";
    }
    std::string particle(XSParticle* p, int depth = 0) {
        if (!p) return "~";
        if (depth > 200) return "TOO-DEEP";
        std::string occ = "{" + itos((long long)p->getMinOccurs()) + "," + (p->getMaxOccursUnbounded() ? std::string("*") : itos((long long)p->getMaxOccurs())) + "}";
        switch (p->getTermType()) {
            case XSParticle::TERM_ELEMENT: { XSElementDeclaration* e = p->getElementTerm(); return "E<" + eref(e) + ":" + (e ? tref(e->getTypeDefinition()) : std::string("~")) + ">" + occ; }
            case XSParticle::TERM_WILDCARD: return wildcard(p->getWildcardTerm()) + occ;
            case XSParticle::TERM_MODELGROUP: return group(p->getModelGroupTerm(), depth) + occ;
            default: return "EMPTY" + occ;
        }
    }
    std::string group(XSModelGroup* g, int depth = 0) {
        if (!g) return "~";
        std::string s = g->getCompositor() == XSModelGroup::COMPOSITOR_SEQUENCE ? "S(" : g->getCompositor() == XSModelGroup::COMPOSITOR_CHOICE ? "C(" : "A(";
        XSParticleList* l = g->getParticles();
        if (l) for (XMLSize_t i = 0; i < l->size(); i++) { if (i) s += ","; s += particle(l->elementAt(i), depth + 1); }
        s += ")";
        if (g->getAnnotation()) s += "!" + annot(g->getAnnotation());
        return s;
    }
    std::string attrUses(XSAttributeUseList* l) {
        if (!l) return "~";
        std::vector<std::string> v;
        for (XMLSize_t i = 0; i < l->size(); i++) {
            XSAttributeUse* u = l->elementAt(i); XSAttributeDeclaration* d = u->getAttrDeclaration();
            std::string s = d ? qn(d->getNamespace(), d->getName()) : std::string("~");
            s += ":req" + itos((int)u->getRequired()) + ":c" + itos((int)u->getConstraintType()) + ":" + esc(u->getConstraintValue());
            if (d) {
                s += ":" + tref(d->getTypeDefinition()) + ":s" + itos((int)d->getScope()) + ":dc" + itos((int)d->getConstraintType()) + ":" + esc(d->getConstraintValue()) + ":dreq" + itos((int)d->getRequired());
                XSComplexTypeDefinition* ct = d->getEnclosingCTDefinition();
                s += ":in" + (ct ? qn(ct->getNamespace(), ct->getName()) : std::string("~")) + ":" + annot(d->getAnnotation());
            }
            v.push_back(s);
        }
        return "[" + joinSorted(v) + "]";
    }
    void simpleType(XSSimpleTypeDefinition* t) {
        Ln l("XST", qn(t->getNamespace(), t->getName()));
        l.f("anon", t->getAnonymous()).f("base", tref(t->getBaseType())).f("variety", (int)t->getVariety()).f("final", (int)t->getFinal());
        if (t->getVariety() == XSSimpleTypeDefinition::VARIETY_ATOMIC) l.f("prim", tref(t->getPrimitiveType()));
        if (t->getVariety() == XSSimpleTypeDefinition::VARIETY_LIST) l.f("item", tref(t->getItemType()));
        if (t->getVariety() == XSSimpleTypeDefinition::VARIETY_UNION) {
            std::vector<std::string> v; XSSimpleTypeDefinitionList* ml = t->getMemberTypes();
            if (ml) for (XMLSize_t i = 0; i < ml->size(); i++) v.push_back(tref(ml->elementAt(i)));
            l.f("members", "[" + join(v) + "]");
        }
        int df = t->getDefinedFacets();
        l.f("defined", df).f("fixed", t->getFixedFacets());
        static const struct { XSSimpleTypeDefinition::FACET f; const char* n; } FK[] = {
            { XSSimpleTypeDefinition::FACET_LENGTH, "length" }, { XSSimpleTypeDefinition::FACET_MINLENGTH, "minLength" }, { XSSimpleTypeDefinition::FACET_MAXLENGTH, "maxLength" },
            { XSSimpleTypeDefinition::FACET_WHITESPACE, "whiteSpace" }, { XSSimpleTypeDefinition::FACET_MAXINCLUSIVE, "maxInclusive" }, { XSSimpleTypeDefinition::FACET_MAXEXCLUSIVE, "maxExclusive" },
            { XSSimpleTypeDefinition::FACET_MINEXCLUSIVE, "minExclusive" }, { XSSimpleTypeDefinition::FACET_MININCLUSIVE, "minInclusive" }, { XSSimpleTypeDefinition::FACET_TOTALDIGITS, "totalDigits" },
            { XSSimpleTypeDefinition::FACET_FRACTIONDIGITS, "fractionDigits" } };
        for (size_t i = 0; i < sizeof FK / sizeof FK[0]; i++) if (df & FK[i].f) l.f(FK[i].n, t->getLexicalFacetValue(FK[i].f));
        l.f("enumeration", strList(t->getLexicalEnumeration())).f("pattern", strList(t->getLexicalPattern()));
        l.f("ordered", (int)t->getOrdered()).f("finite", t->getFinite()).f("bounded", t->getBounded()).f("numeric", t->getNumeric());
        l.f("annotations", annots(t->getAnnotations()));
        std::vector<std::string> fv; XSFacetList* fl = t->getFacets();
        if (fl) for (XMLSize_t i = 0; i < fl->size(); i++) { XSFacet* f = fl->elementAt(i); fv.push_back(itos((int)f->getFacetKind()) + ":" + esc(f->getLexicalFacetValue()) + ":" + itos((int)f->isFixed()) + ":" + annot(f->getAnnotation())); }
        l.f("facets", "[" + joinSorted(fv) + "]");     // built from a hash table of facets: the order is not meaningful
        std::vector<std::string> mv; XSMultiValueFacetList* ml = t->getMultiValueFacets();
        if (ml) for (XMLSize_t i = 0; i < ml->size(); i++) { XSMultiValueFacet* f = ml->elementAt(i); mv.push_back(itos((int)f->getFacetKind()) + ":" + strList(f->getLexicalFacetValues()) + ":" + itos((int)f->isFixed()) + ":" + annots(f->getAnnotations())); }
        l.f("mvfacets", "[" + joinSorted(mv) + "]");
        out.push_back(l.s);
    }
    void complexType(XSComplexTypeDefinition* t) {
        Ln l("XCT", qn(t->getNamespace(), t->getName()));
        l.f("anon", t->getAnonymous()).f("base", tref(t->getBaseType())).f("derivation", (int)t->getDerivationMethod()).f("abstract", t->getAbstract());
        l.f("final", (int)t->getFinal()).f("prohibited", (int)t->getProhibitedSubstitutions()).f("contentType", (int)t->getContentType());
        l.f("simpleType", tref(t->getSimpleType())).f("particle", particle(t->getParticle())).f("attrUses", attrUses(t->getAttributeUses()));
        l.f("attrWildcard", wildcard(t->getAttributeWildcard())).f("annotations", annots(t->getAnnotations()));
        out.push_back(l.s);
    }
    void idc(XSElementDeclaration* owner, XSIDCDefinition* c) {
        Ln l("XIC", elid(owner) + "/" + qn(c->getNamespace(), c->getName()));
        l.f("category", (int)c->getCategory()).f("selector", c->getSelectorStr()).f("fields", strList(c->getFieldStrs()));
        XSIDCDefinition* k = c->getRefKey();
        l.f("refkey", k ? qn(k->getNamespace(), k->getName()) : std::string("~")).f("annotations", annots(c->getAnnotations()));
        out.push_back(l.s);
    }
    void element(XSElementDeclaration* e) {
        Ln l("XEL", elid(e));
        l.f("type", tref(e->getTypeDefinition())).f("scope", (int)e->getScope()).f("constraint", (int)e->getConstraintType()).f("value", e->getConstraintValue());
        l.f("nillable", e->getNillable()).f("abstract", e->getAbstract()).f("subst", eref(e->getSubstitutionGroupAffiliation()));
        l.f("substExcl", (int)e->getSubstitutionGroupExclusions()).f("disallowed", (int)e->getDisallowedSubstitutions()).f("annotation", annot(e->getAnnotation()));
        std::vector<std::string> names; XSNamedMap<XSIDCDefinition>* m = e->getIdentityConstraints();
        if (m) for (XMLSize_t i = 0; i < m->getLength(); i++) { XSIDCDefinition* c = m->item(i); if (c) { names.push_back(qn(c->getNamespace(), c->getName())); idc(e, c); } }
        l.f("idcs", "[" + joinSorted(names) + "]");
        out.push_back(l.s);
    }
    void attribute(XSAttributeDeclaration* a) {
        Ln l("XAT", qn(a->getNamespace(), a->getName()));
        XSComplexTypeDefinition* ct = a->getEnclosingCTDefinition();
        l.f("type", tref(a->getTypeDefinition())).f("scope", (int)a->getScope()).f("constraint", (int)a->getConstraintType()).f("value", a->getConstraintValue());
        l.f("required", a->getRequired()).f("in", ct ? qn(ct->getNamespace(), ct->getName()) : std::string("~")).f("annotation", annot(a->getAnnotation()));
        out.push_back(l.s);
    }
    void drain() {
        while (!q.empty()) {
            std::pair<int, XSObject*> it = q.front(); q.pop_front();
            if (it.first == 0) {
                XSTypeDefinition* t = (XSTypeDefinition*)it.second;
                if (t->getTypeCategory() == XSTypeDefinition::SIMPLE_TYPE) simpleType((XSSimpleTypeDefinition*)t); else complexType((XSComplexTypeDefinition*)t);
            } else if (it.first == 1) element((XSElementDeclaration*)it.second);
            else attribute((XSAttributeDeclaration*)it.second);
        }
    }
    void run() {
        StringList* nss = model->getNamespaces();
        out.push_back(Ln("XMODEL", "-").f("namespaces", strList(nss, true)).s);
        {   // model-level annotation list (built from a pointer-keyed table: order is not meaningful)
            std::vector<std::string> v; XSAnnotationList* al = model->getAnnotations();
            if (al) for (XMLSize_t i = 0; i < al->size(); i++) v.push_back(annot(al->elementAt(i)));
            out.push_back(Ln("XANN", "-").f("all", "[" + joinSorted(v) + "]").s);
        }
        XSNamespaceItemList* items = model->getNamespaceItems();
        if (items) for (XMLSize_t i = 0; i < items->size(); i++) {
            XSNamespaceItem* ni = items->elementAt(i);
            if (builtinNs(ni->getSchemaNamespace())) continue;
            std::vector<std::string> v; XSAnnotationList* al = ni->getAnnotations();
            if (al) for (XMLSize_t k = 0; k < al->size(); k++) v.push_back(annot(al->elementAt(k)));
            out.push_back(Ln("XNS", esc(ni->getSchemaNamespace())).f("docs", strList(ni->getDocumentLocations(), true)).f("annotations", "[" + joinSorted(v) + "]").s);
        }
        if (nss) for (XMLSize_t i = 0; i < nss->size(); i++) {
            const XMLCh* ns = nss->elementAt(i);
            if (builtinNs(ns)) continue;
            XSNamedMap<XSObject>* m;
            if ((m = model->getComponentsByNamespace(XSConstants::ELEMENT_DECLARATION, ns))) for (XMLSize_t k = 0; k < m->getLength(); k++) push(1, m->item(k));
            if ((m = model->getComponentsByNamespace(XSConstants::TYPE_DEFINITION, ns))) for (XMLSize_t k = 0; k < m->getLength(); k++) push(0, m->item(k));
            if ((m = model->getComponentsByNamespace(XSConstants::ATTRIBUTE_DECLARATION, ns))) for (XMLSize_t k = 0; k < m->getLength(); k++) push(2, m->item(k));
            if ((m = model->getComponentsByNamespace(XSConstants::ATTRIBUTE_GROUP_DEFINITION, ns))) for (XMLSize_t k = 0; k < m->getLength(); k++) {
                XSAttributeGroupDefinition* g = (XSAttributeGroupDefinition*)m->item(k); if (!g) continue;
                out.push_back(Ln("XAG", qn(g->getNamespace(), g->getName())).f("attrUses", attrUses(g->getAttributeUses())).f("wildcard", wildcard(g->getAttributeWildcard())).f("annotation", annot(g->getAnnotation())).s);
            }
            if ((m = model->getComponentsByNamespace(XSConstants::MODEL_GROUP_DEFINITION, ns))) for (XMLSize_t k = 0; k < m->getLength(); k++) {
                XSModelGroupDefinition* g = (XSModelGroupDefinition*)m->item(k); if (!g) continue;
                out.push_back(Ln("XMG", qn(g->getNamespace(), g->getName())).f("group", group(g->getModelGroup())).f("annotation", annot(g->getAnnotation())).s);
            }
            if ((m = model->getComponentsByNamespace(XSConstants::NOTATION_DECLARATION, ns))) for (XMLSize_t k = 0; k < m->getLength(); k++) {
                XSNotationDeclaration* n = (XSNotationDeclaration*)m->item(k); if (!n) continue;
                out.push_back(Ln("XNO", qn(n->getNamespace(), n->getName())).f("system", n->getSystemId()).f("public", n->getPublicId()).f("annotation", annot(n->getAnnotation())).s);
            }
        }
        drain();
    }
};

// ------------------------------------------------------------------------------------------------
//  Grammar object graph through the exported getters (DTD grammars; schema grammars "internal view")
// ------------------------------------------------------------------------------------------------
struct GDump {
    std::vector<std::string>& out; XMLGrammarPool* pool; XMLStringPool* sp;
    GDump(std::vector<std::string>& o, XMLGrammarPool* p) : out(o), pool(p), sp(p->getURIStringPool()) {}

    std::string uri(unsigned int id) { if (sp && sp->exists(id)) return esc(sp->getValueForId(id)); return "#" + itos((long long)id); }
    std::string qname(const QName* q) { if (!q) return "~"; return "{" + uri(q->getURI()) + "}" + esc(q->getPrefix()) + ":" + esc(q->getLocalPart()); }
    static std::string num(XMLNumber* n) {
        if (!n) return "~";
        XMLCh* raw = n->getRawData(); return esc(raw) + "/" + esc(n->getFormattedString()) + "/" + itos(n->getSign());
    }
    std::string dvref(DatatypeValidator* dv) {
        if (!dv) return "~";
        return "{" + esc(dv->getTypeUri()) + "}" + esc(dv->getTypeLocalName()) + (dv->getAnonymous() ? "#anon" : "") + "/" + itos((int)dv->getType());
    }
    std::string spec(const ContentSpecNode* n, int depth = 0) {
        if (!n) return "~";
        if (depth > 400) return "TOO-DEEP";
        std::string s = "N" + itos((int)n->getType()) + "{" + itos(n->getMinOccurs()) + "," + itos(n->getMaxOccurs()) + "}";
        s += "<" + qname(n->getElement());
        const XMLElementDecl* d = n->getElementDecl();
        // (pool ids of schema element declarations are reassigned by the loader in hash order: not part of the comparison)
        s += "@" + (d ? esc(d->getFullName()) + (d->getObjectType() == XMLElementDecl::DTD ? "#" + itos((long long)d->getId()) : std::string()) + "/" + itos((int)d->getObjectType()) : std::string("~")) + ">";
        if (n->getFirst() || n->getSecond())
            s += "(" + spec(n->getFirst(), depth + 1) + (n->isFirstAdopted() ? "a" : "r") + "," + spec(n->getSecond(), depth + 1) + (n->isSecondAdopted() ? "a" : "r") + ")";
        return s;
    }
    // ---- DTD
    void dtd(const std::string& key, DTDGrammar* g) {
        XMLDTDDescription* gd = (XMLDTDDescription*)g->getGrammarDescription();
        out.push_back(Ln("DGR", key).f("validated", g->getValidated()).f("descKey", gd ? esc(gd->getGrammarKey()) : std::string("~")).f("root", gd ? esc(gd->getRootName()) : std::string("~"))
                      .f("system", gd ? esc(gd->getSystemId()) : std::string("~")).f("targetNs", g->getTargetNamespace()).s);
        NameIdPoolEnumerator<DTDElementDecl> ee = g->getElemEnumerator();
        while (ee.hasMoreElements()) {
            DTDElementDecl& e = ee.nextElement();
            Ln l("DEL", key + "|" + esc(e.getFullName()));
            l.f("id", (unsigned long)e.getId()).f("qname", qname(e.getElementName())).f("model", (int)e.getModelType()).f("create", (int)e.getCreateReason()).f("external", e.isExternal());
            l.f("declared", e.isDeclared()).f("charopts", (int)e.getCharDataOpts()).f("spec", spec(e.getContentSpec())).f("formatted", e.getFormattedContentModel());
            XMLContentModel* cm = 0;
            try { cm = e.getContentModel(); } catch (const XMLException& x) { l.f("cmexc", u8(x.getType())); }
            l.f("cm", cm ? demangle(typeid(*cm).name()) : std::string("~"));
            std::vector<std::string> an;
            if (e.hasAttDefs()) {
                XMLAttDefList& al = e.getAttDefList();
                for (XMLSize_t i = 0; i < al.getAttDefCount(); i++) {
                    DTDAttDef& a = (DTDAttDef&)al.getAttDef(i);
                    an.push_back(esc(a.getFullName()));
                    Ln m("DAT", key + "|" + esc(e.getFullName()) + "|" + esc(a.getFullName()));
                    m.f("type", (int)a.getType()).f("default", (int)a.getDefaultType()).f("value", a.getValue()).f("enum", a.getEnumeration()).f("id", (unsigned long)a.getId())
                     .f("elemId", (unsigned long)a.getElemId()).f("create", (int)a.getCreateReason()).f("external", a.isExternal());
                    out.push_back(m.s);
                }
            }
            l.f("attrs", "[" + joinSorted(an) + "]");
            out.push_back(l.s);
        }
        NameIdPoolEnumerator<DTDEntityDecl> en = g->getEntityEnumerator();
        while (en.hasMoreElements()) {
            DTDEntityDecl& e = en.nextElement();
            Ln l("DEN", key + "|" + esc(e.getName()));
            l.f("id", (unsigned long)e.getId()).f("value", e.getValue()).f("len", (unsigned long)e.getValueLen()).f("public", e.getPublicId()).f("system", e.getSystemId()).f("notation", e.getNotationName())
             .f("base", e.getBaseURI()).f("intSubset", e.getDeclaredInIntSubset()).f("param", e.getIsParameter()).f("special", e.getIsSpecialChar()).f("external", e.isExternal()).f("unparsed", e.isUnparsed());
            out.push_back(l.s);
        }
        NameIdPoolEnumerator<XMLNotationDecl> nn = g->getNotationEnumerator();
        while (nn.hasMoreElements()) notation("DNO", key, nn.nextElement());
    }
    void notation(const char* kind, const std::string& key, XMLNotationDecl& n) {
        out.push_back(Ln(kind, key + "|" + esc(n.getName())).f("id", (unsigned long)n.getId()).f("public", n.getPublicId()).f("system", n.getSystemId()).f("base", n.getBaseURI()).f("ns", uri(n.getNameSpaceId())).s);
    }
    // ---- schema
    std::string attdef(const SchemaAttDef* a) {
        if (!a) return "~";
        std::string s = esc(a->getFullName()) + ";" + qname(a->getAttName()) + ";t" + itos((int)a->getType()) + ";d" + itos((int)a->getDefaultType()) + ";" + esc(a->getValue()) + ";" + esc(a->getEnumeration());
        s += ";" + dvref(a->getDatatypeValidator()) + ";ns";
        ValueVectorOf<unsigned int>* nl = a->getNamespaceList();
        if (!nl) s += "~"; else { s += "["; for (XMLSize_t i = 0; i < nl->size(); i++) { if (i) s += "|"; s += uri(nl->elementAt(i)); } s += "]"; }
        const SchemaAttDef* b = a->getBaseAttDecl();
        s += ";base" + (b ? esc(b->getFullName()) + "#" + itos((long long)b->getId()) : std::string("~"));
        s += ";psvi" + itos((int)a->getPSVIScope()) + ";el" + itos((long long)a->getElemId()) + ";id" + itos((long long)a->getId()) + ";cr" + itos((int)a->getCreateReason()) + ";x" + itos((int)a->isExternal());
        return s;
    }
    std::string attdefs(XMLAttDefList& al) {
        std::vector<std::string> v;
        for (XMLSize_t i = 0; i < al.getAttDefCount(); i++) v.push_back(attdef((SchemaAttDef*)&al.getAttDef(i)));
        return "[" + joinSorted(v, " || ") + "]";
    }
    std::string elref(const SchemaElementDecl* e) {
        if (!e) return "~";
        return "{" + uri(e->getURI()) + "}" + esc(e->getBaseName()) + "@" + itos((long long)e->getEnclosingScope());
    }
    std::string ctref(const ComplexTypeInfo* c) { return c ? esc(c->getTypeName()) : std::string("~"); }
    std::string xpath(XercesXPath* x) {
        if (!x) return "~";
        std::string s = esc(x->getExpression()) + "=>";
        RefVectorOf<XercesLocationPath>* lp = x->getLocationPaths();
        if (lp) for (XMLSize_t i = 0; i < lp->size(); i++) {
            XercesLocationPath* p = lp->elementAt(i); if (i) s += " | ";
            for (XMLSize_t k = 0; p && k < p->getStepSize(); k++) {
                XercesStep* st = p->getStep(k); XercesNodeTest* nt = st ? st->getNodeTest() : 0;
                s += "/" + (st ? itos((int)st->getAxisType()) : std::string("~")) + ":" + (nt ? itos((int)nt->getType()) + ":" + qname(nt->getName()) : std::string("~"));
            }
        }
        return s;
    }
    void dv(const std::string& key, const std::string& regKey, DatatypeValidator* d) {
        Ln l("SDV", key + "|" + regKey);
        l.f("self", dvref(d)).f("typeName", d->getTypeName()).f("class", demangle(typeid(*d).name())).f("finite", d->getFinite()).f("bounded", d->getBounded()).f("numeric", d->getNumeric());
        l.f("ws", (int)d->getWSFacet()).f("final", d->getFinalSet()).f("ordered", (int)d->getOrdered()).f("atomic", d->isAtomic());
        l.f("base", dvref(d->getBaseValidator())).f("enum", strList(d->getEnumString()));
        std::vector<std::string> fv; RefHashTableOf<KVStringPair>* fh = d->getFacets();
        if (fh) { RefHashTableOfEnumerator<KVStringPair> fe(fh, false, XMLPlatformUtils::fgMemoryManager); while (fe.hasMoreElements()) { KVStringPair& p = fe.nextElement(); fv.push_back(esc(p.getKey()) + "=" + esc(p.getValue())); } }
        l.f("facets", fh ? "[" + joinSorted(fv) + "]" : std::string("~"));
        if (AbstractStringValidator* s = dynamic_cast<AbstractStringValidator*>(d)) l.f("length", (unsigned long)s->getLength()).f("maxLength", (unsigned long)s->getMaxLength()).f("minLength", (unsigned long)s->getMinLength());
        if (ListDatatypeValidator* s = dynamic_cast<ListDatatypeValidator*>(d)) l.f("item", dvref(s->getItemTypeDTV()));
        if (UnionDatatypeValidator* s = dynamic_cast<UnionDatatypeValidator*>(d)) {
            std::vector<std::string> mv; RefVectorOf<DatatypeValidator>* m = s->getMemberTypeValidators();
            if (m) for (XMLSize_t i = 0; i < m->size(); i++) mv.push_back(dvref(m->elementAt(i)));
            l.f("members", "[" + join(mv) + "]");
        }
        if (AbstractNumericFacetValidator* s = dynamic_cast<AbstractNumericFacetValidator*>(d)) {
            l.f("maxInc", num(s->getMaxInclusive())).f("maxExc", num(s->getMaxExclusive())).f("minInc", num(s->getMinInclusive())).f("minExc", num(s->getMinExclusive()));
            std::vector<std::string> ev; RefVectorOf<XMLNumber>* en = s->getEnumeration();
            if (en) for (XMLSize_t i = 0; i < en->size(); i++) ev.push_back(num(en->elementAt(i)));
            l.f("enumNumbers", en ? "[" + join(ev) + "]" : std::string("~"));
        }
        if (DecimalDatatypeValidator* s = dynamic_cast<DecimalDatatypeValidator*>(d)) l.f("totalDigits", s->getTotalDigits()).f("fractionDigits", s->getFractionDigits());
        out.push_back(l.s);
    }
    void complexType(const std::string& key, const std::string& regKey, ComplexTypeInfo* c) {
        Ln l("SCT", key + "|" + regKey);
        l.f("name", c->getTypeName()).f("local", c->getTypeLocalName()).f("uri", c->getTypeUri()).f("anon", c->getAnonymous()).f("abstract", c->getAbstract()).f("adoptSpec", c->getAdoptContentSpec());
        l.f("attWithTypeId", c->containsAttWithTypeId()).f("preprocessed", c->getPreprocessed()).f("derivedBy", c->getDerivedBy()).f("block", c->getBlockSet()).f("final", c->getFinalSet());
        l.f("scope", c->getScopeDefined()).f("elementId", c->getElementId()).f("contentType", c->getContentType()).f("baseDV", dvref(c->getBaseDatatypeValidator())).f("dv", dvref(c->getDatatypeValidator()));
        l.f("baseCT", ctref(c->getBaseComplexTypeInfo())).f("spec", spec(c->getContentSpec())).f("wildcard", attdef(c->getAttWildCard()));
        l.f("attrs", c->hasAttDefs() ? attdefs(c->getAttDefList()) : std::string("[]"));
        std::vector<std::string> ev; for (XMLSize_t i = 0; i < c->elementCount(); i++) ev.push_back(elref(c->elementAt(i)));
        l.f("elements", "[" + join(ev) + "]");
        l.f("formatted", c->getFormattedContentModel());
        XMLContentModel* cm = 0;
        try { cm = c->getContentModel(); } catch (const XMLException& x) { l.f("cmexc", u8(x.getType())); }
        l.f("cm", cm ? demangle(typeid(*cm).name()) : std::string("~"));
        out.push_back(l.s);
    }
    void elementDecl(const std::string& key, SchemaElementDecl& e) {
        Ln l("SEL", key + "|" + elref(&e));
        l.f("qname", qname(e.getElementName())).f("model", (int)e.getModelType()).f("psvi", (int)e.getPSVIScope()).f("create", (int)e.getCreateReason()).f("external", e.isExternal());
        l.f("final", e.getFinalSet()).f("block", e.getBlockSet()).f("misc", e.getMiscFlags()).f("default", e.getDefaultValue()).f("ct", ctref(e.getComplexTypeInfo())).f("dv", dvref(e.getDatatypeValidator()));
        l.f("subst", elref(e.getSubstitutionGroupElem())).f("wildcard", attdef(e.getAttWildCard())).f("global", e.isGlobalDecl()).f("charopts", (int)e.getCharDataOpts());
        l.f("attrs", e.hasAttDefs() ? attdefs(e.getAttDefList()) : std::string("[]"));
        std::vector<std::string> ics;
        for (XMLSize_t i = 0; i < e.getIdentityConstraintCount(); i++) {
            IdentityConstraint* ic = e.getIdentityConstraintAt(i); if (!ic) continue;
            ics.push_back(esc(ic->getIdentityConstraintName()));
            Ln m("SIC", key + "|" + elref(&e) + "|" + esc(ic->getIdentityConstraintName()));
            m.f("type", (int)ic->getType()).f("elem", ic->getElementName()).f("ns", uri((unsigned int)ic->getNamespaceURI())).f("selector", ic->getSelector() ? xpath(ic->getSelector()->getXPath()) : std::string("~"));
            m.f("selectorBack", ic->getSelector() && ic->getSelector()->getIdentityConstraint() == ic);
            std::vector<std::string> fv; bool back = true;
            for (XMLSize_t k = 0; k < ic->getFieldCount(); k++) { IC_Field* f = ic->getFieldAt(k); fv.push_back(f ? xpath(f->getXPath()) : std::string("~")); if (f && f->getIdentityConstraint() != ic) back = false; }
            m.f("fields", "[" + join(fv, " ;; ") + "]").f("fieldsBack", back);
            if (ic->getType() == IdentityConstraint::ICType_KEYREF) { IdentityConstraint* k = ((IC_KeyRef*)ic)->getKey(); m.f("key", k ? esc(k->getIdentityConstraintName()) + "@" + esc(k->getElementName()) : std::string("~")); }
            out.push_back(m.s);
        }
        l.f("ics", "[" + join(ics) + "]");
        out.push_back(l.s);
    }
    void schema(const std::string& key, SchemaGrammar* g) {
        XMLSchemaDescription* gd = (XMLSchemaDescription*)g->getGrammarDescription();
        Ln l("SGR", key);
        l.f("targetNs", g->getTargetNamespace()).f("validated", g->getValidated());
        if (gd) {
            l.f("descKey", gd->getGrammarKey()).f("context", (int)gd->getContextType()).f("descNs", gd->getTargetNamespace()).f("hints", strList(gd->getLocationHints()))
             .f("trigger", qname(gd->getTriggeringComponent())).f("enclosing", qname(gd->getEnclosingElementName())).f("descAttrs", gd->getAttributes() != 0);
        }
        {
            // the table is keyed by the address of the annotated component: label every entry with the kind of its owner
            std::map<const void*, std::string> owner;
            owner[g] = "schema";
            { RefHash3KeysIdPoolEnumerator<SchemaElementDecl> e2 = g->getElemEnumerator();
              while (e2.hasMoreElements()) { SchemaElementDecl& e = e2.nextElement(); owner[&e] = "element";
                  for (XMLSize_t i = 0; i < e.getIdentityConstraintCount(); i++) owner[e.getIdentityConstraintAt(i)] = "identity-constraint";
                  if (e.getAttWildCard()) owner[e.getAttWildCard()] = "attribute-wildcard"; } }
            { NameIdPoolEnumerator<XMLNotationDecl> n2 = g->getNotationEnumerator(); while (n2.hasMoreElements()) owner[&n2.nextElement()] = "notation"; }
            if (RefHashTableOf<XMLAttDef>* ar = g->getAttributeDeclRegistry()) { RefHashTableOfEnumerator<XMLAttDef> e(ar, false, XMLPlatformUtils::fgMemoryManager); while (e.hasMoreElements()) owner[&e.nextElement()] = "attribute"; }
            if (RefHashTableOf<ComplexTypeInfo>* cr = g->getComplexTypeRegistry()) {
                RefHashTableOfEnumerator<ComplexTypeInfo> e(cr, false, XMLPlatformUtils::fgMemoryManager);
                while (e.hasMoreElements()) { ComplexTypeInfo& c = e.nextElement(); owner[&c] = "complexType";
                    if (c.getAttWildCard()) owner[c.getAttWildCard()] = "attribute-wildcard";
                    if (c.hasAttDefs()) { XMLAttDefList& al = c.getAttDefList(); for (XMLSize_t i = 0; i < al.getAttDefCount(); i++) owner[&al.getAttDef(i)] = "local-attribute"; }
                    std::deque<const ContentSpecNode*> q; if (c.getContentSpec()) q.push_back(c.getContentSpec());
                    size_t guard = 0;
                    while (!q.empty() && guard++ < 100000) { const ContentSpecNode* n = q.front(); q.pop_front(); owner[n] = "particle"; if (n->getFirst()) q.push_back(n->getFirst()); if (n->getSecond()) q.push_back(n->getSecond()); } }
            }
            if (RefHashTableOf<XercesGroupInfo>* gr = g->getGroupInfoRegistry()) { RefHashTableOfEnumerator<XercesGroupInfo> e(gr, false, XMLPlatformUtils::fgMemoryManager);
                while (e.hasMoreElements()) { XercesGroupInfo& gi = e.nextElement(); owner[&gi] = "group";
                    std::deque<const ContentSpecNode*> q; if (gi.getContentSpec()) q.push_back(gi.getContentSpec());
                    size_t guard = 0;
                    while (!q.empty() && guard++ < 100000) { const ContentSpecNode* n = q.front(); q.pop_front(); owner[n] = "particle"; if (n->getFirst()) q.push_back(n->getFirst()); if (n->getSecond()) q.push_back(n->getSecond()); } } }
            if (RefHashTableOf<XercesAttGroupInfo>* ag = g->getAttGroupInfoRegistry()) { RefHashTableOfEnumerator<XercesAttGroupInfo> e(ag, false, XMLPlatformUtils::fgMemoryManager); while (e.hasMoreElements()) owner[&e.nextElement()] = "attributeGroup"; }
            if (DatatypeValidatorFactory* f = g->getDatatypeRegistry()) if (RefHashTableOf<DatatypeValidator>* ur = f->getUserDefinedRegistry()) {
                RefHashTableOfEnumerator<DatatypeValidator> e(ur, false, XMLPlatformUtils::fgMemoryManager);
                while (e.hasMoreElements()) { DatatypeValidator& d = e.nextElement(); owner[&d] = "simpleType";
                    if (RefHashTableOf<KVStringPair>* fh = d.getFacets()) { RefHashTableOfEnumerator<KVStringPair> fe(fh, false, XMLPlatformUtils::fgMemoryManager); while (fe.hasMoreElements()) owner[&fe.nextElement()] = "facet"; }
                    if (d.getEnumString()) owner[d.getEnumString()] = "enumeration"; } }
            std::vector<std::string> v; RefHashTableOf<XSAnnotation, PtrHasher>* ah = g->getAnnotations();
            if (ah) {
                RefHashTableOfEnumerator<XSAnnotation, PtrHasher> ae(ah, false, XMLPlatformUtils::fgMemoryManager);
                while (ae.hasMoreElements()) { void* k = ae.nextElementKey(); XSAnnotation* a = ah->get(k); std::map<const void*, std::string>::iterator o = owner.find(k);
                    v.push_back("{" + (o == owner.end() ? std::string("other") : o->second) + "}" + XSDump::annot(a)); }
            }
            l.f("annotations", "[" + joinSorted(v, " || ") + "]").f("grammarAnnotation", XSDump::annot(g->getAnnotation()));
        }
        out.push_back(l.s);
        RefHash3KeysIdPoolEnumerator<SchemaElementDecl> ee = g->getElemEnumerator();
        while (ee.hasMoreElements()) elementDecl(key, ee.nextElement());
        NameIdPoolEnumerator<XMLNotationDecl> nn = g->getNotationEnumerator();
        while (nn.hasMoreElements()) notation("SNO", key, nn.nextElement());
        if (RefHashTableOf<XMLAttDef>* ar = g->getAttributeDeclRegistry()) {
            RefHashTableOfEnumerator<XMLAttDef> e(ar, false, XMLPlatformUtils::fgMemoryManager);
            while (e.hasMoreElements()) { SchemaAttDef& a = (SchemaAttDef&)e.nextElement(); out.push_back(Ln("SAT", key + "|" + esc(a.getFullName())).f("def", attdef(&a)).s); }
        }
        if (RefHashTableOf<ComplexTypeInfo>* cr = g->getComplexTypeRegistry()) {
            RefHashTableOfEnumerator<ComplexTypeInfo> e(cr, false, XMLPlatformUtils::fgMemoryManager);
            while (e.hasMoreElements()) { XMLCh* k = (XMLCh*)e.nextElementKey(); ComplexTypeInfo* c = cr->get(k); if (c) complexType(key, esc(k), c); }
        }
        if (RefHashTableOf<XercesGroupInfo>* gr = g->getGroupInfoRegistry()) {
            RefHashTableOfEnumerator<XercesGroupInfo> e(gr, false, XMLPlatformUtils::fgMemoryManager);
            while (e.hasMoreElements()) {
                XMLCh* k = (XMLCh*)e.nextElementKey(); XercesGroupInfo* gi = gr->get(k); if (!gi) continue;
                Ln m("SGP", key + "|" + esc(k));
                m.f("name", uri(gi->getNameId())).f("ns", uri(gi->getNamespaceId())).f("scope", gi->getScope()).f("consistency", gi->getCheckElementConsistency()).f("spec", spec(gi->getContentSpec()));
                std::vector<std::string> ev; for (XMLSize_t i = 0; i < gi->elementCount(); i++) ev.push_back(elref(gi->elementAt(i)));
                XercesGroupInfo* b = gi->getBaseGroup();
                m.f("elements", "[" + join(ev) + "]").f("base", b ? uri(b->getNameId()) : std::string("~"));
                out.push_back(m.s);
            }
        }
        if (RefHashTableOf<XercesAttGroupInfo>* ag = g->getAttGroupInfoRegistry()) {
            RefHashTableOfEnumerator<XercesAttGroupInfo> e(ag, false, XMLPlatformUtils::fgMemoryManager);
            while (e.hasMoreElements()) {
                XMLCh* k = (XMLCh*)e.nextElementKey(); XercesAttGroupInfo* gi = ag->get(k); if (!gi) continue;
                Ln m("SAG", key + "|" + esc(k));
                m.f("name", uri(gi->getNameId())).f("ns", uri(gi->getNamespaceId())).f("typeWithId", gi->containsTypeWithId());
                std::vector<std::string> av; for (XMLSize_t i = 0; i < gi->attributeCount(); i++) av.push_back(attdef(gi->attributeAt(i)));
                std::vector<std::string> wv; for (XMLSize_t i = 0; i < gi->anyAttributeCount(); i++) wv.push_back(attdef(gi->anyAttributeAt(i)));
                m.f("attrs", "[" + join(av, " || ") + "]").f("any", "[" + join(wv, " || ") + "]").f("complete", attdef(gi->getCompleteWildCard()));
                out.push_back(m.s);
            }
        }
        if (DatatypeValidatorFactory* f = g->getDatatypeRegistry()) if (RefHashTableOf<DatatypeValidator>* ur = f->getUserDefinedRegistry()) {
            RefHashTableOfEnumerator<DatatypeValidator> e(ur, false, XMLPlatformUtils::fgMemoryManager);
            while (e.hasMoreElements()) { XMLCh* k = (XMLCh*)e.nextElementKey(); DatatypeValidator* d = ur->get(k); if (d) dv(key, esc(k), d); }
        }
        if (RefHash2KeysTableOf<ElemVector>* sg = g->getValidSubstitutionGroups()) {
            RefHash2KeysTableOfEnumerator<ElemVector> e(sg, false, XMLPlatformUtils::fgMemoryManager);
            while (e.hasMoreElements()) {
                void* k1 = 0; int k2 = 0; e.nextElementKey(k1, k2);
                ElemVector* v = sg->get(k1, k2); std::vector<std::string> ev;
                if (v) for (XMLSize_t i = 0; i < v->size(); i++) ev.push_back(elref(v->elementAt(i)));
                out.push_back(Ln("SSB", key + "|{" + uri((unsigned int)k2) + "}" + esc((const XMLCh*)k1)).f("members", "[" + joinSorted(ev) + "]").s);
            }
        }
    }
    void run() {
        {
            Ln l("PSP", "-"); unsigned int n = sp ? sp->getStringCount() : 0; l.f("count", n);
            std::string all; for (unsigned int i = 1; i <= n; i++) { all += itos((long long)i) + ":" + (sp->exists(i) ? esc(sp->getValueForId(i)) : std::string("?")) + " "; }
            l.f("strings", all); out.push_back(l.s);
        }
        RefHashTableOfEnumerator<Grammar> ge = pool->getGrammarEnumerator();
        while (ge.hasMoreElements()) {
            Grammar& g = ge.nextElement();
            XMLGrammarDescription* gd = g.getGrammarDescription();
            std::string key = gd ? esc(gd->getGrammarKey()) : std::string("~");
            out.push_back(Ln("PGR", key).f("type", (int)g.getGrammarType()).f("class", demangle(typeid(g).name())).s);
            if (g.getGrammarType() == Grammar::DTDGrammarType) dtd(key, (DTDGrammar*)&g); else schema(key, (SchemaGrammar*)&g);
        }
    }
};

static void enumerate(XMLGrammarPool* pool, std::vector<std::string>& out, bool internals, bool xsmodel) {
    if (xsmodel) try {
        bool changed = false; XSModel* m = pool->getXSModel(changed);
        if (m) { XSDump x(out, m); x.run(); } else out.push_back("XMODEL\t-\tnull=1");
    } catch (const XMLException& e) { out.push_back("ENUMEXC\txsmodel\t" + u8(e.getType()) + "\t" + itos(e.getCode())); }
    catch (const std::exception& e) { out.push_back(std::string("ENUMEXC\txsmodel\tstd:") + demangle(typeid(e).name())); }
    if (internals) {
        try { GDump g(out, pool); g.run(); }
        catch (const XMLException& e) { out.push_back("ENUMEXC\tgrammar\t" + u8(e.getType()) + "\t" + itos(e.getCode())); }
        catch (const std::exception& e) { out.push_back(std::string("ENUMEXC\tgrammar\tstd:") + demangle(typeid(e).name())); }
    }
    std::sort(out.begin(), out.end());
}

// ------------------------------------------------------------------------------------------------
//  Recorder for the loading parser and the validating parsers
// ------------------------------------------------------------------------------------------------
class PRec : public ContentHandler, public ErrorHandler, public XMLEntityResolver, public PSVIHandler {
public:
    Dump d; const Case* cs; unsigned long nW, nE, nF; bool psviOn, wantMsg; std::string docBase;   // wantMsg: generator debugging only, never compared
    PRec() : cs(0), nW(0), nE(0), nF(0), psviOn(true), wantMsg(false) {}
    void reset() { d = Dump(); nW = nE = nF = 0; }
    // ContentHandler
    void characters(const XMLCh* const c, const XMLSize_t n) { d.chars(c, n); }
    void ignorableWhitespace(const XMLCh* const c, const XMLSize_t n) { d.iws(c, n); }
    void endDocument() { d.ev("ED"); }
    void startDocument() { d.ev("SD"); }
    void processingInstruction(const XMLCh* const t, const XMLCh* const data) { d.ev("PI\t" + esc(t) + "\t" + esc(data)); }
    void setDocumentLocator(const Locator* const) {}
    void startPrefixMapping(const XMLCh* const, const XMLCh* const) {}
    void endPrefixMapping(const XMLCh* const) {}
    void skippedEntity(const XMLCh* const n) { d.ev("SKE\t" + esc(n)); }
    void endElement(const XMLCh* const uri, const XMLCh* const ln, const XMLCh* const qn) { d.ev("EE\t" + esc(uri) + "\t" + esc(ln) + "\t" + esc(qn)); }
    void startElement(const XMLCh* const uri, const XMLCh* const ln, const XMLCh* const qn, const Attributes& a) {
        d.ev("SE\t" + esc(uri) + "\t" + esc(ln) + "\t" + esc(qn));
        std::vector<std::string> al;
        for (XMLSize_t i = 0; i < a.getLength(); i++)
            al.push_back("AT\t" + esc(a.getURI(i)) + "\t" + esc(a.getLocalName(i)) + "\t" + esc(a.getQName(i)) + "\t" + esc(a.getType(i)) + "\t" + esc(a.getValue(i)));
        std::sort(al.begin(), al.end());
        for (size_t i = 0; i < al.size(); i++) d.ev(al[i]);
        d.ev("SEX");
    }
    // ErrorHandler (counts only: codes are taken at the XMLErrorReporter boundary, messages are never recorded)
    void warning(const SAXParseException&) { nW++; }
    void error(const SAXParseException&) { nE++; }
    void fatalError(const SAXParseException&) { nF++; }
    void resetErrors() {}
    // PSVIHandler
    static std::string tdef(XSTypeDefinition* t) {
        if (!t) return "~";
        return "{" + esc(t->getNamespace()) + "}" + esc(t->getName()) + (t->getAnonymous() ? "#anon" : "") + (t->getTypeCategory() == XSTypeDefinition::SIMPLE_TYPE ? "/S" : "/C");
    }
    std::string item(PSVIItem* it) {
        return itos((int)it->getValidity()) + "\t" + itos((int)it->getValidationAttempted()) + "\t" + tdef(it->getTypeDefinition()) + "\t" + tdef(it->getMemberTypeDefinition()) + "\t" +
               esc(it->getSchemaNormalizedValue()) + "\t" + esc(it->getSchemaDefault()) + "\t" + itos((int)it->getIsSchemaSpecified()) + "\t" + esc(it->getCanonicalRepresentation()) + "\t" + esc(it->getValidationContext());
    }
    void handleElementPSVI(const XMLCh* const ln, const XMLCh* const uri, PSVIElement* e) {
        if (!psviOn || !e) return;
        XSElementDeclaration* decl = e->getElementDeclaration(); XSNotationDeclaration* no = e->getNotationDeclaration();
        d.ev("PE\t" + esc(uri) + "\t" + esc(ln) + "\t" + item(e) + "\t" + (decl ? "{" + esc(decl->getNamespace()) + "}" + esc(decl->getName()) + "/" + itos((int)decl->getScope()) : std::string("~")) + "\t" +
             (no ? esc(no->getName()) : std::string("~")));
    }
    void handleAttributesPSVI(const XMLCh* const ln, const XMLCh* const uri, PSVIAttributeList* al) {
        if (!psviOn || !al) return;
        std::vector<std::string> v;
        for (XMLSize_t i = 0; i < al->getLength(); i++) {
            PSVIAttribute* a = al->getAttributePSVIAtIndex(i); if (!a) continue;
            XSAttributeDeclaration* decl = a->getAttributeDeclaration();
            v.push_back("PA\t" + esc(al->getAttributeNamespaceAtIndex(i)) + "\t" + esc(al->getAttributeNameAtIndex(i)) + "\t" + item(a) + "\t" +
                        (decl ? "{" + esc(decl->getNamespace()) + "}" + esc(decl->getName()) + "/" + itos((int)decl->getScope()) : std::string("~")));
        }
        std::sort(v.begin(), v.end());
        for (size_t i = 0; i < v.size(); i++) d.ev(v[i]);
    }
    // XMLEntityResolver: serves the case's ENT entries; anything else gets an empty entity (never the file system / network)
    static std::string joinUri(const std::string& base, const std::string& rel) {
        if (rel.empty()) return base;
        if (rel[0] == '/' || rel.find(':') != std::string::npos) return rel;
        size_t cut = base.rfind('/');
        return (cut == std::string::npos ? std::string() : base.substr(0, cut + 1)) + rel;
    }
    InputSource* serve(const std::string& k) {
        if (!cs) return 0;
        for (size_t i = 0; i < cs->ents.size(); i++) if (cs->ents[i].first == k) {
            xstr sys = u16(k);
            return new MemBufInputSource((const XMLByte*)cs->ents[i].second.data(), cs->ents[i].second.size(), sys.c_str(), false);
        }
        return 0;
    }
    InputSource* resolveEntity(XMLResourceIdentifier* ri) {
        std::string sys = u8(ri->getSystemId()), loc = u8(ri->getSchemaLocation()), base = u8(ri->getBaseURI());
        if (base.empty()) base = docBase;      // the DOCTYPE's system id arrives without a base: it is relative to the document
        InputSource* s = 0;
        if (!sys.empty()) { s = serve(sys); if (!s) s = serve(joinUri(base, sys)); }
        if (!s && !loc.empty()) { s = serve(loc); if (!s) s = serve(joinUri(base, loc)); }
        if (s) return s;
        d.side("MISS\t" + itos((int)ri->getResourceIdentifierType()) + "\t" + esc(ri->getSystemId()) + "\t" + esc(ri->getSchemaLocation()) + "\t" + esc(ri->getNameSpace()));
        static const XMLByte z[1] = { 0 };
        xstr id = u16(sys.empty() ? (loc.empty() ? std::string("file:///xv/missing") : loc) : sys);
        return new MemBufInputSource(z, 0, id.c_str(), false);
    }
};

struct PSax2 : public SAX2XMLReaderImpl {
    PRec* rec;
    PSax2(XMLGrammarPool* g) : SAX2XMLReaderImpl(XMLPlatformUtils::fgMemoryManager, g), rec(0) {}
    void error(const unsigned int code, const XMLCh* const dom, const XMLErrorReporter::ErrTypes t, const XMLCh* const txt,
               const XMLCh* const sys, const XMLCh* const pub, const XMLFileLoc l, const XMLFileLoc c) {
        if (rec) {
            const char* sev = t == XMLErrorReporter::ErrType_Warning ? "W" : t == XMLErrorReporter::ErrType_Error ? "E" : "F";
            std::string ds = u8(dom); size_t p = ds.rfind('/'); if (p != std::string::npos) ds = ds.substr(p + 1);
            rec->d.side(std::string("ERR\t") + sev + "\t" + ds + "\t" + itos(code) + "\t" + itos((long long)l) + "\t" + itos((long long)c) + "\t" + esc(sys) + (rec->wantMsg ? "\t" + esc(txt) : std::string()));
        }
        SAX2XMLReaderImpl::error(code, dom, t, txt, sys, pub, l, c);
    }
};

static const XMLCh* scannerConst(const std::string& s) {
    if (s == "WF") return XMLUni::fgWFXMLScanner;
    if (s == "DG") return XMLUni::fgDGXMLScanner;
    if (s == "SG") return XMLUni::fgSGXMLScanner;
    return XMLUni::fgIGXMLScanner;
}

// run `body`, turning every exception into one line "EXC <stage> <type> <code>"; returns the status
template <class F> static std::string guarded(const std::string& stage, std::vector<std::string>* sink, F body) {
    std::string line;
    try { body(); return "ok"; }
    catch (const OutOfMemoryException&) { line = "EXC\t" + stage + "\tOutOfMemoryException\t0"; }
    catch (const XSerializationException& e) { line = "EXC\t" + stage + "\tXSerializationException\t" + itos(e.getCode()); }
    catch (const XMLException& e) { line = "EXC\t" + stage + "\tXMLException:" + u8(e.getType()) + "\t" + itos(e.getCode()); }
    catch (const SAXParseException& e) { line = "EXC\t" + stage + "\tSAXParseException\t0"; }
    catch (const SAXException& e) { line = "EXC\t" + stage + "\tSAXException:" + demangle(typeid(e).name()) + "\t0"; }
    catch (const std::exception& e) { line = "EXC\t" + stage + "\tFOREIGN:" + demangle(typeid(e).name()) + "\t0"; }
    catch (...) { std::type_info* t = abi::__cxa_current_exception_type(); line = "EXC\t" + stage + "\tFOREIGN:" + (t ? demangle(t->name()) : std::string("?")) + "\t0"; }
    if (sink) sink->push_back(line); else gOut.line(line);
    return "exc";
}

static PSax2* makeParser(XMLGrammarPool* pool, PRec* rec, const std::map<std::string, std::string>& o, bool loader) {
    PSax2* p = new PSax2(pool);
    p->rec = rec;
    p->setContentHandler(rec); p->setErrorHandler(rec); p->setXMLEntityResolver(rec);
    p->setProperty(XMLUni::fgXercesScannerName, (void*)scannerConst(opts(o, "scanner", "IG")));
    p->setFeature(XMLUni::fgSAX2CoreNameSpaces, true);
    p->setFeature(XMLUni::fgXercesSchema, optb(o, "schema", true));
    p->setFeature(XMLUni::fgXercesSchemaFullChecking, optb(o, "full", false));
    p->setFeature(XMLUni::fgSAX2CoreValidation, true);
    p->setFeature(XMLUni::fgXercesDynamic, opts(o, "val", "always") == "auto");
    p->setFeature(XMLUni::fgXercesIdentityConstraintChecking, optb(o, "ic", true));
    p->setFeature(XMLUni::fgXercesHandleMultipleImports, optb(o, "multiimport", true));
    p->setFeature(XMLUni::fgXercesDisableDefaultEntityResolution, true);
    if (loader) {
        p->setFeature(XMLUni::fgXercesGenerateSyntheticAnnotations, optb(o, "synth", false));
        p->setFeature(XMLUni::fgXercesValidateAnnotations, optb(o, "valannot", false));
        p->setFeature(XMLUni::fgXercesCacheGrammarFromParse, true);     // only used by "gdoc" steps (loadGrammar has its own flag)
    } else {
        p->setFeature(XMLUni::fgXercesUseCachedGrammarInParse, true);
        p->setFeature(XMLUni::fgXercesLoadSchema, optb(o, "loadschema", false));
        p->setFeature(XMLUni::fgXercesLoadExternalDTD, true);
        if (optb(o, "psvi", true)) p->setPSVIHandler(rec);
        rec->psviOn = optb(o, "psvi", true);
    }
    return p;
}

// scan a stream for prototype names: <unsigned long length><name bytes>, the length word immediately before the name
static std::string classesIn(const std::string& bytes, const std::vector<std::string>& names) {
    std::string found;
    for (size_t k = 0; k < names.size(); k++) {
        const std::string& n = names[k]; if (n.empty()) continue;
        size_t pos = 0; bool hit = false;
        while (!hit && (pos = bytes.find(n, pos)) != std::string::npos) {
            if (pos >= sizeof(unsigned long)) {
                unsigned long len = 0; memcpy(&len, bytes.data() + pos - sizeof(unsigned long), sizeof(unsigned long));
                if (len == n.size()) hit = true;
            }
            pos++;
        }
        if (hit) { if (!found.empty()) found += ","; found += n; }
    }
    return found;
}

static bool serialise(XMLGrammarPool* pool, const std::string& tag, std::string& bytes, const std::vector<std::string>& names, bool viaFile) {
    bool ok = false; bytes.clear();
    std::string st = guarded("serialize-" + tag, 0, [&]() {
        BinMemOutputStream out(8192);
        pool->serializeGrammars(&out);
        bytes.assign((const char*)out.getRawBuffer(), (size_t)out.curPos());   // getSize() is the capacity
        ok = true;
    });
    if (!ok) return false;
    unsigned int level = 0; if (bytes.size() >= 4) memcpy(&level, bytes.data(), 4);
    gOut.line("SER\t" + tag + "\t" + itos((long long)bytes.size()) + "\t" + hex8(crc32(0, (const unsigned char*)bytes.data(), bytes.size())) + "\tlevel=" + itos((long long)level) +
              "\tlocked=" + itos(bytes.size() > 4 ? (int)(unsigned char)bytes[4] : -1) + "\tclasses=" + classesIn(bytes, names));
    if (viaFile) {
        // same pool through BinFileOutputStream: the file must hold the same bytes
        const char* e = getenv("XV_SCRATCH");
        std::string path = std::string(e ? e : "/var/tmp/xv-scratch") + "/pool" + itos((long long)getpid()) + ".bin";
        std::string fbytes; bool fok = false;
        guarded("serialize-file-" + tag, 0, [&]() {
            xstr xp = u16(path);
            { BinFileOutputStream fo(xp.c_str()); pool->serializeGrammars(&fo); }
            FILE* f = fopen(path.c_str(), "rb");
            if (f) { char buf[65536]; size_t n; while ((n = fread(buf, 1, sizeof buf, f)) > 0) fbytes.append(buf, n); fclose(f); fok = true; }
        });
        unlink(path.c_str());
        gOut.line("SERFILE\t" + tag + "\t" + itos((long long)fbytes.size()) + "\t" + (fok && fbytes == bytes ? "same" : "differs"));
    }
    return true;
}

static XMLGrammarPoolImpl* restore(const std::string& tag, const std::string& bytes) {
    XMLGrammarPoolImpl* p = new XMLGrammarPoolImpl(XMLPlatformUtils::fgMemoryManager);
    std::string st = guarded("deserialize-" + tag, 0, [&]() {
        BinMemInputStream in((const XMLByte*)bytes.data(), bytes.size(), BinMemInputStream::BufOpt_Reference);
        p->deserializeGrammars(&in);
    });
    gOut.line("DES\t" + tag + "\t" + st);
    if (st != "ok") { delete p; return 0; }
    return p;
}

static size_t grammarCount(XMLGrammarPool* p) {
    size_t n = 0; RefHashTableOfEnumerator<Grammar> ge = p->getGrammarEnumerator(); while (ge.hasMoreElements()) { ge.nextElement(); n++; } return n;
}

static void emitEnum(const std::string& phase, const std::string& tag, const std::vector<std::string>& lines, const std::string* refDigest) {
    std::string dg = digest(lines);
    gOut.line("ENUM\t" + phase + "\t" + tag + "\t" + dg);
    if (!refDigest || dg != *refDigest) for (size_t i = 0; i < lines.size(); i++) gOut.line("N\t" + phase + "\t" + tag + "\t" + lines[i]);
}

static void cmdPool(const Case& c) {
    std::vector<std::string> names;
    { std::string s = c.get("classes", ""); size_t a = 0; while (a <= s.size()) { size_t b = s.find(',', a); names.push_back(s.substr(a, b == std::string::npos ? std::string::npos : b - a)); if (b == std::string::npos) break; a = b + 1; } }
    bool internals = c.geti("internals", 1) != 0, lockFirst = c.geti("lockfirst", 0) != 0, runC = c.geti("cinst", 0) != 0, viaFile = c.geti("file", 0) != 0;
    // lock=0 / xsmodel=0: pools that hold a DTD grammar cannot be locked or asked for an XSModel under UBSan (see notes/C16.md)
    bool lock = c.geti("lock", 1) != 0, xsmodel = c.geti("xsmodel", 1) != 0;
    gOut.line("BUILD\tlevel=" + itos((long long)XERCES_GRAMMAR_SERIALIZATION_LEVEL) + "\tulong=" + itos((long long)sizeof(unsigned long)));
    XMLGrammarPoolImpl *A = 0, *B = 0, *C = 0;
    PRec* rec = new PRec(); rec->cs = &c; rec->wantMsg = c.geti("msgs", 0) != 0;
    PSax2 *pa = 0, *pb = 0, *pc = 0;
    std::string sa, sb;
    guarded("pool", 0, [&]() {
        A = new XMLGrammarPoolImpl(XMLPlatformUtils::fgMemoryManager);
        // ---- 1. load the grammars into A
        {
            PSax2* L = makeParser(A, rec, c.opt, true);
            for (size_t i = 0; i < c.steps.size(); i++) {
                const Step& st = c.steps[i];
                std::string kind = opts(st.opt, "kind", "inst");
                if (kind == "inst") continue;
                rec->reset();
                gOut.line("AT\tload\t" + itos((long long)i)); gOut.flush();
                xstr sys = u16(opts(st.opt, "sysid", "file:///xv/g.xsd"));
                Grammar* g = 0;
                std::vector<std::string> sink;
                std::string status = guarded("load", &sink, [&]() {
                    MemBufInputSource src((const XMLByte*)st.payload.data(), st.payload.size(), sys.c_str(), false);
                    if (kind == "gdoc") L->parse(src);
                    else g = L->loadGrammar(src, kind == "dtd" ? Grammar::DTDGrammarType : Grammar::SchemaGrammarType, true);
                });
                for (size_t k = 0; k < rec->d.sideLines.size(); k++) gOut.line("L" + rec->d.sideLines[k]);
                for (size_t k = 0; k < sink.size(); k++) gOut.line("L" + sink[k]);
                gOut.line("LOAD\t" + itos((long long)i) + "\t" + kind + "\t" + escx(sys) + "\t" + (g ? "1" : "0") + "\t" + status + "\t" + itos(rec->nW) + "\t" + itos(rec->nE) + "\t" + itos(rec->nF));
            }
            delete L;
        }
        gOut.line("GRAMMARS\tA\t" + itos((long long)grammarCount(A)));
        gOut.line("AT\tserialize"); gOut.flush();
        if (lockFirst && lock) A->lockPool();
        // ---- 2./3./5. A -> bytes -> B -> bytes -> C
        if (serialise(A, "A", sa, names, viaFile)) {
            B = restore("B", sa);
            if (B && serialise(B, "B", sb, names, false)) C = restore("C", sb);
        }
        if (!lockFirst && lock) { A->lockPool(); if (B) B->lockPool(); if (C) C->lockPool(); }
        // ---- 4a. grammar object graphs before any use (the XSModel is enumerated after the instances: the first caller of
        //          getXSModel() must be the validating parser, otherwise its PSVI carries no type information — see notes)
        gOut.line("AT\tenumerate"); gOut.flush();
        std::string dG0;
        if (internals) {
            std::vector<std::string> ea, eb, ec;
            enumerate(A, ea, true, false); dG0 = digest(ea); emitEnum("G0", "A", ea, 0);
            if (B) { enumerate(B, eb, true, false); emitEnum("G0", "B", eb, &dG0); }
            if (C) { enumerate(C, ec, true, false); emitEnum("G0", "C", ec, &dG0); }
        }
        // ---- 6. level mismatch: patch the first word of A's stream
        gOut.line("AT\tlevel"); gOut.flush();
        if (!sa.empty()) {
            std::string lv = c.get("levels", "");
            size_t a = 0;
            while (!lv.empty() && a <= lv.size()) {
                size_t b = lv.find(',', a); std::string t = lv.substr(a, b == std::string::npos ? std::string::npos : b - a);
                unsigned int v = (unsigned int)strtoul(t.c_str(), 0, 10);
                std::string patched = sa; memcpy(&patched[0], &v, 4);
                XMLGrammarPoolImpl* X = new XMLGrammarPoolImpl(XMLPlatformUtils::fgMemoryManager);
                std::vector<std::string> sink;
                std::string st = guarded("level", &sink, [&]() {
                    BinMemInputStream in((const XMLByte*)patched.data(), patched.size(), BinMemInputStream::BufOpt_Reference);
                    X->deserializeGrammars(&in);
                });
                std::string exc = "none\t0";
                if (!sink.empty()) { size_t p1 = sink[0].find('\t'); size_t p2 = sink[0].find('\t', p1 + 1); exc = sink[0].substr(p2 + 1); }
                size_t left = 0; guarded("level-count", 0, [&]() { left = grammarCount(X); });
                gOut.line("LEVEL\t" + itos((long long)v) + "\t" + exc + "\t" + itos((long long)left));
                guarded("level-delete", 0, [&]() { delete X; });
                if (b == std::string::npos) break; a = b + 1;
            }
        }
        // ---- 4. instances against each locked pool (one parser per pool, reused)
        pa = makeParser(A, rec, c.opt, false);
        if (B) pb = makeParser(B, rec, c.opt, false);
        if (C && runC) pc = makeParser(C, rec, c.opt, false);
        for (size_t i = 0; i < c.steps.size(); i++) {
            const Step& st = c.steps[i];
            if (opts(st.opt, "kind", "inst") != "inst") continue;
            xstr sys = u16(opts(st.opt, "sysid", "file:///xv/p/doc.xml"));
            std::string refDigest;
            PSax2* ps[3] = { pa, pb, pc }; const char* tags[3] = { "A", "B", "C" };
            for (int k = 0; k < 3; k++) {
                if (!ps[k]) continue;
                rec->reset(); rec->docBase = u8(sys.c_str());
                std::vector<std::string> sink;
                gOut.line("AT\tinst\t" + itos((long long)i) + "\t" + tags[k]); gOut.flush();   // a crash is attributable to (instance, pool)
                std::string status = guarded("parse", &sink, [&]() {
                    MemBufInputSource src((const XMLByte*)st.payload.data(), st.payload.size(), sys.c_str(), false);
                    ps[k]->parse(src);
                });
                rec->d.flushText();
                std::vector<std::string> lines = rec->d.lines;
                // errors reported at one and the same position come out in the iteration order of a hash table of attribute definitions,
                // which a restored pool does not share with the original: order each such run by (severity, domain, code)
                {
                    std::vector<std::string>& sl = rec->d.sideLines;
                    size_t a = 0;
                    while (a < sl.size()) {
                        if (sl[a].compare(0, 4, "ERR\t")) { a++; continue; }
                        std::vector<std::string> fa; { size_t p0 = 0; for (;;) { size_t q = sl[a].find('\t', p0); fa.push_back(sl[a].substr(p0, q == std::string::npos ? std::string::npos : q - p0)); if (q == std::string::npos) break; p0 = q + 1; } }
                        std::string pos = fa.size() > 6 ? fa[4] + "\t" + fa[5] + "\t" + fa[6] : std::string();
                        size_t b = a + 1;
                        while (b < sl.size() && !sl[b].compare(0, 4, "ERR\t") && sl[b].size() >= pos.size() && sl[b].compare(sl[b].size() - pos.size(), pos.size(), pos) == 0) b++;
                        std::sort(sl.begin() + a, sl.begin() + b);
                        a = b;
                    }
                }
                lines.insert(lines.end(), rec->d.sideLines.begin(), rec->d.sideLines.end());
                lines.insert(lines.end(), sink.begin(), sink.end());
                lines.push_back("R\t" + status + "\t" + itos(rec->nW) + "\t" + itos(rec->nE) + "\t" + itos(rec->nF) + "\t" + itos((long long)ps[k]->getErrorCount()));
                std::string dg = digest(lines);
                gOut.line("I\t" + itos((long long)i) + "\t" + tags[k] + "\t" + dg);
                if (k == 0) refDigest = dg;
                if (k == 0 || dg != refDigest) for (size_t m = 0; m < lines.size(); m++) gOut.line("i\t" + lines[m]);
            }
        }
        // ---- 4c. XSModel component enumeration (public XS* API), and the grammar object graphs after use (the validating
        //          parses fault undeclared elements into DTD grammars: A and B must still agree)
        gOut.line("AT\txsmodel"); gOut.flush();
        if (xsmodel) {
            std::vector<std::string> ea, eb, ec;
            enumerate(A, ea, false, true); std::string dx = digest(ea); emitEnum("X", "A", ea, 0);
            if (B) { enumerate(B, eb, false, true); emitEnum("X", "B", eb, &dx); }
            if (C) { enumerate(C, ec, false, true); emitEnum("X", "C", ec, &dx); }
        }
        gOut.line("AT\treenum"); gOut.flush();
        if (internals && c.geti("reenum", 1)) {
            std::vector<std::string> ea, eb, ec;
            enumerate(A, ea, true, false); std::string d1 = digest(ea);
            if (d1 == dG0) gOut.line("ENUM\tG1\tA\t" + d1 + "\tunchanged"); else emitEnum("G1", "A", ea, 0);
            if (B) { enumerate(B, eb, true, false); emitEnum("G1", "B", eb, &d1); }
            if (C && runC) { enumerate(C, ec, true, false); emitEnum("G1", "C", ec, &d1); }
        }
    });
    guarded("teardown", 0, [&]() { delete pa; pa = 0; delete pb; pb = 0; delete pc; pc = 0; delete A; A = 0; delete B; B = 0; delete C; C = 0; });
    delete rec;
    gOut.line("DONEPOOL");
}
static CmdReg regPool("pool", cmdPool);

}  // namespace
}  // namespace xv
