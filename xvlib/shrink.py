"""Batched delta debugging: minimise a sequence while a predicate (evaluated in batches) stays true."""


def ddmin(units, test_batch, max_rounds=200):
    """units: list; test_batch(list_of_candidate_lists) -> list of bool (True = still failing).
    Returns a locally minimal failing list."""
    n = 2
    cur = list(units)
    rounds = 0
    while len(cur) >= 2 and rounds < max_rounds:
        rounds += 1
        size = max(1, len(cur) // n)
        chunks = [cur[i:i + size] for i in range(0, len(cur), size)]
        cands = []
        # complements first (removing one chunk), then the chunks themselves
        for i in range(len(chunks)):
            cands.append([x for j, c in enumerate(chunks) if j != i for x in c])
        for c in chunks:
            cands.append(c)
        res = test_batch(cands)
        hit = next((i for i, ok in enumerate(res) if ok), None)
        if hit is not None:
            cur = cands[hit]
            n = max(n - 1, 2) if hit < len(chunks) else 2
        else:
            if size == 1:
                break
            n = min(len(cur), n * 2)
    return cur
