"""Build flavours of the library (always from /repo's current working tree) and the drivers.

Everything lives in ${XV_CACHE:-/var/tmp/xv-cache}; the cache is disposable.
"""
import os, subprocess, sys, fcntl, time, hashlib, shutil, glob
from concurrent.futures import ThreadPoolExecutor

VERIF = os.path.dirname(os.path.dirname(os.path.abspath(__file__)))
REPO = os.environ.get('XV_REPO', '/repo')
CACHE = os.environ.get('XV_CACHE', '/var/tmp/xv-cache')
SRC = os.path.join(CACHE, 'src')
NCPU = os.cpu_count() or 4

COMMON = '-O1 -g -fno-omit-frame-pointer -DXERCES_VERIF_HOOKS -Wno-error -w'
FLAVOURS = {
    'asan': dict(cxx='clang++', cc='clang',
                 flags=COMMON + ' -fsanitize=address,undefined -fno-sanitize=object-size,nonnull-attribute'
                       ' -fno-sanitize-recover=all -fsanitize=fuzzer-no-link',
                 link='-fsanitize=address,undefined'),
    'tsan': dict(cxx='clang++', cc='clang', flags=COMMON + ' -fsanitize=thread', link='-fsanitize=thread'),
    'plain': dict(cxx='g++', cc='gcc', flags=COMMON, link=''),
}
LIBNAME = 'libxerces-c-4.0.so'


def log(*a):
    print('[xv-build]', *a, file=sys.stderr, flush=True)


def bdir(flavour):
    return os.path.join(CACHE, 'b-' + flavour)


def libdir(flavour):
    return os.path.join(bdir(flavour), 'inst')


class _Lock:
    def __init__(self, name):
        os.makedirs(CACHE, exist_ok=True)
        self.path = os.path.join(CACHE, name + '.lock')

    def __enter__(self):
        self.f = open(self.path, 'w')
        fcntl.flock(self.f, fcntl.LOCK_EX)
        return self

    def __exit__(self, *a):
        fcntl.flock(self.f, fcntl.LOCK_UN)
        self.f.close()


def sync_src():
    """rsync /repo working tree into the cache (mtimes preserved => incremental rebuilds)."""
    with _Lock('src'):
        os.makedirs(SRC, exist_ok=True)
        r = subprocess.run(['rsync', '-a', '-c', '--delete', '-i', '--exclude', '/_build', '--exclude', '/.git', '--exclude', '/SEED',
                            REPO + '/', SRC + '/'], capture_output=True, text=True)
        if r.returncode != 0:
            raise RuntimeError('rsync failed: ' + r.stderr)
        # (-c: decide by content, so that the fresh mtimes given below do not cause re-transfers next time)
        # A transferred file keeps the mtime it has in the source tree, which may be OLDER than the objects built from
        # the previous content (git checkout of an older state, switching XV_REPO): give every file whose content was
        # transferred a fresh mtime so that ninja rebuilds what depends on it.
        now = time.time()
        for l in r.stdout.splitlines():
            if l.startswith('>f') and ' ' in l:
                path = os.path.join(SRC, l.split(' ', 1)[1])
                try:
                    os.utime(path, (now, now))
                except OSError:
                    pass


def build_lib(flavour, sync=True):
    fl = FLAVOURS[flavour]
    if sync:
        sync_src()
    b = bdir(flavour)
    with _Lock('b-' + flavour):
        if not os.path.exists(os.path.join(b, 'build.ninja')):
            log('configuring', flavour)
            os.makedirs(b, exist_ok=True)
            cmd = ['cmake', '-G', 'Ninja', '-S', SRC, '-B', b,
                   '-DCMAKE_BUILD_TYPE=None',
                   '-DCMAKE_CXX_COMPILER=' + fl['cxx'], '-DCMAKE_C_COMPILER=' + fl['cc'],
                   '-DCMAKE_CXX_FLAGS=' + fl['flags'], '-DCMAKE_C_FLAGS=' + fl['flags'],
                   '-DCMAKE_SHARED_LINKER_FLAGS=' + fl['link'], '-DCMAKE_EXE_LINKER_FLAGS=' + fl['link'],
                   '-Dtranscoder=icu', '-Dnetwork-accessor=curl', '-Dmessage-loader=inmemory',
                   '-Dmutex-manager=standard', '-Dxmlch-type=char16_t']
            r = subprocess.run(cmd, capture_output=True, text=True)
            if r.returncode != 0:
                shutil.rmtree(b, ignore_errors=True)
                raise RuntimeError('cmake configure failed for %s:\n%s\n%s' % (flavour, r.stdout[-3000:], r.stderr[-3000:]))
        t = time.time()
        r = subprocess.run(['ninja', '-C', b, 'xerces-c'], capture_output=True, text=True)
        if r.returncode != 0:
            raise RuntimeError('library build failed for %s:\n%s\n%s' % (flavour, r.stdout[-6000:], r.stderr[-3000:]))
        dt = time.time() - t
        if dt > 5:
            log('library', flavour, 'built in %.0fs' % dt)
        # publish atomically: processes that start while ninja relinks must never see a half-written library
        built = os.path.join(b, 'src', LIBNAME)
        inst = os.path.join(libdir(flavour), LIBNAME)
        os.makedirs(libdir(flavour), exist_ok=True)
        if not os.path.exists(inst) or os.path.getmtime(inst) < os.path.getmtime(built):
            tmp = inst + '.tmp%d' % os.getpid()
            shutil.copy2(built, tmp)
            os.replace(tmp, inst)
    return os.path.join(libdir(flavour), LIBNAME)


def _needs(out, deps):
    if not os.path.exists(out):
        return True
    mt = os.path.getmtime(out)
    return any(os.path.getmtime(d) > mt for d in deps if os.path.exists(d))


def build_driver(flavour, name, sources, extra_flags='', extra_link=''):
    """Compile drivers/<sources> and link against the flavour's library. Returns path of binary."""
    fl = FLAVOURS[flavour]
    lib = os.path.join(libdir(flavour), LIBNAME)
    odir = os.path.join(CACHE, 'd-' + flavour)
    os.makedirs(odir, exist_ok=True)
    out = os.path.join(odir, name)
    hdrs = glob.glob(os.path.join(VERIF, 'drivers', '*.hpp'))
    incs = '-I%s/src -I%s/src -I%s/drivers' % (SRC, bdir(flavour), VERIF)   # config headers live in <build>/src
    # the library's public/internal headers may have changed: key objects on a digest of lib mtime
    with _Lock('d-' + flavour + '-' + name):
        objs = []
        jobs = []
        libm = os.path.getmtime(lib)
        for s in sources:
            sp = os.path.join(VERIF, 'drivers', s)
            o = os.path.join(odir, name + '.' + s.replace('/', '_') + '.o')
            objs.append(o)
            stale = _needs(o, [sp] + hdrs) or os.path.getmtime(o) < libm
            if stale:
                cmd = '%s -std=gnu++17 %s %s %s -c %s -o %s' % (fl['cxx'], fl['flags'], extra_flags, incs, sp, o)
                jobs.append(cmd)
        if jobs:
            def run(cmd):
                return cmd, subprocess.run(cmd, shell=True, capture_output=True, text=True)
            with ThreadPoolExecutor(NCPU) as ex:
                for cmd, r in ex.map(run, jobs):
                    if r.returncode != 0:
                        raise RuntimeError('driver compile failed:\n%s\n%s' % (cmd, r.stderr[-6000:]))
        if jobs or _needs(out, objs + [lib]):
            tmp = '%s.tmp%d' % (out, os.getpid())
            cmd = '%s %s %s -o %s %s %s -Wl,-rpath,%s -lpthread -ldl %s' % (
                fl['cxx'], fl['flags'], fl['link'], tmp, ' '.join(objs), lib, libdir(flavour), extra_link)
            r = subprocess.run(cmd, shell=True, capture_output=True, text=True)
            if r.returncode != 0:
                raise RuntimeError('driver link failed:\n%s\n%s' % (cmd, r.stderr[-6000:]))
            os.replace(tmp, out)     # atomic: processes still running the old binary keep their inode
    return out


def ensure(flavour, parts=('parse', 'domdump'), sync=True):
    """Build the flavour's library from /repo's current tree and a batch driver made of
    drivers/xvdrive.cpp + drivers/xd_<part>.cpp for each part.  Returns the binary path."""
    build_lib(flavour, sync=sync)
    return driver(flavour, parts)


def driver(flavour, parts):
    parts = sorted(set(parts) | {'parse', 'domdump'})   # main() references the ledger in xd_parse
    name = 'xvdrive-' + '-'.join(parts)
    return build_driver(flavour, name, ['xvdrive.cpp'] + ['xd_%s.cpp' % p for p in parts])


def build_named_driver(flavour, d):
    if d == 'fuzz_parse':
        return build_driver(flavour, 'fuzz_parse', ['fuzz_parse.cpp'], extra_link='-fsanitize=fuzzer')
    if d == 'thr_stress':
        return build_driver(flavour, 'thr_stress', ['thr_stress.cpp'])
    raise KeyError(d)


def setup_all():
    sync_src()
    # configure in parallel (slow, mostly serial), then build one at a time (each uses all cores)
    with ThreadPoolExecutor(3) as ex:
        list(ex.map(lambda f: _configure_only(f), FLAVOURS))
    for f in FLAVOURS:
        build_lib(f, sync=False)


def _configure_only(flavour):
    b = bdir(flavour)
    if os.path.exists(os.path.join(b, 'build.ninja')):
        return
    fl = FLAVOURS[flavour]
    with _Lock('b-' + flavour):
        os.makedirs(b, exist_ok=True)
        cmd = ['cmake', '-G', 'Ninja', '-S', SRC, '-B', b, '-DCMAKE_BUILD_TYPE=None',
               '-DCMAKE_CXX_COMPILER=' + fl['cxx'], '-DCMAKE_C_COMPILER=' + fl['cc'],
               '-DCMAKE_CXX_FLAGS=' + fl['flags'], '-DCMAKE_C_FLAGS=' + fl['flags'],
               '-DCMAKE_SHARED_LINKER_FLAGS=' + fl['link'], '-DCMAKE_EXE_LINKER_FLAGS=' + fl['link'],
               '-Dtranscoder=icu', '-Dnetwork-accessor=curl', '-Dmessage-loader=inmemory',
               '-Dmutex-manager=standard', '-Dxmlch-type=char16_t']
        r = subprocess.run(cmd, capture_output=True, text=True)
        if r.returncode != 0:
            shutil.rmtree(b, ignore_errors=True)
            raise RuntimeError('cmake configure failed for %s:\n%s\n%s' % (flavour, r.stdout[-3000:], r.stderr[-3000:]))
