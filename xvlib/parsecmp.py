"""Turn the parse driver's canonical dump into event tuples, project to what two observers can both
see, and compare."""
from .core import unesc

XMLNS_NS = 'http://www.w3.org/2000/xmlns/'


class Step:
    __slots__ = ('events', 'errs', 'eh', 'exc', 'hk', 'status', 'nW', 'nE', 'nF', 'errcount', 'res', 'srv', 'psteps', 'raw', 'adopt_index')

    def __init__(self):
        self.events = []
        self.errs = []     # (sev, domain, code, line, col, sysid)
        self.eh = []       # (sev, line, col, sysid)
        self.exc = []      # (type, code)
        self.hk = None
        self.status = None
        self.nW = self.nE = self.nF = self.errcount = 0
        self.res = []
        self.srv = []
        self.adopt_index = None
        self.psteps = None
        self.raw = []

    def fatal(self):
        return self.nF > 0 or any(e[0] == 'F' for e in self.errs)

    def verdict(self):
        """none | warning | error | fatal | exception:<type>"""
        if self.status in ('exc', 'foreign'):
            return 'exception:' + (self.exc[0][0] if self.exc else '?')
        if self.fatal():
            return 'fatal'
        if self.nE or any(e[0] == 'E' for e in self.errs):
            return 'error'
        return 'none'


def parse_step(lines):
    st = Step()
    st.raw = lines
    ev = st.events
    cur_attrs = None
    cur_se = None
    for l in lines:
        f = l.split('\t')
        t = f[0]
        if t == 'AT':
            cur_attrs.append((unesc(f[3]), unesc(f[1]), unesc(f[2]), unesc(f[6]), None if f[5] == '~' else f[5] == '1', unesc(f[4])))
        elif t == 'SE':
            cur_se = ['SE', unesc(f[3]), unesc(f[1]), unesc(f[2])]
            cur_attrs = []
        elif t == 'SEX':
            ev.append((cur_se[0], cur_se[1], cur_se[2], cur_se[3], tuple(cur_attrs)))
            cur_se = None
        elif t == 'EE':
            ev.append(('EE', unesc(f[3]), unesc(f[1]), unesc(f[2])))
        elif t in ('CH', 'IW', 'CM'):
            ev.append((t, unesc(f[1]) if len(f) > 1 else ''))
        elif t == 'PI':
            ev.append(('PI', unesc(f[1]), unesc(f[2]) if len(f) > 2 else ''))
        elif t in ('SD', 'ED', 'CD0', 'CD1', 'EDT'):
            ev.append((t,))
        elif t == 'LOC':
            ev.append(('LOC', int(f[1]), int(f[2])))
        elif t in ('SPM', 'EPM', 'SER', 'EER', 'DT', 'DE', 'DN', 'DIS', 'ELD', 'ATD', 'IED', 'XED', 'SKE', 'GRAMMAR', 'ADOPTED', 'NODE', 'LK', 'GP', 'GPN'):
            ev.append(tuple([t] + [unesc(x) for x in f[1:]]))
        elif t == 'ERR':
            st.errs.append((f[1], f[2], int(f[3]), int(f[4]), int(f[5]), unesc(f[6]) if len(f) > 6 else None))
        elif t == 'EH':
            st.eh.append((f[1], int(f[2]), int(f[3]), unesc(f[4]) if len(f) > 4 else None))
        elif t == 'EXC':
            st.exc.append((f[1], f[2] if len(f) > 2 else ''))
        elif t == 'HK':
            st.hk = tuple(int(x) for x in f[1:])
        elif t == 'R':
            st.status = f[1]
            st.nW, st.nE, st.nF, st.errcount = int(f[2]), int(f[3]), int(f[4]), int(f[5])
        elif t == 'RES':
            st.res.append(tuple(unesc(x) for x in f[1:]))
        elif t == 'SRV':
            st.srv.append(unesc(f[1]))
        elif t == 'JOIN':
            pass        # driver-side note about how a relative id was joined before serving it
        elif t == 'PSTEPS':
            st.psteps = int(f[1])
        elif t == 'ADOPT':
            st.adopt_index = int(f[1])      # the document of this step was adopted as the driver's adopted[f[1]]
        else:
            ev.append(('?', l))
    return st


def parse_record(rec):
    return [parse_step(s) for s in rec.steps()]


def _n(x):
    return '' if x is None else x


def project(events, ns=True, keep_er=False, keep_iw=False, keep_cd=False, keep_cm=True, keep_dt=True, keep_pm=False,
            keep_loc=False, keep_spec=False, keep_type=False, keep_xmlns=False, keep_decls=False, keep_sded=False):
    out = []
    in_dtd = False

    def text(kind, s):
        if s == '':
            return
        if out and out[-1][0] == kind:
            out[-1] = (kind, out[-1][1] + s)
        else:
            out.append((kind, s))

    for e in events:
        t = e[0]
        if t == 'DT':
            in_dtd = True
            if keep_dt:
                out.append(('DT', e[1], _n(e[2]) if len(e) > 2 else '', _n(e[3]) if len(e) > 3 else ''))
            continue
        if t == 'EDT':
            in_dtd = False
            continue
        if t in ('DE', 'DN', 'DIS', 'ELD', 'ATD', 'IED', 'XED'):
            if keep_decls:
                out.append(e)
            continue
        if in_dtd and t in ('CM', 'PI', 'SER', 'EER'):
            # SAX2 reports comments/PIs/PE boundaries inside the DTD; the DOM does not keep them
            continue
        if t == 'SE':
            attrs = []
            for a in e[4]:
                qn = a[0]
                if not keep_xmlns and (qn == 'xmlns' or qn.startswith('xmlns:')):
                    continue
                item = [qn, a[3]]
                if ns:
                    item += [_n(a[1]), a[2] if a[2] is not None else qn.split(':')[-1]]
                if keep_spec:
                    item.append(a[4])
                if keep_type:
                    item.append(a[5])
                attrs.append(tuple(item))
            attrs.sort()
            if ns:
                out.append(('SE', e[1], _n(e[2]), e[3], tuple(attrs)))
            else:
                out.append(('SE', e[1], tuple(attrs)))
        elif t == 'EE':
            if ns:
                out.append(('EE', e[1], _n(e[2]) if len(e) > 2 else '', e[3] if len(e) > 3 else None))
            else:
                out.append(('EE', e[1]))
        elif t == 'CH':
            text('CH', e[1])
        elif t == 'IW':
            text('IW' if keep_iw else 'CH', e[1])
        elif t in ('CD0', 'CD1'):
            if keep_cd:
                out.append(e)
        elif t == 'CM':
            if keep_cm:
                out.append(e)
        elif t == 'PI':
            out.append(e)
        elif t in ('SER', 'EER'):
            if keep_er:
                out.append(e)
        elif t in ('SPM', 'EPM'):
            if keep_pm:
                out.append(e)
        elif t == 'LOC':
            if keep_loc:
                out.append(e)
        elif t in ('SD', 'ED'):
            if keep_sded:
                out.append(e)
        else:
            out.append(e)
    return out


def first_diff(a, b):
    n = min(len(a), len(b))
    for i in range(n):
        if a[i] != b[i]:
            return i, a[i], b[i]
    if len(a) != len(b):
        return n, a[n] if n < len(a) else None, b[n] if n < len(b) else None
    return None
