"""Runner: case files, sharded execution of the batch driver with crash/hang isolation, log parsing,
violations, known findings and evidence files."""
import os, sys, json, time, subprocess, hashlib, re, shutil, random, tempfile, signal
from concurrent.futures import ThreadPoolExecutor
from . import build

VERIF = build.VERIF
NCPU = build.NCPU
SCRATCH_ROOT = os.environ.get('XV_SCRATCH', '/var/tmp/xv-scratch')


def seed():
    try:
        return int(os.environ.get('VERIF_SEED', '1'))
    except ValueError:
        return 1


def rng(*parts):
    h = hashlib.sha256(repr(parts).encode()).digest()
    return random.Random(int.from_bytes(h[:8], 'big'))


# ---------------------------------------------------------------------------------------------------
#  escaping (mirror of drivers/xvdrive.cpp)
# ---------------------------------------------------------------------------------------------------
def pctenc(s):
    if isinstance(s, str):
        s = s.encode('utf-8', 'surrogatepass')
    out = []
    for c in s:
        if c < 0x21 or c == 0x25 or c == 0x7f or c == 0x3d:
            out.append('%%%02X' % c)
        else:
            out.append(chr(c) if c < 0x80 else None)
            if c >= 0x80:
                out[-1] = '%%%02X' % c
    return ''.join(out)


_unesc_re = re.compile(r'%u([0-9A-F]{4})|%([0-9A-Fa-f]{2})')


def unesc(s):
    """driver-escaped field -> python str (lone surrogates preserved as surrogate code points); '~' => None"""
    if s == '~':
        return None
    if '%' not in s:
        return s
    return _unesc_re.sub(lambda m: chr(int(m.group(1), 16)) if m.group(1) else chr(int(m.group(2), 16)), s)


class Case:
    __slots__ = ('id', 'cmd', 'opt', 'ents', 'steps', 'meta')

    def __init__(self, id, cmd, opt=None, ents=None, steps=None, meta=None):
        self.id = id
        self.cmd = cmd
        self.opt = dict(opt or {})
        self.ents = list(ents or [])      # (systemId, bytes)
        self.steps = list(steps or [])    # (kind, payload, opts)  kind in DOC/TXT
        self.meta = meta or {}

    def doc(self, data, **opts):
        self.steps.append(('DOC', data, opts))
        return self

    def txt(self, text, **opts):
        self.steps.append(('TXT', text, opts))
        return self

    def render(self):
        L = ['CASE\t%s\t%s' % (self.id, self.cmd) + ''.join('\t%s=%s' % (k, pctenc(str(v))) for k, v in self.opt.items())]
        for sid, data in self.ents:
            L.append('ENT\t%s\t%s' % (pctenc(sid), data.hex()))
        for kind, payload, opts in self.steps:
            tail = ''.join('\t%s=%s' % (k, pctenc(str(v))) for k, v in opts.items())
            if kind == 'DOC':
                L.append('DOC\t%s%s' % (payload.hex(), tail))
            else:
                L.append('TXT\t%s%s' % (pctenc(payload), tail))
        L.append('END')
        return '\n'.join(L) + '\n'

    def to_json(self):
        return {'id': self.id, 'cmd': self.cmd, 'opt': self.opt,
                'ents': [[s, d.hex()] for s, d in self.ents],
                'steps': [[k, (p.hex() if k == 'DOC' else p), o] for k, p, o in self.steps], 'meta': self.meta}

    @staticmethod
    def from_json(j):
        c = Case(j['id'], j['cmd'], j.get('opt'), [(s, bytes.fromhex(d)) for s, d in j.get('ents', [])], meta=j.get('meta'))
        for k, p, o in j.get('steps', []):
            c.steps.append((k, bytes.fromhex(p) if k == 'DOC' else p, o))
        return c


class Record:
    """What the driver logged for one case."""
    __slots__ = ('id', 'lines', 'complete', 'crash', 'hang')

    def __init__(self, id):
        self.id = id
        self.lines = []
        self.complete = False
        self.crash = None      # SanReport or text
        self.hang = False

    def steps(self):
        """split lines into per-step lists (parse family: 'S\\t<n>' markers)"""
        out = []
        cur = None
        tail = []
        for l in self.lines:
            if l.startswith('S\t'):
                cur = []
                out.append(cur)
            elif cur is None:
                tail.append(l)
            else:
                cur.append(l)
        return out

    def tagged(self, tag):
        t = tag + '\t'
        return [l for l in self.lines if l.startswith(t) or l == tag]


# ---------------------------------------------------------------------------------------------------
#  sanitizer report parsing
# ---------------------------------------------------------------------------------------------------
class SanReport:
    def __init__(self, tool, kind, frames, text):
        self.tool, self.kind, self.frames, self.text = tool, kind, frames, text

    def key(self):
        inner = next((f for f in self.frames if f[1]), None)
        fn = inner[0] if inner else (self.frames[0][0] if self.frames else '?')
        return '%s:%s:%s' % (self.tool, self.kind, fn)

    def __repr__(self):
        return self.key()


_frame_re = re.compile(r'^\s*#(\d+) 0x[0-9a-f]+ (?:in )?(.+?) (\S+?)(?::(\d+))?(?::\d+)?$')
# ThreadSanitizer: "#0 ns::fn(args) /path/file.cpp:12:3 (module+0xoff) (BuildId: ...)"
_tsan_frame_re = re.compile(r'^\s*#(\d+) (.+?) (/\S+?|<null>)(?::\d+)*(?: \(\S+\+0x[0-9a-f]+\))?(?: \(BuildId: [0-9a-f]+\))?\s*$')


def _fn_name(sig):
    sig = re.sub(r'\(.*$', '', sig.strip())
    sig = re.sub(r'<[^<>]*>', '', sig)
    sig = sig.replace('xercesc_4_0::', '')
    return sig.split(' ')[-1]


def parse_san(text):
    """Return list of SanReport found in stderr text (ASan, UBSan, TSan, plain signals)."""
    reps = []
    lines = text.splitlines()
    i = 0
    n = len(lines)
    while i < n:
        l = lines[i]
        m = None
        tool = kind = None
        if 'ERROR: AddressSanitizer:' in l:
            tool = 'asan'
            kind = l.split('AddressSanitizer:')[1].strip().split(' ')[0]
            if kind == 'SEGV' and i + 1 < n and 'stack-overflow' in ' '.join(lines[i:i + 3]):
                kind = 'stack-overflow'
        elif 'ERROR: LeakSanitizer:' in l:
            tool, kind = 'lsan', 'leak'
        elif 'runtime error:' in l:
            tool = 'ubsan'
            msg = l.split('runtime error:')[1].strip()
            kind = re.sub(r'[0-9]+', 'N', msg)[:60]
        elif 'WARNING: ThreadSanitizer:' in l:
            tool = 'tsan'
            kind = l.split('ThreadSanitizer:')[1].strip().split('(')[0].strip().replace(' ', '-')
        elif 'ERROR: libFuzzer:' in l:
            tool = 'libfuzzer'
            kind = l.split('libFuzzer:')[1].strip().split(' ')[0]
        if tool:
            frames = []
            j = i + 1
            body = [l]
            first_stack_done = False
            while j < n and j < i + 400:
                lj = lines[j]
                if ('ERROR: AddressSanitizer' in lj or 'WARNING: ThreadSanitizer' in lj or 'runtime error:' in lj) and j > i:
                    break
                body.append(lj)
                fm = _frame_re.match(lj)
                if not fm and tool == 'tsan':
                    tm = _tsan_frame_re.match(lj)
                    if tm:
                        fn = _fn_name(tm.group(2))
                        path = tm.group(3)
                        frames.append((fn, 'xercesc' in path and '/drivers/' not in path))
                if fm:
                    fn = _fn_name(fm.group(2))
                    path = fm.group(3)
                    inlib = 'xercesc' in path and '/drivers/' not in path
                    frames.append((fn, inlib))
                if lj.startswith('SUMMARY:') or lj.startswith('=================='):
                    if lj.startswith('SUMMARY:'):
                        j += 1
                        break
                j += 1
            reps.append(SanReport(tool, kind, frames, '\n'.join(body[:120])))
            i = j
            continue
        i += 1
    return reps


# ---------------------------------------------------------------------------------------------------
#  batch execution
# ---------------------------------------------------------------------------------------------------
SAN_ENV = {
    'ASAN_OPTIONS': 'detect_leaks=0:allocator_may_return_null=1:abort_on_error=0:halt_on_error=1:handle_abort=1:symbolize=1:max_malloc_fill_size=0',
    'UBSAN_OPTIONS': 'print_stacktrace=1:halt_on_error=1',
    'ASAN_SYMBOLIZER_PATH': '/usr/bin/llvm-symbolizer-14',
}


def _scratch(tag):
    d = os.path.join(SCRATCH_ROOT, '%s-%d-%d' % (tag, os.getpid(), int(time.time() * 1000) % 100000000))
    os.makedirs(d, exist_ok=True)
    return d


def parse_log(path, wanted_ids=None):
    recs = {}
    cur = None
    order = []
    try:
        with open(path, 'r', encoding='utf-8', errors='surrogateescape', newline='\n') as f:
            for l in f:
                l = l.rstrip('\n')
                if l.startswith('BEGIN\t'):
                    cur = Record(l[6:])
                    recs[cur.id] = cur
                    order.append(cur.id)
                elif l.startswith('END\t'):
                    if cur is not None and cur.id == l[4:]:
                        cur.complete = True
                    cur = None
                elif cur is not None:
                    cur.lines.append(l)
    except FileNotFoundError:
        pass
    return recs, order


def run_shard(binary, cases, tag='x', per_case_timeout=60.0, extra_args=(), env=None, min_batch_timeout=120.0):
    """Run the cases in one driver process, restarting after a crash/hang.  Returns {id: Record}."""
    sd = _scratch(tag)
    out = {}
    pending = list(cases)
    attempt = 0
    e = dict(os.environ)
    e.update(SAN_ENV)
    e['XV_SCRATCH'] = sd
    if env:
        e.update(env)
    try:
        while pending:
            attempt += 1
            cf = os.path.join(sd, 'c%d.txt' % attempt)
            lf = os.path.join(sd, 'l%d.txt' % attempt)
            with open(cf, 'w', encoding='utf-8', errors='surrogatepass') as f:
                for c in pending:
                    f.write(c.render())
            with open(os.path.join(sd, 'e%d.txt' % attempt), 'wb') as ef:
                p = subprocess.Popen([binary, cf, lf] + list(extra_args), stdout=subprocess.DEVNULL, stderr=ef, env=e, stdin=subprocess.DEVNULL)
                hung = False
                # watchdog on *progress*: the driver flushes the log at the start and end of every case, so a log that
                # does not grow for per_case_timeout seconds means the current case is stuck (start-up gets extra time)
                last_size, last_t, started = -1, time.time(), time.time()
                while True:
                    try:
                        p.wait(timeout=0.5)
                        break
                    except subprocess.TimeoutExpired:
                        pass
                    try:
                        sz = os.path.getsize(lf)
                    except OSError:
                        sz = 0
                    now = time.time()
                    if sz != last_size:
                        last_size, last_t = sz, now
                    elif now - last_t > (per_case_timeout if sz > 0 else max(per_case_timeout, min_batch_timeout)):
                        hung = True
                        p.kill()
                        p.wait()
                        break
            err = open(os.path.join(sd, 'e%d.txt' % attempt), 'r', errors='replace').read()
            recs, order = parse_log(lf)
            if '__global__' in recs and recs['__global__'].complete:
                out['__global__:%s:%d' % (tag, attempt)] = recs['__global__']
            done_ids = set()
            last_incomplete = None
            for c in pending:
                r = recs.get(c.id)
                if r is None:
                    break
                if r.complete:
                    out[c.id] = r
                    done_ids.add(c.id)
                else:
                    last_incomplete = r
                    break
            if last_incomplete is not None:
                r = last_incomplete
                if hung:
                    r.hang = True
                reps = parse_san(err)
                r.crash = reps[0] if reps else SanReport('signal', 'rc%s' % p.returncode, [], err[-3000:])
                if hung and not reps:
                    r.crash = None
                out[r.id] = r
                done_ids.add(r.id)
            elif p.returncode != 0 and not hung and len(done_ids) == len(pending):
                # all cases complete but the process failed at exit (e.g. leak report): attach to a pseudo record
                r = Record('__exit__')
                reps = parse_san(err)
                r.crash = reps[0] if reps else SanReport('exit', 'rc%s' % p.returncode, [], err[-3000:])
                out['__exit__'] = r
            elif not done_ids:
                # nothing progressed: harness failure
                raise RuntimeError('driver made no progress (rc=%s): %s' % (p.returncode, err[-2000:]))
            # global lines after the last END (e.g. GLOBAL-LEDGER)
            pending = [c for c in pending if c.id not in done_ids]
            if attempt > 2000:
                raise RuntimeError('too many driver restarts')
    finally:
        shutil.rmtree(sd, ignore_errors=True)
    return out


def run_cases(binary, cases, shards=None, tag='x', per_case_timeout=60.0, extra_args=(), env=None, rerun_hangs=True):
    """Shard cases over processes of the driver `binary` (from build.ensure).  Returns {id: Record}.
    A case that trips the watchdog is re-run once alone with three times the budget; only if it trips again is it
    returned as a hang (wall-clock alone never decides)."""
    shards = shards or NCPU
    cases = list(cases)
    if not cases:
        return {}
    shards = max(1, min(shards, (len(cases) + 3) // 4))
    parts = [cases[i::shards] for i in range(shards)]
    res = {}
    with ThreadPoolExecutor(shards) as ex:
        futs = [ex.submit(run_shard, binary, p, '%s%d' % (tag, i), per_case_timeout, extra_args, env) for i, p in enumerate(parts)]
        for f in futs:
            for k, v in f.result().items():
                if k == '__exit__':
                    res.setdefault('__exit__:%s' % len(res), v)
                else:
                    res[k] = v
    if rerun_hangs:
        byid = dict((c.id, c) for c in cases)
        for k in [k for k, v in res.items() if v.hang and not v.crash and k in byid]:
            again = run_shard(binary, [byid[k]], tag + 'h', per_case_timeout * 3, extra_args, env)
            r2 = again.get(k)
            if r2 is not None and r2.complete and not r2.hang:
                res[k] = r2
                WATCHDOG_FALSE_ALARMS.append(k)
    return res


WATCHDOG_FALSE_ALARMS = []


# ---------------------------------------------------------------------------------------------------
#  violations, known findings, evidence
# ---------------------------------------------------------------------------------------------------
class Check:
    def __init__(self, pid, tier, level='exploration'):
        self.pid, self.tier, self.level = pid, tier, level
        self.seed = seed()
        self.t0 = time.time()
        self.violations = {}      # key -> dict(what, witness)
        self.cov = {}
        self.samples = []
        self.assumptions = []
        self.evaluations = 0
        self.distinct = set()
        self.rule = ''
        self.inconclusive = []
        kf = os.path.join(VERIF, 'known_findings.json')
        self.known = json.load(open(kf)) if os.path.exists(kf) else []

    def note(self, *a):
        print('[%s %s seed=%d +%.0fs]' % (self.pid, self.tier, self.seed, time.time() - self.t0), *a, file=sys.stderr, flush=True)

    def violation(self, key, what, witness):
        """witness: json-able dict (cases etc.).  First witness per key is kept."""
        if key not in self.violations:
            self.violations[key] = {'what': what, 'witness': witness, 'count': 1}
        else:
            self.violations[key]['count'] += 1

    def add_distinct(self, h):
        self.distinct.add(h)

    def sample(self, s, limit=6):
        if len(self.samples) < limit:
            self.samples.append(s)

    def crash_violation(self, rec, case, prefix=''):
        """standard handling of a crashed / hung case record"""
        if rec.hang and not rec.crash:
            key = '%shang:%s' % (prefix, case.meta.get('class', case.cmd))
            self.violation(key, 'case did not terminate within the watchdog (re-run once)', {'case': case.to_json()})
        elif rec.crash:
            self.violation(prefix + rec.crash.key(), 'sanitizer/crash report', {'case': case.to_json(), 'report': rec.crash.text[:6000]})

    def finish(self):
        wall = time.time() - self.t0
        new = []
        known_hit = []
        for key, v in self.violations.items():
            kf = next((k for k in self.known if k.get('property') == self.pid and k.get('status') == 'known' and _key_match(k.get('key'), key)), None)
            if kf:
                known_hit.append((kf, key, v))
            else:
                new.append((key, v))
        ev = {
            'property_id': self.pid, 'tier': self.tier, 'seed': self.seed, 'level': self.level,
            'coverage': dict(self.cov, evaluations=int(self.evaluations), distinct_nontrivial=len(self.distinct),
                             rule=self.rule, samples=self.samples[:8]),
            'assumptions': self.assumptions, 'wall_s': round(wall, 1), 'violations': len(new),
        }
        ev['coverage']['known_findings_observed'] = sorted(set(k['id'] for k, _, _ in known_hit))
        if self.inconclusive:
            ev['coverage']['inconclusive'] = self.inconclusive[:20]
        # runs against a tree other than /repo (seeded-defect trials) must not overwrite the evidence of the real tree
        alt = build.REPO != '/repo'
        evdir = os.environ.get('XV_EVIDENCE_DIR') or (os.path.join(VERIF, 'evidence') if not alt else '/var/tmp/xv-alt-evidence')
        os.makedirs(evdir, exist_ok=True)
        with open(os.path.join(evdir, self.pid + '.json'), 'w') as f:
            json.dump(ev, f, indent=1, ensure_ascii=True, default=str)
        seen = set()
        for kf, key, v in known_hit:
            if kf['id'] in seen:
                continue
            seen.add(kf['id'])
            print('KNOWN-FINDING: property=%s %s [%s] (%d case(s) this run)' % (self.pid, kf['what'], kf['id'], sum(x[2]['count'] for x in known_hit if x[0] is kf)))
        rc = 0
        for key, v in new:
            rd = os.path.join(VERIF, 'replays', self.pid) if not alt else os.path.join('/var/tmp/xv-alt-replays', self.pid)
            os.makedirs(rd, exist_ok=True)
            name = re.sub(r'[^A-Za-z0-9_.-]+', '_', key)[:80] + '-' + hashlib.sha1(key.encode()).hexdigest()[:8] + '.json'
            path = os.path.join(rd, name)
            with open(path, 'w') as f:
                json.dump({'property': self.pid, 'key': key, 'what': v['what'], 'count': v['count'], 'tier': self.tier, 'seed': self.seed, 'witness': v['witness']}, f, indent=1, default=str)
            print('VIOLATION property=%s replay=%s key=%s (%s; %d case(s))' % (self.pid, path, key, v['what'][:160], v['count']))
            rc = 1
        if rc == 0 and self.inconclusive:
            print('INCONCLUSIVE property=%s %s' % (self.pid, '; '.join(map(str, self.inconclusive[:5]))))
            rc = 2
        if rc == 0 and (self.evaluations < 1 or len(self.distinct) < 2):
            print('INCONCLUSIVE property=%s observed too little (evaluations=%d distinct=%d)' % (self.pid, self.evaluations, len(self.distinct)))
            rc = 2
        self.note('done: evaluations=%d distinct=%d violations=%d known=%d wall=%.0fs' % (self.evaluations, len(self.distinct), len(new), len(seen), wall))
        return rc


def _key_match(pattern, key):
    if pattern is None:
        return False
    if pattern.startswith('re:'):
        return re.fullmatch(pattern[3:], key) is not None
    return pattern == key


def h(*parts):
    return hashlib.sha1(repr(parts).encode('utf-8', 'surrogatepass')).hexdigest()[:16]
