"""C02: fatal error iff not well-formed.  Well-formed side: generated documents must parse without fatal
error under every API/scanner/namespace setting.  Ill-formed side: single-constraint mutants (xmlmut) must
yield a fatal error or a documented exception.  pyexpat gives a second opinion on XML 1.0 cases; a case on
which the generator's label and expat disagree is discarded and counted."""
import collections, pyexpat
from .. import core, build, parsecmp as pc
from ..gen import xmlgen, xmlmut

PID = 'C02'

# (name, opts, needs-doctype-free)
CONFIGS = [
    ('sax1-ig', dict(api='sax1'), False), ('sax2-ig', dict(api='sax2'), False), ('dom-ig', dict(api='dom'), False), ('domls-ig', dict(api='domls'), False),
    ('sax2-dg', dict(api='sax2', scanner='DG'), False), ('dom-dg', dict(api='dom', scanner='DG'), False),
    ('sax2-wf', dict(api='sax2', scanner='WF'), True), ('dom-wf', dict(api='dom', scanner='WF'), True), ('sax1-wf', dict(api='sax1', scanner='WF'), True),
    ('sax2-sg', dict(api='sax2', scanner='SG'), True), ('domls-sg', dict(api='domls', scanner='SG'), True),
    ('prog-ig', dict(api='prog'), False),
]


def expat_accepts(data, ns, ents=()):
    p = pyexpat.ParserCreate(namespace_separator='\x01') if ns else pyexpat.ParserCreate()
    p.SetParamEntityParsing(pyexpat.XML_PARAM_ENTITY_PARSING_ALWAYS)
    files = dict((k.split('/')[-1], v) for k, v in ents)

    def ext(context, base, sysid, pubid):
        # entities of the case are parsed; anything else is treated as empty
        sub = p.ExternalEntityParserCreate(context)
        sub.Parse(files.get(sysid, b''), True)
        return 1
    p.ExternalEntityRefHandler = ext
    try:
        p.Parse(data, True)
        return True
    except pyexpat.ExpatError:
        return False
    except Exception:
        return None


def configs_for(has_doctype, r, k):
    """choose k configurations (always at least the IG SAX2 one)"""
    pool = [c for c in CONFIGS if not (c[2] and has_doctype)]
    first = [c for c in pool if c[0] == 'sax2-ig']
    rest = [c for c in pool if c[0] != 'sax2-ig']
    r.shuffle(rest)
    return first + rest[:max(0, k - 1)]


def run(tier):
    ck = core.Check(PID, tier)
    binary = build.ensure('asan', parts=['parse', 'domdump'])
    ndocs = 1200 if tier == 'quick' else 15000
    rounds = 1 if tier == 'quick' else 10
    stats = collections.Counter()
    opstat = collections.defaultdict(collections.Counter)     # op -> first fatal code counter
    opcfg = collections.defaultdict(collections.Counter)
    accepted_ops = collections.Counter()
    sole = collections.defaultdict(set)
    for rd in range(rounds):
        cases = []
        info = {}
        for i in range(ndocs // rounds):
            r = core.rng(ck.seed, PID, rd, i)
            g = xmlgen.make(r)
            cx = g['cx']
            has_dt = bool(g['doc']['doctype'])
            # ---- well-formed side
            for name, opts, _ in configs_for(has_dt, r, 5):
                for ns in ((1, 0) if r.random() < 0.5 else (1 if cx.ns else 0,)):
                    if ns == 0 and name.endswith('-sg'):
                        continue
                    cid = 'r%dw%d.%s.ns%d' % (rd, i, name, ns)
                    o = dict(opts, ns=ns, dump=0)
                    cases.append(core.Case(cid, 'parse', o, ents=g['ents']).doc(g['bytes']))
                    info[cid] = ('wf', g, name, None)
            # ---- mutants
            ops = list(xmlmut.ALL_OPS)
            r.shuffle(ops)
            made = 0
            for opn in ops:
                if made >= 6:
                    break
                o = xmlmut.OPS.get(opn)
                ns_only = bool(o and o['ns_only'])
                if ns_only and not cx.ns:
                    continue
                m = xmlmut.mutate(g, r, opn)
                if not m:
                    continue
                made += 1
                mhas_dt = has_dt or b'<!DOCTYPE' in m['bytes'] or '<!DOCTYPE' in (m['text'] or '')
                if g['encoding'].startswith('UTF-16'):
                    mhas_dt = has_dt or ('<!DOCTYPE' in (m['text'] or ''))
                # second opinion
                xa = None
                if cx.version == '1.0' and (not ns_only or opn in ('ns-unbound-element-prefix', 'ns-unbound-attr-prefix')):
                    xa = expat_accepts(m['bytes'], ns_only, g['ents'])
                    if xa is True:
                        stats['discarded_expat_accepts_mutant'] += 1
                        accepted_ops[opn] += 1
                        continue
                m['expat'] = xa
                for name, opts, _ in configs_for(mhas_dt, r, 4):
                    ns = 1 if (ns_only or (cx.ns and r.random() < 0.7)) else 0
                    if ns == 0 and name.endswith('-sg'):
                        ns = 1
                    cid = 'r%dm%d.%s.%s.ns%d' % (rd, i, opn, name, ns)
                    o2 = dict(opts, ns=ns, dump=0)
                    cases.append(core.Case(cid, 'parse', o2, ents=g['ents']).doc(m['bytes']))
                    info[cid] = ('mut', g, name, m)
        recs = core.run_cases(binary, cases, tag='c02')
        for c in cases:
            kind, g, name, m = info[c.id]
            r_ = recs.get(c.id)
            if r_ is None or not r_.complete or r_.crash or r_.hang:
                if r_ is not None:
                    ck.crash_violation(r_, c, 'C02:')
                continue
            st = pc.parse_record(r_)[0]
            ck.evaluations += 1
            v = st.verdict()
            if st.status == 'foreign':
                ck.violation('C02:foreign-exception:%s' % (st.exc[0][0] if st.exc else '?'), 'an undocumented exception type escaped parse()', {'case': c.to_json()})
                continue
            if kind == 'wf':
                stats['wf_runs'] += 1
                if v in ('none', 'error'):
                    # 'error' cannot happen with validation off; treat it like none for this property
                    ck.add_distinct(core.h('wf', g['bytes'], name, c.opt.get('ns')))
                else:
                    code = st.errs[0][2] if st.errs else 0
                    ck.violation('C02:rejected:%s:%s' % (v, code), 'well-formed document rejected (%s, config %s)' % (v, name),
                                 {'case': c.to_json(), 'text': g['text'], 'tags': sorted(g['cx'].tags), 'errs': st.errs[:3], 'exc': st.exc})
            else:
                opn = m['op']
                stats['mutant_runs'] += 1
                opcfg[opn][name] += 1
                if v == 'fatal' or v.startswith('exception:'):
                    codes = [e[2] for e in st.errs if e[0] == 'F']
                    first = codes[0] if codes else v
                    opstat[opn][str(first)] += 1
                    if len(set(codes)) == 1:
                        sole[str(codes[0])].add(opn)
                    ck.add_distinct(core.h('mut', m['bytes'], name, c.opt.get('ns')))
                else:
                    detail = m['detail']
                    cls = opn
                    if opn in ('bad-charref', 'bad-charref-in-attr', 'dtd-garbage-decl', 'xmldecl-bad-version', 'illegal-char', 'illegal-char-in-attr', 'entity-partial-markup', 'utf8-illegal-sequence', 'element-split-across-entities'):
                        cls = opn + ':' + str(detail)
                    ck.violation('C02:accepted:%s' % cls, 'document violating a well-formedness constraint (%s %s) was accepted without fatal error (config %s, verdict %s)' % (opn, detail, name, v),
                                 {'case': c.to_json(), 'text': m['text'] if m['text'] is not None else None, 'op': opn, 'detail': detail, 'expat_rejects': m.get('expat') is False,
                                  'tags': sorted(g['cx'].tags)})
                if len(ck.samples) < 4 and m['text'] and len(m['text']) < 300:
                    ck.sample({'op': opn, 'detail': m['detail'], 'text': m['text'], 'config': name, 'verdict': v, 'errors': [list(e) for e in st.errs[:2]]})
    ck.rule = ('well-formed side: documents from xmlgen x API/scanner/namespace configurations; ill-formed side: one xmlmut operator applied to a generated document '
               '(label confirmed by pyexpat for XML 1.0 cases, otherwise by construction). Non-trivial: every case (each is a full parse of a generated document with >= 1 element); '
               'distinct by (document bytes, configuration)')
    ck.cov['stats'] = dict(stats)
    ck.cov['operators'] = {k: dict(v) for k, v in sorted(opstat.items())}
    ck.cov['operator_x_config'] = {k: dict(v) for k, v in sorted(opcfg.items())}
    ck.cov['sole_detector_codes'] = {k: sorted(v) for k, v in sorted(sole.items())}
    ck.cov['mutants_discarded_because_expat_accepts'] = dict(accepted_ops)
    ck.assumptions = ['operators produce exactly one constraint violation by construction; pyexpat (4th edition names) must also reject XML 1.0 mutants, otherwise the case is discarded',
                      'undeclared-entity is applied only to documents without parameter-entity references (otherwise it is a validity matter)',
                      'namespace operators are run with namespace processing on only']
    missing = [o for o in xmlmut.ALL_OPS if o not in opstat and o not in accepted_ops and not any(k.startswith('C02:accepted:' + o) for k in ck.violations)]
    if missing:
        ck.cov['operators_never_applied'] = missing
        if tier == 'thorough' or len(missing) > 6:
            ck.inconclusive.append('operators never applied: ' + ','.join(missing))
    tot = stats['mutant_runs'] + stats['discarded_expat_accepts_mutant']
    if stats['discarded_expat_accepts_mutant'] > 0.05 * max(1, tot):
        ck.inconclusive.append('more than 5% of mutants discarded as oracle-uncertain')
    return ck.finish()


def replay(j):
    w = j['witness']
    binary = build.ensure('asan', parts=['parse', 'domdump'])
    c = core.Case.from_json(w['case'])
    c.opt['dump'] = 1
    recs = core.run_cases(binary, [c], shards=1)
    r = recs[c.id]
    print('\n'.join(r.lines[:100]))
    st = pc.parse_record(r)[0]
    print('verdict:', st.verdict(), 'key was', j['key'])
    if j['key'].startswith('C02:accepted'):
        return 0 if (st.verdict() == 'fatal' or st.verdict().startswith('exception')) else 1
    return 0 if st.verdict() in ('none', 'error') else 1
