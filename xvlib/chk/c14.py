"""C14  Live lists, iterators, walkers and ranges stay consistent under mutation.

Same machinery as C13 (drivers/xd_domscript.cpp, xvlib/gen/domref.py, the lock-step comparison of xvlib/chk/c13.py): scripts interleave
tree mutations with creation / stepping / querying / detaching of up to 8 simultaneously live views; every answer of a view is compared
with the Traversal-Range part of the reference model.  Tree-level deviations that belong to C13 (domref.KNOWN_DEVIATIONS) are taken as
given here - the tree model runs "as implemented" - so that this check reports view defects only.
"""
import os, sys, json
from .. import core, build
from ..gen import domref
from . import c13

PID = 'C14'

SPECIALS = {
 'iterator-unstepped-removal': '''newdoc=n0 ~ r 0
bind=n1 n0 de
cE=n2 n0 a
app n1 n2
mkIter v0 n1 65535 0 1
rem n1 n2
it v0 next''',
 'iterator-removal-forward': '''newdoc=n0 ~ r 0
bind=n1 n0 de
cE=n2 n0 a
cE=n3 n0 b
cE=n4 n0 c
app n1 n2
app n2 n3
app n1 n4
mkIter v0 n1 65535 0 1
it v0 next
it v0 next
it v0 next
rem n1 n2
it v0 next
it v0 prev''',
 'iterator-removal-backward': '''newdoc=n0 ~ r 0
bind=n1 n0 de
cE=n2 n0 a
cE=n3 n0 b
cE=n4 n0 c
app n1 n2
app n2 n3
app n1 n4
mkIter v0 n1 65535 0 1
it v0 next
it v0 next
it v0 next
it v0 prev
rem n1 n2
it v0 prev
it v0 next''',
 'treewalker-previousNode-deep': '''newdoc=n0 ~ r 0
bind=n1 n0 de
cE=n2 n0 a
cE=n3 n0 b
cE=n4 n0 c
cE=n5 n0 d
app n1 n2
app n2 n3
app n3 n4
app n1 n5
mkWalker v0 n1 65535 0 1
tw v0 set n5
tw v0 prev''',
 'treewalker-hidden-rejected': '''newdoc=n0 ~ r 0
bind=n1 n0 de
cE=n2 n0 b
cT=n3 n0 t
app n1 n2
app n2 n3
mkWalker v0 n1 4 1 1
tw v0 next''',
 'range-insertData-before-start': '''newdoc=n0 ~ r 0
bind=n1 n0 de
cT=n2 n0 hello
app n1 n2
mkRange v0 n0
rg v0 setStart n2 1
rg v0 setEnd n2 4
insertData n2 0 XY
rg v0 get''',
 'range-selectNode-text': '''newdoc=n0 ~ r 0
bind=n1 n0 de
cT=n2 n0 hello
app n1 n2
mkRange v0 n0
rg v0 selectNode n2
rg v0 get''',
 'range-remove-container': '''newdoc=n0 ~ r 0
bind=n1 n0 de
cE=n2 n0 a
cT=n3 n0 hello
app n1 n2
app n2 n3
mkRange v0 n0
rg v0 setStart n3 2
rg v0 setEnd n1 1
rem n1 n2
rg v0 get''',
 'range-splitText': '''newdoc=n0 ~ r 0
bind=n1 n0 de
cT=n2 n0 hello
app n1 n2
mkRange v0 n0
rg v0 setStart n2 1
rg v0 setEnd n2 4
splitText=n3 n2 2
rg v0 get''',
 'range-extract': '''newdoc=n0 ~ r 0
bind=n1 n0 de
cE=n2 n0 a
cT=n3 n0 hello
cE=n4 n0 b
cT=n5 n0 world
app n1 n2
app n2 n3
app n1 n4
app n4 n5
mkRange v0 n0
rg v0 setStart n3 2
rg v0 setEnd n5 3
rg v0 toString
rg=n6 v0 extract
rg v0 get''',
 'deep-list-after-rename': '''newdoc=n0 ~ r 0
bind=n1 n0 de
cE=n2 n0 a
cE=n3 n0 b
cE=n4 n0 a
app n1 n2
app n1 n3
app n1 n4
mkList v0 tag n0 a
list v0 item 0
list v0 item 1
rename=n5 n0 n3 ~ a
list v0 item 2
list v0 all''',
 'getElementById-after-removeAttributeNS': '''newdoc=n0 ~ r 0
bind=n1 n0 de
setAttrNS n1 urn:u1 p:id x
setIdNS n1 urn:u1 id 1
getById n0 x
remAttrNS n1 urn:u1 id
getById n0 x''',
 'range-surround-hierarchy-error': '''newdoc=n0 ~ r 0
bind=n1 n0 de
cA=n2 n0 a
cT=n3 n0 x
app n2 n3
setAttrNode=n4 n1 n2
cE=n5 n0 e
mkRange v0 n0
rg v0 selectNodeContents n2
rg v0 surround n5''',
 'range-boundary-in-released-attribute': '''newdoc=n0 ~ r 0
bind=n1 n0 de
setAttr n1 a v
getAttrNode=n2 n1 a
mkRange v0 n0
rg v0 selectNodeContents n2
remAttr n1 a !n2
cA=n3 n0 zz
rg v0 get''',
 'range-delete-other-range-offsets': '''newdoc=n0 ~ r 0
bind=n1 n0 de
cT=n2 n0 hello
cE=n3 n0 e
app n1 n2
app n1 n3
mkRange v0 n0
mkRange v1 n0
rg v1 setStart n2 1
rg v1 setEnd n2 2
rg v0 setStart n2 3
rg v0 setEnd n1 2
rg v0 delete
rg v1 get''',
 'range-select-comment': '''newdoc=n0 ~ r 0
bind=n1 n0 de
cC=n2 n0 hello
app n1 n2
mkRange v0 n0
rg v0 selectNodeContents n2''',
 'range-insertNode-readonly-newnode': '''newdoc=n0 ~ r 0
bind=n1 n0 de
cER=n2 n0 x
mkRange v0 n0
rg v0 setStart n1 0
rg v0 insertNode n2''',
 'getElementById-recycled-attribute': '''newdoc=n0 ~ r 0
bind=n1 n0 de
cE=n2 n0 e
app n1 n2
setAttr n1 id x
setId n1 id 1
getById n0 x
remAttr n1 id
cA=n3 n0 other
setValue n3 x
setAttrNode=n4 n2 n3
getById n0 x
getById n0 y''',
 'getElementById-after-removeAttribute': '''newdoc=n0 ~ r 0
bind=n1 n0 de
setAttr n1 id x
setId n1 id 1
getById n0 x
remAttr n1 id
getById n0 x''',
 # ---- found by the thorough tier (notes/C14.md, findings 12-14 and oracle corrections)
 'deep-list-pool-tagNS-null-then-tag': '''newdoc=n0 ~ r 0
bind=n1 n0 de
cENS=n2 n0 urn:u1 p:a
app n1 n2
mkList v0 tagNS n1 ~ *
mkList v1 tag n1 *
list v1 all
list v0 all''',
 'deep-list-pool-tag-then-tagNS-null': '''newdoc=n0 ~ r 0
bind=n1 n0 de
cE=n2 n0 a
app n1 n2
mkList v0 tag n1 a
mkList v1 tagNS n1 ~ a
list v1 all
list v0 all''',
 'map-getNamedItem-after-ns-replacement': '''newdoc=n0 ~ r 0
bind=n1 n0 de
setAttr n1 id 1
setAttr n1 xml:lang 2
setAttrNS n1 urn:u2 b 3
mkMap v0 n1
setAttrNS n1 urn:u2 q:b 4
map v0 names
map v0 get q:b''',
 'range-insertNode-fragment-two-elements-into-document': '''newdoc=n0 ~ ~ 0
cDF=n1 n0
cE=n2 n0 a
cE=n3 n0 b
app n1 n2
app n1 n3
mkRange v0 n0
rg v0 insertNode n1
rg v0 get''',
 'range-delete-other-range-queried-late': '''newdoc=n0 ~ r 0
bind=n1 n0 de
cT=n2 n0 hello
cE=n3 n0 e
app n1 n2
app n1 n3
mkRange v0 n0
mkRange v1 n0
rg v1 setStart n2 1
rg v1 setEnd n2 1
rg v0 setStart n2 3
rg v0 setEnd n1 2
rg v0 delete
normalize n3
rg v1 get''',
 'range-cloneRange-after-split-of-parentless-text': '''newdoc=n0 ~ r 0
cT=n1 n0 hello
mkRange v0 n0
rg v0 setStart n1 0
rg v0 setEnd n1 4
splitText=n2 n1 2
rg v0 get
rg v0 cloneRange v1
rg v1 get''',
}

TIERS = {
    'micro': dict(nrandom=96, nops=300, depth=0, chk=1, tail=0.0),
    'mini': dict(nrandom=320, nops=300, depth=0, chk=1, tail=0.0),
    'quick': dict(nrandom=1500, nops=300, depth=0, chk=1, tail=0.0),
    # (the first plan, 10000 x 600 with the comparison only every 10th operation, named its findings after the LAST mutation
    #  before the comparison, not the one that caused them: 15 untriageable keys.  Every operation is compared, as in quick.)
    'thorough': dict(nrandom=6000, nops=300, depth=0, chk=1, tail=0.0),
}

ASSUMPTIONS = [
    'tree-level deviations of C13 (domref.KNOWN_DEVIATIONS) are part of the tree model here; this check reports view behaviour only',
    'NodeFilter results are a pure function of node type / name / emptiness; when whatToShow hides a node the filter is not consulted (DOM Traversal 1.1.2)',
    'TreeWalker navigation is only compared while the current node lies inside the root subtree (DOM leaves the other case open)',
    'Range: setters given a node of another document, insertNode at the edge of a Text node, boundary points inside comments / PIs for '
    'insertNode and surroundContents, boundary containers inside a released subtree, cloneRange / toString / comparison / content operations '
    'of a range whose boundary points lie in two trees (splitText of a parentless Text node): not decided by the model (skipped, counted)',
    'getElementById is only compared when at most one live attribute carries the value as a user-determined ID and its element is in the document',
    'XPath evaluation results are not covered by this check (DOMXPathExpression here implements the schema XPath subset and keeps no live state)',
]

NEED = ['it:next', 'it:prev', 'tw:next', 'tw:prev', 'tw:parent', 'list:tag-all', 'list:children-all', 'map:names', 'rg:get', 'rg:toString',
        'rg:extract', 'rg:delete', 'rg:cloneContents', 'rg:insertNode', 'rg:surround', 'rg:cmp', 'rg:setStart']


def _opts():
    return {'pid': PID, 'views': True, 'base': sorted(domref.KNOWN_DEVIATIONS), 'specials': SPECIALS, 'need': NEED, 'assumptions': ASSUMPTIONS,
            'rule': 'random script with >= 10 compared operations of >= 4 kinds, >= 1 operation for which the model expects an exception and >= 5 '
                    'view queries executed after a tree mutation while views were live; distinct by hash of the (operation, outcome) sequence'}


def run(tier):
    ck = core.Check(PID, tier)
    cfg = TIERS.get(tier, TIERS['quick'])
    binary = build.ensure('asan', parts=['domscript'])
    return c13._run(ck, cfg, tier, binary, _opts())


def replay(j):
    return c13.replay(j, pid=PID, base=frozenset(domref.KNOWN_DEVIATIONS))
