"""C18: MemoryManager discipline and Initialize/Terminate lifecycle.
Oracle: a ledger MemoryManager given to the parser (exact: every deallocate must name a live block of this
manager; nothing may be outstanding once parser, documents and pool are destroyed), a second ledger installed
as the global manager for the whole process (nothing outstanding after the last Terminate; blocks crossing from
one manager to the other are counted), LeakSanitizer at exit for allocations that bypass the managers, and a
ledger per Initialize/Terminate cycle.
Workload = fault enumeration: for each document and API the parse is first run to completion to count
callbacks C and progressive steps S; then it is ended in every possible way: exception thrown from the k-th
callback for every k <= C (three exception kinds), progressive parse abandoned after s steps for every s <= S
with and without parseReset, plus re-use of the parser after the failure."""
import collections
from .. import core, build, parsecmp as pc
from . import c15

PID = 'C18'


def mm_line(rec):
    for l in rec.lines:
        if l.startswith('MM\t'):
            return dict(kv.split('=') for kv in l.split('\t')[1:])
    return None


def run(tier):
    ck = core.Check(PID, tier, level='fault_enumeration')
    binary = build.ensure('asan', parts=['parse', 'domdump'])
    docs = c15.pool_docs()
    from ..gen import xmlgen, xmlmut
    gen_ents = []
    for i in range(25 if tier == 'quick' else 400):
        r = core.rng(ck.seed, PID, 'gen', i)
        g = xmlgen.make(r, file_prefix='g%d-' % i)
        gen_ents += g['ents']
        docs.append(('gen-%d' % i, g['bytes'], {'ns': 1 if g['cx'].ns else 0}))
        ops = list(xmlmut.ALL_OPS)
        r.shuffle(ops)
        m = xmlmut.mutate(g, r, ops[0])
        if m:
            docs.append(('gen-mut-%s-%d' % (ops[0], i), m['bytes'], {'ns': 1 if g['cx'].ns else 0}))
    # parses that end while a reader is being constructed: encoding forced by the application (InputSource::setEncoding)
    # that the transcoding service does not know, on the document source and on sources supplied by the resolver
    byname = dict((n, (d, o)) for n, d, o in docs)
    for base in ('no-dtd', 'dtd-valid-1', 'ext-dtd', 'ext-entity', 'xsd-valid'):
        d, o = byname[base]
        docs.append((base + '+forced-unknown-encoding', d, dict(o, forceenc='x-no-such-charset')))
        docs.append((base + '+forced-latin1', d, dict(o, forceenc='ISO-8859-1')))
        if base.startswith('ext') or base.startswith('xsd'):
            docs.append((base + '+entity-forced-unknown-encoding', d, dict(o, entenc='x-no-such-charset')))
            docs.append((base + '+entity-forced-utf16', d, dict(o, entenc='UTF-16')))
    apis = ['sax1', 'sax2', 'dom', 'domls', 'prog', 'progdom']
    cap = 120 if tier == 'quick' else 400
    stats = collections.Counter()
    # ---------------------------------------------------------------- pass 1: count callbacks / steps
    probe = []
    for name, data, dopt in docs:
        for api in apis:
            for val in (('never',) if not dopt.get('schema') else ('always',)) + (('always',) if 'dtd' in name or 'ext' in name else ()):
                o = dict(dopt, api=api, val=val, dump=0, mm=1, pool=1 if api in ('sax2', 'dom') else 0)
                probe.append(core.Case('p.%s.%s.%s' % (name, api, val), 'parse', o, ents=c15.ENTS + gen_ents, meta={'doc': name}).doc(data))
    recs = core.run_cases(binary, probe, tag='c18p', extra_args=['--global-ledger'])
    plans = []
    for c in probe:
        r_ = recs.get(c.id)
        if r_ is None or not r_.complete or r_.crash or r_.hang:
            if r_ is not None:
                ck.crash_violation(r_, c, 'C18:')
            continue
        st = pc.parse_record(r_)[0]
        check_mm(ck, c, r_, stats, 'complete')
        ncb = st.hk[5] if st.hk else 0
        steps = st.psteps or 0
        plans.append((c, ncb, steps))
    # ---------------------------------------------------------------- pass 2: every ending
    cases = []
    for c, ncb, steps in plans:
        api = c.opt['api']
        ks = list(range(1, min(ncb, cap) + 1))
        if ncb > cap:
            r = core.rng(ck.seed, PID, c.id)
            ks += sorted(r.sample(range(cap + 1, ncb + 1), min(30, ncb - cap)))
        for k in ks:
            kind = ('sax', 'std', 'int')[k % 3]
            o = dict(c.opt, throw_at=k, throw_kind=kind)
            cc = core.Case('%s.t%d' % (c.id, k), 'parse', o, ents=c.ents, meta={'ending': 'throw', 'k': k, 'doc': c.meta['doc']})
            cc.steps = list(c.steps)
            if k % 4 == 0:
                # re-use the parser after the aborted parse, then destroy it
                cc.steps = [(c.steps[0][0], c.steps[0][1], {})] + [(c.steps[0][0], c.steps[0][1], {'throw_at': 0})]
            cases.append(cc)
        if api.startswith('prog'):
            for s in range(0, min(steps, cap) + 1):
                for reset in (0, 1):
                    o = dict(c.opt, abandon_at=s, abandon_reset=reset)
                    cc = core.Case('%s.a%d.%d' % (c.id, s, reset), 'parse', o, ents=c.ents, meta={'ending': 'abandon', 'k': s, 'doc': c.meta['doc']})
                    cc.steps = list(c.steps)
                    if s % 5 == 0:
                        cc.steps = [(c.steps[0][0], c.steps[0][1], {})] + [(c.steps[0][0], c.steps[0][1], {'abandon_at': -1})]
                    cases.append(cc)
        if api in ('dom', 'domls'):
            # object lifetimes: adopt documents, destroy the parser first (the driver releases adopted documents afterwards)
            o = dict(c.opt, adopt=1)
            cc = core.Case('%s.adopt' % c.id, 'parse', o, ents=c.ents, meta={'ending': 'adopt', 'k': 0, 'doc': c.meta['doc']})
            cc.steps = [c.steps[0], c.steps[0], (c.steps[0][0], c.steps[0][1], {'op': 'resetdocpool'}), c.steps[0]]
            cases.append(cc)
    ck.note('%d endings enumerated over %d (document, API, validation) combinations' % (len(cases), len(plans)))
    recs = core.run_cases(binary, cases, tag='c18', extra_args=['--global-ledger'], env={'ASAN_OPTIONS': core.SAN_ENV['ASAN_OPTIONS'].replace('detect_leaks=0', 'detect_leaks=1')})
    endings = collections.Counter()
    for c in cases:
        r_ = recs.get(c.id)
        if r_ is None or not r_.complete or r_.crash or r_.hang:
            if r_ is not None:
                ck.crash_violation(r_, c, 'C18:')
            continue
        if check_mm(ck, c, r_, stats, c.meta['ending']):
            ck.add_distinct(core.h(c.meta['doc'], c.opt['api'], c.meta['ending'], c.meta['k'], c.opt.get('abandon_reset')))
            endings[(c.opt['api'], c.meta['ending'])] += 1
    # global ledgers and exit-time leak reports
    for k, r_ in recs.items():
        if k.startswith('__global__'):
            g = next((l for l in r_.lines if l.startswith('GLOBAL-LEDGER')), None)
            if g:
                kv = dict(x.split('=') for x in g.split('\t')[1:])
                stats['global_ledger_processes'] += 1
                stats['global_ledger_allocs'] += int(kv['allocs'])
                if int(kv['outstanding']) or int(kv['foreign']):
                    ck.violation('C18:global-manager:outstanding-after-terminate', 'global manager ledger after the last Terminate: %s' % g, {'ledger': g})
        if k.startswith('__exit__'):
            ck.violation('C18:' + (r_.crash.key() if r_.crash else 'exit'), 'driver process failed at exit (leak report?)', {'report': r_.crash.text[:4000] if r_.crash else ''})
    # ---------------------------------------------------------------- Initialize/Terminate cycles
    it = []
    for name, data, dopt in docs[:8]:
        for api in ('sax2', 'dom'):
            for nest in (0, 1, 3):
                it.append(core.Case('it.%s.%s.%d' % (name, api, nest), 'initterm', dict(dopt, api=api, cycles=2, nest=nest, dump=0), ents=c15.ENTS + gen_ents).doc(data))
    recs = core.run_cases(binary, it, tag='c18i')
    for c in it:
        r_ = recs.get(c.id)
        if r_ is None or not r_.complete or r_.crash or r_.hang:
            if r_ is not None:
                ck.crash_violation(r_, c, 'C18:')
            continue
        cyc = [l for l in r_.lines if l.startswith('CYCLE\t')]
        if len(cyc) != 2:
            ck.inconclusive.append('initterm case %s produced %d cycle lines' % (c.id, len(cyc)))
            continue
        ck.evaluations += 1
        for l in cyc:
            kv = dict(x.split('=') for x in l.split('\t')[3:])
            stats['initterm_cycles'] += 1
            if int(kv['outstanding']) or int(kv['foreign']):
                ck.violation('C18:initterm:outstanding', 'after a balanced Initialize/Terminate cycle the global manager has outstanding or foreign blocks: %s' % l, {'case': c.to_json()})
        a = [l for l in r_.lines if l.startswith('R\t')]
        if len(set(a)) > 1:
            ck.violation('C18:initterm:result-differs', 'parse result differs between two Initialize/Terminate cycles', {'case': c.to_json(), 'results': a})
        ck.add_distinct(c.id)
    ck.cov['endings_by_api'] = {'%s/%s' % k: v for k, v in sorted(endings.items())}
    ck.cov['stats'] = dict(stats)
    ck.rule = ('fault enumeration: (document, API, validation) x every ending (exception from the k-th callback for every k up to %d, sampled beyond; progressive parse abandoned after every step, '
               'with/without parseReset; parser re-used after the failure; adopted documents outliving the parser); non-trivial = any ending other than normal completion; '
               'distinct by (document, API, ending kind, k)' % cap)
    ck.sample({'document': docs[0][0], 'api': 'sax2', 'ending': 'SAXException thrown from callback 3', 'expected_ledger': 'outstanding=0 foreign=0 crossed=0'})
    ck.assumptions = ['the ledger manager is the oracle for allocations routed through MemoryManager; LeakSanitizer covers what bypasses it (checked at process exit)',
                      'exception kinds thrown from handlers: SAXException, std::runtime_error, int']
    if stats['global_ledger_processes'] == 0:
        ck.inconclusive.append('no global ledger report observed')
    return ck.finish()


def check_mm(ck, c, rec, stats, ending):
    mm = mm_line(rec)
    ck.evaluations += 1
    if mm is None:
        ck.inconclusive.append('no ledger line for %s' % c.id)
        return False
    stats['ledger_allocs'] += int(mm['allocs'])
    ok = True
    if int(mm['outstanding']):
        ck.violation('C18:outstanding:%s:%s' % (c.opt['api'], ending), '%s blocks of the parser\'s manager outstanding after the parser was destroyed (%s)' % (mm['outstanding'], ending), {'case': c.to_json(), 'ledger': mm})
        ok = False
    if int(mm['foreign']):
        ck.violation('C18:foreign-free:%s:%s' % (c.opt['api'], ending), 'the parser\'s manager was asked to free %s blocks it does not own (%s of them belong to the global manager)' % (mm['foreign'], mm['crossed']), {'case': c.to_json(), 'ledger': mm})
        ok = False
    return ok


def replay(j):
    w = j['witness']
    if 'case' not in w:
        print(w)
        return 1
    binary = build.ensure('asan', parts=['parse', 'domdump'])
    c = core.Case.from_json(w['case'])
    recs = core.run_cases(binary, [c], shards=1, extra_args=['--global-ledger'])
    r = recs[c.id]
    print('\n'.join(l for l in r.lines if l.startswith(('MM', 'R\t', 'EXC', 'CYCLE'))))
    mm = mm_line(r)
    return 1 if (mm and (int(mm['outstanding']) or int(mm['foreign']))) else 0
