"""C11  Regular expressions match exactly the language their syntax defines.

Oracle: xvlib.gen.reref (derivative DFA / NFA simulation on the generated AST) against xercesc::RegularExpression
executed by drivers/xd_regex.cpp (one expression per case; all its strings; three passes; option variants)."""
import os, sys, json, re as _re
from concurrent.futures import ProcessPoolExecutor
from .. import core, build
from ..gen import reref as R

PID = 'C11'
SIZES = {
    # tier: (xsd expressions, xpath expressions, mutants per dialect, chunk)
    'quick': (2300, 700, 330, 60),
    'thorough': (16000, 5500, 1500, 60),
    'tiny': (300, 120, 66, 60),       # development only
}
XPATH_FLAGS = ['', '', '', 'i', 's', 'm', 'x', 'im', 'sm', 'is', 'ix', 'ims']


def run_cases(binary, cases, **kw):
    """core.run_cases, retried when the shared library is being relinked by a concurrent build of the shared
    cache (the loader then fails with 'file too short' / 'invalid ELF header' and the driver makes no progress)"""
    import time
    # ASan's external symboliser is not used: on a loaded machine it times out or cannot be started and the report then
    # has no frames at all; frames are printed as (module+offset) and symbolised offline for crashed cases only
    kw.setdefault('env', {'ASAN_OPTIONS': core.SAN_ENV['ASAN_OPTIONS'].replace('symbolize=1', 'symbolize=0'),
                          'UBSAN_OPTIONS': core.SAN_ENV['UBSAN_OPTIONS'] + ':symbolize=0'})
    for attempt in range(6):
        try:
            return core.run_cases(binary, cases, **kw)
        except RuntimeError as e:
            if 'no progress' not in str(e) or attempt == 5:
                raise
            time.sleep(5 + 5 * attempt)
            build.ensure('asan', parts=['regex'], sync=False)


# ---------------------------------------------------------------------------------------------------
#  case construction (runs in worker processes)
# ---------------------------------------------------------------------------------------------------
def u16off(cps):
    """offsets[i] = UTF-16 offset of code point i (len+1 entries)"""
    o = [0]
    for c in cps:
        o.append(o[-1] + (2 if c >= 0x10000 else 1))
    return o


def variants_for(dialect, flags):
    if dialect == 'xsd':
        return ['X', 'XFH']
    return [flags, flags + 'F', flags + 'H', flags + 'FH']


def build_case(cid, ast, dialect, flags, rnd, big=False, nlong=24, strings=None, text=None, extras=True):
    ref = R.Ref(ast, dialect, flags)
    xsd = dialect == 'xsd'
    if text is None:
        text = R.render(ast, xsd, rnd, xmode='x' in flags)
    if strings is None:
        alpha, strings = R.strings_for(ast, ref.env, rnd, big=big, nlong=nlong)
        strings = list(strings)
        rnd.shuffle(strings)           # random order: history independence of the compiled expression
    c = core.Case(cid, 'regex', {'v': ','.join(variants_for(dialect, flags))})
    c.txt(text)
    steps = []          # [cps, lo, hi] (code point window or None)
    nullable = R.nullable_ast(ast)
    ntok = 0
    for s in strings:
        s = list(s)
        opts = {}
        if extras and not nullable and ntok < 5 and len(s) >= 2 and rnd.random() < 0.2:
            opts['t'] = 1
            ntok += 1
        c.txt(R.to_str(s), **opts)
        steps.append([s, None, None])
    # windows on a few strings
    cand = [s for s in strings if len(s) >= 2] if extras else []
    for s in (rnd.sample(cand, min(6, len(cand))) if cand else []):
        s = list(s)
        lo = rnd.randint(0, len(s) - 1)
        hi = rnd.randint(lo, len(s))
        off = u16off(s)
        c.txt(R.to_str(s), w='%d:%d' % (off[lo], off[hi]))
        steps.append([s, lo, hi])
    c.meta = {'class': 'regex-' + dialect, 'kind': 'valid', 'dialect': dialect, 'flags': flags, 'ast': ast, 'steps': steps,
              'feat': sorted(R.features(ast))}
    return c


def expectations(c):
    """[(verdict, start)] per string step, from the AST in the case's meta"""
    m = c.meta
    ref = R.Ref(m['ast'], m['dialect'], m['flags'])
    out = []
    for s, lo, hi in m['steps']:
        lo2 = 0 if lo is None else lo
        hi2 = len(s) if hi is None else hi
        st = ref.start(s, lo2, hi2)
        out.append((st is not None, st))
    return out, ref


def make_chunk(args):
    seed, tier, dialect, idx, n, first = args
    out = []
    for k in range(n):
        i = first + k
        rnd = core.rng(seed, PID, tier, dialect, i)
        flags = '' if dialect == 'xsd' else rnd.choice(XPATH_FLAGS)
        ast = R.generate(rnd, dialect, flags)
        try:
            c = build_case('%s%06d' % (dialect[:2], i), ast, dialect, flags, rnd, big=(i % 6 == 0), nlong=21 if tier == 'quick' else 27)
            exp, ref = expectations(c)
            # the two reference matchers must agree with each other (sample)
            self_bad = 0
            if not ref.anch:
                d, nf = (ref.deriv, ref.nfa) if dialect == 'xsd' else (None, None)
                if d is not None:
                    for (s, lo, hi), (v, st) in list(zip(c.meta['steps'], exp))[:40]:
                        sub = s[(lo or 0):(len(s) if hi is None else hi)]
                        if nf.full(sub) != v:
                            self_bad += 1
            c.meta['exp'] = [[1 if v else 0, st] for v, st in exp]
            c.meta['self_bad'] = self_bad
            out.append(c)
        except OverflowError:
            continue
    return out


def make_mutants(args):
    seed, tier, dialect, n = args
    rnd = core.rng(seed, PID, tier, 'mut', dialect)
    out = []
    for i, (p, op) in enumerate(R.mutants(rnd, dialect, n)):
        c = core.Case('%smut%05d' % (dialect[:2], i), 'regex', {'v': ','.join(variants_for(dialect, ''))})
        c.txt(p)
        for s in ('', 'a', 'ab'):
            c.txt(s)
        c.meta = {'class': 'regex-' + dialect, 'kind': 'mutant', 'dialect': dialect, 'flags': '', 'op': op}
        out.append(c)
    return out


# ---------------------------------------------------------------------------------------------------
#  pinned witnesses: one small expression per defect class seen on the unchanged tree, so that every class is
#  exercised (and reported under its key) in every run, whatever the seed
# ---------------------------------------------------------------------------------------------------
def _l(ch): return ('lit', ord(ch))
def _s(*xs): return ('seq', list(xs))
def _a(*xs): return ('alt', list(xs))
def _g(x): return ('grp', x)
def _q(x, mn, mx, form, lazy=False): return ('rep', x, mn, mx, form, lazy)
def _c(items, neg=False, sub=None): return ('cls', neg, list(items), sub)


PINNED = [
    # (name, dialect, flags, ast, extra strings)
    ('nullable-continuation', 'xsd', '', _s(_g(_q(_l('a'), 0, None, '*')), _q(_g(_s(_l('a'), _l('b'))), 0, 1, '?')), ['ab', 'aab']),
    ('variable-continuation', 'xsd', '', _s(_q(_l('a'), 0, 2, '{n,m}'), ('dot',), _g(_a(_s(_l('a'), ('dot',)), ('eps',)))), ['aaaa', 'aaa']),
    ('final-closure-alternatives', 'xsd', '', _q(_g(_a(_s(_l('a'), _l('b')), _l('a'), _s(_l('b'), _l('c')))), 0, None, '*'), ['abc', 'aabc']),
    ('overlapping-ranges', 'xsd', '', _c([('rng', 97, 99), ('rng', 98, 101)]), ['d', 'e', 'b']),
    ('closure-before-negated-class', 'xsd', '', _s(_q(_c([('rng', 0x21, 0x2F), _l('[')]), 0, None, '*'), _c([_l('E')], neg=True), _l(':')), ['[:', '[[:']),
    ('unbounded-over-nullable', 'xsd', '', _s(_q(_g(_q(_g(('esc', 's')), 0, None, '*')), 0, None, '*'), ('esc', 's')), [' ', '  ']),
    ('dot-line-separator', 'xsd', '', _s(_l('a'), ('dot',)), ['a\u2028', 'a\u2029', 'ab']),
    ('supplementary-category', 'xsd', '', _s(('cat', 'L', False), ('esc', 'd')), ['\U00020000\U0001D7CE', 'a1']),
    ('dollar-final-newline', 'xpath', '', _s(_l('a'), ('eol',)), ['a\n', 'ba\n', 'a']),
    ('multiline-separators', 'xpath', 'm', _s(('bol',), _l('a'), ('eol',)), ['b\u2028a', 'a\u2028b', 'b\na']),
    ('head-char-supplementary', 'xpath', '', _q(('blk', 'PrivateUse', False), 1, None, '+'), ['\U000F0000', 'x\U000F0000']),
    ('head-char-dot-closure', 'xpath', '', _s(_q(('dot',), 1, 2, '{n,m}'), _l('B')), ['aB', 'aaB', 'B']),
    ('fixed-string-length', 'xpath', 'x', _s(_l('c'), _l('d')), ['cd', 'xcdx']),
    ('empty-class-icase', 'xpath', 'i', _c([_l('a')], sub=_c([_l('a')])), ['a']),
    ('empty-class-first-char', 'xpath', '', _s(_q(_c([_l('a')], sub=_c([_l('a')])), 0, None, '*'), _l('b')), ['b', 'ab']),
    ('icase-subtraction', 'xpath', 'i', _c([('rng', 66, 98)], sub=_c([_l('b')])), ['b', 'B', 'C']),
    ('leading-dot-star-window', 'xpath', '', _q(('dot',), 0, None, '*'), ['\n', 'a\nb']),
    ('supplementary-literal-closure', 'xsd', '', _s(_q(_l('\U00020000'), 0, None, '*'), _l('\U00020000'), _l('\U00020000')), ['\U00020000\U00020000', '\U00020000\U00020000\U00020000']),
    ('icase-closure-case-variant', 'xpath', 'i', _s(_q(_l('d'), 0, None, '*'), _l('D')), ['D', 'dD', 'dd']),
]
PINNED_HANG = ('lazy-unbounded-over-nullable', 'xpath', '', _s(_q(_g(_q(_l('a'), 0, None, '*')), 0, None, '*', True), _l('b')), ['aab', 'b'])


# ---------------------------------------------------------------------------------------------------
#  systematic family: a closure over a character class followed by a second class, for every way the two classes can
#  lie to each other (the engine decides from the overlap of the two whether the closure may run without backtracking;
#  random expressions almost never produce two classes that touch in exactly one character)
# ---------------------------------------------------------------------------------------------------
CLASS_RELATIONS = ('gap-below', 'adjacent-below', 'touch-below', 'overlap2-below', 'inside', 'equal', 'around', 'overlap2-above',
                   'touch-above', 'adjacent-above', 'gap-above', 'second-range-touch-below', 'second-range-touch-above')
CLOSURE_FORMS = ((0, None, '*'), (1, None, '+'), (2, None, '{n,}'), (0, 3, '{n,m}'))


def class_pair(rel, p):
    """(items of A, items of B): A is the class under the closure; p = code point of A's lowest character"""
    A = [('rng', p, p + 5)]
    B = {
        'gap-below': [('rng', p - 6, p - 2)], 'adjacent-below': [('rng', p - 5, p - 1)], 'touch-below': [('rng', p - 5, p)],
        'overlap2-below': [('rng', p - 4, p + 1)], 'inside': [('rng', p + 1, p + 3)], 'equal': [('rng', p, p + 5)],
        'around': [('rng', p - 2, p + 7)], 'overlap2-above': [('rng', p + 4, p + 9)], 'touch-above': [('rng', p + 5, p + 10)],
        'adjacent-above': [('rng', p + 6, p + 10)], 'gap-above': [('rng', p + 7, p + 11)],
    }.get(rel)
    if rel == 'second-range-touch-below':
        A = [('rng', p, p + 1), ('rng', p + 6, p + 8)]
        B = [('rng', p + 3, p + 6)]
    elif rel == 'second-range-touch-above':
        A = [('rng', p, p + 1), ('rng', p + 6, p + 8)]
        B = [('rng', p + 8, p + 10), ('lit', p - 3)]
    return A, B


def family_cases(seed, tier):
    out = []
    n = 0
    for dialect in ('xsd', 'xpath'):
        for rel in CLASS_RELATIONS:
            for (mn, mx, form) in CLOSURE_FORMS:
                for tail in ((), (_l('Z'),)):
                    if tier == 'quick' and tail and form in ('{n,}', '{n,m}'):
                        continue
                    rnd = core.rng(seed, PID, 'family', dialect, rel, form, len(tail))
                    p = rnd.choice([ord('g'), ord('j'), ord('m'), 0x37])     # letters, and digits running into ':' ... 'B'
                    if p == 0x37:
                        p = 0x33
                    A, B = class_pair(rel, p)
                    ast = _s(_q(_c(A), mn, mx, form), _c(B), *tail)
                    ref = R.Ref(ast, dialect, '')
                    alpha, strings = R.strings_for(ast, ref.env, rnd, big=False, nlong=6)
                    strings = [list(t) for t in strings]
                    # the strings that end in each end of B after 0..3 characters of A
                    ends = sorted(set(x for it in B for x in ((it[1], it[2]) if it[0] == 'rng' else (it[1],))))
                    firsts = sorted(set(x for it in A for x in (it[1], it[2])))
                    for e in ends:
                        for k in range(0, 4):
                            for f in firsts:
                                t = [f] * k + [e] + [x[1] for x in tail]
                                if t not in strings:
                                    strings.append(t)
                    c = build_case('fam%03d' % n, ast, dialect, '', rnd, strings=strings)
                    n += 1
                    exp, _ = expectations(c)
                    c.meta['exp'] = [[1 if v else 0, st] for v, st in exp]
                    c.meta['self_bad'] = 0
                    c.meta['family'] = '%s:%s' % (rel, form)
                    out.append(c)
    return out


def pinned_cases(which=None):
    out = []
    for name, dialect, flags, ast, extra in (PINNED if which is None else which):
        rnd = core.rng('pinned', name)
        ref = R.Ref(ast, dialect, flags)
        alpha, strings = R.strings_for(ast, ref.env, rnd, big=False, nlong=6)
        strings = [list(t) for t in strings]
        for e in extra:
            t = [ord(ch) for ch in e]
            if t not in strings:
                strings.append(t)
        text = None
        if name == 'fixed-string-length':
            text = 'c d  '
        c = build_case('pin-' + name, ast, dialect, flags, rnd, strings=strings, text=text)
        exp, _ = expectations(c)
        c.meta['exp'] = [[1 if v else 0, st] for v, st in exp]
        c.meta['self_bad'] = 0
        c.meta['pinned'] = name
        out.append(c)
    return out


# ---------------------------------------------------------------------------------------------------
#  reading a record
# ---------------------------------------------------------------------------------------------------
class Obs:
    def __init__(self, rec, nvar):
        self.compile = {}       # variant -> (status, type, code)
        self.M, self.N, self.Rr = {}, {}, {}
        self.A, self.T, self.P = {}, {}, {}
        self.bad = []
        for l in rec.lines:
            f = l.split('\t')
            t = f[0]
            try:
                if t == 'C':
                    self.compile[int(f[1])] = (f[3], f[4] if len(f) > 4 else '', f[5] if len(f) > 5 else '')
                elif t == 'M':
                    self.M[int(f[1])] = f[2]
                elif t == 'R':
                    self.Rr[int(f[1])] = f[2]
                elif t == 'N':
                    self.N[int(f[1])] = f[2:]
                elif t == 'A':
                    self.A[int(f[1])] = f[2] if len(f) > 2 else ''
                elif t == 'AX':
                    self.A[int(f[1])] = ('X',) + tuple(f[2:])
                elif t == 'T':
                    self.T[int(f[1])] = [core.unesc(x) for x in f[3:]]
                elif t == 'TX':
                    self.T[int(f[1])] = ('X',) + tuple(f[2:])
                elif t == 'P':
                    self.P[int(f[1])] = core.unesc(f[2]) if len(f) > 2 else ''
                elif t == 'PX':
                    self.P[int(f[1])] = ('X',) + tuple(f[2:])
                else:
                    self.bad.append(l)
            except (ValueError, IndexError):
                self.bad.append(l)


_raw_frame = _re.compile(r'#(\d+) 0x[0-9a-f]+\s+\((/[^()]+?)\+0x([0-9a-f]+)\)')


def resymbolize(rec):
    """ASan's external symboliser gives up on a heavily loaded machine and prints '(module+0xoffset)' frames; the
    violation key needs the innermost library function, so symbolise those frames here (llvm-symbolizer, offline)."""
    cr = rec.crash
    if cr is None or not isinstance(cr, core.SanReport):
        return
    if any(inlib and fn and fn != '?' for fn, inlib in cr.frames):
        return
    raw = _raw_frame.findall(cr.text)
    if not raw:
        return
    import subprocess
    raw = raw[:16]
    names = {}
    for mod in {m for _, m, _ in raw if 'libxerces-c' in m}:
        offs = [o for _, m, o in raw if m == mod]
        try:
            # one symboliser process per module (loading the debug info of the library dominates)
            out = subprocess.run([core.SAN_ENV.get('ASAN_SYMBOLIZER_PATH', 'llvm-symbolizer'), '--obj=' + mod, '--no-inlines'] + ['0x' + o for o in offs],
                                 capture_output=True, text=True, timeout=600).stdout
            blocks = [b for b in out.split('\n\n') if b.strip()]
            for o, b in zip(offs, blocks):
                l0 = b.strip().splitlines()[0].strip()
                if l0 and l0 != '??':
                    names[(mod, o)] = core._fn_name(l0)
        except Exception:
            pass
    frames = [(names.get((m, o), '?'), 'libxerces-c' in m) for _, m, o in raw]
    if any(inlib and fn != '?' for fn, inlib in frames):
        cr.frames = frames


def is_match_overflow(rec):
    cr = rec.crash
    if cr is None or not isinstance(cr, core.SanReport):
        return False
    if cr.tool != 'asan' or cr.kind != 'stack-overflow':
        return False
    n = sum(1 for fn, inlib in cr.frames if fn.startswith('RegularExpression::match'))
    known_frames = [fn for fn, inlib in cr.frames if fn and fn != '?']
    return n >= 3 or not known_frames       # (the symboliser sometimes gives up on a 8 MB stack)


# ---------------------------------------------------------------------------------------------------
#  judging one executed case
# ---------------------------------------------------------------------------------------------------
def judge(c, rec, exp=None, ref=None):
    """-> (findings, ncompared).  finding = dict(kind, step, ...).  Disagreements with the reference carry
    kind 'false-reject' / 'false-accept' and are classified later."""
    m = c.meta
    obs = Obs(rec, 0)
    F = []
    var = c.opt['v'].split(',')
    if obs.bad:
        F.append(dict(kind='driver-line', step=0, line=obs.bad[0]))
    if m['kind'] == 'mutant':
        for j, o in enumerate(var):
            st = obs.compile.get(j)
            if st is None:
                F.append(dict(kind='no-compile-line', step=0, variant=o))
            elif st[0] == 'ok':
                F.append(dict(kind='malformed-accepted', step=0, op=m['op'], variant=o))
            elif st[0] == 'xml':
                F.append(dict(kind='rejected-not-ParseException', step=0, op=m['op'], type=st[1], variant=o))
            elif st[0] == 'foreign':
                F.append(dict(kind='foreign-exception', step=0, op=m['op'], type=st[1].split(':')[0], variant=o))
        return F, len(var)
    for j, o in enumerate(var):
        st = obs.compile.get(j)
        if st is None or st[0] != 'ok':
            F.append(dict(kind='wellformed-rejected', step=0, variant=o, status=st))
    if obs.compile.get(0, ('',))[0] != 'ok':
        return F, len(var)
    if exp is None:
        exp, ref = expectations(c)
    xsd = m['dialect'] == 'xsd'
    n = 0
    for k, ((s, lo, hi), (v, st)) in enumerate(zip(m['steps'], exp)):
        i = k + 1
        M = obs.M.get(i)
        Rr = obs.Rr.get(i)
        N = obs.N.get(i)
        if M is None or Rr is None or N is None or len(M) != len(var):
            F.append(dict(kind='missing-line', step=i))
            continue
        n += 1
        if M[0] not in '01':
            F.append(dict(kind='match-exception', step=i, what=M[0]))
            continue
        got = M[0] == '1'
        if got != v:
            F.append(dict(kind='false-accept' if got else 'false-reject', step=i))
        for j in range(1, len(var)):
            if M[j] != M[0]:
                F.append(dict(kind='options-differ', step=i, variant=var[j] or '~', main=M[0], other=M[j]))
        if Rr != M:
            F.append(dict(kind='history', step=i, first=M, again=Rr))
        lo2 = 0 if lo is None else lo
        hi2 = len(s) if hi is None else hi
        off = None
        posdiff = False
        if len(set(N)) > 1 and len(set(M)) == 1:
            posdiff = True
            F.append(dict(kind='options-differ', step=i, variant='positions', main=N[0], other=sorted(set(N))))
        for j in range(len(var)):
            if j >= len(N):
                break
            f = N[j].split(',')
            if f[0] != M[j]:
                F.append(dict(kind='match-object-differs', step=i, variant=var[j] or '~', plain=M[j], withmatch=f[0]))
                continue
            if f[0] == '1' and v and len(f) == 3:
                if off is None:
                    off = u16off(s)
                try:
                    a, b = int(f[1]), int(f[2])
                except ValueError:
                    F.append(dict(kind='match-pos', step=i, what='unset', variant=var[j] or '~'))
                    continue
                if xsd:
                    if a != off[lo2] or b != off[hi2]:
                        F.append(dict(kind='match-pos', step=i, what='bounds', got=[a, b], variant=var[j] or '~'))
                elif not posdiff and (j == 0 or f != N[0].split(',')):
                    what = pos_check(ref, s, lo2, hi2, a, b, off)
                    if what:
                        qs = None
                        for qref in quirk_refs(m):
                            if pos_check(qref, s, lo2, hi2, a, b, off) is None:
                                qs = sorted(qref.env.quirks)
                                break
                        if qs:
                            F.append(dict(kind='quirk-pos', step=i, quirks=qs, got=[a, b]))
                        else:
                            F.append(dict(kind='match-pos', step=i, what=what, got=[a, b], variant=var[j] or '~'))
        # allMatches / tokenize / replace
        if i in obs.A:
            n += 1
            F.extend(judge_tok(i, s, obs, ref))
    return F, n


def pos_check(ref, s, lo, hi, a, b, off):
    """None when [a,b) (UTF-16 units) is a leftmost match of ref in s[lo:hi], else 'start' / 'end'"""
    st = ref.nfa.search(s, lo, hi)
    if st is None or a != off[st]:
        return 'start'
    if b not in [off[e] for e in ref.nfa.ends_from(s, st, lo, hi)]:
        return 'end'
    return None


def quirk_refs(m):
    import itertools
    qs = applicable_quirks(m)
    for r in range(1, len(qs) + 1):
        for sub in itertools.combinations(qs, r):
            yield R.Ref(m['ast'], m['dialect'], m['flags'], quirks=frozenset(sub))


def judge_tok(i, s, obs, ref):
    F = []
    A = obs.A[i]
    T = obs.T.get(i)
    P = obs.P.get(i)
    if A == 'nullable':
        return F            # the monitor did not call allMatches (it would not terminate); nothing to compare
    if isinstance(A, tuple) or isinstance(T, tuple) or isinstance(P, tuple) or T is None or P is None:
        if not R.nullable_ast(ref.ast):
            F.append(dict(kind='tokenize-exception', step=i, A=A, T=T if isinstance(T, tuple) else None))
        return F
    off = u16off(s)
    back = {o: k for k, o in enumerate(off)}
    pos = []
    try:
        for p in A.split():
            a, b = p.split(':')
            pos.append((int(a), int(b)))
    except ValueError:
        return [dict(kind='allmatches', step=i, what='unparsable', A=A)]
    text = R.to_str(s)
    u = text.encode('utf-16-le')

    def sub(a, b):
        return u[2 * a:2 * b].decode('utf-16-le', 'surrogatepass')
    # tokenize / replace consistent with the reported positions
    toks, rep, prev = [], [], 0
    okpos = True
    for a, b in pos:
        if a < prev or b < a or b > off[-1]:
            okpos = False
            break
        toks.append(sub(prev, a))
        rep.append(sub(prev, a) + '<' + sub(a, b) + '>')
        prev = b
    if not okpos:
        return [dict(kind='allmatches', step=i, what='disordered', A=A)]
    toks.append(sub(prev, off[-1]))
    rep.append(sub(prev, off[-1]))
    if toks != T:
        F.append(dict(kind='tokenize-inconsistent', step=i, A=A, tokens=T))
    if ''.join(rep) != P:
        F.append(dict(kind='replace-inconsistent', step=i, A=A, replaced=P))
    # positions against the reference: every reported match is a match, no position in between has one
    bad = allmatch_check(ref, s, pos, off, back)
    if bad:
        for qref in quirk_refs({'ast': ref.ast, 'dialect': 'xsd' if ref.xsd else 'xpath', 'flags': ref.flags}):
            if allmatch_check(qref, s, pos, off, back) is None:
                F.append(dict(kind='quirk-pos', step=i, quirks=sorted(qref.env.quirks), A=A))
                return F
        F.append(dict(kind='allmatches', step=i, what=bad[0], at=bad[1], A=A))
    return F


def allmatch_check(ref, s, pos, off, back):
    nf = ref.nfa
    prev = 0
    n = len(s)
    for a, b in pos + [(None, None)]:
        stop = off[-1] + 1 if a is None else a
        for q in range(prev, stop):
            if q in back:
                e = nf.ends_from(s, back[q], 0, n)
                if e and e != {back[q]}:
                    return ('missed', q)
        if a is None:
            break
        if a not in back or b not in back or back[b] not in nf.ends_from(s, back[a], 0, n):
            return ('not-a-match', [a, b])
        prev = b
    return None


# ---------------------------------------------------------------------------------------------------
#  classification of disagreements (keys)
# ---------------------------------------------------------------------------------------------------
def applicable_quirks(m):
    ast = m['ast']
    ls = R.leaves(ast)
    qs = []

    def catdep(l):
        if l[0] in ('cat',) or (l[0] == 'esc' and l[1] in 'dDwW'):
            return True
        if l[0] == 'cls':
            return any(catdep(i) for i in l[2]) or (l[3] is not None and catdep(l[3]))
        return False
    if any(catdep(l) for l in ls):
        qs.append('supp-cn')
    if any(l[0] == 'dot' for l in ls) and 's' not in m['flags']:
        qs.append('dot-lsps')
    if 'i' in m['flags'] and any(l[0] == 'cls' and l[3] is not None for l in ls):
        qs.append('icase-subtraction-closure')
    if m['dialect'] == 'xpath':
        kinds = {x[0] for x in R.walk(ast)}
        if 'eol' in kinds and 'm' not in m['flags']:
            qs.append('dollar-final-eol')
        if ('eol' in kinds or 'bol' in kinds) and 'm' in m['flags']:
            qs.append('ml-eol-chars')
    return qs


def observed_verdicts(c, rec):
    obs = Obs(rec, 0)
    out = []
    for k in range(len(c.meta['steps'])):
        M = obs.M.get(k + 1)
        out.append(None if (M is None or M[0] not in '01') else M[0] == '1')
    return out


def quirk_explanation(c, observed, steps_bad, skip=()):
    """per disagreeing step the smallest set of named engine quirks under which the reference reproduces the
    observation, provided the same set leaves every agreeing step of the case in agreement.
    -> {step: (quirk names)}"""
    import itertools
    m = c.meta
    qs_all = applicable_quirks(m)
    if not qs_all:
        return {}
    out = {}
    todo = set(steps_bad)
    for r in range(1, len(qs_all) + 1):
        for qs in itertools.combinations(qs_all, r):
            if not todo:
                return out
            ref = R.Ref(m['ast'], m['dialect'], m['flags'], quirks=frozenset(qs))
            ok = set()
            consistent = True
            for k, (s, lo, hi) in enumerate(m['steps']):
                if observed[k] is None or (k + 1) in skip:
                    continue
                v = ref.verdict(s, 0 if lo is None else lo, len(s) if hi is None else hi)
                if (k + 1) in steps_bad:
                    if v == observed[k] and (k + 1) in todo:
                        ok.add(k + 1)
                elif v != observed[k]:
                    consistent = False
                    break
            if consistent:
                for st in ok:
                    out[st] = qs
                todo -= ok
    return out


def single_case(c, ast, strings, cid, tok=False, win=None):
    """win = (full string, lo, hi): run the single string as that window of the full string (a finding seen on a window
    may depend on what surrounds the window, so the rewrite trials must keep it)"""
    m = c.meta
    if win is not None:
        strings = [list(win[0])]
    cc = build_case(cid, ast, m['dialect'], m['flags'], core.rng('single', cid), strings=strings, extras=False)
    if win is not None:
        full, lo, hi = win
        off = u16off(list(full))
        cc.steps[1] = (cc.steps[1][0], cc.steps[1][1], {'w': '%d:%d' % (off[lo], off[hi])})
        cc.meta['steps'][0] = [list(full), lo, hi]
    if tok:
        for k in range(1, len(cc.steps)):
            cc.steps[k] = (cc.steps[k][0], cc.steps[k][1], dict(cc.steps[k][2] or {}, t=1))
    return cc


def _both(p, q):
    return lambda i: p(i) or q(i)


# label, class name, rewrite (ast, L) -> ast.  Every rewrite keeps the language (on strings up to L characters) and
# moves the expression out of the named structural class; the first rewrite that removes the disagreement names it.
TRIALS = [
    ('r', 'class-with-overlapping-ranges', lambda a, L: R.norm_classes(a)),
    ('n', 'class-closure-before-negated-class', lambda a, L: R.unnegate_classes(a)),
    ('d', 'leading-dot-closure', lambda a, L: R.rewrite_closures(a, R.P_leading_dot, L)),
    ('a', 'closure-with-nullable-continuation', lambda a, L: R.rewrite_closures(a, R.P_nullable_cont, L)),
    ('c', 'final-closure-over-alternatives', lambda a, L: R.rewrite_closures(a, R.P_end_choice, L)),
    ('ac', 'closure-with-nullable-continuation+final-closure-over-alternatives',
     lambda a, L: R.rewrite_closures(a, _both(R.P_nullable_cont, R.P_end_choice), L)),
    ('v', 'closure-with-variable-length-continuation', lambda a, L: R.rewrite_closures(a, R.P_varlen_cont, L)),
    ('vc', 'closure-with-variable-length-continuation+final-closure-over-alternatives',
     lambda a, L: R.rewrite_closures(a, _both(R.P_varlen_cont, R.P_end_choice), L)),
    ('all', 'closure-other', lambda a, L: R.rewrite_closures(a, lambda i: True, L)),
    ('rn+all', 'classes+closures-other', lambda a, L: R.rewrite_closures(R.unnegate_classes(R.norm_classes(a)), lambda i: True, L)),
]
CLASS_OF = {l: n for l, n, _ in TRIALS}
OPEN_CLASSES = ('closure-other', 'classes+closures-other')


def trial_cases(c, ast, s, tag, tok=False, win=None):
    """[(label, Case)]: the rewritten forms of `ast`, each with the single string s (as window `win` of its full string)"""
    L = max(1, len(s))
    out = []
    seen = {repr(R.flatten(ast))}
    for label, _, fn in TRIALS:
        if L > 14 and label not in ('r', 'n'):
            continue
        if label == 'd' and c.meta['dialect'] == 'xsd':
            continue      # the scan over start positions exists only in the XPath dialect
        try:
            rw = R.flatten(fn(ast, L))
        except Exception:
            continue
        if repr(rw) in seen:
            continue
        seen.add(repr(rw))
        try:
            cc = single_case(c, rw, [list(s)], '%s~%s~%s' % (c.id, tag, label), tok=tok, win=win)
        except (OverflowError, ValueError, KeyError):
            continue
        if len(cc.steps[0][1]) > (4000 if L <= 8 else 1500):
            continue
        out.append((label, cc))
    return out


def first_fixed(trials, recs, kinds, item=None):
    """(label, quirks, table): the first rewrite on which no finding of `kinds` remains -- against the plain reference,
    or (verdict disagreements only) against the reference with the smallest set of named engine quirks.
    label 'id' = no rewrite needed once the quirks are taken into account."""
    fixed = {}
    verdict_kind = 'false-reject' in kinds
    order = [l for l, _, _ in TRIALS]
    byl = dict(trials)
    # plain reference first
    obs1 = {}
    for label, x in trials:
        rr = recs.get(x.id)
        if rr is None or rr.crash or rr.hang or not rr.complete:
            fixed[label] = False
            continue
        F2, _ = judge(x, rr)
        fixed[label] = not [f for f in F2 if f['kind'] in kinds]
        if verdict_kind:
            obs1[label] = observed_verdicts(x, rr)[0]
    for label in order:
        if fixed.get(label):
            return label, (), fixed
    if verdict_kind and item is not None:
        import itertools
        m = item['c'].meta
        qs_all = applicable_quirks(m)
        cands = [('id', m['ast'], item['observed'])] + [(l, byl[l].meta['ast'], obs1.get(l)) for l in order if l in byl]
        for r in range(1, len(qs_all) + 1):
            for qs in itertools.combinations(qs_all, r):
                for label, ast, ob in cands:
                    if ob is None:
                        continue
                    v = R.Ref(ast, m['dialect'], m['flags'], quirks=frozenset(qs)).verdict(list(item['s']))
                    if v == ob:
                        fixed[label + '+' + '+'.join(qs)] = True
                        return label, qs, fixed
    return None, (), fixed


def sig(ast):
    f = R.features(ast)
    keep = sorted(x for x in f if x.startswith('q') or x.startswith('\\') or x in ('alt', 'cls', 'cls-sub', 'cls-neg', 'dot', 'bol', 'eol', 'lit-supp'))
    return ','.join(keep) or 'plain'


def _first_lit(n):
    """code point of the literal an AST node necessarily starts with, else None"""
    k = n[0]
    if k == 'lit':
        return n[1]
    if k == 'grp':
        return _first_lit(n[1])
    if k == 'seq':
        return _first_lit(n[1][0]) if n[1] else None
    if k == 'rep' and n[2] >= 1:
        return _first_lit(n[1])
    return None


def open_subclass(ast, flags):
    """named sub-classes of the open closure classes: a closure over a literal x whose continuation starts with a literal y that the
    engine's overlap test (which decides whether the closure may run without backtracking) wrongly takes for different from x"""
    found = []

    def walk(n):
        k = n[0]
        if k == 'seq':
            kids = n[1]
            for i, x in enumerate(kids[:-1]):
                if x[0] == 'rep' and (x[3] is None or x[3] > x[2]):
                    a, b = _first_lit(x[1]), _first_lit(kids[i + 1])
                    if a is not None and b is not None:
                        if a == b and a >= 0x10000:
                            found.append('closure-over-supplementary-literal-before-same-literal')
                        elif a != b and 'i' in flags and chr(a).lower() == chr(b).lower():
                            found.append('icase-closure-over-literal-before-its-case-variant')
            for x in kids:
                walk(x)
        elif k in ('grp',):
            walk(n[1])
        elif k == 'alt':
            for x in n[1]:
                walk(x)
        elif k == 'rep':
            walk(n[1])
    walk(ast)
    return found[0] if found else None


def shrink_many(binary, items, J, rounds=24):
    """delta-debug several (expression, string) pairs at once, one driver batch per round.
    items: dicts with c, ast, s, direction.  Adds 'ast2', 's2' (local minimum that still disagrees the same way)."""
    for it in items:
        it['ast2'], it['s2'], it['live'] = it['ast'], list(it['s']), True
    for rd in range(rounds):
        cases = []
        for n, it in enumerate(items):
            if not it['live']:
                continue
            m = it['c'].meta
            cands = [(a2, it['s2']) for a2 in R.reductions(it['ast2'])[:60]]
            cands += [(it['ast2'], it['s2'][:i] + it['s2'][i + 1:]) for i in range(len(it['s2']))]
            it['cands'] = cands
            k = 0
            for j, (a2, s2) in enumerate(cands):
                if 'i' in m['flags'] and not R.icase_safe(a2):
                    continue
                if 'x' in m['flags'] and not R.xmode_safe(a2):
                    continue
                try:
                    cc = single_case(it['c'], a2, [s2], '%s~sh%d~%d~%d' % (it['c'].id, rd, n, j))
                except (OverflowError, ValueError, KeyError):
                    continue
                cc.meta['item'] = n
                cc.meta['cand'] = j
                cases.append(cc)
                k += 1
            if k == 0:
                it['live'] = False
        if not cases:
            break
        recs = run_cases(binary, cases, shards=max(1, min(J, len(cases) // 150)), tag='c11s', per_case_timeout=10.0)
        progressed = set()
        for cc in cases:
            n = cc.meta['item']
            if n in progressed:
                continue
            it = items[n]
            rr = recs.get(cc.id)
            if rr is None or rr.crash or rr.hang or not rr.complete:
                continue
            exp, _ = expectations(cc)
            ob = observed_verdicts(cc, rr)
            if ob[0] is None or exp[0][0] == ob[0] or ob[0] != (it['direction'] == 'false-accept'):
                continue
            if quirk_explanation(cc, ob, {1}):
                continue            # do not slide into a different, already named deviation
            it['ast2'], it['s2'] = it['cands'][cc.meta['cand']]
            progressed.add(n)
        for n, it in enumerate(items):
            if it['live'] and n not in progressed:
                it['live'] = False
    return items


# ---------------------------------------------------------------------------------------------------
#  the check
# ---------------------------------------------------------------------------------------------------
def jobs():
    try:
        return max(1, int(os.environ.get('XV_JOBS', '0'))) if os.environ.get('XV_JOBS') else core.NCPU
    except ValueError:
        return core.NCPU


def dtag(m):
    return m['dialect']


def pattern_of(c):
    return c.steps[0][1]


def witness(c, rec, F, extra=None):
    m = c.meta
    w = {'case': c.to_json(), 'pattern': pattern_of(c), 'dialect': m['dialect'], 'flags': m.get('flags', ''), 'findings': F[:6]}
    if F and F[0].get('step'):
        st = F[0]['step']
        s, lo, hi = m['steps'][st - 1]
        w['string'] = R.to_str(s)
        w['window'] = None if lo is None else [lo, hi]
        if 'exp' in m:
            w['expected'] = 'match' if m['exp'][st - 1][0] else 'no match'
        w['observed'] = [l for l in (rec.lines if rec else []) if l.split('\t')[1:2] == [str(st)]][:6]
    if extra:
        w.update(extra)
    return w


REQUIRED_FEATURES = ['q*', 'q+', 'q?', 'q{n}', 'q{n,}', 'q{n,m}', 'cls', 'cls-neg', 'cls-sub', 'cls-rng', '\\p', '\\P', '\\pIs',
                     '\\s', '\\S', '\\i', '\\I', '\\c', '\\C', '\\d', '\\D', '\\w', '\\W', 'alt', 'grp', 'dot', 'lit-supp', 'eps']


def run(tier):
    ck = core.Check(PID, tier)
    binary = build.ensure('asan', parts=['regex'])
    nx, np_, nm, chunk = SIZES.get(tier, SIZES['quick'])
    J = jobs()
    seed = ck.seed
    work = []
    for dialect, n in (('xsd', nx), ('xpath', np_)):
        for idx, first in enumerate(range(0, n, chunk)):
            work.append((seed, tier, dialect, idx, min(chunk, n - first), first))
    feat = {}
    flagcount = {}
    nexpr = {'xsd': 0, 'xpath': 0}
    verdicts = [0, 0]
    self_bad = 0
    tri = Triage(ck)
    overflow = []        # (case, rec)
    crashes = 0
    mutops = {}
    allwork = [('mut', (seed, tier, 'xsd', nm)), ('mut', (seed, tier, 'xpath', nm))] + [('gen', w) for w in work]
    per_round = max(2, J)          # one chunk (60 expressions) per driver process and round: a batch stays far below the 60 s batch watchdog

    hung = []

    def handle(cases, recs, again=False):
        nonlocal self_bad, crashes
        for c in cases:
            r = recs.get(c.id)
            m = c.meta
            if again:
                pass
            elif m['kind'] == 'mutant':
                mutops[m['op']] = mutops.get(m['op'], 0) + 1
            else:
                nexpr[m['dialect']] += 1
                for f in m['feat']:
                    feat[f] = feat.get(f, 0) + 1
                flagcount[m['flags'] or '-'] = flagcount.get(m['flags'] or '-', 0) + 1
                self_bad += m.get('self_bad', 0)
            if r is None:
                ck.inconclusive.append('no record for %s' % c.id)
                continue
            if r.hang and not r.crash and not again:
                hung.append(c)          # re-run alone once: the watchdog covers a whole batch
                continue
            if r.crash:
                resymbolize(r)
                unsym = isinstance(r.crash, core.SanReport) and not any(inlib and fn and fn != '?' for fn, inlib in r.crash.frames)
                if unsym and not again:
                    hung.append(c)      # no usable frame at all: re-run alone once
                    continue
                if unsym and not is_match_overflow(r):
                    ck.inconclusive.append('crash report of %s has no symbolised library frame: %s' % (c.id, r.crash.key()))
                    continue
            if r.crash or r.hang or not r.complete:
                crashes += 1
                if m['kind'] == 'valid' and (is_match_overflow(r) or (r.hang and not r.crash)):
                    overflow.append((c, r))
                else:
                    ck.crash_violation(r, c, prefix='C11:')
                continue
            exp = None
            ref = None
            if m['kind'] == 'valid':
                exp = [(bool(v), st) for v, st in m['exp']]
                ref = R.Ref(m['ast'], m['dialect'], m['flags'])
            F, n = judge(c, r, exp, ref)
            ck.evaluations += n
            if m['kind'] == 'valid':
                ny = sum(1 for v, _ in exp if v)
                verdicts[0] += ny
                verdicts[1] += len(exp) - ny
                if 0 < ny < len(exp):
                    ck.add_distinct(core.h(pattern_of(c), m['dialect'], m['flags']))
                if len(ck.samples) < 4 and ny and not F and len(pattern_of(c)) < 40:
                    k = next(i for i, (v, _) in enumerate(exp) if v)
                    k0 = next((i for i, (v, _) in enumerate(exp) if not v), 0)
                    ck.sample({'pattern': pattern_of(c), 'options': c.opt['v'], 'strings': len(exp),
                               'example': [{'string': R.to_str(m['steps'][i][0]), 'expected': bool(exp[i][0]),
                                            'observed': [l for l in r.lines if l.split('\t')[1:2] == [str(i + 1)]][:3]} for i in (k, k0)]})
            else:
                ck.add_distinct(core.h('mut', pattern_of(c), m['dialect']))
            if not F:
                continue
            if m['kind'] == 'valid':
                tri.case(c, r, F)
            for f in F:
                k = f['kind']
                if k in ('false-reject', 'false-accept', 'options-differ', 'match-pos', 'allmatches'):
                    continue
                if k == 'quirk-pos':
                    for q in f['quirks']:
                        tri.report('C11:%s:quirk:%s' % (dtag(m), q), 'verdict or match position differs from the specification exactly as the engine quirk "%s" predicts' % q,
                                   lambda c=c, r=r, f=f: witness(c, r, [f]))
                    continue
                D = dtag(m)
                if k in ('malformed-accepted',):
                    key = 'C11:%s:malformed-accepted:%s' % (D, f['op'])
                elif k == 'rejected-not-ParseException':
                    key = 'C11:%s:rejected-not-ParseException:%s:%s' % (D, f['type'], f['op'])
                elif k == 'foreign-exception':
                    key = 'C11:%s:foreign-exception:%s:%s' % (D, f['type'], f['op'])
                elif k == 'wellformed-rejected':
                    key = 'C11:%s:wellformed-rejected:%s' % (D, sig(m['ast']))
                elif k == 'options-differ':
                    key = 'C11:%s:options-differ:%s' % (D, f['variant'])
                elif k in ('match-pos', 'allmatches'):
                    key = 'C11:%s:%s:%s' % (D, k, f['what'])
                else:
                    key = 'C11:%s:%s' % (D, k)
                tri.report(key, describe(k), lambda c=c, r=r, f=f: witness(c, r, [f]))

    import threading
    hang_box = {}

    def hang_thread():
        cs = pinned_cases([PINNED_HANG])
        hang_box['cases'] = cs
        hang_box['recs'] = run_cases(binary, cs, shards=1, tag='c11p', per_case_timeout=5.0)
    th = threading.Thread(target=hang_thread)
    with ProcessPoolExecutor(J) as ex:
        pos = 0
        nxt = None
        while pos < len(allwork) or nxt is not None:
            if nxt is None:
                batch = allwork[pos:pos + per_round]
                pos += len(batch)
                nxt = [ex.submit(make_mutants if k == 'mut' else make_chunk, a) for k, a in batch]
                # (worker processes are forked by the submits above, before any thread of this process exists)
                th.start()
                pins = pinned_cases()
                recs = run_cases(binary, pins, shards=min(J, 4), tag='c11q', per_case_timeout=5.0)
                handle(pins, recs)
                fam = family_cases(ck.seed, tier)
                recs = run_cases(binary, fam, shards=min(J, 4), tag='c11f', per_case_timeout=5.0)
                handle(fam, recs)
                ck.cov['class_pair_family'] = {'expressions': len(fam), 'relations': list(CLASS_RELATIONS), 'closure_forms': [f[2] for f in CLOSURE_FORMS]}
            cases = []
            for f in nxt:
                cases.extend(f.result())
            # start generating the next round while the driver runs this one
            nxt = None
            if pos < len(allwork):
                batch = allwork[pos:pos + per_round]
                pos += len(batch)
                nxt = [ex.submit(make_mutants if k == 'mut' else make_chunk, a) for k, a in batch]
            recs = run_cases(binary, cases, shards=J, tag='c11', per_case_timeout=5.0)
            handle(cases, recs)
            ck.note('round done: %d expressions so far, %d evaluations, %d items to classify, %d overflow' % (
                nexpr['xsd'] + nexpr['xpath'], ck.evaluations, len(tri.items), len(overflow)))

    th.join()
    if 'recs' in hang_box:
        for c in hang_box['cases']:
            r = hang_box['recs'].get(c.id)
            if r is not None and (r.hang or r.crash):
                crashes += 1
                if r.hang and not r.crash or is_match_overflow(r):
                    overflow.append((c, r))
                else:
                    ck.crash_violation(r, c, prefix='C11:')
            elif r is not None:
                handle([c], {c.id: r})
    if hung:
        ck.note('re-running %d cases that were cut by the batch watchdog, each alone' % len(hung))
        from concurrent.futures import ThreadPoolExecutor
        with ThreadPoolExecutor(max(1, min(J, len(hung)))) as tex:
            res = list(tex.map(lambda c: run_cases(binary, [c], shards=1, tag='c11h', per_case_timeout=90.0), hung))
        recs = {}
        for d in res:
            recs.update(d)
        handle(hung, recs, again=True)
    ck.cov['batch_watchdog_reruns'] = len(hung)
    ck.note('classifying %d items, %d overflows/hangs' % (len(tri.items), len(overflow)))
    classify(ck, binary, tri, overflow, J)

    ck.rule = ('distinct = distinct (pattern text, dialect, flags) whose string set contains at least one member and one '
               'non-member of the language according to the reference (so both verdicts were exercised on it); '
               'plus distinct malformed patterns')
    ck.cov.update({'expressions': dict(nexpr), 'mutants': dict(mutops), 'features': dict(sorted(feat.items())),
                   'xpath_flags': flagcount, 'expected_match': verdicts[0], 'expected_nomatch': verdicts[1],
                   'cases_crashed_or_hung': crashes, 'reference_self_disagreements': self_bad,
                   'pool_code_points': len(R.POOL), 'pool_dropped': R.POOL_DROPPED})
    if self_bad:
        ck.inconclusive.append('the two reference matchers disagreed with each other on %d strings' % self_bad)
    missing = [f for f in REQUIRED_FEATURES if not feat.get(f)]
    if missing:
        ck.inconclusive.append('constructs never generated: %s' % ','.join(missing))
    if verdicts[0] < 100 or verdicts[1] < 100:
        ck.inconclusive.append('too few expected matches/non-matches')
    return ck.finish()


def describe(k):
    return {
        'false-reject': 'matches() returned false for a string that belongs to the language of the expression',
        'false-accept': 'matches() returned true for a string outside the language of the expression',
        'malformed-accepted': 'a malformed expression was compiled without ParseException',
        'rejected-not-ParseException': 'a malformed expression was rejected with an XMLException other than ParseException',
        'foreign-exception': 'compiling a malformed expression threw something that is not an XMLException',
        'wellformed-rejected': 'a well-formed expression was rejected',
        'options-differ': 'the verdict changes with the optimisation-prohibiting options F/H',
        'history': 'the same compiled expression gave a different verdict for the same string later on',
        'match-object-differs': 'matches(s) and matches(s,&Match) disagree',
        'match-pos': 'Match positions of group 0 are not those of a (leftmost) match',
        'allmatches': 'allMatches positions are not the leftmost matches of the reference',
        'tokenize-inconsistent': 'tokenize() is not the split at the allMatches positions',
        'replace-inconsistent': 'replace() is not the substitution at the allMatches positions',
    }.get(k, k)


class Triage:
    """per executed case: option dependence and quirk attribution (pure python, immediately, so that the case can be
    dropped); what is left becomes an item for the rewrite trials of classify()."""

    def __init__(self, ck):
        self.ck = ck
        self.counts = {}
        self.items = []

    def report(self, key, what, w):
        self.counts[key] = self.counts.get(key, 0) + 1
        if key in self.ck.violations:
            self.ck.violations[key]['count'] += 1
        else:
            self.ck.violation(key, what, w() if callable(w) else w)

    def case(self, c, r, F):
        m = c.meta
        D = dtag(m)
        report = self.report
        # ---- 0. option dependence
        optsteps = set()
        ob = None
        for f in F:
            if f['kind'] != 'options-differ' or f['step'] in optsteps:
                continue
            st = f['step']
            optsteps.add(st)
            var = c.opt['v'].split(',')
            if ob is None:
                ob = Obs(r, 0)
            M = ob.M.get(st, '')
            yes = {j for j in range(len(var)) if j < len(M) and M[j] == '1'}
            base = m['flags']
            H = {j for j in range(len(var)) if 'H' in var[j][len(base):]}
            Fv = {j for j in range(len(var)) if 'F' in var[j][len(base):]}
            allv = set(range(len(var)))
            if f.get('variant') == 'positions' and yes == allv: label = 'match-start-differs'
            elif yes == H: label = 'match-only-with-H'
            elif yes == allv - H: label = 'match-only-without-H'
            elif yes == Fv: label = 'match-only-with-F'
            elif yes == allv - Fv: label = 'match-only-without-F'
            else: label = 'match:' + '|'.join(var[j] or '~' for j in sorted(yes))
            s, lo, hi = m['steps'][st - 1]
            detail = 'other'
            N = ob.N.get(st, [])
            off = u16off(s)
            starts = []
            for j in sorted(yes):
                fN = N[j].split(',') if j < len(N) else []
                if len(fN) == 3 and fN[1].isdigit() and int(fN[1]) in off:
                    starts.append(off.index(int(fN[1])))
            if starts and min(starts) < len(s) and s[min(starts)] >= 0x10000:
                detail = 'supplementary-first-character'
            elif R.leading_dot_closure(m['ast']):
                detail = 'leading-dot-closure'
            elif R.leading_dot_alternative(m['ast']):
                detail = 'leading-dot-alternative'
            report('C11:%s:options-differ:%s:%s' % (D, label, detail), describe('options-differ'), lambda c=c, r=r, f=f: witness(c, r, [f]))
        # ---- 1. quirks
        dis = [f for f in F if f['kind'] in ('false-reject', 'false-accept') and f['step'] not in optsteps]
        if dis:
            observed = observed_verdicts(c, r)
            bad = {f['step'] for f in dis}
            expl = quirk_explanation(c, observed, bad, skip=optsteps)
            done = set()
            for f in dis:
                for q in expl.get(f['step'], ()):
                    if q not in done:
                        done.add(q)
                        report('C11:%s:quirk:%s' % (D, q), 'verdict differs from the specification exactly as the engine quirk "%s" predicts' % q,
                               lambda c=c, r=r, f=f, qs=expl[f['step']]: witness(c, r, [f], {'quirks': list(qs)}))
            rest = [f for f in dis if f['step'] not in expl]
            for direction in ('false-reject', 'false-accept'):
                fs = [f for f in rest if f['kind'] == direction]
                if not fs:
                    continue

                def wlen(f):
                    s, lo, hi = m['steps'][f['step'] - 1]
                    return (hi - lo) if lo is not None else len(s)
                fs.sort(key=lambda f: (wlen(f), f['step']))
                f0 = fs[0]
                s, lo, hi = m['steps'][f0['step'] - 1]
                sub = list(s if lo is None else s[lo:hi])
                self.items.append(dict(c=c, r=r, fs=fs, f0=f0, direction=direction, kinds=('false-reject', 'false-accept'),
                                       observed=(direction == 'false-accept'), ast=m['ast'], s=sub, tag=direction[6:], tok=False,
                                       win=None if lo is None else (list(s), lo, hi)))
        # ---- positional findings (one per case)
        for f in F:
            if f['kind'] in ('match-pos', 'allmatches') and f['step'] not in optsteps:
                s, lo, hi = m['steps'][f['step'] - 1]
                sub = list(s if lo is None else s[lo:hi])
                self.items.append(dict(c=c, r=r, fs=[f], f0=f, direction=None, kinds=('match-pos', 'allmatches'), ast=m['ast'], s=sub,
                                       tag='pos', tok=True, win=None if lo is None else (list(s), lo, hi)))
                break


def classify(ck, binary, tri, overflow, J):
    """rewrite trials, shrinking and crash confirmation for what Triage left over (see notes/C11.md, 'Keys')."""
    counts = tri.counts
    report = tri.report
    items = tri.items
    for it in items:
        it['trials'] = trial_cases(it['c'], it['ast'], it['s'], it['tag'], tok=it['tok'], win=it.get('win'))
    # overflow / hang confirmations
    opend = []
    for c, r in overflow:
        m = c.meta
        try:
            rw = R.rewrite_unbounded_nullable(m['ast'])
            changed = repr(rw) != repr(R.flatten(m['ast'])) and any(R.P_unbounded_nullable(i) for _, i in R.closures(m['ast']))
            strings = [s for s, lo, hi in m['steps'] if lo is None and len(s) <= 5][:60]
            cc = build_case(c.id + '~ovf', rw, m['dialect'], m['flags'], core.rng('ovf', c.id), strings=strings, extras=False) if changed else None
        except (ValueError, OverflowError):
            cc = None
        opend.append((c, r, cc))
    extra = [x for it in items for _, x in it['trials']] + [cc for _, _, cc in opend if cc is not None]
    ck.note('classification: %d items, %d rewritten cases' % (len(items), len(extra)))
    recs = run_cases(binary, extra, shards=J, tag='c11c', per_case_timeout=10.0) if extra else {}
    ck.evaluations += len(extra)
    todo = []
    for it in items:
        label, qs, fixed = first_fixed(it['trials'], recs, it['kinds'], it)
        it['fixed'] = fixed
        it['quirks'] = qs
        it['cls'] = 'quirk-only' if label == 'id' else (CLASS_OF[label] if label else None)
        if it['direction'] and (it['cls'] is None or it['cls'] in OPEN_CLASSES):
            todo.append(it)
    # ---- 3. shrink what has no closed class yet, classify the minimum
    if todo:
        ck.note('shrinking %d unexplained disagreements (at most 12 are minimised)' % len(todo))
        for it in todo[12:]:
            it['ast2'], it['s2'] = it['ast'], list(it['s'])
        shrink_many(binary, todo[:12], J)
        cases2 = []
        for it in todo:
            it['trials2'] = trial_cases(it['c'], it['ast2'], it['s2'], 'min')
            cases2.extend(x for _, x in it['trials2'])
        recs2 = run_cases(binary, cases2, shards=J, tag='c11d', per_case_timeout=10.0) if cases2 else {}
        for it in todo:
            it2 = dict(it, s=it['s2'], observed=(it['direction'] == 'false-accept'))
            it2['c'] = single_case(it['c'], it['ast2'], [it['s2']], it['c'].id + '~min')
            label, qs2, fixed2 = first_fixed(it['trials2'], recs2, it['kinds'], it2)
            it['quirks'] = tuple(sorted(set(it['quirks']) | set(qs2)))
            it['shrunk'] = {'pattern': R.render(it['ast2'], it['c'].meta['dialect'] == 'xsd'), 'string': R.to_str(it['s2']),
                            'rewrites': {l: {'pattern': pattern_of(x), 'agrees_with_reference': fixed2.get(l)} for l, x in it['trials2']}}
            if label == 'id':
                it['cls'] = 'quirk-only'
            elif label and CLASS_OF[label] not in OPEN_CLASSES:
                it['cls'] = CLASS_OF[label]
            else:
                it['cls'] = (CLASS_OF[label] if label else 'unexplained') + ':' + (open_subclass(it['ast2'], it['c'].meta['flags']) or sig(it['ast2']))
    for it in items:
        c, r, m = it['c'], it['r'], it['c'].meta
        D = dtag(m)
        extra_w = {'rewrites': {l: {'pattern': pattern_of(x), 'agrees_with_reference': it['fixed'].get(l)} for l, x in it['trials']},
                   'disagreeing_strings': len(it['fs'])}
        if 'shrunk' in it:
            extra_w['shrunk'] = it['shrunk']
        for q in it.get('quirks', ()):
            report('C11:%s:quirk:%s' % (D, q), 'verdict differs from the specification exactly as the engine quirk "%s" predicts' % q,
                   lambda c=c, r=r, it=it, extra_w=extra_w: witness(c, r, [it['f0']], extra_w))
        if it['cls'] == 'quirk-only':
            continue
        if it['direction']:
            key = 'C11:%s:%s:%s' % (D, it['direction'], it['cls'])
            what = describe(it['direction']) + ' [class: %s]' % it['cls']
        else:
            f = it['f0']
            detail = it['cls']
            if detail in OPEN_CLASSES:
                sc = open_subclass(m['ast'], m['flags'])
                if sc:
                    detail = detail + ':' + sc
            if detail is None and f.get('what') == 'end' and fixed_string_end(m, f, c):
                detail = 'fixed-string-uses-pattern-length'
            key = 'C11:%s:%s:%s' % (D, f['kind'], detail or f['what'])
            what = describe(f['kind']) + (' [class: %s]' % detail if detail else '')
        report(key, what, lambda c=c, r=r, it=it, extra_w=extra_w: witness(c, r, [it['f0']], extra_w))
    for c, r, cc in opend:
        m = c.meta
        D = dtag(m)
        ok = False
        if cc is not None:
            rr = recs.get(cc.id)
            ok = rr is not None and rr.complete and not rr.crash and not rr.hang
        sym = 'hang' if (r.hang and not r.crash) else 'stack-overflow'
        key = 'C11:%s:%s:%s' % (D, sym, 'unbounded-closure-over-nullable-operand' if ok else 'other:' + sig(m['ast']))
        report(key, ('the match does not terminate' if sym == 'hang' else 'stack overflow (unbounded recursion) in RegularExpression::match')
               + (' ; disappears when the closure operand is rewritten so that it cannot match the empty string' if ok else ''),
               {'case': c.to_json(), 'pattern': pattern_of(c), 'rewritten': pattern_of(cc) if cc else None,
                'report': r.crash.text[:3000] if r.crash else None})
    ck.cov['disagreement_classes'] = dict(sorted(counts.items()))


def fixed_string_end(m, f, c):
    """the expression is a plain string (Boyer-Moore only path) and the reported length is that of the pattern text"""
    if 'i' in m['flags']:
        return False
    a, b = f['got']
    return b - a == len(pattern_of(c).encode('utf-16-le')) // 2


# ---------------------------------------------------------------------------------------------------
#  replay
# ---------------------------------------------------------------------------------------------------
def replay(j):
    w = j['witness']
    c = core.Case.from_json(w['case'])
    m = c.meta
    if m.get('kind') == 'valid':
        m['ast'] = R.ast_from_json(m['ast'])
    binary = build.ensure('asan', parts=['regex'])
    recs = run_cases(binary, [c], shards=1, tag='c11r')
    r = recs.get(c.id)
    print('pattern : %r   dialect=%s flags=%r options=%s' % (pattern_of(c), m.get('dialect'), m.get('flags'), c.opt.get('v')))
    if r is None:
        print('no record'); return 2
    if r.crash or r.hang or not r.complete:
        resymbolize(r)
        print('observed: crash/hang: %s' % (r.crash.key() if r.crash else 'hang'))
        if r.crash:
            print(r.crash.text[:1500])
        print('expected: the expression is compiled and matched without a crash')
        return 1
    if m.get('kind') == 'mutant':
        F, _ = judge(c, r)
        print('expected: every variant rejects the malformed expression (%s) with ParseException' % m.get('op'))
        for l in r.lines:
            if l.startswith('C\t'):
                print('observed: ' + l)
        return 1 if F else 0
    exp, ref = expectations(c)
    F, _ = judge(c, r, exp, ref)
    want = [(f.get('kind'), f.get('step')) for f in w.get('findings', []) if f.get('step')]
    if want:
        # the witnessed finding is the subject of the replay; other deviations of the same case are only counted
        rel = [f for f in F if (f['kind'], f.get('step')) in want or (f['kind'] == 'options-differ' and ('options-differ', f.get('step')) in want)]
        if len(F) != len(rel):
            print('(%d other findings in this case are not the subject of this witness)' % (len(F) - len(rel)))
        if not rel:
            for k, st in want:
                s, lo, hi = m['steps'][st - 1]
                print('witnessed finding %s on %r is gone: expected %s, observed %s' % (k, R.to_str(s), 'match' if exp[st - 1][0] else 'no match',
                      [l for l in r.lines if l.split('\t')[1:2] == [str(st)]][:3]))
        F = rel
    for f in F[:10]:
        st = f.get('step')
        print('finding : %s' % json.dumps(f, ensure_ascii=True, default=str))
        if st:
            s, lo, hi = m['steps'][st - 1]
            print('  string  : %r window=%s' % (R.to_str(s), None if lo is None else [lo, hi]))
            print('  expected: %s (leftmost start %s)' % ('match' if exp[st - 1][0] else 'no match', exp[st - 1][1]))
            for l in r.lines:
                if l.split('\t')[1:2] == [str(st)]:
                    print('  observed: ' + l)
    if not F and not want:
        print('all %d strings agree with the reference' % len(exp))
    return 1 if F else 0
