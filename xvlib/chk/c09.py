"""C09  Schema datatypes: lexical, value-space, facet and canonical-form correctness.

Runtime monitoring: the `dtype` driver command executes the real library (ASan+UBSan build of /repo's tree) on
(type, facets, value) cases through three routes (DatatypeValidator, XSValue, in-parse validation + PSVI) and logs
the verdicts; this module generates the cases, computes the expectation with the reference model xvlib/gen/dtref.py
and compares.  Oracles: (a) reference verdict/value/canonical form where XSD 1.0 2e is unambiguous, (b) axioms that
need no reference, (c) differential between the routes.  See notes/C09.md.
"""
import os, sys, re, json, struct, time, traceback
from concurrent.futures import ProcessPoolExecutor
from fractions import Fraction
from .. import core, build
from ..gen import dtref as D

PID = 'C09'
ACCEPT, REJECT, SKIP = D.ACCEPT, D.REJECT, D.SKIP

# -----------------------------------------------------------------------------------------------------------------
#  sizes
# -----------------------------------------------------------------------------------------------------------------
TIERS = {
    #            per-builtin literals, restriction cases, chain cases, list cases, union cases, matrices, values/derived case
    'quick':    dict(nb=250, nr=420, nc=90, nl=150, nu=150, nm=132, nv=44, pfrac=0.5, pcrash=0.03),
    'thorough': dict(nb=4000, nr=8000, nc=1600, nl=2800, nu=2800, nm=3200, nv=60, pfrac=0.35, pcrash=0.001),
}
MATRIX_N = 12


def workers():
    try:
        return max(1, int(os.environ.get('XV_C09_WORKERS', '0'))) if os.environ.get('XV_C09_WORKERS') else core.NCPU
    except ValueError:
        return core.NCPU


# -----------------------------------------------------------------------------------------------------------------
#  case construction helpers
# -----------------------------------------------------------------------------------------------------------------
SEP1, SEP2 = '\x01', '\x02'


def add_type_steps(c, types):
    for t in types:
        if t.variety == 'list' and t.base is None:
            c.txt('', k='type', name=t.name, var='L', base=t.item.name)
        elif t.variety == 'union' and t.base is None:
            c.txt(SEP1.join(m.name for m in t.members), k='type', name=t.name, var='U')
        else:
            c.txt(SEP1.join(fn + SEP2 + fv for fn, fv in t.facets), k='type', name=t.name, var='R', base=t.base.name)


def types_from_case(c):
    """rebuild the Type objects of a case from its steps (used by the judge and by replay)"""
    env = dict(D.BUILTINS)
    order = []
    for kind, payload, o in c.steps:
        if o.get('k') != 'type':
            continue
        name, var = o['name'], o.get('var', 'R')
        if var == 'L':
            t = D.Type(name, 'list', item=env[o['base']])
        elif var == 'U':
            t = D.Type(name, 'union', members=[env[m] for m in payload.split(SEP1)] if payload else [])
        else:
            b = env[o['base']]
            facets = []
            if payload:
                for f in payload.split(SEP1):
                    fn, _, fv = f.partition(SEP2)
                    facets.append((fn, fv))
            t = D.Type(name, b.variety, base=b, facets=facets)
        env[name] = t
        order.append(t)
    return env, order


def tkey(t):
    """stable, seed-independent description of a type for violation keys: built-in ancestry + facet kinds"""
    if t.variety == 'list':
        fk = sorted(t.facet_kinds())
        return 'list(%s)%s' % (tkey(t.item), ('{' + ','.join(fk) + '}') if fk and not t.builtin else (':' + t.name if t.builtin else ''))
    if t.variety == 'union':
        fk = sorted(t.facet_kinds())
        return 'union(%s)%s' % ('|'.join(tkey(m) for m in t.members), ('{' + ','.join(fk) + '}') if fk else '')
    b = t.builtin_ancestor()
    fk = sorted(t.facet_kinds())
    return b.name + (('{' + ','.join(fk) + '}') if fk else '')


def lit_class(t, s):
    if t.variety == 'atomic':
        b = t.builtin_ancestor()
        return D.classify(b.name, t.prim, s)
    return D.shape(s)


def deep_facet_kinds(t):
    ks = set(t.facet_kinds())
    if t.item is not None:
        ks |= deep_facet_kinds(t.item)
    for m in t.members:
        ks |= deep_facet_kinds(m)
    return ks


_DT_NAMES = tuple(D.DT_TYPES)


def grey_dt_literal(t, s):
    """list/union types over date/time members: literals whose items carry a time zone offset or hour 24 sit on the
    grey spots of the XSD 1.0 date/time order (see dtref.dt_crosses)"""
    return t.variety != 'atomic' and D.involves(t, _DT_NAMES) and re.search(r'[+-][0-9]{2}:[0-9]{2}|24:00|:60', s) is not None


def crash_prone(t, s):
    """literals that hit one of the memory-safety findings of notes/C09.md; they are executed in a sample only"""
    # (the empty list value used to be on this list: KF-C09-07, repaired by /repo commit 02696c0; negative years in
    #  date canonical forms: KF-C09-06, repaired by 7e13621; years of ten and more digits: KF-C09-08, repaired by 5f4368b.
    #  Nothing is sampled any more: every literal is executed completely.)
    return None
    if D.involves(t, ('date', 'dateTime')) and re.search(r'(^|\s)-[0-9]{4,}-', s):
        return 'neg-year-canon'
    if D.involves(t, _DT_NAMES) and re.search(r'[0-9]{10,}', s):
        return 'year-overflow'
    return None


def parse_kv(fields):
    d = {}
    for f in fields:
        k, _, v = f.partition('=')
        d[k] = v
    return d


def route3_ok(t, raw):
    """can this (type, raw literal) go through an instance document, and is the in-parse semantics the plain one"""
    if not D.is_xml_text(raw):
        return False
    if D.involves(t, ('IDREF', 'IDREFS', 'ENTITY', 'ENTITIES', 'NOTATION', 'ID')):
        return False
    if D.involves(t, ('QName',)):
        for tok in raw.split():
            if ':' in tok and tok.split(':', 1)[0] not in ('p', 'q'):
                return False
    return True


# -----------------------------------------------------------------------------------------------------------------
#  judge
# -----------------------------------------------------------------------------------------------------------------
class Findings:
    def __init__(self):
        self.viol = []          # (key, what, witness)
        self.cov = {}
        self.skips = {}
        self.distinct = set()
        self.evals = 0
        self.samples = []
        self.triples = 0
        self.axioms = 0

    def count(self, k, n=1):
        self.cov[k] = self.cov.get(k, 0) + n

    def skip(self, reason):
        reason = reason.split(':malformed')[0]
        self.skips[reason] = self.skips.get(reason, 0) + 1


def reduced_case(c, step_idx, extra_idx=()):
    """type definitions (+ schema) + the steps of interest: the replayable witness"""
    keep = []
    for i, (kind, payload, o) in enumerate(c.steps):
        if o.get('k') in ('type',) or i == step_idx or i in extra_idx:
            keep.append((kind, payload, o))
        elif o.get('k') == 'schema' and c.steps[step_idx][2].get('k') == 'p':
            keep.append((kind, payload, o))
    return core.Case(c.id, c.cmd, c.opt, steps=keep, meta={k: v for k, v in c.meta.items() if not k.startswith('_')}).to_json()


def fbits(x):
    return struct.unpack('>I', struct.pack('>f', x))[0]


def dbits(x):
    return struct.unpack('>Q', struct.pack('>d', x))[0]


def expected_actual(t, s, mv):
    """rendering (as the driver prints it) of the XSValue actual value expected for an accepted literal; None = not judged"""
    b = t.name
    v = mv.value
    if b == 'boolean':
        return 'b:1' if v else 'b:0'
    if b in D.INT_RANGES:
        iv = int(v)
        if b in ('integer', 'nonPositiveInteger', 'negativeInteger', 'long'):
            if not -2 ** 63 <= iv < 2 ** 63:
                return None
        elif b in ('nonNegativeInteger', 'positiveInteger', 'unsignedLong'):
            if not 0 <= iv < 2 ** 64:
                return None
        return 'i:%d' % iv
    if b == 'decimal':
        try:
            f = float(v)
        except OverflowError:
            return None
        if f != 0 and abs(f) < 2.3e-308:
            return None
        return 'dec:%016x' % dbits(f if f != 0 else (-0.0 if s.lstrip().startswith('-') else 0.0))
    if b == 'double':
        if v == D.NAN or v in (D.PINF, D.NINF):
            return None
        return 'd:4:%016x' % dbits(-0.0 if (v == 0 and s.lstrip().startswith('-')) else v)
    if b == 'float':
        if v == D.NAN or v in (D.PINF, D.NINF):
            return None
        return 'f:4:%08x' % fbits(-0.0 if (v == 0 and s.lstrip().startswith('-')) else v)
    if b == 'hexBinary' or b == 'base64Binary':
        return 'bin:' + v.hex()
    if b in D.DT_RE:
        if v.tz not in (None, 0) and b not in ('dateTime', 'time'):
            return None                      # the implementation normalises to UTC: lossy for types without time fields
        if v.y is not None and v.y < 0 and v.tz not in (None, 0):
            return None
        if v.h24 and v.tz is not None:
            return None                      # hour 24 is kept as written: same instant, two renderings
        if v.tz not in (None, 0):
            if b == 'dateTime':
                tot = D.dt_timeline(v)
                days, rem = divmod(tot, 86400)
                y, mo, d = D.civil_from_days(int(days))
                if v.y < 0:
                    y -= 1
                h, rem = divmod(rem, 3600)
                mi, sec = divmod(rem, 60)
                whole = int(sec)
                return ('dt', y, mo, d, int(h), int(mi), whole, float(sec - whole))
            return None                      # time with offset: the date part is not part of the value; not judged
        sec = v.s if v.s is not None else Fraction(0)
        whole = int(sec)
        return ('dt', v.y or 0, v.mo or 0, v.d or 0, v.h or 0, v.mi or 0, whole, float(sec - whole))
    return None


def actual_equal(ea, act):
    if isinstance(ea, tuple):
        p = act.split(':')
        if p[0] != 'dt' or len(p) != 8:
            return False
        if tuple(int(x) for x in p[1:7]) != ea[1:7]:
            return False
        ms = struct.unpack('>d', bytes.fromhex(p[7]))[0]
        return abs(ms - ea[7]) < 1e-9
    if ea.startswith('dec:') and act.startswith('dec:'):
        a, b = int(ea[4:], 16), int(act[4:], 16)
        return a == b or (a | b) == 0x8000000000000000 or (a == 0 and b == 0)
    return ea == act


class Judge:
    def __init__(self, F):
        self.F = F
        self.E = D.Evaluator()
        self.deferred = []
        self.mres = {}

    def alt_float(self, t, s):
        """diagnosis: verdict of the model when xs:float literals are kept in binary64 precision"""
        return self.alt(t, s, 'FLOAT_AS_DOUBLE')

    def alt(self, t, s, flag):
        setattr(D, flag, True)
        try:
            return D.Evaluator().evaluate(t, s)
        finally:
            setattr(D, flag, False)

    def diagnose(self, t, s, lib_ok, cls, code=''):
        """name the construct class of a disagreement after a known deviation when re-evaluating the model with that one
        deviation switched on reproduces the library's verdict; otherwise keep the lexical class"""
        want = ACCEPT if lib_ok else REJECT
        if D.involves(t, ('float',)) and self.alt(t, s, 'FLOAT_AS_DOUBLE').v == want:
            return 'float-compared-as-double'
        if D.involves(t, ('dateTime', 'time')) and self.alt(t, s, 'HOUR24_NOT_ROLLED').v == want:
            return 'hour24-not-rolled-over'
        if D.involves(t, ('duration',)):
            av = self.alt(t, s, 'DURATION_IGNORE_FRACTION')
            # without the fraction the value may become INDETERMINATE against a bound (P1Y against P366DT0.38S): the library
            # then folds that into a verdict (known finding KF-C09-14), which the deviated model reports as "skip"
            if av.v == want or (av.v == SKIP and str(getattr(av, 'why', '')) == 'bounds:indeterminate-order'):
                return 'duration-fraction-ignored'
        if any(ord(ch) > 0xFFFF for ch in s) and (deep_facet_kinds(t) & {'length', 'minLength', 'maxLength'}) and self.alt(t, s, 'STRING_LENGTH_UTF16').v == want:
            return 'length-in-utf16-units'
        if D.involves_variety(t, 'union') and 'enumeration' in deep_facet_kinds(t) and self.alt(t, s, 'UNION_ENUM_ANY_MEMBER').v == want:
            return 'enum-matched-through-other-member'
        if D.involves(t, ('hexBinary', 'base64Binary')) and self.alt(t, s, 'BINARY_AS_STRING').v == want:
            return 'binary-enumeration-compared-lexically'
        return cls

    def violation(self, key, what, c, idx, extra=(), expected=None, observed=None):
        self.F.viol.append((key, what, {'case': reduced_case(c, idx, extra), 'step': c.steps[idx][2].get('i'), 'expected': expected, 'observed': observed}))

    def judge_case(self, c, rec):
        F = self.F
        self.deferred = []
        self.mres = {}
        env, order = types_from_case(c)
        lines = list(rec.lines)
        pos = 0
        created = {}
        vres = {}        # (typename, literal) -> lib accept bool   (route 1)
        vstep = {}
        pending_p = []

        def take(prefix):
            nonlocal pos
            if pos < len(lines) and lines[pos].split('\t', 1)[0] == prefix:
                l = lines[pos]
                pos += 1
                return l.split('\t')
            return None

        def take_sub(prefixes):
            nonlocal pos
            out = []
            while pos < len(lines) and lines[pos].split('\t', 1)[0] in prefixes:
                out.append(lines[pos].split('\t'))
                pos += 1
            return out

        for idx, (kind, payload, o) in enumerate(c.steps):
            k = o.get('k')
            if k == 'type':
                l = take('T')
                if l is None:
                    F.viol.append(('C09:harness:log-out-of-step', 'driver log does not line up with the case', {'case': c.to_json(), 'line': lines[pos] if pos < len(lines) else None}))
                    return
                created[o['name']] = (l[2] == 'OK')
                t = env[o['name']]
                F.count('types:' + t.variety)
                if l[2] == 'NOBASE' and not all(created.values()):
                    pass                       # consequence of an earlier refused type
                elif l[2] != 'OK':
                    if c.meta.get('expect_type_error') == o['name']:
                        F.count('type-error-as-expected')
                    else:
                        code = l[2].split(':')[-1]
                        lits = [fv for fn, fv in t.facets if fn == 'enumeration']
                        if code == '216' and D.involves(t, ('hexBinary', 'base64Binary')):
                            key = 'C09:type-rejected:%s:binary-enumeration-compared-lexically:216' % t.variety
                        elif (code in ('213', '214', '215') or (code == '231' and D.involves_variety(t, 'union') and (deep_facet_kinds(t) & {'length', 'minLength', 'maxLength'}))) \
                                and any(ord(ch) > 0xFFFF for x in lits for ch in x):
                            # (231 = no member type of a union accepts the enumeration value: the member with the length facet counted UTF-16 units)
                            key = 'C09:type-rejected:%s:length-in-utf16-units:%s' % (t.variety, code)
                        else:
                            key = 'C09:type-rejected:%s:%s' % (tkey(t), l[2].replace('X:', ''))
                        self.violation(key, 'the factory refused a derivation the generator built to be consistent', c, idx, expected='created', observed=l[2])
                elif c.meta.get('expect_type_error') == o['name']:
                    self.violation('C09:type-accepted:%s:%s' % (tkey(t), c.meta.get('why', '')), 'an inconsistent facet set was accepted by the factory', c, idx, expected='facet error', observed='created')
            elif k == 'v':
                l = take('V')
                if l is None:
                    F.viol.append(('C09:harness:log-out-of-step', 'driver log does not line up with the case', {'case': c.to_json(), 'line': lines[pos] if pos < len(lines) else None}))
                    return
                xl = take('X') if o.get('x') == '1' else None
                t = env.get(o['t'])
                if t is None or l[2] == 'NOTYPE':
                    continue
                self.judge_value(c, idx, t, payload, l, xl, o, vres, vstep)
            elif k == 'm':
                mv = take('MV')
                rows = take_sub(('M',))
                t = env.get(o['t'])
                if t is None or mv is None or (len(mv) > 2 and mv[2] == 'NOTYPE'):
                    continue
                self.judge_matrix(c, idx, t, payload.split(SEP1) if payload else [], mv, rows)
            elif k == 'schema':
                l = take('SCH')
                errs = take_sub(('ERR', 'PE', 'PA'))
                bad = [e for e in errs if e[0] == 'ERR' and e[1] in ('E', 'F')]
                F.count('schemas')
                c.meta['_schema_ok'] = (l is not None and l[1] == 'OK' and not bad)
                if not c.meta['_schema_ok']:
                    if c.meta.get('expect_type_error'):
                        F.count('schema-error-as-expected')
                    elif all(created.get(t.name, True) for t in order):
                        ts = order[-1] if order else None
                        self.violation('C09:schema-rejected:%s:%s' % (tkey(ts) if ts else '-', ','.join(sorted(set(e[3] for e in bad))) or (l[1] if l else 'nolog')),
                                       'schema with a consistent simple type was rejected by the schema loader while the factory built the same type', c, idx, expected='no schema error',
                                       observed=[e[1:4] for e in bad])
                elif c.meta.get('expect_type_error'):
                    self.violation('C09:schema-accepted:%s:%s' % (tkey(order[-1]), c.meta.get('why', '')), 'an inconsistent facet set was accepted by the schema loader', c, idx, expected='schema error', observed='loaded')
            elif k == 'p':
                l = take('P')
                sub = take_sub(('ERR', 'PE', 'PA'))
                if l is None:
                    F.viol.append(('C09:harness:log-out-of-step', 'driver log does not line up with the case', {'case': c.to_json()}))
                    return
                if not c.meta.get('_schema_ok', False):
                    continue
                self.judge_parse(c, idx, env, o, l, sub, vres, vstep)
        # relations between verdicts of related types on the same literal
        self.judge_relations(c, env, order, vres, vstep)

    # ---- one value, routes 1 and 2 ---------------------------------------------------------------------------------
    def judge_value(self, c, idx, t, s, l, xl, o, vres, vstep):
        F = self.F
        F.evals += 1
        lib_ok = (l[2] == 'OK')
        kv = parse_kv(l[3:])
        vres[(t.name, s)] = lib_ok
        vstep[(t.name, s)] = idx
        tk = tkey(t)
        cls = lit_class(t, s)
        if t.variety != 'atomic' and D.involves(t, _DT_NAMES):
            if re.search(r'(^| )-[0-9]{4}', s):
                cls = 'neg-year'
            elif re.search(r'T24:|(^| )24:', s):
                cls = 'hour24'
        mv = self.E.evaluate(t, s)
        self.mres[(t.name, s)] = mv
        F.count('route1:' + (t.builtin_ancestor().name if t.variety == 'atomic' else t.variety))
        F.count('verdict:' + mv.v)
        role = o.get('role', 'main')
        if mv.v == SKIP:
            F.skip(mv.why)
        else:
            F.distinct.add(core.h(tk, [f for a in t.chain() for f in a.facets if not a.builtin], s))
            if mv.v != (ACCEPT if lib_ok else REJECT):
                if t.variety != 'atomic':
                    # decided after the whole case has been read: a list/union disagreement that merely repeats a
                    # disagreement on one of its items/members is attributed to that item/member
                    self.deferred.append((c, idx, t, s, mv, lib_ok, l[2]))
                else:
                    ktk = tk
                    if mv.why.startswith('lex:') or (mv.v == ACCEPT and not t.facet_kinds()):
                        ktk = t.builtin_ancestor().name        # lexical verdicts do not depend on the user facets
                    cls = self.diagnose(t, s, lib_ok, cls, l[2].split(':')[-1])
                    if mv.v == ACCEPT:
                        self.violation('C09:rejects:%s:%s:%s' % (ktk, cls, l[2].split(':')[-1]), 'validator rejects a literal that is in the lexical space and satisfies every facet', c, idx,
                                       expected='accept', observed=l[2])
                    else:
                        self.violation('C09:accepts:%s:%s:%s' % (ktk, mv.why, cls), 'validator accepts a literal the reference rejects (%s)' % mv.why, c, idx, expected='reject: ' + mv.why, observed='accepted')
            if len(F.samples) < 3 and role == 'main' and F.evals % 97 == 0:
                F.samples.append({'type': tk, 'facets': [f for a in t.chain() if not a.builtin for f in a.facets], 'literal': s, 'expected': mv.v + (':' + mv.why if mv.why else ''), 'observed': l[2:]})
        # ---- axioms on the validator's own answers (no reference needed) ----
        cv = kv.get('cv', '~')
        if cv == 'skipped':
            F.count('canon:not-requested(crash-prone sample)')
            if lib_ok and kv.get('self') != '0':
                self.violation('C09:axiom:compare-self:%s:%s' % (tk, cls), 'compare(x,x) is not EQUAL', c, idx, expected='0', observed=kv.get('self'))
            if xl is not None and len(xl) > 2 and xl[2] != 'NOTYPE':
                self.judge_xsvalue(c, idx, t, s, mv, lib_ok, '~', xl, tk, cls)
            return
        if not lib_ok:
            if cv != '~':
                self.violation('C09:axiom:canon-of-invalid:%s:%s' % (tk, cls), 'getCanonicalRepresentation(toValidate=true) returned a form for a literal validate() rejects', c, idx, expected='null', observed=cv)
            if xl is not None and len(xl) > 2 and xl[2] != 'NOTYPE':
                self.judge_xsvalue(c, idx, t, s, mv, lib_ok, cv, xl, tk, cls)
            return
        if mv.v == REJECT or (mv.v == SKIP and mv.why == 'float:huge-exponent'):
            # the literal itself is already reported (or outside the modelled range): what the library then does with it is not judged
            if xl is not None and len(xl) > 2 and xl[2] != 'NOTYPE':
                self.judge_xsvalue(c, idx, t, s, mv, lib_ok, cv, xl, tk, cls)
            return
        F.axioms += 1
        if kv.get('self') != '0':
            self.violation('C09:axiom:compare-self:%s:%s' % (tk, cls), 'compare(x,x) is not EQUAL', c, idx, expected='0', observed=kv.get('self'))
        all_facets = deep_facet_kinds(t)
        if t.variety == 'atomic':
            tk = t.builtin_ancestor().name          # the canonical-form axioms do not depend on the user facets
        if cv == '~':
            F.count('canon:null-for-valid:' + (t.builtin_ancestor().name if t.variety == 'atomic' else t.variety))
            if kv.get('cvx'):
                self.violation('C09:axiom:canon-throws:%s:%s' % (tk, cls), 'getCanonicalRepresentation threw for a valid literal', c, idx, expected='a string', observed=kv.get('cvx'))
        else:
            canon = core.unesc(cv[1:])
            grey = False
            if t.variety == 'atomic' and t.prim in D.DT_RE:
                if mv.v == SKIP and mv.why.startswith('datetime:'):
                    grey = True
                elif mv.v != SKIP and mv.value is not None and D.dt_crosses(mv.value):
                    grey = True
            elif grey_dt_literal(t, s):
                grey = True
            if grey:
                F.skip('datetime:canon-axiom-at-grey-spot')
            if kv.get('cn') != cv:
                self.violation('C09:axiom:canon-validate-flag:%s:%s' % (tk, cls), 'canonical form differs with toValidate on/off', c, idx, expected=cv, observed=kv.get('cn'))
            # a canonical literal need not satisfy lexical facets (pattern, lengths of the literal): not demanded
            lexical_facets = bool(all_facets & {'pattern', 'length', 'minLength', 'maxLength', 'whiteSpace'})
            if kv.get('vc') != 'OK' and not lexical_facets and not grey:
                self.violation('C09:axiom:canon-invalid:%s:%s' % (tk, cls), 'the canonical form of a valid literal does not validate', c, idx, expected='canon validates', observed=[cv, kv.get('vc')])
            if D.involves_variety(t, 'union'):
                # 2.5.1.3: the canonical literal of a union value is the canonical literal of the member type; read back, it may
                # be claimed by an earlier member ('01' as int -> '1' -> boolean): XSD 1.0 does not resolve this
                F.skip('union:canonical-literal-member-ambiguity')
            elif kv.get('vc') == 'OK' and not grey:
                if kv.get('cmp') != '0' or kv.get('cmpr') != '0':
                    self.violation('C09:axiom:canon-changes-value:%s:%s' % (tk, cls), 'compare(x, canon(x)) is not EQUAL', c, idx, expected='0/0', observed=[cv, kv.get('cmp'), kv.get('cmpr')])
                if kv.get('cc') != cv:
                    self.violation('C09:axiom:canon-not-idempotent:%s:%s' % (tk, cls), 'canon(canon(x)) differs from canon(x)', c, idx, expected=cv, observed=kv.get('cc'))
            if mv.v == ACCEPT and not grey:
                ec = self.E.canonical(t, s, mv)
                if ec is not None:
                    F.count('canon:compared')
                    if ec != canon:
                        ktk = t.builtin_ancestor().name if t.variety == 'atomic' else tk
                        self.violation('C09:canon-form:%s:%s' % (ktk, cls), 'canonical form differs from XSD 1.0 2e canonical representation', c, idx, expected=ec, observed=canon)
                elif t.variety == 'list' and canon.endswith(' ') and canon.strip(' '):
                    self.violation('C09:canon-form:list:trailing-space', 'canonical form of a list value ends with a blank (not in the lexical space of a list after white space collapse)', c, idx,
                                   expected=canon.rstrip(' '), observed=canon)
        # ---- route 2: XSValue ----
        if xl is not None and len(xl) > 2 and xl[2] != 'NOTYPE':
            self.judge_xsvalue(c, idx, t, s, mv, lib_ok, cv, xl, tk, cls)

    def judge_xsvalue(self, c, idx, t, s, mv, lib_ok, cv, xl, tk, cls):
        F = self.F
        F.count('route2')
        kv = parse_kv(xl[3:])
        if 'THROW' in kv:
            self.violation('C09:xsvalue-throws:%s:%s' % (tk, cls), 'XSValue API threw (documented not to)', c, idx, expected='no exception', observed=kv['THROW'])
            return
        x_ok = (xl[2] == '1')
        if x_ok != lib_ok:
            if s == '' or not s.strip(D.WS_CHARS):
                F.skip('xsvalue:empty-content-convention')     # st_NoContent is the documented answer for empty content
            else:
                self.violation('C09:diff:validator-vs-xsvalue:%s:%s:%s' % (tk, cls, 'xsvalue-accepts' if x_ok else 'xsvalue-rejects'),
                               'XSValue::validate and DatatypeValidator::validate disagree', c, idx, expected='same verdict (validator: %s, model: %s)' % (lib_ok, mv.v), observed='xsvalue: %s st=%s' % (x_ok, kv.get('st')))
        if not (x_ok and lib_ok):
            return
        if mv.v == REJECT:
            return          # both routes accept a literal the reference rejects: reported on route 1; what they then derive from it is not judged
        xc, cst = kv.get('can', '~'), kv.get('cst')
        if not s.strip(D.WS_CHARS):
            F.skip('xsvalue:empty-content-convention')
            return
        if xc != '~':
            F.count('route2:canon')
            if kv.get('canv') != '1':
                self.violation('C09:xsvalue-canon-invalid:%s:%s' % (tk, cls), 'XSValue canonical form does not validate through XSValue', c, idx, expected='valid', observed=xc)
            if kv.get('can2') != xc:
                self.violation('C09:xsvalue-canon-not-idempotent:%s:%s' % (tk, cls), 'XSValue canon(canon(x)) != canon(x)', c, idx, expected=xc, observed=kv.get('can2'))
            if cv not in ('~', 'skipped') and xc != cv:
                self.violation('C09:diff:canon:%s:%s' % (tk, cls), 'XSValue and DatatypeValidator give different canonical forms', c, idx, expected='identical', observed={'validator': cv, 'xsvalue': xc})
        elif cst not in ('2',):           # 2 = st_NoCanRep (documented: no canonical form for this type)
            self.violation('C09:xsvalue-canon-null:%s:%s:st%s' % (tk, cls, cst), 'XSValue gives no canonical form for a literal it validates (status is not st_NoCanRep)', c, idx, expected='a string or st_NoCanRep', observed=cst)
        act, ast = kv.get('act', '~'), kv.get('ast')
        if act == '~':
            # 3 = st_NoActVal (string family), 7/8 = FOCA0001/FOCA0003 (documented: not representable in the C type)
            if ast not in ('3', '7', '8'):
                self.violation('C09:xsvalue-actual-null:%s:%s:st%s' % (tk, cls, ast), 'XSValue::getActualValue fails on a literal XSValue::validate accepts', c, idx, expected='a value', observed='null st=' + str(ast))
        elif mv.v == ACCEPT:
            ea = expected_actual(t, s, mv)
            if ea is not None:
                F.count('route2:actual-compared')
                if t.name in ('float', 'double') and ea.split(':')[-1] != act.split(':')[-1] and act.split(':')[1] == '4':
                    self.violation('C09:xsvalue-actual:%s:%s' % (tk, cls), 'XSValue actual value differs from the reference value', c, idx, expected=ea, observed=act)
                elif t.name not in ('float', 'double') and not actual_equal(ea, act):
                    self.violation('C09:xsvalue-actual:%s:%s' % (tk, cls), 'XSValue actual value differs from the reference value', c, idx, expected=ea, observed=act)

    # ---- compare matrix --------------------------------------------------------------------------------------------
    def judge_matrix(self, c, idx, t, vals, mvline, rows):
        F = self.F
        n = len(vals)
        if len(rows) != n:
            return
        valid = [x == '1' for x in mvline[2:]]
        M = [r[3:] for r in rows]
        tk = tkey(t)
        prim0 = t.prim if t.variety == 'atomic' else None
        if prim0 not in D.ORDERED_PRIMS:
            # unordered types: only EQUAL / not EQUAL is meaningful (string compare returns a difference)
            M = [[('0' if x == '0' else 'N') if re.fullmatch(r'-?[0-9]+', x) else x for x in row] for row in M]
        mvs = [self.E.evaluate(t, s) for s in vals]
        prim = t.prim if t.variety == 'atomic' else None
        ordered = prim in D.ORDERED_PRIMS
        F.count('matrices')
        F.count('matrix:' + (t.builtin_ancestor().name if t.variety == 'atomic' else t.variety))
        use = [i for i in range(n) if valid[i] and mvs[i].v == ACCEPT]
        if any(x == '-2' for row in M for x in row):
            i, j = next((i, j) for i in range(n) for j in range(n) if M[i][j] == '-2')
            self.violation('C09:order:invalid-result:%s:-2' % tk, 'compare() returned -2 (not one of LESS_THAN, EQUAL, GREATER_THAN, INDETERMINATE)', c, idx, expected='-1, 0, 1 or 2', observed=[vals[i], vals[j], '-2'])
            M = [['2' if x == '-2' else x for x in row] for row in M]

        def sym(x):
            return {'-1': '1', '1': '-1'}.get(x, x)
        for i in use:
            for j in use:
                o = M[i][j]
                F.evals += 1
                if o not in ('-1', '0', '1', '2', 'N'):
                    self.violation('C09:order:compare-throws:%s:%s' % (tk, o.split(':')[-1]), 'compare() threw on two valid literals', c, idx, expected='a result', observed=[vals[i], vals[j], o])
                    continue
                # reference
                try:
                    if t.variety == 'atomic':
                        e = D.prim_cmp(prim, mvs[i].value, mvs[j].value)
                    else:
                        e = 0 if self.E.val_eq(mvs[i], mvs[j]) else 3
                except D.Skip as sk:
                    F.skip(sk.reason)
                    e = None
                if e is not None:
                    if ordered and t.variety == 'atomic':
                        if e == 2 and o == '-1' and M[j][i] == '-1':
                            pass        # reported once per type by the antisymmetry rule below (INDETERMINATE folded into LESS_THAN)
                        elif str(e) != o:
                            ci, cj = lit_class(t, vals[i]), lit_class(t, vals[j])
                            if prim == 'float':
                                try:
                                    if str(D.cmp_float(D.float_value(vals[i], 'd'), D.float_value(vals[j], 'd'))) == o:
                                        ci = cj = 'float-compared-as-double'
                                except D.Skip:
                                    pass
                            if prim == 'duration':
                                a1, a2 = D.parse_duration(vals[i]), D.parse_duration(vals[j])
                                if str(D.cmp_duration((a1[0], Fraction(int(a1[1]))), (a2[0], Fraction(int(a2[1]))))) == o:
                                    ci = cj = 'duration-fraction-ignored'
                            self.violation('C09:order:%s:expected%s-got%s:%s' % (tk, e, o, '|'.join(sorted(set((ci, cj))))), 'compare(a,b) differs from the XSD 1.0 order relation', c, idx,
                                           expected=e, observed=[vals[i], vals[j], o])
                    else:
                        if (e == 0) != (o == '0'):
                            ci, cj = lit_class(t, vals[i]), lit_class(t, vals[j])
                            self.violation('C09:equality:%s:expected%s-got%s:%s' % (tk, 'EQ' if e == 0 else 'NE', o, '|'.join(sorted((ci, cj)))), 'compare(a,b)==EQUAL differs from value-space equality', c, idx,
                                           expected='equal' if e == 0 else 'not equal', observed=[vals[i], vals[j], o])
                # antisymmetry (reference-free)
                if j > i:
                    o2 = M[j][i]
                    F.axioms += 1
                    if ordered:
                        if o == '-1' and o2 == '-1':
                            self.violation('C09:axiom:antisymmetry:%s:both-less-than' % tk, 'compare(a,b) and compare(b,a) both answer LESS_THAN', c, idx, expected='mirror images or INDETERMINATE', observed=[vals[i], vals[j], o, o2])
                        elif sym(o) != o2:
                            self.violation('C09:axiom:antisymmetry:%s:%s/%s' % (tk, o, o2), 'compare(a,b) and compare(b,a) are not mirror images', c, idx, expected=sym(o), observed=[vals[i], vals[j], o, o2])
                    elif (o == '0') != (o2 == '0'):
                        self.violation('C09:axiom:equality-symmetry:%s' % tk, 'compare(a,b)==EQUAL but compare(b,a)!=EQUAL', c, idx, expected=o, observed=[vals[i], vals[j], o, o2])
            if M[i][i] != '0':
                self.violation('C09:axiom:compare-self:%s:%s' % (tk, lit_class(t, vals[i])), 'compare(x,x) is not EQUAL', c, idx, expected='0', observed=[vals[i], M[i][i]])
        # transitivity on triples (reference-free)
        for i in use:
            for j in use:
                if j == i:
                    continue
                a = M[i][j]
                if a not in ('-1', '0') or (a == '-1' and M[j][i] == '-1'):
                    continue
                for k2 in use:
                    if k2 == i or k2 == j:
                        continue
                    b = M[j][k2]
                    if b not in ('-1', '0') or (not ordered and (a != '0' or b != '0')) or (b == '-1' and M[k2][j] == '-1'):
                        continue
                    F.triples += 1
                    exp = '0' if (a == '0' and b == '0') else '-1'
                    if M[i][k2] != exp:
                        self.violation('C09:axiom:transitivity:%s:%s%s->%s' % (tk, a, b, M[i][k2]), 'compare is not transitive on a triple', c, idx, expected=exp,
                                       observed=[vals[i], vals[j], vals[k2], a, b, M[i][k2]])

    # ---- route 3 -----------------------------------------------------------------------------------------------------
    def judge_parse(self, c, idx, env, o, l, sub, vres, vstep):
        F = self.F
        t = env.get(o['t'])
        raw = o.get('raw', '')
        if t is None:
            return
        F.count('route3')
        F.count('route3:' + ('attr' if o.get('att') == '1' else 'elem'))
        F.evals += 1
        tk = tkey(t)
        errs = [e for e in sub if e[0] == 'ERR' and e[1] in ('E', 'F')]
        fatal = [e for e in sub if e[0] == 'ERR' and e[1] == 'F']
        p_ok = (l[2] == 'OK' and not errs)
        if fatal or l[2] != 'OK':
            self.violation('C09:parse-fatal:%s:%s' % (tk, ','.join(sorted(set(e[3] for e in fatal))) or l[2]), 'instance document could not be parsed', c, idx, expected='validity verdict', observed=[l[2]] + [e[1:4] for e in errs])
            return
        ws = t.ws()
        if ws is None:
            norm = D.ws_collapse(raw)
            if norm != raw:
                F.skip('union:whitespace-sensitive-literal')
                return
        else:
            norm = D.ws_apply(ws, raw)
        cls = lit_class(t, norm)
        r1 = vres.get((t.name, norm))
        if r1 is None:
            return
        if r1 != p_ok:
            self.violation('C09:diff:validator-vs-parse:%s:%s:%s:%s' % (tk, cls, 'parse-accepts' if p_ok else 'parse-rejects:' + ','.join(sorted(set(e[3] for e in errs))), 'attr' if o.get('att') == '1' else 'elem'),
                           'in-parse validation and DatatypeValidator::validate disagree on the same (normalised) literal', c, idx, extra=(vstep.get((t.name, norm), idx),),
                           expected='validator: %s' % r1, observed='parse: %s %s' % (p_ok, [e[1:4] for e in errs]))
            return
        if p_ok:
            ps = [e for e in sub if (e[0] == 'PA' and e[1] == 'a') or (e[0] == 'PE' and o.get('att') != '1')]
            if ps:
                kv = parse_kv(ps[0][2:])
                if kv.get('val') != '2':
                    self.violation('C09:psvi-validity:%s' % tk, 'no error reported but PSVI validity is not VALID', c, idx, expected='2', observed=kv.get('val'))
                nv = kv.get('norm', '~')
                if nv != '~' and core.unesc(nv[1:]) != norm:
                    self.violation('C09:psvi-normalized-value:%s:%s' % (tk, D.shape(raw)), 'schema normalized value differs from the white-space-processed literal', c, idx, expected=norm, observed=core.unesc(nv[1:]))
                F.count('route3:psvi')

    # ---- restriction / list / union relations (reference-free) -----------------------------------------------------------
    def culprit(self, t, s, vres):
        """an item / member / base of t on which library and model already disagree for (a token of) s"""
        cands = []
        if t.variety == 'list':
            cands = [(t.item, tok) for tok in (s.split(' ') if s else [])]
        elif t.variety == 'union':
            cands = [(m, s) for m in t.members]
        if t.base is not None:
            cands.append((t.base, s))
        for (m, tok) in cands:
            mv = self.mres.get((m.name, tok))
            lv = vres.get((m.name, tok))
            if mv is not None and lv is not None:
                if mv.v == SKIP or mv.v != (ACCEPT if lv else REJECT):
                    return (m, tok)
            if m.variety != 'atomic' and mv is None:
                cu = self.culprit(m, tok, vres)
                if cu:
                    return cu
        return None

    def part_disagrees(self, m, tok, vres):
        """library and model already disagree on (type m, literal tok): reported / attributed there"""
        mv = self.mres.get((m.name, tok))
        lv = vres.get((m.name, tok))
        return mv is not None and lv is not None and mv.v != SKIP and mv.v != (ACCEPT if lv else REJECT)

    def judge_relations(self, c, env, order, vres, vstep):
        F = self.F
        for (c0, idx, t, s, mv, lib_ok, lraw) in self.deferred:
            cu = self.culprit(t, s, vres)
            if cu is not None:
                F.count('consequential-list-union-disagreements')
                continue
            tk = tkey(t)
            cls = 'items:' + '+'.join(sorted(set(lit_class(t.item, tok) for tok in s.split(' ') if tok))) if t.variety == 'list' and t.item.variety == 'atomic' else D.shape(s)
            cls2 = self.diagnose(t, s, lib_ok, cls, lraw.split(':')[-1])
            if cls2 != cls:
                cls = cls2
                tk = t.variety + ('{' + ','.join(sorted(t.facet_kinds())) + '}' if t.facet_kinds() else '')
            if mv.v == ACCEPT:
                self.violation('C09:rejects:%s:%s:%s' % (tk, cls, lraw.split(':')[-1]), 'validator rejects a list/union literal the reference accepts (items/members agree with the reference)', c, idx,
                               expected='accept', observed=lraw)
            else:
                self.violation('C09:accepts:%s:%s:%s' % (tk, mv.why, cls), 'validator accepts a list/union literal the reference rejects (%s; items/members agree with the reference)' % mv.why, c, idx,
                               expected='reject: ' + mv.why, observed='accepted')
        for (tn, s), ok in list(vres.items()):
            t = env.get(tn)
            if t is None or t.builtin:
                continue
            idx = vstep[(tn, s)]
            if t.base is not None:
                bs = s
                # the base sees the literal normalised by ITS white space rule; only compare when that is the same string
                b_ok = vres.get((t.base.name, bs))
                if b_ok is not None and (t.base.ws() == t.ws() or D.ws_apply(t.base.ws() or 'collapse', s) == s):
                    F.axioms += 1
                    if ok and not b_ok and self.part_disagrees(t.base, bs, vres):
                        F.count('consequential-relation-disagreements')
                    elif ok and not b_ok:
                        self.violation('C09:axiom:restriction-widens:%s:%s' % (tkey(t), lit_class(t, s)), 'a restriction accepts a literal its base type rejects', c, idx,
                                       extra=(vstep.get((t.base.name, bs), idx),), expected='base accepts too', observed='base rejects')
                    if not ok and b_ok and not [f for f in t.facets]:
                        self.violation('C09:axiom:empty-restriction-narrows:%s' % tkey(t), 'a restriction without facets rejects what its base accepts', c, idx, expected='accept', observed='reject')
            elif t.variety == 'list':
                toks = s.split(' ') if s else []
                its = [vres.get((t.item.name, tok)) for tok in toks]
                if all(x is not None for x in its):
                    F.axioms += 1
                    want = all(its)
                    if want != ok and any(self.part_disagrees(t.item, tok, vres) for tok in toks):
                        F.count('consequential-relation-disagreements')
                    elif want != ok:
                        self.violation('C09:axiom:list-vs-items:%s:%s' % (tkey(t), 'list-accepts' if ok else 'list-rejects'), 'verdict of a plain list differs from the conjunction of its item verdicts', c, idx,
                                       extra=tuple(vstep[(t.item.name, tok)] for tok in toks), expected=want, observed=ok)
            elif t.variety == 'union':
                ms = [vres.get((m.name, s)) for m in t.members]
                if all(x is not None for x in ms) and D.ws_collapse(s) == s:
                    F.axioms += 1
                    want = any(ms)
                    if want != ok and any(self.part_disagrees(m, s, vres) for m in t.members):
                        F.count('consequential-relation-disagreements')
                    elif want != ok:
                        self.violation('C09:axiom:union-vs-members:%s:%s' % (tkey(t), 'union-accepts' if ok else 'union-rejects'), 'verdict of a plain union differs from the disjunction of its member verdicts', c, idx,
                                       extra=tuple(vstep[(m.name, s)] for m in t.members), expected=want, observed=ok)


# -----------------------------------------------------------------------------------------------------------------
#  case generators (one chunk = a list of cases, generated, executed and judged inside one worker process)
# -----------------------------------------------------------------------------------------------------------------
def norm_for(t, raw):
    ws = t.ws()
    return D.ws_collapse(raw) if ws is None else D.ws_apply(ws, raw)


PCRASH = [0.03]


def add_value(c, t, raw, r, pfrac, seen, x=False, role='main', parse=True):
    """v step on the normalised literal (+ p step on the raw one)"""
    s = norm_for(t, raw)
    k = (t.name, s)
    cp = crash_prone(t, s)
    full = True
    if cp:
        # literals that hit a known memory-safety finding are executed completely only in a sample of the cases
        # (every such execution costs a sanitizer report and a driver restart); otherwise validate()/compare() only
        full = r.random() < PCRASH[0]
        if not full and cp == 'year-overflow':
            return
    if k not in seen:
        seen.add(k)
        o = dict(k='v', t=t.name, i='%d' % len(c.steps), role=role)
        if x:
            o['x'] = '1'
        if not full:
            o['nc'] = '1'
        c.txt(s, **o)
    if parse and full and r.random() < pfrac and route3_ok(t, raw) and ('p', t.name, raw) not in seen:
        seen.add(('p', t.name, raw))
        att = '1' if r.random() < 0.4 else '0'
        c.meta.setdefault('pending', []).append((t.name, raw, att))


def add_parts(c, t, raw, r, seen, depth=0):
    """v steps (route 1 only) of the same literal against the base / item / member types, recursively: feeds the
    restriction-never-widens and list/union-combination rules and the attribution of consequential disagreements"""
    if depth > 4:
        return
    s = norm_for(t, raw)
    if t.builtin:
        if t.variety == 'list':
            for tok in s.split(' '):
                if tok:
                    add_value(c, t.item, tok, r, 0, seen, role='item', parse=False)
        return
    if t.base is not None:
        if norm_for(t.base, raw) == s:
            add_value(c, t.base, raw, r, 0, seen, role='base', parse=False)
            add_parts(c, t.base, raw, r, seen, depth + 1)
        return
    if t.variety == 'list':
        for tok in s.split(' '):
            if tok:
                add_value(c, t.item, tok, r, 0, seen, role='item', parse=False)
                add_parts(c, t.item, tok, r, seen, depth + 1)
    elif t.variety == 'union':
        for m in t.members:
            add_value(c, m, s, r, 0, seen, role='member', parse=False)
            add_parts(c, m, s, r, seen, depth + 1)


def finish_case(c, order, elem_types):
    """append schema + parse steps (after all v steps so that the judge knows the route 1 verdicts)"""
    pend = c.meta.pop('pending', [])
    if not pend:
        return
    env = dict(D.BUILTINS)
    for t in order:
        env[t.name] = t
    ets = []
    for tn, raw, att in pend:
        if env[tn] not in ets:
            ets.append(env[tn])
    c.doc(D.schema_text(order, ets), k='schema')
    for tn, raw, att in pend:
        c.doc(D.instance_doc(env[tn], raw, att == '1'), k='p', t=tn, raw=raw, att=att, i='%d' % len(c.steps))


def chunk_builtin(r, tname, cfg, cid):
    t = D.BUILTINS[tname]
    lits = D.literals_for(r, tname, cfg['nb'])
    cases = []
    per = 90
    for i in range(0, len(lits), per):
        c = core.Case('%s-%d' % (cid, i // per), 'dtype', meta={'class': 'builtin:' + tname})
        seen = set()
        for raw, src in lits[i:i + per]:
            add_value(c, t, raw, r, cfg['pfrac'], seen, x=True)
            if t.variety == 'list':
                for tok in D.ws_collapse(raw).split(' '):
                    if tok:
                        add_value(c, t.item, tok, r, 0, seen, role='item', parse=False)
        finish_case(c, [], [])
        cases.append(c)
    return cases


_BASE_WEIGHTS = ['decimal'] * 6 + ['integer', 'int', 'long', 'short', 'byte', 'unsignedByte', 'unsignedInt', 'unsignedLong', 'positiveInteger', 'nonPositiveInteger', 'negativeInteger', 'nonNegativeInteger', 'unsignedShort'] + \
    ['float'] * 3 + ['double'] * 3 + ['dateTime'] * 4 + ['date'] * 3 + ['time'] * 2 + ['duration'] * 3 + ['gYearMonth', 'gYear', 'gMonthDay', 'gDay', 'gMonth'] + \
    ['string'] * 3 + ['normalizedString', 'token', 'token', 'language', 'NMTOKEN', 'Name', 'NCName', 'ID', 'anyURI', 'QName'] + ['hexBinary'] * 2 + ['base64Binary'] * 2 + ['boolean']


def make_pool(r, ev, t, bname, n):
    pool = []
    seen = set()
    for raw, _ in D.literals_for(r, bname, n):
        s = norm_for(t, raw)
        if s in seen:
            continue
        seen.add(s)
        pool.append((raw, s, ev.evaluate(t, s)))
    return pool


def chunk_restriction(r, cfg, cid, steps):
    """a chain of `steps` restriction steps on a built-in; values around the facet boundaries"""
    ev = D.Evaluator()
    bname = r.choice(_BASE_WEIGHTS)
    base = D.BUILTINS[bname]
    pool = make_pool(r, ev, base, bname if base.variety == 'atomic' else bname, 36)
    order = []
    cur = base
    extras = []
    for k in range(steps):
        res = D.gen_restriction(r, cur, ev, 'T%d' % (k + 1), [(s, ev.evaluate(cur, s)) for _, s, _ in pool] + [(x, ev.evaluate(cur, x)) for x in extras[:20]])
        if res is None:
            break
        cur, ex = res
        order.append(cur)
        extras += ex
    if not order:
        return []
    c = core.Case(cid, 'dtype', meta={'class': 'restriction:' + bname})
    add_type_steps(c, order)
    seen = set()
    raws = [raw for raw, _, _ in pool] + extras
    r.shuffle(raws)
    raws = raws[:cfg['nv']]
    # white space variants of a few
    for raw in list(raws[:4]):
        if cur.ws() != 'preserve':
            raws.append(r.choice([' ', '\n', '\t ']) + raw + r.choice([' ', '', '\r\n']))
    for raw in raws:
        add_value(c, cur, raw, r, cfg['pfrac'], seen)
        add_parts(c, cur, raw, r, seen)       # the same literal against every ancestor (restriction-never-widens rule)
    finish_case(c, order, [])
    return [c]


def pick_item_type(r, ev, order, allow_union=True):
    """an atomic (built-in or freshly restricted) or union type for use as list item / union member"""
    bname = r.choice(['int', 'integer', 'decimal', 'byte', 'boolean', 'token', 'NCName', 'NMTOKEN', 'date', 'gYear', 'float', 'double', 'hexBinary', 'QName', 'language', 'unsignedShort', 'dateTime', 'duration', 'time', 'base64Binary',
                       'Name', 'anyURI', 'positiveInteger'])
    b = D.BUILTINS[bname]
    if r.random() < 0.35:
        pool = make_pool(r, ev, b, bname, 24)
        res = D.gen_restriction(r, b, ev, 'I%d' % (len(order) + 1), [(s, v) for _, s, v in pool])
        if res is not None:
            order.append(res[0])
            return res[0], bname
    return b, bname


def chunk_list(r, cfg, cid):
    ev = D.Evaluator()
    order = []
    if r.random() < 0.25:
        # list of union
        m1, b1 = pick_item_type(r, ev, order)
        m2, b2 = pick_item_type(r, ev, order)
        item = D.Type('U%d' % (len(order) + 1), 'union', members=[m1, m2])
        order.append(item)
        bnames = [b1, b2]
    else:
        item, b1 = pick_item_type(r, ev, order)
        bnames = [b1]
    if item.variety == 'atomic' and item.prim == 'base64Binary':
        item, bnames = D.BUILTINS['int'], ['int']       # base64 literals may contain blanks: not usable as list items
    lt = D.Type('L%d' % (len(order) + 1), 'list', item=item)
    order.append(lt)
    toks = []
    for bn in bnames:
        for raw, _ in D.literals_for(r, bn, 30):
            s = D.ws_collapse(raw)
            if s and ' ' not in s:
                toks.append(s)
    r.shuffle(toks)
    good = [x for x in toks if ev.evaluate(item, x).v == ACCEPT] or ['1']
    lists = []
    for _ in range(cfg['nv']):
        k = r.choice([0, 1, 1, 2, 2, 3, 4, 6])
        src = good if r.random() < 0.7 else toks
        lists.append(r.choice([' ', ' ', '  ', '\t', '\n']).join(r.choice(src) for _ in range(k)))
    cur = lt
    if r.random() < 0.7:
        pool = [(D.ws_collapse(x), ev.evaluate(lt, D.ws_collapse(x))) for x in lists]
        res = D.gen_restriction(r, lt, ev, 'R%d' % (len(order) + 1), pool)
        if res is not None:
            cur = res[0]
            order.append(cur)
            lists += res[1]
    c = core.Case(cid, 'dtype', meta={'class': 'list'})
    add_type_steps(c, order)
    seen = set()
    for raw in lists:
        if r.random() < 0.15:
            raw = ' ' + raw + '\n'
        add_value(c, cur, raw, r, cfg['pfrac'], seen)
        add_parts(c, cur, raw, r, seen)
    finish_case(c, order, [])
    return [c]


def chunk_union(r, cfg, cid):
    ev = D.Evaluator()
    order = []
    members, bnames = [], []
    for _ in range(r.choice([2, 2, 3])):
        if r.random() < 0.2:
            it, bn = pick_item_type(r, ev, order)
            if it.prim == 'base64Binary':
                it, bn = D.BUILTINS['int'], 'int'
            m = D.Type('ML%d' % (len(order) + 1), 'list', item=it)
            order.append(m)
        else:
            m, bn = pick_item_type(r, ev, order)
        members.append(m)
        bnames.append(bn)
    ut = D.Type('U%d' % (len(order) + 1), 'union', members=members)
    order.append(ut)
    lits = []
    for m, bn in zip(members, bnames):
        for raw, _ in D.literals_for(r, bn, 24):
            s = D.ws_collapse(raw)
            lits.append(s)
            if m.variety == 'list' and r.random() < 0.5:
                lits.append(s + ' ' + s)
    r.shuffle(lits)
    lits = lits[:cfg['nv']]
    cur = ut
    if r.random() < 0.6:
        pool = [(x, ev.evaluate(ut, x)) for x in lits]
        res = D.gen_restriction(r, ut, ev, 'R%d' % (len(order) + 1), pool)
        if res is not None:
            cur = res[0]
            order.append(cur)
            lits += res[1]
    c = core.Case(cid, 'dtype', meta={'class': 'union'})
    add_type_steps(c, order)
    seen = set()
    for raw in lits:
        add_value(c, cur, raw, r, cfg['pfrac'], seen)
        add_parts(c, cur, raw, r, seen)
    finish_case(c, order, [])
    return [c]


_MATRIX_TYPES = ['decimal'] * 3 + ['integer', 'long', 'unsignedByte'] + ['float'] * 3 + ['double'] * 3 + ['dateTime'] * 5 + ['date'] * 2 + ['time'] * 2 + ['duration'] * 5 + \
    ['gYearMonth', 'gYear', 'gMonthDay', 'gDay', 'gMonth', 'boolean', 'hexBinary', 'base64Binary', 'string', 'token', 'QName', 'anyURI', 'NCName', 'ENTITY']


def chunk_matrix(r, cfg, cid, tname=None):
    ev = D.Evaluator()
    tname = tname or r.choice(_MATRIX_TYPES)
    t = D.BUILTINS[tname]
    pool = make_pool(r, ev, t, tname, 70)
    good = [s for _, s, v in pool if v.v == ACCEPT]
    if len(good) < 3:
        return []
    vals = []
    for _ in range(60):
        if len(vals) >= MATRIX_N:
            break
        a = r.choice(good)
        if a not in vals:
            vals.append(a)
        k = r.random()
        if k < 0.5:
            for x in D.alt_forms(r, t, a, ev)[:2]:
                if x not in vals:
                    vals.append(x)
        elif k < 0.8:
            for x in D.neighbours(r, t, a)[:2]:
                x = norm_for(t, x)
                if x not in vals and ev.evaluate(t, x).v == ACCEPT:
                    vals.append(x)
    vals = vals[:MATRIX_N]
    c = core.Case(cid, 'dtype', meta={'class': 'matrix:' + tname})
    c.txt(SEP1.join(vals), k='m', t=tname, i='m')
    if any(SEP1 in v for v in vals):
        return []
    return [c]


# deliberately inconsistent facet sets: the factory (and the schema loader) must refuse them
BAD_DERIVATIONS = [
    ('decimal', [('minInclusive', '10'), ('maxInclusive', '9')], 'min>max'),
    ('int', [('minExclusive', '6'), ('maxExclusive', '5')], 'minEx>maxEx'),
    ('byte', [('maxInclusive', '128')], 'bound-outside-base'),
    ('unsignedByte', [('minInclusive', '-1')], 'bound-outside-base'),
    ('decimal', [('totalDigits', '0')], 'totalDigits-zero'),
    ('decimal', [('totalDigits', '2'), ('fractionDigits', '3')], 'fractionDigits>totalDigits'),
    ('string', [('minLength', '3'), ('maxLength', '2')], 'minLength>maxLength'),
    ('string', [('length', '-1')], 'negative-length'),
    ('string', [('length', '2'), ('maxLength', '3')], 'length+maxLength'),
    ('integer', [('enumeration', 'abc')], 'enumeration-not-in-base'),
    ('date', [('maxInclusive', '2001-02-30')], 'bound-not-in-base'),
    ('integer', [('fractionDigits', '1')], 'fixed-fractionDigits'),
    ('decimal', [('minInclusive', '1'), ('minExclusive', '1')], 'minIn+minEx'),
    ('token', [('whiteSpace', 'preserve')], 'whiteSpace-loosened'),
    ('dateTime', [('minInclusive', '2000-01-01T00:00:00Z'), ('maxInclusive', '1999-01-01T00:00:00Z')], 'min>max'),
]


def chunk_bad(r, cfg, cid):
    cases = []
    for i, (bn, facets, why) in enumerate(BAD_DERIVATIONS):
        t = D.Type('B1', 'atomic', base=D.BUILTINS[bn], facets=facets)
        c = core.Case('%s-%d' % (cid, i), 'dtype', meta={'class': 'bad-derivation', 'expect_type_error': 'B1', 'why': why})
        add_type_steps(c, [t])
        c.doc(D.schema_text([t], [t]), k='schema')
        cases.append(c)
    # fixed probe: the zero-item value of a user-defined list of NMTOKEN-derived items, as attribute and as element content
    I1 = D.Type('I1', 'atomic', base=D.BUILTINS['NMTOKEN'], facets=[('maxLength', '3')])
    L2 = D.Type('L2', 'list', item=I1)
    L3 = D.Type('L3', 'list', item=D.BUILTINS['int'])
    c = core.Case('%s-emptylist' % cid, 'dtype', meta={'class': 'probe:empty-list'})
    add_type_steps(c, [I1, L2, L3])
    for t in (L2, L3):
        c.txt('', k='v', t=t.name, i='%d' % len(c.steps), role='main', nc='1')
    c.doc(D.schema_text([I1, L2, L3], [L2, L3]), k='schema')
    for t in (L2, L3):
        c.doc(D.instance_doc(t, '', False), k='p', t=t.name, raw='', att='0', i='%d' % len(c.steps))
    c.doc(D.instance_doc(L2, '', True), k='p', t='L2', raw='', att='1', i='%d' % len(c.steps))
    cases.append(c)
    return cases


# -----------------------------------------------------------------------------------------------------------------
#  chunk execution
# -----------------------------------------------------------------------------------------------------------------
def _cfg(tier):
    cfg = dict(TIERS[tier])
    try:
        sc = float(os.environ.get('XV_C09_SCALE', '1'))      # development only: shrink/grow the counts of a tier
    except ValueError:
        sc = 1.0
    if sc != 1.0:
        for k in ('nb', 'nr', 'nc', 'nl', 'nu', 'nm'):
            cfg[k] = max(1, int(cfg[k] * sc))
    return cfg


def plan(tier, seed):
    cfg = _cfg(tier)
    chunks = []
    names = [n for n in D.BUILTINS if n != 'NOTATION']
    for n in names:
        chunks.append(('builtin', n, 0))
    grp = 6 if tier == 'quick' else 40
    for kind, total in (('restr', cfg['nr']), ('chain', cfg['nc']), ('list', cfg['nl']), ('union', cfg['nu']), ('matrix', cfg['nm'])):
        for i in range(0, total, grp):
            chunks.append((kind, i, min(grp, total - i)))
    chunks.append(('bad', 0, 0))
    return chunks


def build_chunk(tier, seed, ch):
    cfg = _cfg(tier)
    PCRASH[0] = cfg['pcrash']
    kind, a, n = ch
    cases = []
    if kind == 'builtin':
        r = core.rng(seed, PID, 'builtin', a)
        cases += chunk_builtin(r, a, cfg, 'b-' + a)
    elif kind == 'bad':
        cases += chunk_bad(core.rng(seed, PID, 'bad'), cfg, 'bad')
    else:
        for i in range(a, a + n):
            r = core.rng(seed, PID, kind, i)
            cid = '%s-%d' % (kind, i)
            if kind == 'restr':
                cases += chunk_restriction(r, cfg, cid, 1)
            elif kind == 'chain':
                cases += chunk_restriction(r, cfg, cid, r.choice([2, 2, 3]))
            elif kind == 'list':
                cases += chunk_list(r, cfg, cid)
            elif kind == 'union':
                cases += chunk_union(r, cfg, cid)
            elif kind == 'matrix':
                # the first matrices of a run walk through every matrix type once, then random
                mt = sorted(set(_MATRIX_TYPES))
                cases += chunk_matrix(r, cfg, cid, mt[i] if i < len(mt) else None)
    return cases


def strip_markers(rec):
    rec.lines = [l for l in rec.lines if not l.startswith('S\t')]


def crashed_step(rec):
    last = None
    for l in rec.lines:
        if l.startswith('S\t'):
            last = int(l[2:])
    return last


def run_isolated(binary, cases, F, tag='c09'):
    """run the cases; when one crashes, attribute the crash to its step (the driver flushes a marker before every
    step), report it with a reduced witness, drop that step and run the rest of the case again"""
    out = {}
    todo = list(cases)
    rounds = 0
    while todo and rounds < 40:
        rounds += 1
        recs = None
        for attempt in range(8):
            try:
                recs = core.run_shard(binary, todo, tag=tag, per_case_timeout=60.0)
                break
            except RuntimeError as e:
                msg = str(e)
                if 'no progress' not in msg:
                    raise
                if re.search(r'file too short|error while loading shared libraries|cannot open shared object|Text file busy', msg):
                    # the shared build cache may be relinking the library at this very moment (another check rebuilding
                    # after a commit in /repo): the driver cannot start; wait and try again
                    if attempt == 7:
                        raise
                    time.sleep(4 + 3 * attempt)
                    continue
                # the driver starts but dies before the first case: the library fails in XMLPlatformUtils::Initialize (e.g. a
                # built-in datatype validator cannot be constructed -> panic): that is a finding, not a harness problem
                F.viol.append(('C09:library-fails-at-initialisation', 'the driver process dies before the first case (XMLPlatformUtils::Initialize / built-in datatype registry)',
                               {'expected': 'driver starts', 'observed': msg[-1500:], 'case': todo[0].to_json()}))
                return out
        again = []
        for c in todo:
            rec = recs.get(c.id)
            if rec is None:
                F.viol.append(('__harness__', 'case without record: ' + c.id, {}))
                continue
            if rec.complete and not rec.crash and not rec.hang:
                strip_markers(rec)
                out[c.id] = (c, rec)
                continue
            st = crashed_step(rec)
            if st is None or st >= len(c.steps):
                F.viol.append(('__crash__', '', {'rec': rec, 'case': c}))
                continue
            kind = 'hang' if (rec.hang and not rec.crash) else 'crash'
            if rec.crash and rec.crash.key().endswith(':?'):
                # the report came without symbolised frames (llvm-symbolizer gives up on an overloaded machine): run the
                # single step again, alone, until the innermost library frame is known (the crash is deterministic)
                red = core.Case.from_json(reduced_case(c, st))
                for _ in range(4):
                    r2 = core.run_shard(binary, [red], tag=tag + 's', per_case_timeout=120.0).get(red.id)
                    if r2 is not None and r2.crash and not r2.crash.key().endswith(':?'):
                        rec.crash = r2.crash
                        break
                    time.sleep(3)
            key = 'C09:' + (rec.crash.key() if rec.crash else 'hang:' + c.meta.get('class', 'dtype'))
            o = c.steps[st][2]
            what = 'sanitizer/crash report in step %s (k=%s, type=%s)' % (st, o.get('k'), o.get('t', o.get('name', '')))
            F.viol.append((key, what, {'case': reduced_case(c, st), 'step': o.get('i'), 'literal': c.steps[st][1] if c.steps[st][0] == 'TXT' else o.get('raw'),
                                       'expected': 'no crash', 'observed': kind, 'report': rec.crash.text[:5000] if rec.crash else ''}))
            F.count('crashes')
            c2 = core.Case(c.id, c.cmd, c.opt, steps=[x for i, x in enumerate(c.steps) if i != st], meta=c.meta)
            again.append(c2)
        ex = recs.get('__exit__')
        if ex is not None and ex.crash:
            F.viol.append(('C09:exit:' + ex.crash.key(), 'driver process failed at exit', {'report': ex.crash.text[:4000]}))
        todo = again
    return out


def run_chunk(args):
    binary, tier, seed, ch = args
    F = Findings()
    try:
        cases = build_chunk(tier, seed, ch)
        if not cases:
            return F
        ran = run_isolated(binary, cases, F)
        J = Judge(F)
        for c in cases:
            if c.id in ran:
                cc, rec = ran[c.id]          # the case as it finally ran (crashing steps removed)
                J.judge_case(cc, rec)
    except Exception as e:
        F.viol.append(('__harness__', '%s: %s' % (type(e).__name__, e), {'trace': traceback.format_exc(), 'chunk': list(map(str, ch))}))
    return F


def run(tier):
    ck = core.Check(PID, tier)
    extra = os.environ.get('XV_C09_EXTRA_KNOWN')
    if extra and os.path.exists(extra):
        # convenience for trying out proposed known-finding entries (notes/C09.known.json) before they are merged into
        # known_findings.json; never set by the registered check command
        ck.known = list(ck.known) + json.load(open(extra))
    binary = build.ensure('asan', parts=['dtype'])
    seed = ck.seed
    chunks = plan(tier, seed)
    ck.note('%d chunks, %d workers' % (len(chunks), workers()))
    tot = Findings()
    harness = []
    # big chunks first
    chunks.sort(key=lambda c: (0 if c[0] == 'builtin' else 1))
    with ProcessPoolExecutor(workers()) as ex:
        for F in ex.map(run_chunk, [(binary, tier, seed, ch) for ch in chunks], chunksize=1):
            for key, what, w in F.viol:
                if key == '__crash__':
                    ck.crash_violation(w['rec'], w['case'], prefix='C09:') if w['rec'] is not None else harness.append('case without record: ' + w['case'].id)
                elif key == '__harness__':
                    harness.append(what + '\n' + w.get('trace', ''))
                else:
                    ck.violation(key, what, w)
            for k, v in F.cov.items():
                tot.cov[k] = tot.cov.get(k, 0) + v
            for k, v in F.skips.items():
                tot.skips[k] = tot.skips.get(k, 0) + v
            tot.distinct |= F.distinct
            tot.evals += F.evals
            tot.triples += F.triples
            tot.axioms += F.axioms
            for s in F.samples:
                ck.sample(s)
    ck.evaluations = tot.evals
    ck.distinct = tot.distinct
    ck.rule = ('distinct = different (built-in ancestry + facet list, normalised literal) pairs on which the reference model gave a verdict (accept or reject, not skip); '
               'evaluations = literals judged on route 1 + compare pairs + instance documents parsed')
    cov = tot.cov
    ck.cov['per_type_route1'] = {k[7:]: v for k, v in sorted(cov.items()) if k.startswith('route1:')}
    ck.cov['model_verdicts'] = {k[8:]: v for k, v in cov.items() if k.startswith('verdict:')}
    ck.cov['skipped_ambiguous'] = dict(sorted(tot.skips.items()))
    ck.cov['skipped_ambiguous_total'] = sum(tot.skips.values())
    ck.cov['route2_xsvalue'] = cov.get('route2', 0)
    ck.cov['route2_actual_values_compared'] = cov.get('route2:actual-compared', 0)
    ck.cov['route3_parses'] = cov.get('route3', 0)
    ck.cov['route3_attr'] = cov.get('route3:attr', 0)
    ck.cov['route3_psvi'] = cov.get('route3:psvi', 0)
    ck.cov['schemas_loaded'] = cov.get('schemas', 0)
    ck.cov['derived_types'] = {k[6:]: v for k, v in cov.items() if k.startswith('types:')}
    ck.cov['canonical_forms_compared'] = cov.get('canon:compared', 0)
    ck.cov['matrices'] = cov.get('matrices', 0)
    ck.cov['matrix_types'] = {k[7:]: v for k, v in sorted(cov.items()) if k.startswith('matrix:')}
    ck.cov['order_triples'] = tot.triples
    ck.cov['axiom_checks'] = tot.axioms
    ck.cov['bad_derivations_refused'] = cov.get('type-error-as-expected', 0)
    ck.assumptions = ['XSD 1.0 Second Edition Part 2 is the reference; its grey spots (see skipped_ambiguous) are not judged',
                      'doc/schema.xml "out-of-bound float values" is taken as the contract for float/double literals outside the representable range',
                      'pattern facets are restricted to a regex subset on which python re and XSD agree (regex engine itself is C11)']
    for h_ in harness[:3]:
        ck.inconclusive.append('harness: ' + h_[:600])
    missing = [n for n in D.BUILTINS if n != 'NOTATION' and not cov.get('route1:' + (n if D.BUILTINS[n].variety == 'atomic' else 'list'))]
    if missing:
        ck.inconclusive.append('built-in types never exercised: %s' % missing)
    if not cov.get('route3'):
        ck.inconclusive.append('route 3 (in-parse) never exercised')
    try:
        sc = min(1.0, float(os.environ.get('XV_C09_SCALE', '1')))
    except ValueError:
        sc = 1.0
    if tot.triples < (20000 if tier == 'quick' else 200000) * sc:
        ck.inconclusive.append('only %d order triples' % tot.triples)
    if sum(tot.skips.values()) > 0.25 * max(1, tot.evals):
        ck.inconclusive.append('too many skipped cases: %d of %d' % (sum(tot.skips.values()), tot.evals))
    return ck.finish()


def replay(j):
    w = j['witness']
    c = core.Case.from_json(w['case'])
    binary = build.ensure('asan', parts=['dtype'])
    recs = core.run_shard(binary, [c], tag='c09r', per_case_timeout=60.0)
    rec = recs.get(c.id)
    print('replay of %s' % j.get('key'))
    print('  recorded expected: %r' % (w.get('expected'),))
    print('  recorded observed: %r' % (w.get('observed'),))
    if rec is None or not rec.complete or rec.crash or rec.hang:
        print('  now: crash/hang %r' % (rec.crash if rec else None))
        return 1
    strip_markers(rec)
    for l in rec.lines:
        print('  | ' + l)
    F = Findings()
    Judge(F).judge_case(c, rec)
    keys = [k for k, _, _ in F.viol]
    for k, what, ww in F.viol:
        print('  now: %s  expected=%r observed=%r' % (k, ww.get('expected'), ww.get('observed')))
    if j.get('key') in keys:
        print('  STILL FAILS')
        return 1
    print('  no longer fails' + (' (other keys: %s)' % keys if keys else ''))
    return 0
