"""C07: DTD validation reports a validity error iff a validity constraint is violated (and never a fatal one).
Oracles: cmref (Brzozowski derivatives) for children content models, exhaustively over all child sequences up to a
bound for each generated model; explicit expectation for each attribute / ID / IDREF / ENTITY / NOTATION / root /
standalone validity constraint (single-constraint mutants of valid base documents); differential: events with
validation on vs off must agree (defaults and entity declarations take effect identically)."""
import collections, itertools
from .. import core, build, parsecmp as pc
from ..gen import dtdgen as dg

PID = 'C07'
POOL = ['a', 'b', 'c', 'd']


def doc_for(model_text, seq, extra_decl='', sep=''):
    decls = '<!ELEMENT r %s>' % model_text + ''.join('<!ELEMENT %s EMPTY>' % n for n in POOL + ['z']) + extra_decl
    body = sep.join('<%s/>' % n for n in seq)
    if sep and seq:
        body = sep + body + sep
    return ('<!DOCTYPE r [%s]><r>%s</r>' % (decls, body)).encode()


def vc_cases(r):
    """(name, internal subset, external subset or None, standalone, body, expected) — expected in valid/invalid"""
    C = []
    E = '<!ELEMENT r (e*)><!ELEMENT e (#PCDATA)>'

    def add(name, internal, body, expected, ext=None, standalone=None, root='r'):
        C.append((name, internal, ext, standalone, body, expected, root))
    A = E + '<!ATTLIST e %s>'
    # required / implied / fixed / default
    add('required-present', A % 'q CDATA #REQUIRED', '<r><e q="1"/></r>', 'valid')
    add('required-missing', A % 'q CDATA #REQUIRED', '<r><e/></r>', 'invalid')
    add('implied-missing', A % 'q CDATA #IMPLIED', '<r><e/></r>', 'valid')
    add('fixed-match', A % 'q CDATA #FIXED "v w"', '<r><e q="v w"/></r>', 'valid')
    add('fixed-match-after-normalization', A % 'q NMTOKENS #FIXED "v w"', '<r><e q=" v   w "/></r>', 'valid')
    add('fixed-mismatch', A % 'q CDATA #FIXED "v"', '<r><e q="x"/></r>', 'invalid')
    add('fixed-absent-gets-default', A % 'q CDATA #FIXED "v"', '<r><e/></r>', 'valid')
    add('undeclared-attribute', E, '<r><e q="1"/></r>', 'invalid')
    add('undeclared-element', E, '<r><e/><u/></r>', 'invalid')
    add('root-name-mismatch', E, '<e>t</e>', 'invalid', root='r')
    add('root-name-match', E, '<r/>', 'valid')
    # enumeration / nmtoken / name syntax
    add('enum-member', A % 'q (x|y|z) #IMPLIED', '<r><e q="y"/></r>', 'valid')
    add('enum-member-with-space', A % 'q (x|y|z) #IMPLIED', '<r><e q=" y "/></r>', 'valid')
    add('enum-nonmember', A % 'q (x|y|z) #IMPLIED', '<r><e q="w"/></r>', 'invalid')
    add('enum-default-nonmember', A % 'q (x|y) "w"', '<r><e/></r>', 'invalid')
    add('nmtoken-ok', A % 'q NMTOKEN #IMPLIED', '<r><e q="-1.x:y"/></r>', 'valid')
    add('nmtoken-bad', A % 'q NMTOKEN #IMPLIED', '<r><e q="a b"/></r>', 'invalid')
    add('nmtoken-bad-char', A % 'q NMTOKEN #IMPLIED', '<r><e q="a,b"/></r>', 'invalid')
    add('nmtoken-empty', A % 'q NMTOKEN #IMPLIED', '<r><e q=""/></r>', 'invalid')
    add('nmtokens-ok', A % 'q NMTOKENS #IMPLIED', '<r><e q="1 2  3"/></r>', 'valid')
    add('nmtokens-empty', A % 'q NMTOKENS #IMPLIED', '<r><e q="  "/></r>', 'invalid')
    # ID / IDREF
    add('id-unique', A % 'i ID #IMPLIED', '<r><e i="x1"/><e i="x2"/></r>', 'valid')
    add('id-duplicate', A % 'i ID #IMPLIED', '<r><e i="x1"/><e i="x1"/></r>', 'invalid')
    add('id-duplicate-across-types', E + '<!ELEMENT f EMPTY><!ATTLIST e i ID #IMPLIED><!ATTLIST f j ID #IMPLIED>', '<r><e i="x1"/></r>', 'valid')
    add('id-not-a-name', A % 'i ID #IMPLIED', '<r><e i="1x"/></r>', 'invalid')
    add('id-two-per-element-type', A % 'i ID #IMPLIED j ID #IMPLIED', '<r><e/></r>', 'invalid')
    add('id-with-default', A % 'i ID "x1"', '<r><e/></r>', 'invalid')
    add('id-fixed', A % 'i ID #FIXED "x1"', '<r><e/></r>', 'invalid')
    add('idref-resolved', A % 'i ID #IMPLIED k IDREF #IMPLIED', '<r><e k="x2"/><e i="x2"/></r>', 'valid')
    add('idref-forward-and-self', A % 'i ID #IMPLIED k IDREF #IMPLIED', '<r><e i="x1" k="x1"/></r>', 'valid')
    add('idref-dangling', A % 'i ID #IMPLIED k IDREF #IMPLIED', '<r><e k="nope"/><e i="x2"/></r>', 'invalid')
    add('idrefs-resolved', A % 'i ID #IMPLIED k IDREFS #IMPLIED', '<r><e i="x1"/><e i="x2" k=" x1  x2 "/></r>', 'valid')
    add('idrefs-one-dangling', A % 'i ID #IMPLIED k IDREFS #IMPLIED', '<r><e i="x1"/><e k="x1 x9"/></r>', 'invalid')
    add('idref-not-a-name', A % 'k IDREF #IMPLIED', '<r><e k="1"/></r>', 'invalid')
    # ENTITY / NOTATION
    N = '<!NOTATION n1 SYSTEM "n1"><!NOTATION n2 PUBLIC "p2">'
    add('entity-attr-unparsed', A % 'u ENTITY #IMPLIED' + N + '<!ENTITY pic SYSTEM "p.gif" NDATA n1>', '<r><e u="pic"/></r>', 'valid')
    add('entity-attr-parsed', A % 'u ENTITY #IMPLIED' + '<!ENTITY txt "t">', '<r><e u="txt"/></r>', 'invalid')
    add('entity-attr-undeclared', A % 'u ENTITY #IMPLIED', '<r><e u="nope"/></r>', 'invalid')
    add('entities-attr', A % 'u ENTITIES #IMPLIED' + N + '<!ENTITY p1 SYSTEM "p" NDATA n1><!ENTITY p2 SYSTEM "q" NDATA n2>', '<r><e u="p1 p2"/></r>', 'valid')
    add('entities-attr-one-bad', A % 'u ENTITIES #IMPLIED' + N + '<!ENTITY p1 SYSTEM "p" NDATA n1>', '<r><e u="p1 p3"/></r>', 'invalid')
    add('unparsed-entity-undeclared-notation', A % 'u ENTITY #IMPLIED' + '<!ENTITY pic SYSTEM "p.gif" NDATA nx>', '<r><e u="pic"/></r>', 'invalid')
    add('notation-attr-ok', A % 'n NOTATION (n1|n2) #IMPLIED' + N, '<r><e n="n2"/></r>', 'valid')
    add('notation-attr-not-in-list', A % 'n NOTATION (n1) #IMPLIED' + N, '<r><e n="n2"/></r>', 'invalid')
    add('notation-attr-undeclared-notation', A % 'n NOTATION (n1|n3) #IMPLIED' + N, '<r><e n="n1"/></r>', 'invalid')
    add('notation-attr-on-empty-element', '<!ELEMENT r (e*)><!ELEMENT e EMPTY><!ATTLIST e n NOTATION (n1) #IMPLIED>' + N, '<r><e/></r>', 'invalid')
    add('two-notation-attrs', A % 'n NOTATION (n1) #IMPLIED m NOTATION (n2) #IMPLIED' + N, '<r><e/></r>', 'invalid')
    # element content vs character data
    K = '<!ELEMENT r (e,e)><!ELEMENT e EMPTY>'
    add('children-whitespace-ok', K, '<r> <e/>\n<e/>\t</r>', 'valid')
    add('children-text-not-ok', K, '<r><e/>x<e/></r>', 'invalid')
    add('children-charref-space-not-ok', K, '<r><e/>&#32;<e/></r>', 'invalid')
    add('children-cdata-not-ok', K, '<r><e/><![CDATA[ ]]><e/></r>', 'invalid')
    add('children-comment-pi-ok', K, '<r><!--c--><e/><?p?><e/></r>', 'valid')
    add('empty-with-whitespace', K, '<r><e> </e><e/></r>', 'invalid')
    add('empty-with-comment', K, '<r><e><!--c--></e><e/></r>', 'invalid')
    add('empty-start-end-tags', K, '<r><e></e><e/></r>', 'valid')
    add('mixed-ok', '<!ELEMENT r (#PCDATA|e)*><!ELEMENT e EMPTY>', '<r>t<e/>u<e/><e/></r>', 'valid')
    add('mixed-undeclared-child', '<!ELEMENT r (#PCDATA|e)*><!ELEMENT e EMPTY><!ELEMENT f EMPTY>', '<r>t<f/></r>', 'invalid')
    add('pcdata-only-with-child', '<!ELEMENT r (#PCDATA)><!ELEMENT e EMPTY>', '<r>t<e/></r>', 'invalid')
    add('any-with-declared-children', '<!ELEMENT r ANY><!ELEMENT e EMPTY>', '<r>t<e/>u</r>', 'valid')
    add('any-with-undeclared-child', '<!ELEMENT r ANY>', '<r><u/></r>', 'invalid')
    add('element-declared-twice', '<!ELEMENT r ANY><!ELEMENT r ANY>', '<r/>', 'invalid')
    add('mixed-duplicate-name', '<!ELEMENT r (#PCDATA|e|e)*><!ELEMENT e EMPTY>', '<r/>', 'invalid')
    add('entity-content-in-children', K + '<!ENTITY two "<e/><e/>">', '<r>&two;</r>', 'valid')
    add('entity-content-text-in-children', K + '<!ENTITY t "x">', '<r><e/>&t;<e/></r>', 'invalid')
    # standalone
    X = '<!ELEMENT r (e*)><!ELEMENT e (#PCDATA)>'
    add('standalone-ext-default-used', '', '<r><e/></r>', 'invalid', ext=X + '<!ATTLIST e q CDATA "d">', standalone='yes')
    add('standalone-ext-default-not-used', '', '<r><e q="1"/></r>', 'valid', ext=X + '<!ATTLIST e q CDATA "d">', standalone='yes')
    add('standalone-no-ext-default-used', '', '<r><e/></r>', 'valid', ext=X + '<!ATTLIST e q CDATA "d">', standalone='no')
    # (a reference to an externally declared entity in a standalone document violates WFC 'Entity Declared': fatal, belongs to C02)
    add('standalone-ext-attr-normalized', '', '<r><e q=" a  b "/></r>', 'invalid', ext=X + '<!ATTLIST e q NMTOKENS #IMPLIED>', standalone='yes')
    add('standalone-ext-attr-not-normalized', '', '<r><e q="a b"/></r>', 'valid', ext=X + '<!ATTLIST e q NMTOKENS #IMPLIED>', standalone='yes')
    add('standalone-ext-element-content-ws', '', '<r> <e/></r>', 'invalid', ext=X, standalone='yes')
    add('standalone-int-decls', X + '<!ATTLIST e q CDATA "d"><!ENTITY x "t">', '<r> <e>&x;</e></r>', 'valid', standalone='yes')
    return C


def run(tier):
    ck = core.Check(PID, tier)
    binary = build.ensure('asan', parts=['parse', 'domdump'])
    stats = collections.Counter()
    shapes = collections.Counter()
    codes = collections.Counter()
    nmodels = 120 if tier == 'quick' else 2400
    maxlen = 3 if tier == 'quick' else 4
    rounds = 1 if tier == 'quick' else 12
    for rd in range(rounds):
        cases = []
        info = {}
        for mi in range(nmodels // rounds):
            r = core.rng(ck.seed, PID, rd, mi)
            m = dg.gen_model(r, POOL)
            mt = dg.render_top(m)
            shapes[dg.shape(m)] += 1
            alpha = sorted(set(dg.names(m))) + ['z']
            seqs = list(dg.sequences(alpha, maxlen))
            for _ in range(40):
                seqs.append(tuple(r.choice(alpha) for _ in range(r.randint(maxlen + 1, maxlen + 4))))
            cfg = [('sax2', 'IG'), ('sax2', 'DG'), ('dom', 'IG'), ('sax1', 'IG'), ('domls', 'DG')][mi % 5]
            for si, s in enumerate(seqs):
                exp = dg.matches(m, s)
                sep = r.choice(['', '', ' ', '\n', '<!--c-->'])
                cid = 'r%dm%d.s%d' % (rd, mi, si)
                cases.append(core.Case(cid, 'parse', dict(api=cfg[0], scanner=cfg[1], val='always', dump=0, ns=0)).doc(doc_for(mt, s, sep=sep)))
                info[cid] = ('cm', mt, s, exp, dg.shape(m))
        # attribute / ID / entity / standalone constraints, each under several configurations
        r = core.rng(ck.seed, PID, 'vc', rd)
        for (name, internal, ext, standalone, body, expected, root) in vc_cases(r):
            head = '<?xml version="1.0"%s?>' % (' standalone="%s"' % standalone if standalone else '')
            dt = '<!DOCTYPE %s%s%s>' % (root, ' SYSTEM "x.dtd"' if ext is not None else '', ' [%s]' % internal if internal else '')
            data = (head + dt + body).encode()
            for api, sc in (('sax2', 'IG'), ('dom', 'IG'), ('sax2', 'DG'), ('domls', 'IG'), ('sax1', 'DG')):
                cid = 'r%dv.%s.%s.%s' % (rd, name, api, sc)
                c = core.Case(cid, 'parse', dict(api=api, scanner=sc, val='always', ns=0), ents=[('file:///xv/x.dtd', ext.encode())] if ext is not None else [])
                c.doc(data)
                cases.append(c)
                info[cid] = ('vc', name, None, expected == 'valid', name)
                if expected == 'valid' and api in ('sax2', 'dom'):
                    c2 = core.Case(cid + '.noval', 'parse', dict(api=api, scanner=sc, val='never', ns=0), ents=c.ents)
                    c2.doc(data)
                    cases.append(c2)
                    info[c2.id] = ('noval', name, cid, True, name)
        recs = core.run_cases(binary, cases, tag='c07')
        parsed = {}
        for c in cases:
            kind, a, b, exp, cls = info[c.id]
            r_ = recs.get(c.id)
            if r_ is None or not r_.complete or r_.crash or r_.hang:
                if r_ is not None:
                    ck.crash_violation(r_, c, 'C07:')
                continue
            st = pc.parse_record(r_)[0]
            parsed[c.id] = st
            if kind == 'noval':
                continue
            ck.evaluations += 1
            v = st.verdict()
            for e in st.errs:
                if e[0] == 'E':
                    codes[e[2]] += 1
            if v == 'fatal' or v.startswith('exception'):
                ck.violation('C07:fatal:%s:%s' % (kind, cls if kind == 'vc' else 'content-model'), 'a validity matter was reported as fatal error / exception (%s)' % v,
                             {'case': c.to_json(), 'errs': st.errs[:3]})
                continue
            valid = (v in ('none', 'warning'))
            if valid != exp:
                if kind == 'cm':
                    key = 'C07:content-model:%s:%s' % ('accepted-invalid' if valid else 'rejected-valid', cls)
                    what = 'content model %s, children %s: reference says %s, parser says %s' % (a, ' '.join(b) or '(none)', 'valid' if exp else 'invalid', 'valid' if valid else 'invalid')
                else:
                    key = 'C07:vc:%s:%s' % (a, 'accepted-invalid' if valid else 'rejected-valid')
                    what = 'validity constraint case %s: expected %s, parser says %s' % (a, 'valid' if exp else 'invalid', 'valid' if valid else 'invalid')
                ck.violation(key, what, {'case': c.to_json(), 'doc': c.steps[0][1].decode('utf-8', 'replace'), 'errs': st.errs[:3]})
            else:
                ck.add_distinct(core.h(kind, a, b, c.opt['api'], c.opt['scanner']))
                stats[kind + ('_valid' if exp else '_invalid')] += 1
        # validation on vs off: same content
        for c in cases:
            if info[c.id][0] != 'noval':
                continue
            a = parsed.get(info[c.id][2])
            b = parsed.get(c.id)
            if not a or not b:
                continue
            pa = pc.project(a.events, ns=False, keep_spec=True)
            pb = pc.project(b.events, ns=False, keep_spec=True)
            stats['validation_on_off_pairs'] += 1
            if pa != pb:
                ck.violation('C07:on-off-differ:%s' % info[c.id][1], 'content differs between validation on and off: %r' % (pc.first_diff(pa, pb),), {'case': c.to_json()})
    ck.rule = ('children content: random deterministic content models (every name at most once; depth <= 4; all occurrence operators) x ALL child sequences up to length %d over the model\'s '
               'alphabet plus one foreign element, plus 40 longer random sequences, whitespace/comment separators; attribute/ID/IDREF/ENTITY/NOTATION/root/standalone constraints: %d '
               'single-constraint cases x 5 API/scanner configurations; distinct by (model or case, sequence, configuration); every case is non-trivial (decided by the reference)' % (maxlen, len(vc_cases(None))))
    ck.cov['stats'] = dict(stats)
    ck.cov['model_shapes'] = len(shapes)
    ck.cov['model_shape_samples'] = [k for k, v in shapes.most_common(12)]
    ck.cov['validity_codes_observed'] = {str(k): v for k, v in sorted(codes.items())}
    ck.cov['exhaustive_child_sequences_up_to'] = maxlen
    ck.sample({'model': '(a,(b|c)*,d?)', 'children': ['a', 'c', 'b'], 'expected': 'valid', 'document': doc_for('(a,(b|c)*,d?)', ('a', 'c', 'b')).decode()})
    ck.assumptions = ['content models are deterministic by construction (each name occurs once); non-deterministic models are outside this oracle',
                      'EMPTY means no content at all, including comments and white space (XML 1.0 5th edition wording)']
    return ck.finish()


def replay(j):
    w = j['witness']
    binary = build.ensure('asan', parts=['parse', 'domdump'])
    c = core.Case.from_json(w['case'])
    c.opt['dump'] = 1
    recs = core.run_cases(binary, [c], shards=1)
    print(c.steps[0][1].decode('utf-8', 'replace'))
    print('\n'.join(recs[c.id].lines[-12:]))
    print('recorded:', j['what'])
    return 1
