"""C16: a serialised grammar pool restores to a behaviourally identical pool.

Oracle: pure differential on one build.  Pool A is built by loading generated grammars (DTDs, XML Schema documents with
import / include / chameleon include / redefine) through a parser; B = deserialize(serialize(A)); C = deserialize(serialize(B)).
A, B and C must give (1) identical component enumerations — the XSModel through the public XS* API (every namespace: element
declarations, type definitions with facets, particle trees, attribute uses, wildcards, groups, notations, identity constraints,
annotations) and the grammar object graphs through the exported getters (DTD element / attribute / entity / notation
declarations; schema element declarations, complex types, content spec trees, attribute definitions, datatype validators,
identity constraints with their XPaths, substitution groups); (2) for EVERY instance document (about half of them invalid)
the same canonical event dump, error codes with positions, defaulted attributes and PSVI; (3) the same enumeration again after
the instances were validated.  A stream whose level word is patched must be rejected with XSerializationException.
The driver logs A's lines in full and a checksum of B's / C's lines (full lines only when the checksum differs from A's); the
checker recomputes A's checksum from the lines it received, so the comparison is made here, not in the driver."""
import collections, glob, os, re, zlib
from .. import core, build
from ..gen import poolgen as pg

PID = 'C16'

# Classes whose prototype name can never appear in a pool stream although objects of them are written: they are serialised by a
# direct serialize() call on an embedded / pooled object (XSerializeEngine::write(XSerializable*) is what emits the name) or are
# not part of any grammar's object graph at all.  Each entry was checked against the source (see notes/C16.md).
NEVER_NAMED = {
    'DatatypeValidatorFactory': 'embedded member of SchemaGrammar: fDatatypeRegistry.serialize(serEng)',
    'XMLStringPool': 'XMLGrammarPoolImpl calls fStringPool->serialize(serEng) directly',
    'XMLSchemaDescriptionImpl': 'SchemaGrammar calls fGramDesc->serialize(serEng) directly',
    'XMLDTDDescriptionImpl': 'DTDGrammar calls fGramDesc->serialize(serEng) directly',
    'DTDElementDecl': 'NameIdPool<DTDElementDecl> elements are written with data.serialize(serEng)',
    'DTDEntityDecl': 'NameIdPool<DTDEntityDecl> elements are written with data.serialize(serEng)',
    'XMLNotationDecl': 'NameIdPool<XMLNotationDecl> elements are written with data.serialize(serEng)',
    'XMLUri': 'no serialisable grammar component holds an XMLUri',
    'XMLRefInfo': 'only SchemaGrammar::fIDRefList would hold them and that table is not serialised (commented out)',
    'AnySimpleTypeDatatypeValidator': 'xs:anySimpleType is only ever referenced as a built-in (written by name, DV_BUILTIN); it cannot be restricted',
}
# evidence that the never-named classes were nevertheless exercised: component kinds of the enumeration that hold them
EMBEDDED_EVIDENCE = {'DTDElementDecl': 'DEL', 'DTDEntityDecl': 'DEN', 'XMLNotationDecl': ('DNO', 'SNO'), 'XMLSchemaDescriptionImpl': 'SGR', 'XMLDTDDescriptionImpl': 'DGR',
                     'DatatypeValidatorFactory': 'SDV', 'XMLStringPool': 'PSP'}


def class_lists():
    """concrete / abstract IMPL_XSERIALIZABLE classes of the tree under test (from the synced source copy)"""
    conc, abst = set(), set()
    for f in glob.glob(os.path.join(build.SRC, 'src', 'xercesc', '**', '*.cpp'), recursive=True):
        try:
            t = open(f, errors='replace').read()
        except OSError:
            continue
        for kind, name in re.findall(r'^\s*IMPL_XSERIALIZABLE_(TOCREATE|NOCREATE)\((\w+)\)', t, re.M):
            (conc if kind == 'TOCREATE' else abst).add(name)
    return sorted(conc), sorted(abst)


def digest(lines):
    c = 0
    n = 0
    for l in lines:
        b = l.encode('utf-8', 'surrogateescape') + b'\n'
        c = zlib.crc32(b, c)
        n += len(b)
    return '%d:%d:%08x' % (len(lines), n, c & 0xffffffff)


# ---------------------------------------------------------------------------------------------------------------------
#  pinned witnesses: small cases for the defects found on the unchanged tree.  The random workload stays clear of the
#  constructs that crash the process (a crash loses the rest of a pool), these cases keep reproducing each one on every run.
# ---------------------------------------------------------------------------------------------------------------------
_H = '<xs:schema xmlns:xs="http://www.w3.org/2001/XMLSchema" targetNamespace="urn:w" xmlns:w="urn:w" elementFormDefault="qualified">'
_T = '<xs:simpleType name="small"><xs:restriction base="xs:integer"><xs:minInclusive value="1"/></xs:restriction></xs:simpleType>'
_DTD = b'<!ELEMENT r (a)*><!ELEMENT a (#PCDATA)><!ATTLIST a x CDATA "d">'


def witnesses(classes):
    W = []

    def add(name, grammars, insts, ents=(), **opt):
        o = dict(classes=classes, levels='', internals=1, reenum=1)
        o.update(opt)
        c = core.Case('w.' + name, 'pool', o, ents=list(ents), meta={'witness': name})
        for kind, sysid, data in grammars:
            c.doc(data, kind=kind, sysid=sysid)
        for d in insts:
            c.doc(d, kind='inst')
        W.append(c)
    xs1 = (_H + _T + '<xs:element name="root"><xs:complexType><xs:attribute name="x" type="w:small" default="7"/></xs:complexType></xs:element></xs:schema>').encode()
    add('synthetic-annotations', [('xsd', 'file:///xv/p/w.xsd', xs1)], [b'<w:root xmlns:w="urn:w"/>'], synth=1, lock=0, psvi=0)
    add('dtd-pool-locked', [('dtd', 'file:///xv/p/w.dtd', _DTD)], [b'<!DOCTYPE r SYSTEM "file:///xv/p/w.dtd"><r><a/></r>'], ents=[('file:///xv/p/w.dtd', _DTD)], lock=1, psvi=0, schema=0, xsmodel=0)
    add('psvi-locked-pool-default-attribute', [('xsd', 'file:///xv/p/w.xsd', xs1)], [b'<w:root xmlns:w="urn:w"/>'], lock=1, psvi=1, scanner='IG')
    add('psvi-sgxmlscanner-cached-grammar', [('xsd', 'file:///xv/p/w.xsd', xs1)], [b'<w:root xmlns:w="urn:w" x="3"/>'], lock=0, psvi=1, scanner='SG')
    xs2 = (_H + '<xs:element name="root"><xs:complexType><xs:attribute name="l"><xs:simpleType><xs:list itemType="xs:int"/></xs:simpleType></xs:attribute></xs:complexType></xs:element></xs:schema>').encode()
    add('psvi-empty-list-value', [('xsd', 'file:///xv/p/w.xsd', xs2)], [b'<w:root xmlns:w="urn:w" l=""/>'], lock=0, psvi=1, scanner='IG')
    add('serialize-locked-pool', [('xsd', 'file:///xv/p/w.xsd', xs1)], [b'<w:root xmlns:w="urn:w"/>'], lock=1, lockfirst=1, psvi=0)
    xs3 = (_H + '<xs:notation name="gif" public="image/gif"><xs:annotation><xs:documentation>about gif</xs:documentation></xs:annotation></xs:notation>'
           '<xs:element name="root" type="xs:string"/></xs:schema>').encode()
    add('notation-annotation', [('xsd', 'file:///xv/p/w.xsd', xs3)], [b'<w:root xmlns:w="urn:w">t</w:root>'], lock=0, psvi=1, scanner='IG')
    xs4 = (_H + '<xs:simpleType name="b"><xs:restriction base="xs:boolean"><xs:whiteSpace value="collapse"><xs:annotation><xs:documentation>on a facet that is not kept</xs:documentation>'
           '</xs:annotation></xs:whiteSpace></xs:restriction></xs:simpleType><xs:element name="root" type="w:b"/></xs:schema>').encode()
    add('annotation-on-dropped-facet', [('xsd', 'file:///xv/p/w.xsd', xs4)], [b'<w:root xmlns:w="urn:w">true</w:root>'], lock=0, psvi=1, scanner='IG')
    return W


# ---------------------------------------------------------------------------------------------------------------------
#  evaluation of one pool record
# ---------------------------------------------------------------------------------------------------------------------
def crash_key(rep):
    """stable key of a sanitizer report: tool, normalised message, innermost library function"""
    text = rep.text or ''
    first = text.split('\n', 1)[0]
    if rep.tool == 'ubsan':
        m = re.search(r'runtime error: (.*)', first)
        msg = m.group(1) if m else rep.kind
        msg = re.sub(r'0x[0-9a-fA-F]+', 'ADDR', msg)
        msg = msg.replace('xercesc_4_0::', '').replace("'", '')
        msg = re.sub(r'[0-9]+', 'N', msg)
        kind = re.sub(r'[^A-Za-z0-9_:]+', '-', msg).strip('-')[:90]
    else:
        kind = rep.kind
    fn = '?'
    for l in text.split('\n'):
        m = re.match(r'\s*#\d+ 0x[0-9a-f]+ in (.+?) (/\S+)', l)
        if m and '/src/xercesc/' in m.group(2):
            fn = core._fn_name(m.group(1))
            break
    return '%s:%s:%s' % (rep.tool, kind, fn)


class PoolResult:
    def __init__(self):
        self.viol = []            # (key, what, detail)
        self.discard = None
        self.incon = []
        self.classes = set()
        self.stream_len = 0
        self.kinds = collections.Counter()
        self.inst = []            # (idx, nerr, nlines)
        self.errcodes = collections.Counter()
        self.levels = []
        self.facets_defined = 0
        self.enum_digests = {}
        self.compared = 0
        self.stream_crc = ''
        self.changed_by_use = False


def _fields(line):
    f = line.split('\t')
    return f[0], f[1], dict(x.partition('=')[::2] for x in f[2:])


def enum_violations(phase, tag, la, lb):
    """la / lb: enumeration lines of A and of B (or C).  Returns [(key, what, detail)] with one key per (component kind, field)."""
    out = []
    A = collections.defaultdict(list)
    B = collections.defaultdict(list)
    for l in la:
        k, i, f = _fields(l)
        A[(k, i)].append(f)
    for l in lb:
        k, i, f = _fields(l)
        B[(k, i)].append(f)
    seen = set()
    for key in sorted(set(A) | set(B)):
        kind = key[0]
        if key not in B or key not in A or len(A[key]) != len(B[key]):
            side = 'missing-after-restore' if key not in B else 'extra-after-restore' if key not in A else 'count'
            k2 = 'C16:enumeration-differs:%s:%s:%s' % (phase, kind, side)
            if k2 not in seen:
                seen.add(k2)
                out.append((k2, '%s %s: component %s %s in pool %s' % (phase, kind, key[1], side, tag), {'component': key, 'A': A.get(key), tag: B.get(key)}))
            continue
        for fa, fb in zip(A[key], B[key]):
            for fld in sorted(set(fa) | set(fb)):
                va, vb = fa.get(fld), fb.get(fld)
                if va == vb:
                    continue
                subs = ['']
                if kind == 'SGR' and fld == 'annotations' and va is not None and vb is not None:
                    # the table of all annotations of a grammar, each entry labelled {owner kind}: one key per owner kind that lost / gained entries
                    ea, eb = collections.Counter(va[1:-1].split(' || ')), collections.Counter(vb[1:-1].split(' || '))
                    lost = sorted(set(re.match(r'\{([^}]*)\}', e).group(1) for e in (ea - eb).elements() if e.startswith('{')))
                    gained = sorted(set(re.match(r'\{([^}]*)\}', e).group(1) for e in (eb - ea).elements() if e.startswith('{')))
                    subs = [':lost-from-' + x for x in lost] + [':gained-on-' + x for x in gained] or [':changed']
                for sub in subs:
                    k2 = 'C16:enumeration-differs:%s:%s:%s%s' % (phase, kind, fld, sub)
                    if k2 not in seen:
                        seen.add(k2)
                        out.append((k2, '%s: %s %s field %s differs between pool A and pool %s: %r vs %r' % (phase, kind, key[1], fld, tag, (va or '')[:200], (vb or '')[:200]),
                                    {'component': list(key), 'field': fld, 'A': va, tag: vb}))
    return out


INST_COLS = {'PE': ['uri', 'local', 'validity', 'attempted', 'type', 'memberType', 'normalizedValue', 'schemaDefault', 'schemaSpecified', 'canonical', 'context', 'declaration', 'notation'],
             'PA': ['uri', 'local', 'validity', 'attempted', 'type', 'memberType', 'normalizedValue', 'schemaDefault', 'schemaSpecified', 'canonical', 'context', 'declaration'],
             'AT': ['uri', 'local', 'qname', 'type', 'value'], 'ERR': ['severity', 'domain', 'code', 'line', 'column', 'systemId'], 'R': ['status', 'warnings', 'errors', 'fatal', 'errorCount']}


def inst_diff_key(la, lb):
    n = min(len(la), len(lb))
    for i in range(n):
        if la[i] != lb[i]:
            fa, fb = la[i].split('\t'), lb[i].split('\t')
            if fa[0] != fb[0]:
                return '%s-vs-%s' % (fa[0], fb[0]), i
            cols = INST_COLS.get(fa[0])
            for k in range(1, max(len(fa), len(fb))):
                if (fa[k] if k < len(fa) else None) != (fb[k] if k < len(fb) else None):
                    return '%s:%s' % (fa[0], cols[k - 1] if cols and k - 1 < len(cols) else 'field%d' % k), i
    return 'length:%s' % ((la[n].split('\t')[0] if len(la) > n else lb[n].split('\t')[0]) if len(la) != len(lb) else '?'), n


def evaluate(rec, case):
    """turn one record into a PoolResult"""
    R = PoolResult()
    lines = rec.lines
    witness = (case.meta or {}).get('witness')
    stage = next((l for l in reversed(lines) if l.startswith('AT\t')), 'AT\tstart')
    if not rec.complete or rec.crash or rec.hang:
        if rec.crash:
            key = 'C16:crash:' + crash_key(rec.crash)
            R.viol.append((key, 'sanitizer / crash report at stage %s' % stage.replace('\t', ' '), {'report': rec.crash.text[:5000], 'stage': stage}))
        elif rec.hang:
            R.viol.append(('C16:hang:%s' % stage.split('\t')[1], 'pool case did not terminate', {'stage': stage}))
        else:
            R.incon.append('record of %s incomplete without a report' % case.id)
        return R
    # ---- loading
    loads = [l.split('\t') for l in lines if l.startswith('LOAD\t')]
    bad = [l for l in loads if l[5] != 'ok' or int(l[7]) + int(l[8]) > 0]
    if any(l.startswith('LMISS') or l.startswith('LEXC') for l in lines):
        bad.append('missing-entity-or-exception')
    if bad and not witness:
        R.discard = 'grammar did not load cleanly'
        return R
    ser = {l.split('\t')[1]: l.split('\t') for l in lines if l.startswith('SER\t')}
    des = {l.split('\t')[1]: l.split('\t')[2] for l in lines if l.startswith('DES\t')}
    excs = [l for l in lines if l.startswith('EXC\t')]
    if 'A' not in ser:
        if any('XSerializationException\t361' in e for e in excs):
            R.discard = 'no grammar reached the pool'
        else:
            R.viol.append(('C16:serialize-exception:%s' % (excs[0].split('\t')[2] if excs else 'none'), 'serializeGrammars failed on pool A', {'exceptions': excs}))
        return R
    R.stream_len = int(ser['A'][2])
    R.stream_crc = ser['A'][3]
    cl = [f for f in ser['A'] if f.startswith('classes=')]
    R.classes = set(x for x in cl[0][8:].split(',') if x) if cl else set()
    for l in lines:
        if l.startswith('SERFILE\t') and not l.endswith('\tsame'):
            R.viol.append(('C16:file-stream-differs', 'BinFileOutputStream produced other bytes than BinMemOutputStream for the same pool', {'line': l}))
    for t in ('B', 'C'):
        if des.get(t) != 'ok':
            e = next((x for x in excs if x.startswith('EXC\tdeserialize-' + t)), None) or next((x for x in excs if x.startswith('EXC\tserialize-B')), None)
            R.viol.append(('C16:restore-exception:%s:%s' % (t, '/'.join(e.split('\t')[2:4]) if e else 'none'), 'restoring pool %s from the stream failed' % t, {'exceptions': excs, 'des': des}))
            if t == 'B':
                return R
    if 'B' in ser and 'A' in ser:
        ca = [f for f in ser['B'] if f.startswith('classes=')]
        if ca and set(x for x in ca[0][8:].split(',') if x) != R.classes:
            R.viol.append(('C16:stream-classes-differ', 'serialize(B) names other classes than serialize(A)', {'A': sorted(R.classes), 'B': ca[0]}))
    # ---- enumerations
    enums = collections.defaultdict(dict)       # phase -> tag -> (digest, note)
    elines = collections.defaultdict(lambda: collections.defaultdict(list))
    for l in lines:
        if l.startswith('ENUM\t'):
            f = l.split('\t')
            enums[f[1]][f[2]] = (f[3], f[4] if len(f) > 4 else '')
        elif l.startswith('N\t'):
            f = l.split('\t', 3)
            elines[f[1]][f[2]].append(f[3])
    for ph in enums:
        if 'A' not in enums[ph]:
            continue
        da, note = enums[ph]['A']
        la = elines[ph]['A']
        if note == 'unchanged':
            la = elines['G0']['A']
        else:
            if ph == 'G1':
                R.changed_by_use = True
        if digest(la) != da:
            R.incon.append('%s: checksum of pool A lines (%s) is not what the driver logged (%s): log damaged?' % (ph, digest(la), da))
            continue
        R.enum_digests[ph] = da
        if any(x.startswith('ENUMEXC') for x in la):
            R.viol.append(('C16:enumeration-exception:%s' % ph, 'enumerating pool A threw', {'lines': [x for x in la if x.startswith('ENUMEXC')]}))
        if ph in ('G0', 'X'):
            for x in la:
                k = x.split('\t', 1)[0]
                R.kinds[k] += 1
                if k == 'XST':
                    m = re.search(r'\tdefined=(\d+)', x)
                    if m:
                        R.facets_defined |= int(m.group(1))
        for t in ('B', 'C'):
            if t not in enums[ph]:
                continue
            R.compared += 1
            if enums[ph][t][0] != da:
                lb = elines[ph][t]
                if digest(lb) != enums[ph][t][0]:
                    R.incon.append('%s: checksum of pool %s lines does not match' % (ph, t))
                    continue
                v = enum_violations(ph, t, la, lb)
                if not v:
                    R.incon.append('%s: digests of A and %s differ but no field does' % (ph, t))
                R.viol += v
    # ---- level mismatch
    for l in lines:
        if l.startswith('LEVEL\t'):
            f = l.split('\t')
            v = int(f[1])
            R.levels.append((v, f[2], f[3]))
            if f[2] != 'XSerializationException':
                cls = 'five-or-more-digits' if v >= 10000 else 'up-to-four-digits'
                what = 'accepted' if f[2] == 'none' else 'rejected-with-' + f[2].replace('XMLException:', '')
                R.viol.append(('C16:level-mismatch:%s:%s' % (what, cls), 'a stream stamped with serialisation level %d was %s instead of being rejected with XSerializationException' % (v, what),
                               {'level': v, 'observed': f[2:]}))
    # ---- instances
    cur = None
    blocks = []          # (idx, tag, digest, lines)
    for l in lines:
        if l.startswith('I\t'):
            f = l.split('\t')
            cur = [int(f[1]), f[2], f[3], []]
            blocks.append(cur)
        elif l.startswith('i\t') and cur is not None:
            cur[3].append(l[2:])
        elif l.startswith('AT\t'):
            cur = None
    byidx = collections.defaultdict(dict)
    for b in blocks:
        byidx[b[0]][b[1]] = b
    for idx, d in sorted(byidx.items()):
        a = d.get('A')
        if a is None:
            continue
        if digest(a[3]) != a[2]:
            R.incon.append('instance %d: checksum of pool A dump does not match' % idx)
            continue
        nerr = 0
        for x in a[3]:
            if x.startswith('ERR\t'):
                f = x.split('\t')
                R.errcodes['%s/%s/%s' % (f[1], f[2], f[3])] += 1
                nerr += 1
            elif x.startswith('EXC\t'):
                nerr += 1
                R.errcodes['EXC/' + x.split('\t')[2]] += 1
            elif x.startswith('MISS\t') and not witness:
                R.incon.append('instance %d asked for an entity the case does not carry: %s' % (idx, x))
        R.inst.append((idx, nerr, len(a[3])))
        for t in ('B', 'C'):
            b = d.get(t)
            if b is None:
                continue
            R.compared += 1
            if b[2] != a[2]:
                what, at = inst_diff_key(a[3], b[3])
                R.viol.append(('C16:instance-differs:%s' % what, 'instance %d validated against pool %s differs from pool A at line %d: %r vs %r' % (
                    idx, t, at, a[3][at] if at < len(a[3]) else None, b[3][at] if at < len(b[3]) else None),
                    {'instance': idx, 'pool': t, 'A': a[3][max(0, at - 3):at + 3], t: b[3][max(0, at - 3):at + 3]}))
    return R


# ---------------------------------------------------------------------------------------------------------------------
def make_case(seed, i, classes, level, tier):
    r = core.rng(seed, PID, 'pool', i)
    p = pg.make_pool(r, COVER, None, n_inst=(20, 60))
    o = dict(p['opts'])
    o.update(classes=classes, internals=1, reenum=1)
    o['levels'] = ','.join(str(x) for x in [level + 1, max(level - 1, 0), 0, 9999, 10000, (level & 0xff) << 24, 4294967295][:(7 if i % 4 == 0 else 2)])
    o['cinst'] = 1 if (i % 4 == 1 or tier == 'thorough' and i % 2 == 0) else 0
    c = core.Case('p%d' % i, 'pool', o, ents=p['ents'], meta={'kind': p['kind'], 'tags': p['tags'], 'ops': [m['ops'] for _, m in p['instances']]})
    for (k, sysid, data, via) in p['grammars']:
        c.doc(data, kind=k, sysid=sysid)
    for data, meta in p['instances']:
        c.doc(data, kind='inst')
    return c


COVER = pg.Cover()


def run(tier):
    global COVER
    ck = core.Check(PID, tier)
    binary = build.ensure('asan', parts=['pool'])
    concrete, abstract = class_lists()
    classes = ','.join(concrete + abstract)
    level = 7
    try:
        for cand in glob.glob(os.path.join(build.bdir('asan'), 'src', 'xercesc', 'util', 'XercesVersion.hpp')) + glob.glob(os.path.join(build.SRC, 'src', 'xercesc', 'util', 'XercesVersion.hpp')):
            m = re.search(r'#define\s+XERCES_GRAMMAR_SERIALIZATION_LEVEL\s+(\d+)', open(cand).read())
            if m:
                level = int(m.group(1))
                break
    except OSError:
        pass
    npools = 400 if tier == 'quick' else 6400
    rounds = 1 if tier == 'quick' else 16
    COVER = pg.Cover()
    stats = collections.Counter()
    seen_classes = collections.Counter()
    kinds = collections.Counter()
    errcodes = collections.Counter()
    ops = collections.Counter()
    tags = collections.Counter()
    cfg = collections.Counter()
    level_outcomes = collections.Counter()
    facets = 0
    sizes = []
    per = npools // rounds
    for rd in range(rounds):
        cases = [make_case(ck.seed, rd * per + i, classes, level, tier) for i in range(per)]
        if rd == 0:
            cases += witnesses(classes)
        ck.note('round %d: %d pool cases, %d instance documents' % (rd, len(cases), sum(len([s for s in c.steps if s[2].get('kind') == 'inst']) for c in cases)))
        recs = core.run_cases(binary, cases, tag='c16', per_case_timeout=120.0, shards=int(os.environ.get('XV_SHARDS', '0')) or None)
        for c in cases:
            rec = recs.get(c.id)
            if rec is None:
                ck.inconclusive.append('no record for %s' % c.id)
                continue
            R = evaluate(rec, c)
            wit = (c.meta or {}).get('witness')
            for key, what, detail in R.viol:
                d = {'case': c.to_json()}
                d.update(detail)
                ck.violation(key, what, d)
            for m in R.incon:
                ck.inconclusive.append(m)
            if R.discard:
                stats['pools_discarded'] += 1
                stats['discard:' + R.discard] += 1
                continue
            if wit:
                stats['witness_cases'] += 1
                continue
            if not rec.complete:
                stats['pools_crashed'] += 1
                continue
            stats['pools'] += 1
            stats['pools_' + c.meta['kind']] += 1
            ck.evaluations += R.compared
            for k in R.classes:
                seen_classes[k] += 1
            kinds.update(R.kinds)
            errcodes.update(R.errcodes)
            facets |= R.facets_defined
            sizes.append(R.stream_len)
            for t in c.meta['tags']:
                tags[t] += 1
            cfg['scanner=%s lock=%s psvi=%s full=%s' % (c.opt.get('scanner'), c.opt.get('lock'), c.opt.get('psvi'), c.opt.get('full'))] += 1
            if c.opt.get('file'):
                stats['pools_also_through_BinFileOutputStream'] += 1
            if c.opt.get('cinst'):
                stats['pools_with_instances_against_C'] += 1
            if R.changed_by_use:
                stats['pools_whose_grammars_changed_during_validation'] += 1
            for v, t, code in R.levels:
                level_outcomes['%s' % t] += 1
            ninst = len(R.inst)
            nerr = sum(1 for x in R.inst if x[1])
            stats['instances'] += ninst
            stats['instances_with_errors'] += nerr
            stats['instances_clean'] += ninst - nerr
            for o_ in c.meta['ops']:
                for op in o_:
                    ops[op] += 1
                if not o_:
                    ops['(unmutated)'] += 1
            nontrivial = len(R.classes) >= 5 and sum(1 for x in R.inst if x[2] >= 5) >= 5
            if nontrivial:
                ck.add_distinct(core.h(R.stream_crc, R.stream_len, sorted(R.enum_digests.items())))
            if len(ck.samples) < 3 and nontrivial and c.meta['kind'] == ('xsd' if len(ck.samples) != 1 else 'dtd'):
                ck.sample({'pool': c.id, 'kind': c.meta['kind'], 'options': {k: v for k, v in c.opt.items() if k != 'classes'},
                           'grammar': c.steps[0][1][:1500].decode('utf-8', 'replace') if c.steps[0][1][:2] not in (b'\xff\xfe', b'\xfe\xff') else c.steps[0][1][:3000].decode('utf-16', 'replace'),
                           'instance': next((s[1].decode('utf-8', 'replace')[:800] for s in c.steps if s[2].get('kind') == 'inst'), None),
                           'observed': {'stream_bytes': R.stream_len, 'classes_in_stream': sorted(R.classes), 'enumeration_digests (A == B == C)': R.enum_digests,
                                        'instances': ninst, 'instances_with_errors': nerr}})
    # ---- coverage / conclusiveness
    expected = [k for k in concrete if k not in NEVER_NAMED]
    never = [k for k in expected if not seen_classes.get(k)]
    ck.cov['classes'] = {'concrete_total': len(concrete), 'abstract_excepted': abstract, 'seen_in_streams': {k: seen_classes[k] for k in sorted(seen_classes) if k in concrete},
                         'never_seen': never, 'never_named_by_construction': NEVER_NAMED,
                         'never_named_but_exercised (component lines holding them)': {k: sum(kinds.get(x, 0) for x in ((v,) if isinstance(v, str) else v)) for k, v in EMBEDDED_EVIDENCE.items()},
                         'abstract_names_seen (must be none)': sorted(k for k in seen_classes if k in abstract)}
    ck.cov['stats'] = dict(stats)
    ck.cov['component_lines_compared'] = dict(kinds)
    ck.cov['facet_kinds_defined_mask'] = facets
    ck.cov['facet_kinds_missing'] = [n for b, n in ((1, 'length'), (2, 'minLength'), (4, 'maxLength'), (8, 'pattern'), (16, 'whiteSpace'), (32, 'maxInclusive'), (64, 'maxExclusive'), (128, 'minExclusive'),
                                                    (256, 'minInclusive'), (512, 'totalDigits'), (1024, 'fractionDigits'), (2048, 'enumeration')) if not facets & b]
    ck.cov['error_codes_observed'] = {k: v for k, v in sorted(errcodes.items(), key=lambda kv: -kv[1])[:80]}
    ck.cov['distinct_error_codes'] = len(errcodes)
    ck.cov['mutation_operators'] = dict(ops)
    ck.cov['schema_document_features'] = dict(tags)
    ck.cov['configurations'] = dict(cfg)
    ck.cov['level_mismatch_outcomes'] = dict(level_outcomes)
    if sizes:
        ck.cov['stream_bytes'] = {'min': min(sizes), 'max': max(sizes), 'mean': int(sum(sizes) / len(sizes)), 'streams_longer_than_one_8K_buffer': sum(1 for s in sizes if s > 8192)}
    ck.rule = ('a pool is non-trivial when its stream names >= 5 serialisable classes and >= 5 of its instance dumps hold >= 5 lines; distinct by (stream checksum, stream length, enumeration checksums). '
               'evaluations = number of (enumeration phase or instance) x (restored pool B or C) comparisons against pool A')
    ck.assumptions = ['pool A of the same build and process is the reference (pure differential)',
                      'pool ids of SchemaElementDecl objects (XMLElementDecl::getId) are not compared: the loader re-inserts the declarations in hash order, nothing looks them up by id after traversal',
                      'order of hash-table backed collections (attribute uses, facets, annotations of a grammar, namespaces) is not compared; neither is the order of errors reported at one and the same position (it follows the iteration order of the attribute-definition table)',
                      'PSVI is recorded only on unlocked pools and the XSModel is enumerated after the instances (a locked pool, or one whose XSModel was requested before the first parse, '
                      'hands the parser an empty model: finding F6); generate-synthetic-annotations is off and pools are serialised before they are locked (findings F5, F3: both abort the process); '
                      'the pinned witness cases keep reproducing these',
                      'pools whose grammars did not load without error are discarded (counted)']
    if stats['pools'] and stats['pools_discarded'] > 0.05 * (stats['pools'] + stats['pools_discarded']):
        ck.inconclusive.append('%d of %d pools discarded because a grammar did not load cleanly' % (stats['pools_discarded'], stats['pools'] + stats['pools_discarded']))
    if stats['instances'] and not (0.25 <= stats['instances_with_errors'] / stats['instances'] <= 0.75):
        ck.inconclusive.append('instance mix off: %d of %d with errors' % (stats['instances_with_errors'], stats['instances']))
    if any(k in abstract for k in seen_classes):
        ck.inconclusive.append('an abstract class name appeared in a stream: the class-name scan is wrong')
    if never and tier == 'thorough':
        ck.inconclusive.append('concrete serialisable classes never seen in a stream: %s' % ', '.join(never))
    if tier == 'quick' and len(never) > 6:
        ck.inconclusive.append('quick tier reached too few classes; never seen: %s' % ', '.join(never))
    return ck.finish()


def replay(j):
    w = j['witness']
    binary = build.ensure('asan', parts=['pool'])
    c = core.Case.from_json(w['case'])
    recs = core.run_cases(binary, [c], shards=1, per_case_timeout=120.0)
    rec = recs.get(c.id)
    if rec is None:
        print('no record')
        return 2
    R = evaluate(rec, c)
    print('recorded key:', j['key'])
    print('recorded    :', j['what'])
    hit = 0
    for key, what, detail in R.viol:
        print('observed    :', key, '-', what[:400])
        if key == j['key']:
            hit = 1
            for k, v in detail.items():
                if k != 'case':
                    print('   %s: %s' % (k, str(v)[:1500]))
    if not R.viol:
        print('observed    : pools A, B and C agree on every enumeration and instance; all patched levels rejected with XSerializationException')
    return hit
