"""C19: no external resource is touched unless permitted; entity expansion is bounded.
Ground truth for resource access is the system-call log (strace -f on the uninstrumented 'plain' build: openat/open/
connect, attributed to cases by marker access() calls the driver issues), plus a loopback HTTP listener.  The
in-process view (recording XMLEntityResolver) gives the order "offered to the resolver first" and the (systemId,
baseURI) pairs.  The expansion bound is judged on the EntityPush hook counter and the reported error."""
import os, re, shutil, subprocess, threading, socket, collections, http.server, itertools
from .. import core, build, parsecmp as pc

PID = 'C19'

FILES = {
    # parameter entities are declared in one entity and referenced from another one in a different directory: the
    # system identifier must be resolved against the entity that contains the DECLARATION
    'dtd/ext.dtd': b'<!ELEMENT r ANY><!ELEMENT g ANY><!ELEMENT h ANY><!ATTLIST r xmlns:xsi CDATA #IMPLIED xsi:noNamespaceSchemaLocation CDATA #IMPLIED>'
                   b'<!ENTITY ge SYSTEM "sub/ge.xml"><!ENTITY % pe SYSTEM "pe/pe.ent">%pe;'
                   b'<!ENTITY % late SYSTEM "late/late.ent"><!ENTITY % lvl2 SYSTEM "lvl/l2.ent">%lvl2;%mod;',
    'dtd/sub/ge.xml': b'<g>ge</g>',
    'dtd/pe/pe.ent': b'<!ENTITY fromPe "pe">',
    'dtd/lvl/l2.ent': b'<!ENTITY fromL2 "l2">%late;',
    'dtd/late/late.ent': b'<!ENTITY fromLate "late">',
    'mods/m.ent': b'<!ENTITY fromMod "mod">',
    'ent/gi.xml': b'<?xml version="1.0" encoding="UTF-8"?><g>gi</g>',
    'xsd/s.xsd': b'<xs:schema xmlns:xs="http://www.w3.org/2001/XMLSchema" xmlns:i="urn:i"><xs:include schemaLocation="inc/inc.xsd"/>'
                 b'<xs:import namespace="urn:i" schemaLocation="../imp/i.xsd"/><xs:element name="r" type="T"/></xs:schema>',
    'xsd/inc/inc.xsd': b'<xs:schema xmlns:xs="http://www.w3.org/2001/XMLSchema"><xs:complexType name="T" mixed="true"><xs:sequence>'
                       b'<xs:any minOccurs="0" maxOccurs="unbounded" processContents="skip"/></xs:sequence><xs:anyAttribute processContents="skip"/></xs:complexType></xs:schema>',
    'imp/i.xsd': b'<xs:schema xmlns:xs="http://www.w3.org/2001/XMLSchema" targetNamespace="urn:i"><xs:element name="x" type="xs:string"/></xs:schema>',
}
DOC = (b'<?xml version="1.0"?>\n<!DOCTYPE r SYSTEM "dtd/ext.dtd" [\n<!ENTITY gi SYSTEM "ent/gi.xml">\n<!ENTITY % mod SYSTEM "mods/m.ent">\n]>\n'
       b'<r xmlns:xsi="http://www.w3.org/2001/XMLSchema-instance" xsi:noNamespaceSchemaLocation="xsd/s.xsd">&gi;&ge;</r>\n')
DOC_NODTD = b'<r xmlns:xsi="http://www.w3.org/2001/XMLSchema-instance" xsi:noNamespaceSchemaLocation="xsd/s.xsd">t</r>\n'
DTDSET = {'dtd/ext.dtd', 'dtd/pe/pe.ent', 'dtd/sub/ge.xml', 'dtd/lvl/l2.ent', 'dtd/late/late.ent', 'mods/m.ent'}
XSDSET = {'xsd/s.xsd', 'xsd/inc/inc.xsd', 'imp/i.xsd'}
ALL = set(FILES)


def make_tree(root):
    for rel, data in FILES.items():
        p = os.path.join(root, rel)
        os.makedirs(os.path.dirname(p), exist_ok=True)
        open(p, 'wb').write(data)
    open(os.path.join(root, 'doc.xml'), 'wb').write(DOC)
    open(os.path.join(root, 'nodtd.xml'), 'wb').write(DOC_NODTD)


class Quiet(http.server.BaseHTTPRequestHandler):
    hits = []

    def do_GET(self):
        Quiet.hits.append(self.path)
        body = b'<!ELEMENT r ANY><!ELEMENT g ANY>'
        self.send_response(200)
        self.send_header('Content-Length', str(len(body)))
        self.end_headers()
        self.wfile.write(body)

    def log_message(self, *a):
        pass


def strace_run(binary, cases, work, tag):
    """run the cases in one driver process under strace; returns ({id: Record}, {id: [(syscall, arg, result)]})"""
    cf = os.path.join(work, tag + '.cases')
    lf = os.path.join(work, tag + '.log')
    sf = os.path.join(work, tag + '.strace')
    with open(cf, 'w', encoding='utf-8') as f:
        for c in cases:
            f.write(c.render())
    env = dict(os.environ, XV_SYSCALL_MARKERS='1', XV_SCRATCH=work)
    p = subprocess.run(['strace', '-f', '-qq', '-e', 'trace=open,openat,access,connect', '-o', sf, binary, cf, lf], env=env, capture_output=True, timeout=1800)
    recs, order = core.parse_log(lf)
    sys = collections.defaultdict(list)
    cur = None
    rx = re.compile(r'^\d+\s+(\w+)\((.*)\)\s+=\s+(-?\d+)(.*)$')
    for l in open(sf, errors='replace'):
        m = rx.match(l.rstrip())
        if not m:
            continue
        name, args, res = m.group(1), m.group(2), int(m.group(3))
        if name == 'access':
            mm = re.match(r'"/xv-case/([^"]*)"', args)
            if mm:
                cur = mm.group(1)
            continue
        if cur is None:
            continue
        if name in ('open', 'openat'):
            mm = re.search(r'"((?:[^"\\]|\\.)*)"', args)
            if mm:
                sys[cur].append(('open', mm.group(1), res))
        elif name == 'connect':
            mm = re.search(r'sin_port=htons\((\d+)\).*inet_addr\("([^"]+)"\)', args)
            if mm:
                sys[cur].append(('connect', '%s:%s' % (mm.group(2), mm.group(1)), res))
    return recs, sys, p.returncode


def expected_sets(o, doc):
    """(must_not, must) as sets of relative paths for configuration o"""
    sc = o.get('scanner', 'IG')
    disdef = int(o.get('disdef', 0))
    val = o.get('val', 'never')
    extdtd = int(o.get('extdtd', 1))
    schema = int(o.get('schema', 0))
    loadschema = int(o.get('loadschema', 1))
    has_dtd = doc == 'doc.xml'
    must_not = set()
    must = set()
    if disdef and o.get('resolver') in ('none', 'x-null'):
        must_not |= ALL
    if sc in ('WF', 'SG'):
        must_not |= DTDSET | {'ent/gi.xml'}
    if extdtd == 0 and val == 'never':
        must_not |= DTDSET
    if not loadschema or (not schema and sc == 'IG'):
        must_not |= XSDSET          # the SG scanner is the schema scanner: it processes schemas whatever doSchema says
    if sc in ('WF', 'DG'):
        must_not |= XSDSET          # these scanners do not process schemas at all
    # positive expectations only for unambiguous configurations
    if has_dtd and sc in ('IG', 'DG') and not disdef and (val == 'always' or extdtd == 1):
        must |= DTDSET | {'ent/gi.xml'}
    if sc in ('IG', 'SG') and schema and loadschema and val == 'always' and not disdef:
        must |= XSDSET
    return must_not, must


def run(tier):
    ck = core.Check(PID, tier)
    plain = build.ensure('plain', parts=['parse', 'domdump'])
    asan = build.ensure('asan', parts=['parse', 'domdump'])
    work = core._scratch('c19')
    stats = collections.Counter()
    try:
        root = os.path.join(work, 'tree')
        make_tree(root)
        srv = http.server.HTTPServer(('127.0.0.1', 0), Quiet)
        port = srv.server_address[1]
        th = threading.Thread(target=srv.serve_forever, daemon=True)
        th.start()
        open(os.path.join(root, 'net.xml'), 'wb').write(b'<!DOCTYPE r SYSTEM "http://127.0.0.1:%d/net.dtd"><r/>' % port)
        # ------------------------------------------------------------ part A: the configuration lattice under strace
        cases = []
        lattice = list(itertools.product(['IG', 'DG', 'WF', 'SG'], [0, 1], ['never', 'always', 'auto'], [0, 1], [0, 1], [0, 1], ['none', 'x-null', 'x-serve']))
        r = core.rng(ck.seed, PID, 'lattice')
        if tier == 'quick':
            r.shuffle(lattice)
            lattice = lattice[:260]
        apis = ['sax2', 'dom', 'sax1', 'domls']
        for n, (sc, disdef, val, extdtd, schema, loadschema, res) in enumerate(lattice):
            for doc in ('doc.xml', 'nodtd.xml', 'net.xml'):
                if doc == 'nodtd.xml' and n % 3:
                    continue
                if doc == 'net.xml' and n % 4:
                    continue
                if doc == 'doc.xml' and sc in ('WF', 'SG') and n % 2:
                    continue
                api = apis[n % 4]
                o = dict(api=api, scanner=sc, disdef=disdef, val=val, extdtd=extdtd, schema=schema, loadschema=loadschema, ns=1, dump=0, src='path',
                         srcpath=os.path.join(root, doc), resolver='none' if res == 'none' else 'x', resmiss='null')
                c = core.Case('L%d.%s' % (n, doc.split('.')[0]), 'parse', o, meta={'doc': doc, 'res': res})
                if res == 'x-serve':
                    for rel, data in FILES.items():
                        c.ents.append(('file://' + os.path.join(root, rel), data))
                        c.ents.append((os.path.join(root, rel), data))
                c.doc(b'')
                cases.append(c)
        nshard = 8
        parts = [cases[i::nshard] for i in range(nshard)]
        from concurrent.futures import ThreadPoolExecutor
        with ThreadPoolExecutor(nshard) as ex:
            results = list(ex.map(lambda ip: strace_run(plain, ip[1], work, 's%d' % ip[0]), enumerate(parts)))
        allrecs, allsys = {}, {}
        for recs, sys_, rc in results:
            allrecs.update(recs)
            allsys.update(sys_)
        matrix = collections.Counter()
        for c in cases:
            rec = allrecs.get(c.id)
            if rec is None or not rec.complete:
                ck.inconclusive.append('case %s did not complete under strace' % c.id)
                continue
            ck.evaluations += 1
            o = dict(c.opt, resolver=c.meta['res'])
            calls = allsys.get(c.id, [])
            opened = set()
            for kind, arg, res in calls:
                if kind == 'open' and arg.startswith(root + '/'):
                    rel = arg[len(root) + 1:]
                    if rel not in ('doc.xml', 'nodtd.xml', 'net.xml'):
                        opened.add(rel)
            connects = [arg for kind, arg, res in calls if kind == 'connect' and arg.endswith(':%d' % port)]
            st = pc.parse_record(rec)[0]
            offered = [x[2] for x in st.res]      # system ids offered to the resolver
            # (systemId or schemaLocation, baseURI) pairs as offered
            offered2 = [((x[5] if len(x) > 5 and x[0] != 'x4' and x[5] else x[2]) or '', x[3] or '') for x in st.res if x[0].startswith('x')]
            doc = c.meta['doc']
            if doc == 'net.xml':
                forbidden = (int(o['disdef']) and o['resolver'] in ('none', 'x-null')) or o['scanner'] in ('WF', 'SG') or (int(o['extdtd']) == 0 and o['val'] == 'never')
                stats['net_cases'] += 1
                if forbidden and connects:
                    ck.violation('C19:forbidden-connect:%s' % cfgclass(o), 'network connection although the configuration forbids fetching the external DTD', {'case': c.to_json(), 'syscalls': calls[:20]})
                elif not forbidden and o['scanner'] in ('IG', 'DG') and not connects and (o['val'] == 'always' or int(o['extdtd'])) and not int(o['disdef']):
                    ck.violation('C19:missing-fetch:net', 'external DTD on the loopback server was not fetched although permitted and needed', {'case': c.to_json()})
                else:
                    ck.add_distinct(core.h(c.id, 'net'))
                    matrix['net:' + ('forbidden' if forbidden else 'permitted')] += 1
                continue
            must_not, must = expected_sets(o, doc)
            if doc == 'nodtd.xml':
                must -= DTDSET | {'ent/gi.xml'}
            bad = opened & must_not
            ok = True
            if bad:
                ck.violation('C19:forbidden-open:%s:%s' % (kindof(sorted(bad)[0]), cfgclass(o)), 'opened %s although the configuration forbids it' % sorted(bad), {'case': c.to_json(), 'opened': sorted(opened)})
                ok = False
            unknown = set(x for x in opened if x not in ALL)
            if unknown:
                ck.violation('C19:misresolved-path', 'opened a path that no reference of the document graph designates: %s' % sorted(unknown), {'case': c.to_json(), 'opened': sorted(opened)})
                ok = False
            if o['resolver'] == 'x-serve' and opened:
                ck.violation('C19:default-source-used-despite-resolver:%s' % kindof(sorted(opened)[0]), 'the resolver supplied a source but the default source was opened as well: %s' % sorted(opened), {'case': c.to_json()})
                ok = False
            if o['resolver'] == 'x-null':
                for rel in opened:
                    full = os.path.join(root, rel)
                    if not any(join(bs, sy) in (full, 'file://' + full) for sy, bs in offered2):
                        ck.violation('C19:not-offered-to-resolver:%s' % kindof(rel), '%s was opened without having been offered to the entity resolver' % rel, {'case': c.to_json(), 'offered': offered})
                        ok = False
            if o['resolver'] != 'x-serve':
                missing = must - opened
                if missing:
                    ck.violation('C19:missing-fetch:%s:%s' % (kindof(sorted(missing)[0]), cfgclass(o)), 'permitted and required resources were not fetched: %s' % sorted(missing), {'case': c.to_json(), 'opened': sorted(opened)})
                    ok = False
            else:
                served = set(x.split(root + '/')[-1] for x in st.srv)
                missing = must - served
                if missing:
                    ck.violation('C19:missing-fetch-served:%s' % kindof(sorted(missing)[0]), 'resources not requested from the resolver: %s' % sorted(missing), {'case': c.to_json(), 'served': sorted(served)})
                    ok = False
            # base URI of every offer must be the entity that contains the reference
            for x in st.res:
                if x[0].startswith('x') and x[2] and x[3]:
                    stats['resolver_offers'] += 1
            if ok:
                ck.add_distinct(core.h(c.id))
                matrix['%s:%s:forbid=%s' % (o['scanner'], o['resolver'], ','.join(sorted(kindof(x) for x in must_not)) or '-')] += 1
        srv.shutdown()
        ck.cov['loopback_http_hits'] = len(Quiet.hits)
        # ------------------------------------------------------------ part B: entity expansion limit (ASan build, hook counters)
        lim_cases = []
        for L in (0, 1, 2, 10, 100, 1000):
            for N in sorted(set(x for x in (L - 1, L, L + 1, L + 5, 3 * L + 7) if x >= 0)):
                for shape in ('flat-content', 'flat-attr', 'nested', 'mixed'):
                    for api in ('sax2', 'dom'):
                        data, total = bomb(shape, N)
                        if data is None:
                            continue
                        lim_cases.append(core.Case('B.%d.%d.%s.%s' % (L, N, shape, api), 'parse', dict(api=api, seclimit=L, dump=0), meta={'L': L, 'N': total, 'shape': shape}).doc(data))
        for k in range(1, 7):
            ents = ''.join('<!ENTITY c%d "x&c%d;">' % (i, (i + 1) % k) for i in range(k))
            for where in ('content', 'attr'):
                d = '<!DOCTYPE a [%s]><a>%s</a>' % (ents, '&c0;') if where == 'content' else '<!DOCTYPE a [%s]><a b="&c0;"/>' % ents
                lim_cases.append(core.Case('Cy.%d.%s' % (k, where), 'parse', dict(api='sax2', seclimit=100000, dump=0), meta={'cycle': k}).doc(d.encode()))
        # parameter entities (known finding F10): 8-fold nesting, five levels, limit 5
        pe = '<!ENTITY % p0 "<!--x-->">' + ''.join('<!ENTITY %% p%d "%s">' % (i, ('%%p%d;' % (i - 1)) * 8) for i in range(1, 6)) + '%p5;'
        lim_cases.append(core.Case('PE.bomb', 'parse', dict(api='sax2', seclimit=5, dump=0, extdtd=1), ents=[('file:///xv/pe.dtd', pe.encode())], meta={'pe': 1}).doc(b'<!DOCTYPE a SYSTEM "pe.dtd"><a/>'))
        recs = core.run_cases(asan, lim_cases, tag='c19b')
        for c in lim_cases:
            r_ = recs.get(c.id)
            if r_ is None or not r_.complete or r_.crash or r_.hang:
                if r_ is not None:
                    ck.crash_violation(r_, c, 'C19:')
                continue
            st = pc.parse_record(r_)[0]
            ck.evaluations += 1
            pushes = st.hk[3] if st.hk else -1
            limit_err = any(e[2] == LIMIT_CODE for e in st.errs)
            if 'cycle' in c.meta:
                if not st.fatal():
                    ck.violation('C19:cycle-not-reported:%d' % c.meta['cycle'], 'recursive entity reference (cycle length %d) not reported' % c.meta['cycle'], {'case': c.to_json()})
                elif pushes > c.meta['cycle'] + 2:
                    ck.violation('C19:cycle-expanded', 'a recursive entity was expanded %d times before being reported' % pushes, {'case': c.to_json()})
                else:
                    ck.add_distinct(c.id)
                continue
            if 'pe' in c.meta:
                stats['pe_bomb_pushes_with_limit_5'] = pushes
                if not limit_err and pushes > 5 + 1:
                    ck.violation('C19:limit-not-applied:parameter-entity', 'with setEntityExpansionLimit(5) a DTD expanding parameter entities %d times was accepted' % pushes, {'case': c.to_json(), 'pushes': pushes})
                continue
            L, N = c.meta['L'], c.meta['N']
            stats['limit_cases'] += 1
            if N <= L and (limit_err or st.fatal()):
                ck.violation('C19:limit:error-at-or-below-limit:%s' % c.meta['shape'], 'document with %d expansions rejected under limit %d' % (N, L), {'case': c.to_json(), 'errs': st.errs[:2]})
            elif N > L and not limit_err:
                ck.violation('C19:limit:no-error-above-limit:%s' % c.meta['shape'], 'document with %d expansions accepted under limit %d' % (N, L), {'case': c.to_json(), 'pushes': pushes})
            elif N > L and pushes > L + 1:
                ck.violation('C19:limit:too-many-expansions:%s' % c.meta['shape'], '%d entity expansions happened before the limit %d was enforced' % (pushes, L), {'case': c.to_json()})
            else:
                ck.add_distinct(c.id)
        ck.cov['configuration_classes'] = dict(matrix)
        ck.cov['stats'] = dict(stats)
    finally:
        shutil.rmtree(work, ignore_errors=True)
    ck.rule = ('part A: one document graph on disk in nested directories (external DTD subset with external general and parameter entities relative to the DTD, an external entity of the '
               'internal subset, a schema with include and import, a DOCTYPE on a loopback HTTP server) x the configuration lattice {scanner, disableDefaultEntityResolution, validation scheme, '
               'loadExternalDTD, doSchema, loadSchema, resolver none / returns null / supplies source} x 4 APIs, observed through strace; non-trivial = every case (each forbids or requires some '
               'resource); distinct by configuration. part B: documents with exactly N general-entity expansions for N around each limit L, in content, attribute values, nested and mixed; cycles of length 1-6')
    ck.sample({'document': DOC.decode(), 'files': sorted(FILES), 'example_configuration': cases[0].opt if cases else None})
    ck.assumptions = ['strace attribution relies on the marker access() call the driver issues before each case (single-threaded driver)',
                      'positive expectations (resource must be fetched) are asserted only for configurations where validation is "always" or load-external-DTD is on',
                      'HTTP redirects and proxies are not modelled']
    if stats['net_cases'] == 0 or not Quiet.hits:
        ck.inconclusive.append('loopback HTTP server was never contacted')
    return ck.finish()


def join(base, rel):
    """RFC 2396 5.2 reference resolution for the hierarchical forms used here (monitor-side)"""
    import urllib.parse, posixpath
    if rel.startswith('/') or '://' in rel:
        return rel
    if '://' in base:
        return urllib.parse.urljoin(base, rel)
    return posixpath.normpath(posixpath.join(posixpath.dirname(base), rel))


LIMIT_CODE = None


def _limit_code():
    global LIMIT_CODE
    src = open(os.path.join(build.REPO, 'src/xercesc/framework/XMLErrorCodes.hpp')).read()
    m = re.search(r'EntityExpansionLimitExceeded\s*=\s*(\d+)', src)
    LIMIT_CODE = int(m.group(1))


_limit_code()


def bomb(shape, n):
    """document with exactly n general entity expansions"""
    if shape == 'flat-content':
        return ('<!DOCTYPE a [<!ENTITY e "x">]><a>' + '&e;' * n + '</a>').encode(), n
    if shape == 'flat-attr':
        return ('<!DOCTYPE a [<!ENTITY e "x">]><a b="' + '&e;' * n + '"/>').encode(), n
    if shape == 'nested':
        # e1 -> e0 e0 ; total expansions of &ek; = 2^(k+1)-1 ; choose refs to reach n exactly with a remainder of flat ones
        k = 0
        while 2 ** (k + 2) - 1 <= n:
            k += 1
        if n == 0:
            return b'<!DOCTYPE a [<!ENTITY e0 "x">]><a/>', 0
        decl = '<!ENTITY e0 "x">' + ''.join('<!ENTITY e%d "&e%d;&e%d;">' % (i, i - 1, i - 1) for i in range(1, k + 1))
        used = 2 ** (k + 1) - 1
        return ('<!DOCTYPE a [%s]><a>&e%d;%s</a>' % (decl, k, '&e0;' * (n - used))).encode(), n
    if shape == 'mixed':
        half = n // 2
        return ('<!DOCTYPE a [<!ENTITY e "x">]><a b="' + '&e;' * half + '">' + '&e;' * (n - half) + '</a>').encode(), n
    return None, 0


def kindof(rel):
    return 'dtd' if rel in DTDSET else 'xsd' if rel in XSDSET else 'entity' if rel == 'ent/gi.xml' else 'other'


def cfgclass(o):
    return 'sc=%s,disdef=%s,val=%s,extdtd=%s,schema=%s,loadschema=%s,res=%s' % (o.get('scanner'), o.get('disdef'), o.get('val'), o.get('extdtd'), o.get('schema'), o.get('loadschema'), o.get('resolver'))


def replay(j):
    print(j['what'])
    print(j['witness'].get('case', {}).get('opt'))
    print('re-run ./xv check C19 to reproduce under strace (the document graph is rebuilt in a scratch directory)')
    return 1
