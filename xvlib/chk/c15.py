"""C15: a parser's result is independent of its history; cached grammars are transparent.
Oracle: differential — the i-th operation of a sequence run on ONE parser object must give the same observation
(events, error codes and positions, status) as the same operation run alone on a fresh parser of the same build.
Adopted documents are re-dumped at the end of the sequence and must equal their dump at adoption time."""
import collections
from .. import core, build, parsecmp as pc
from ..gen import xmlgen, xmlmut

PID = 'C15'
XSD1 = (b'<xs:schema xmlns:xs="http://www.w3.org/2001/XMLSchema"><xs:element name="r"><xs:complexType><xs:sequence>'
        b'<xs:element name="a" maxOccurs="unbounded"><xs:complexType><xs:simpleContent><xs:extension base="xs:int">'
        b'<xs:attribute name="x" type="xs:string" default="s1"/><xs:attribute name="id" type="xs:ID"/></xs:extension></xs:simpleContent></xs:complexType></xs:element>'
        b'</xs:sequence></xs:complexType><xs:unique name="u"><xs:selector xpath="a"/><xs:field xpath="."/></xs:unique></xs:element></xs:schema>')
XSD2 = (b'<xs:schema xmlns:xs="http://www.w3.org/2001/XMLSchema" targetNamespace="urn:t2" xmlns="urn:t2" elementFormDefault="qualified">'
        b'<xs:element name="r"><xs:complexType><xs:sequence><xs:element name="a" type="xs:token" minOccurs="0" maxOccurs="3"/></xs:sequence>'
        b'<xs:attribute name="k" type="xs:boolean" default="true"/></xs:complexType></xs:element></xs:schema>')
EXT_DTD = b'<!ELEMENT r (a|b)*><!ELEMENT a (#PCDATA)><!ELEMENT b EMPTY><!ATTLIST a id ID #IMPLIED x CDATA "ext"><!ENTITY e "ext-e">'
EXT_ENT = b'<?xml version="1.0" encoding="UTF-8"?><a>from-ext</a>'

ENTS = [('file:///xv/s1.xsd', XSD1), ('file:///xv/s2.xsd', XSD2), ('file:///xv/d.dtd', EXT_DTD), ('file:///xv/x.ent', EXT_ENT)]


def pool_docs():
    """(name, bytes, default options) — documents that share element, ID and entity names but differ in content"""
    D = []

    def add(name, text, **opt):
        D.append((name, text if isinstance(text, bytes) else text.encode('utf-8'), opt))
    add('dtd-valid-1', '<!DOCTYPE r [<!ELEMENT r (a*)><!ELEMENT a (#PCDATA)><!ATTLIST a id ID #IMPLIED x CDATA "d1"><!ENTITY e "one">]><r><a id="i1">&e;</a><a id="i2"/></r>')
    add('dtd-valid-2', '<!DOCTYPE r [<!ELEMENT r (b,a?)><!ELEMENT a EMPTY><!ELEMENT b (#PCDATA)><!ATTLIST a x CDATA "d2" y NMTOKEN "n"><!ATTLIST b id ID #REQUIRED><!ENTITY e "two">]><r><b id="i1">&e;</b><a/></r>')
    add('dtd-invalid', '<!DOCTYPE r [<!ELEMENT r (a)><!ELEMENT a EMPTY><!ATTLIST a id ID #REQUIRED r IDREF #IMPLIED>]><r><a r="nowhere"/><a id="i1"/><a id="i1"/></r>')
    add('dtd-standalone', '<?xml version="1.0" standalone="yes"?><!DOCTYPE r [<!ELEMENT r (a)*><!ELEMENT a (#PCDATA)><!ATTLIST a x CDATA "sa">]><r><a>t</a> <a/></r>')
    add('malformed-mid', '<!DOCTYPE r [<!ENTITY e "mm">]><r><a id="i1">&e;</a><a></b></r>')
    add('malformed-early', '<r')
    add('malformed-entity', '<!DOCTYPE r [<!ENTITY e "<a>">]><r>&e;</r>')
    add('no-dtd', '<r><a x="1">plain &amp; simple</a><!--c--><?p d?></r>')
    add('no-dtd-undeclared-entity', '<r>&e;</r>')
    add('v11', '<?xml version="1.1"?><r>&#1;x\u0085y</r>')
    add('v10-c0ref', '<r>&#1;</r>')
    add('v10-nel', '<r>x\u0085y</r>')
    add('ns-doc', '<p:r xmlns:p="urn:p" xmlns="urn:d"><a p:x="1"/><p:a xmlns:p="urn:q"/></p:r>', ns=1)
    add('ns-unbound', '<p:r><a/></p:r>', ns=1)
    add('utf16', '<?xml version="1.0" encoding="UTF-16"?><r><a>中\U00010000</a></r>'.encode('utf-16'))
    add('latin1', '<?xml version="1.0" encoding="ISO-8859-1"?><r><a>é</a></r>'.encode('latin-1'))
    add('ext-dtd', '<!DOCTYPE r SYSTEM "d.dtd"><r><a id="i1">&e;</a><b/></r>')
    add('ext-dtd-invalid', '<!DOCTYPE r SYSTEM "d.dtd"><r><c/></r>')
    add('ext-entity', '<!DOCTYPE r [<!ENTITY x SYSTEM "x.ent">]><r>&x;</r>')
    add('xsd-valid', '<r xmlns:xsi="http://www.w3.org/2001/XMLSchema-instance" xsi:noNamespaceSchemaLocation="s1.xsd"><a id="i1">1</a><a>2</a></r>', ns=1, schema=1)
    add('xsd-invalid', '<r xmlns:xsi="http://www.w3.org/2001/XMLSchema-instance" xsi:noNamespaceSchemaLocation="s1.xsd"><a>1</a><a>01</a><a>x</a><b/></r>', ns=1, schema=1)
    add('xsd-ns-valid', '<r xmlns="urn:t2" xmlns:xsi="http://www.w3.org/2001/XMLSchema-instance" xsi:schemaLocation="urn:t2 s2.xsd"><a> t </a></r>', ns=1, schema=1)
    add('xsd-ns-invalid', '<r xmlns="urn:t2" xmlns:xsi="http://www.w3.org/2001/XMLSchema-instance" xsi:schemaLocation="urn:t2 s2.xsd" k="maybe"><a/><a/><a/><a/></r>', ns=1, schema=1)
    # parses that end in an exception raised inside the scanner/reader (not an ordinary well-formedness error)
    add('bad-utf8', b'<r><a>ok</a>\xff\xfe</r>')
    add('bad-utf8-in-name', b'<r><a\xc0\x80/></r>')
    add('unsupported-encoding', '<?xml version="1.0" encoding="x-no-such-charset"?><r/>')
    add('wrong-encoding-decl', '<?xml version="1.0" encoding="UTF-16"?><r>t</r>')
    add('ucs4-truncated', b'\x00\x00\x00<\x00\x00\x00?\x00\x00')
    add('malformed-two-errors', '<r><a></b><c></d></r>')
    add('deep', '<r>' + '<a>' * 40 + 'x' + '</a>' * 40 + '</r>')
    add('many-attrs', '<r ' + ' '.join('a%d="%d"' % (i, i) for i in range(130)) + '/>')
    return D


APIS = ['sax1', 'sax2', 'dom', 'domls', 'prog', 'progdom']


def step_sig(st):
    return (tuple(st.events), tuple((e[0], e[1], e[2], e[3], e[4]) for e in st.errs), tuple((e[0], e[1], e[2]) for e in st.eh), st.status, tuple(x[0] for x in st.exc), st.psteps)


def gen_sequence(r, D, gens, api, length):
    steps = []
    for k in range(length):
        if gens and r.random() < 0.25:
            g = r.choice(gens)
            data, opt, name = g[1], {'ns': 1 if g[2] else 0}, g[0]
        else:
            name, data, dopt = r.choice(D)
            opt = dict(dopt)
        o = dict(opt)
        o['val'] = r.choice(['never', 'never', 'always', 'auto'])
        if 'ns' not in o:
            o['ns'] = r.choice([0, 1])
        if o.get('schema'):
            o['val'] = r.choice(['always', 'auto', 'never'])
        if r.random() < 0.1:
            o['extdtd'] = 0
        if r.random() < 0.1:
            o['scanner'] = r.choice(['WF', 'DG', 'SG', 'IG'])
        x = r.random()
        if x < 0.15:
            o['throw_at'] = r.randint(1, 8)
            o['throw_kind'] = r.choice(['sax', 'std', 'int'])
        elif x < 0.3 and api in ('prog', 'progdom'):
            o['abandon_at'] = r.randint(0, 6)
            o['abandon_reset'] = r.choice([0, 1])
        if api in ('dom', 'domls') and r.random() < 0.15:
            o['eref'] = 1
        if api == 'dom' and r.random() < 0.2:
            o['adopt'] = 1
        steps.append((name, data, o))
    return steps


def run(tier):
    ck = core.Check(PID, tier)
    binary = build.ensure('asan', parts=['parse', 'domdump'])
    D = pool_docs()
    nseq = 700 if tier == 'quick' else 10000
    rounds = 1 if tier == 'quick' else 10
    length = (6, 12) if tier == 'quick' else (8, 30)
    stats = collections.Counter()
    kinds = collections.Counter()
    for rd in range(rounds):
        gens = []
        gen_ents = []
        for i in range(40):
            r = core.rng(ck.seed, PID, 'gen', rd, i)
            g = xmlgen.make(r, file_prefix='g%d-' % i)
            gen_ents += g['ents']
            gens.append(('gen-wf-%d' % i, g['bytes'], g['cx'].ns))
            ops = list(xmlmut.ALL_OPS)
            r.shuffle(ops)
            m = xmlmut.mutate(g, r, ops[0])
            if m:
                gens.append(('gen-mut-%s-%d' % (ops[0], i), m['bytes'], g['cx'].ns))
        cases = []
        seqs = {}
        for s in range(nseq // rounds):
            r = core.rng(ck.seed, PID, rd, s)
            api = r.choice(APIS)
            steps = gen_sequence(r, D, gens, api, r.randint(*length))
            sid = 'r%ds%d' % (rd, s)
            base = dict(api=api, resolver=r.choice(['x', 'x', 'sax']) if api not in ('domls',) else 'x', resmiss='empty')
            c = core.Case(sid, 'parse', base, ents=ENTS + gen_ents)
            for k, (name, data, o) in enumerate(steps):
                oo = dict(o)
                if k == len(steps) - 1 and api == 'dom':
                    oo['redump_adopted'] = 1
                c.doc(data, **oo)
            cases.append(c)
            seqs[sid] = (api, steps, base)
            # fresh-parser baselines
            for k, (name, data, o) in enumerate(steps):
                o2 = dict(o)
                o2.pop('adopt', None)
                cases.append(core.Case('%s.f%d' % (sid, k), 'parse', base, ents=ENTS + gen_ents).doc(data, **o2))
        recs = core.run_cases(binary, cases, tag='c15')
        for sid, (api, steps, base) in seqs.items():
            r_ = recs.get(sid)
            if r_ is None or not r_.complete or r_.crash or r_.hang:
                if r_ is not None:
                    ck.crash_violation(r_, next(c for c in cases if c.id == sid), 'C15:')
                continue
            sts = pc.parse_record(r_)
            if len(sts) != len(steps):
                ck.inconclusive.append('sequence %s produced %d step records for %d steps' % (sid, len(sts), len(steps)))
                continue
            nontrivial = False
            ok = True
            adopted_dumps = {}
            for k, (name, data, o) in enumerate(steps):
                fr = recs.get('%s.f%d' % (sid, k))
                if fr is None or not fr.complete or fr.crash or fr.hang:
                    continue
                fst = pc.parse_record(fr)[0]
                st = sts[k]
                ev = st.events
                # strip the re-dump of adopted documents before comparing
                if any(e[0] == 'ADOPTED' for e in ev):
                    cut = next(i for i, e in enumerate(ev) if e[0] == 'ADOPTED')
                    tail = ev[cut:]
                    st.events = ev[:cut]
                    cur = None
                    redumps = []
                    for e in tail:
                        if e[0] == 'ADOPTED':
                            cur = []
                            redumps.append(cur)
                        else:
                            cur.append(e)
                    for ai, now in enumerate(redumps):
                        orig = adopted_dumps.get(ai) if isinstance(adopted_dumps, dict) else None
                        if not orig:
                            # adopted after a parse that ended with a fatal error: the driver does not dump the partial
                            # document at that point, so there is nothing to compare the later state with
                            stats['adopted_documents_without_original_dump'] += 1
                            continue
                        stats['adopted_documents_rechecked'] += 1
                        if orig != now:
                            ck.violation('C15:adopted-document-changed', 'a document adopted earlier changed after later parses on the same parser',
                                         {'case': next(c for c in cases if c.id == sid).to_json(), 'diff': repr(pc.first_diff(orig, now))})
                            ok = False
                ck.evaluations += 1
                a, b = step_sig(st), step_sig(fst)
                if getattr(st, 'adopt_index', None) is not None:
                    # keyed by the driver's own index (side line ADOPT): an adoption after a failed parse has no dump to compare with
                    adopted_dumps[st.adopt_index] = [e for e in st.events] if st.status == 'ok' and not st.fatal() else []
                if k > 0 and (st.status != 'ok' or st.errs or 'throw_at' in o or 'abandon_at' in o or any(sts[j].status != 'ok' or sts[j].errs for j in range(k))):
                    nontrivial = True
                if a != b:
                    prev = steps[k - 1] if k else None
                    pk = 'none'
                    if prev:
                        po = prev[2]
                        pk = 'after-throw' if 'throw_at' in po else 'after-abandon' if 'abandon_at' in po else ('after-' + ('v11' if prev[0] == 'v11' else 'fatal' if sts[k - 1].fatal() else 'exception' if sts[k - 1].status != 'ok' else 'ok'))
                    what = 'events' if a[0] != b[0] else 'errors' if a[1] != b[1] or a[2] != b[2] else 'status'
                    # the XML version leak (a 1.1 document parsed earlier) has its own class
                    seen_v11 = any(steps[j][0] == 'v11' and sts[j].status == 'ok' for j in range(k))
                    if seen_v11 and name in ('v10-c0ref', 'v10-nel'):
                        key = 'C15:differs-from-fresh:xml-version-leak'
                    else:
                        key = 'C15:differs-from-fresh:%s:%s:%s' % (api, pk, what)
                    d = pc.first_diff(list(b[0]), list(a[0])) if what == 'events' else (b[1:], a[1:])
                    ck.violation(key, 'step %d (%s) of a sequence differs from the same operation on a fresh parser: %s' % (k, name, repr(d)[:300]),
                                 {'case': next(c for c in cases if c.id == sid).to_json(), 'step': k, 'doc': name, 'fresh': repr(b)[:1500], 'reused': repr(a)[:1500]})
                    ok = False
                    break
                kinds[(name.split('-')[0], o.get('val'), 'throw' if 'throw_at' in o else 'abandon' if 'abandon_at' in o else 'plain')] += 1
            if ok and nontrivial:
                ck.add_distinct(core.h(sid, [(s[0], sorted(s[2].items())) for s in steps]))
            if ok and len(ck.samples) < 2:
                ck.sample({'api': api, 'steps': [{'doc': s[0], 'opts': s[2]} for s in steps[:8]]})
    cached_grammar_part(ck, binary, stats)
    ck.rule = ('sequences of 6-12 (quick) / 8-30 (thorough) operations on one parser object drawn from a pool of valid / invalid / malformed documents that share element, ID and '
               'entity names (DTD, external subset, external entity, two schemas, XML 1.1, UTF-16, namespaces) plus generated documents and mutants; operations include handler '
               'exceptions at the k-th callback, abandoned progressive parses (with/without parseReset), feature flips, scanner switches and adoptDocument; a sequence is non-trivial '
               'when some step follows a non-success step; distinct by the sequence of (document, options)')
    ck.cov['operation_kinds'] = {'/'.join(map(str, k)): v for k, v in sorted(kinds.items(), key=lambda kv: -kv[1])[:60]}
    ck.cov['stats'] = dict(stats)
    ck.assumptions = ['the fresh-parser run of the same build is the reference', 'continue-after-fatal-error is not used (documented as undetermined)',
                      'in the history part grammar caching is off; the cached-grammar part compares preloaded (loadGrammar) and cached-from-parse grammars with the grammar parsed inline, on documents without internal subset (documented requirement of DTD caching), ignoring xsi location hints and error columns']
    return ck.finish()


XSI = 'http://www.w3.org/2001/XMLSchema-instance'


def content_sig(st):
    """what a cached grammar must not change: events (without xsi:* location hints), error codes in order, status"""
    ev = []
    for e in pc.project(st.events, ns=True, keep_spec=True):
        if e[0] == 'SE':
            attrs = tuple(a for a in e[4] if a[0] not in ('xsi:schemaLocation', 'xsi:noNamespaceSchemaLocation'))
            ev.append(('SE', e[1], e[2], e[3], attrs))
        else:
            ev.append(e)
    return (tuple(ev), tuple((e[0], e[1], e[2]) for e in st.errs), st.status)


def cached_grammar_part(ck, binary, stats):
    """preloaded / cached grammars must give the same verdicts, defaults and content as the grammar parsed inline;
    a locked pool's grammar enumeration must not change"""
    loc1 = ' xmlns:xsi="%s" xsi:noNamespaceSchemaLocation="s1.xsd"' % XSI
    loc2 = ' xmlns:xsi="%s" xsi:schemaLocation="urn:t2 s2.xsd"' % XSI
    inst1 = [('<r%s><a id="i1">1</a><a>2</a></r>', 'valid'), ('<r%s><a>1</a><a>01</a></r>', 'dup-unique'), ('<r%s><a>x</a><b/></r>', 'invalid'), ('<r%s><a x="own">7</a></r>', 'default-overridden')]
    inst2 = [('<r xmlns="urn:t2"%s><a> t </a></r>', 'valid'), ('<r xmlns="urn:t2"%s k="maybe"><a/><a/><a/><a/></r>', 'invalid'), ('<r xmlns="urn:t2"%s/>', 'empty-default-attr')]
    dtddocs = [('<!DOCTYPE r SYSTEM "d.dtd"><r><a id="i1">&e;</a><b/></r>', 'valid'), ('<!DOCTYPE r SYSTEM "d.dtd"><r><c/></r>', 'invalid'), ('<!DOCTYPE r SYSTEM "d.dtd"><r><a/><a x="y"/></r>', 'defaults')]
    ents = dict(ENTS)
    cases = []
    plan = []       # (cached case id, step index, inline case id, label)
    n = 0
    for api in ('sax2', 'dom', 'sax1', 'domls'):
        base = dict(api=api, pool=1, ns=1, resolver='x', resmiss='empty')
        # B1: preloaded schema / B2: cached from an earlier parse
        for mode in ('preload', 'cachefromparse'):
            for (insts, loc, xsd) in ((inst1, loc1, 'file:///xv/s1.xsd'), (inst2, loc2, 'file:///xv/s2.xsd')):
                c = core.Case('G%d' % n, 'parse', base, ents=ENTS)
                n += 1
                if mode == 'preload':
                    c.doc(ents[xsd], op='loadgrammar', gtype='xsd', tocache=1, sysid=xsd, schema=1)
                else:
                    c.doc((insts[0][0] % loc).encode(), schema=1, val='always', cache=1)
                first = len(c.steps)
                for k, (t, label) in enumerate(insts):
                    c.doc((t % '').encode(), schema=1, val='always', usecached=1)
                    f = core.Case('%s.i%d' % (c.id, k), 'parse', dict(api=api, ns=1, resolver='x', resmiss='empty'), ents=ENTS).doc((t % loc).encode(), schema=1, val='always')
                    cases.append(f)
                    plan.append((c.id, first + k, f.id, '%s:%s:%s' % (mode, 'nons' if xsd.endswith('s1.xsd') else 'ns', label)))
                cases.append(c)
        # B3: preloaded DTD (documents without internal subset, as the documentation requires)
        c = core.Case('G%d' % n, 'parse', base, ents=ENTS)
        n += 1
        c.doc(ents['file:///xv/d.dtd'], op='loadgrammar', gtype='dtd', tocache=1, sysid='file:///xv/d.dtd')
        for k, (t, label) in enumerate(dtddocs):
            c.doc(t.encode(), val='always', usecached=1)
            f = core.Case('%s.i%d' % (c.id, k), 'parse', dict(api=api, ns=1, resolver='x', resmiss='empty'), ents=ENTS).doc(t.encode(), val='always')
            cases.append(f)
            plan.append((c.id, 1 + k, f.id, 'preload:dtd:%s' % label))
        cases.append(c)
        # B4: a locked pool is never modified
        c = core.Case('L%d' % n, 'parse', base, ents=ENTS, meta={'lock': 1})
        n += 1
        c.doc(ents['file:///xv/s1.xsd'], op='loadgrammar', gtype='xsd', tocache=1, sysid='file:///xv/s1.xsd', schema=1)
        c.doc(b'', op='lockpool')
        c.doc(b'', op='dumppool')
        for t, label in inst2 + inst1:
            c.doc((t % (loc2 if 'urn:t2' in t else loc1)).encode(), schema=1, val='always', cache=1, usecached=1)
        c.doc(dtddocs[0][0].encode(), val='always', cache=1, usecached=1)
        c.doc(b'', op='dumppool')
        c.doc(b'', op='unlockpool')
        cases.append(c)
    recs = core.run_cases(binary, cases, tag='c15g')
    parsed = {}
    for c in cases:
        r_ = recs.get(c.id)
        if r_ is None or not r_.complete or r_.crash or r_.hang:
            if r_ is not None:
                ck.crash_violation(r_, c, 'C15:')
            continue
        parsed[c.id] = pc.parse_record(r_)
    for cid, k, fid, label in plan:
        if cid not in parsed or fid not in parsed or k >= len(parsed[cid]):
            continue
        a, b = content_sig(parsed[cid][k]), content_sig(parsed[fid][0])
        ck.evaluations += 1
        stats['cached_vs_inline_compared'] += 1
        if a != b:
            what = 'events' if a[0] != b[0] else 'errors' if a[1] != b[1] else 'status'
            d = pc.first_diff(list(b[0]), list(a[0])) if what == 'events' else (b[1], a[1])
            ck.violation('C15:cached-grammar-differs:%s:%s' % (label.rsplit(':', 1)[0], what), 'validating with a preloaded/cached grammar differs from parsing the grammar inline (%s): %s' % (label, repr(d)[:300]),
                         {'case': next(c for c in cases if c.id == cid).to_json(), 'step': k, 'inline_case': next(c for c in cases if c.id == fid).to_json()})
        else:
            ck.add_distinct(core.h('cached', cid, k))
    for c in cases:
        if not c.meta.get('lock') or c.id not in parsed:
            continue
        dumps = [[e for e in st.events if e[0] in ('GP', 'GPN')] for st in parsed[c.id] if any(e[0] == 'GPN' for e in st.events)]
        stats['locked_pool_sequences'] += 1
        ck.evaluations += 1
        if len(dumps) != 2:
            ck.inconclusive.append('locked-pool case %s produced %d pool dumps' % (c.id, len(dumps)))
        elif dumps[0] != dumps[1]:
            ck.violation('C15:locked-pool-modified', 'the grammar enumeration of a locked pool changed: %r -> %r' % (dumps[0], dumps[1]), {'case': c.to_json()})
        else:
            ck.add_distinct(core.h('locked', c.id))


def replay(j):
    w = j['witness']
    binary = build.ensure('asan', parts=['parse', 'domdump'])
    c = core.Case.from_json(w['case'])
    k = w.get('step', 0)
    kind, payload, o = c.steps[k]
    fresh = core.Case('fresh', 'parse', c.opt, ents=c.ents)
    o2 = dict(o)
    o2.pop('adopt', None)
    fresh.steps.append((kind, payload, o2))
    recs = core.run_cases(binary, [c, fresh], shards=1)
    a = pc.parse_record(recs[c.id])[k]
    b = pc.parse_record(recs['fresh'])[0]
    print('reused parser, step', k)
    print('\n'.join(a.raw[:60]))
    print('fresh parser')
    print('\n'.join(b.raw[:60]))
    return 1 if step_sig(a) != step_sig(b) else 0
