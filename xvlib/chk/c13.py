"""C13  DOM mutation keeps the tree well-formed and equal to a reference DOM.

Oracle: the reference DOM of xvlib/gen/domref.py executes the same operation script as the real library
(drivers/xd_domscript.cpp); after every operation the outcome (ok / DOMException code), the returned value,
the driver-side structural invariants and a hash of the identity-carrying structural dump are compared.
Workload: exhaustive operation sequences over a small fixed tree + random scripts over up to 3 documents.
"""
import os, sys, json, time, itertools
from concurrent.futures import ProcessPoolExecutor
from .. import core, build
from ..gen import domref
from ..gen.domref import ScriptOp, Model, Undecided

PID = 'C13'
CMD = 'domscript'

# operand classes whose key does not need the operation name
SELF_DESCRIBING = {'insert-into-self', 'insert-ancestor', 'move-docelement', 'move-doctype'}


class Harness(Exception):
    pass


# ---------------------------------------------------------------------------------------------------
#  log parsing
# ---------------------------------------------------------------------------------------------------
class Obs:
    __slots__ = ('outcome', 'res', 'inv', 'crc', 'nl', 'ud', 'dump')

    def __init__(self):
        self.outcome = self.res = self.inv = self.crc = self.nl = None
        self.ud = []
        self.dump = None


def parse_obs(lines):
    """-> ({opIndex: Obs}, [X lines])"""
    obs = {}
    xl = []
    cur = None
    pend_ud = {}
    for l in lines:
        if l.startswith('D\t'):
            if cur is not None:
                if cur.dump is None:
                    cur.dump = []
                cur.dump.append(l)
            continue
        f = l.split('\t')
        if f[0] == 'O':
            o = Obs()
            i = int(f[1])
            o.outcome, o.res, o.inv, o.crc, o.nl = f[2], f[3], f[4], f[5], f[6]
            o.ud = pend_ud.pop(i, [])
            obs[i] = o
            cur = o
        elif f[0] == 'U':
            pend_ud.setdefault(int(f[1]), []).append((int(f[2]), core.unesc(f[3]), int(f[4]), f[5]))
        elif f[0] == 'X' or f[0] in ('BADCMD', 'DRIVERCATCH'):
            xl.append(l)
    return obs, xl


# ---------------------------------------------------------------------------------------------------
#  lock-step comparison
# ---------------------------------------------------------------------------------------------------
class Mismatch:
    def __init__(self, i, op, exp, direction, detail, cutting=True):
        self.i, self.op, self.exp, self.direction, self.detail, self.cutting = i, op, exp, direction, detail, cutting

    def key(self, pid=PID):
        cls = self.exp.cls if self.exp is not None else ''
        name = self.op.name
        if self.direction.startswith('userdata-events'):
            return '%s:%s:%s' % (pid, self.direction, name)
        if name in ('it', 'tw', 'list', 'map', 'rg', 'getById') and self.direction == 'result' and cls in domref.TAIL_ONLY:
            # the operand class of the query itself names a known defect (e.g. a by-name lookup in a mis-ordered attribute map)
            return '%s:%s:%s:%s' % (pid, self.direction, name, cls)
        if name in ('it', 'tw', 'list', 'map', 'rg', 'getById') and self.direction == 'result' and getattr(self, 'after', None):
            # answers of a live view: name the last tree mutation that preceded the wrong answer (narrow key)
            return '%s:%s:%s%s:after-%s' % (pid, self.direction, name, (':' + cls) if cls else '', self.after)
        if cls in SELF_DESCRIBING:
            return '%s:%s:%s' % (pid, self.direction, cls)
        return '%s:%s:%s%s' % (pid, self.direction, name, (':' + cls) if cls else '')


def _outcome_ok(exp, outcome):
    """-> None when acceptable, else direction string"""
    if outcome.startswith('harness:'):
        raise Harness(outcome)
    if exp.codes is None:
        if outcome == 'ok':
            return None
        if outcome.startswith('dom:') or outcome.startswith('range:'):
            return 'unexpected-exception:' + outcome.replace(':', '')
        return 'foreign-exception:' + outcome.split(':')[0] + ':' + outcome.split(':', 1)[-1][:40]
    if outcome == 'ok':
        return None if 'ok' in exp.codes else 'no-exception'
    if outcome.startswith('dom:') or outcome.startswith('range:'):
        code = int(outcome.split(':')[1])
        if code in exp.codes:
            return None
        return 'wrong-exception:' + outcome.replace(':', '')
    return 'foreign-exception:' + outcome.split(':')[0] + ':' + outcome.split(':', 1)[-1][:40]


class Run:
    """result of comparing one case"""
    def __init__(self):
        self.mismatch = None
        self.soft = []            # non-cutting mismatches (user data events)
        self.compared = 0
        self.stopped = None
        self.seq = []             # (op name, outcome) sequence
        self.kinds = set()
        self.exc_expected = 0
        self.codes_seen = {}
        self.classes = {}
        self.states = set()
        self.view_queries_after_mutation = 0
        self.opquirks = {}        # op index -> quirks applicable to that (mutating or view-creating) operation
        self.view_made = {}       # view number -> index of the operation that created it


def lockstep(ops, obs, forced, upto=None, pid=PID, collect=None, base=frozenset()):
    ignore_ud = pid != PID      # user data handler calls belong to C13
    """Run the model along the observation.  forced: {op index: quirk name}.  Returns a Run."""
    m = Model()
    run = Run()
    i = -1
    mutated = False
    last_mut = None
    last_mut_i = None
    for op in ops:
        if op.name == 'kill':
            continue
        i += 1
        o = obs.get(i)
        try:
            rop = op.resolve(m)
        except KeyError as ke:
            if forced:
                # after a re-synchronised deviation the handle bookkeeping of the script (written for the W3C path) may no longer fit
                run.stopped = 'diverged-after-deviation:' + sorted(sorted(v)[0] for v in forced.values())[0]
                return run
            raise Harness('script uses dead handle %s at op %d (%s)' % (ke, i, op.render()))
        m.quirk = (set(forced[i]) | set(base)) if i in forced else set(base)
        try:
            exp = m.apply(rop)
        except Undecided as u:
            run.stopped = 'undecided:%s' % u
            return run
        except (TypeError, AttributeError, ValueError, IndexError):
            if forced:       # handles mean something else on the re-synchronised path
                run.stopped = 'diverged-after-deviation:' + sorted(sorted(v)[0] for v in forced.values())[0]
                return run
            raise
        finally:
            m.quirk = set(base)
        if forced and sorted(set(exp.kills)) != sorted(op.kills) and exp.codes is None:
            # the script's "!n" directives were computed on the W3C path; after a re-synchronised deviation they no longer
            # describe what the library releases here, so the driver's handle table cannot be trusted any further
            run.stopped = 'diverged-after-deviation:' + sorted(sorted(v)[0] for v in forced.values())[0]
            return run
        if o is None:
            # quiet set-up operation: the driver logs nothing while it succeeds
            if exp.codes is not None:
                raise Harness('set-up op %d expected to fail: %s' % (i, op.render()))
            continue
        if forced and o.outcome.startswith('harness:'):
            run.stopped = 'diverged-after-deviation:' + sorted(sorted(v)[0] for v in forced.values())[0]
            return run
        if exp.dontcare:
            if o.outcome.startswith('harness:'):
                raise Harness(o.outcome)
            if o.inv not in ('ok', '-') and not o.inv.startswith('FAIL:unreachable'):
                run.mismatch = Mismatch(i, op, exp, 'invariant:' + o.inv[5:].split('@')[0], {'inv': o.inv})
                return run
            run.stopped = 'implementation-dependent:' + exp.cls
            run.seq.append((op.name, 'dontcare'))
            return run
        run.compared += 1
        run.kinds.add(op.name)
        if op.name in domref.MUTATING or (op.name == 'rg' and len(op.args) > 1 and op.args[1] in ('delete', 'extract', 'insertNode', 'surround')):
            mutated = True
            last_mut = op.name if op.name != 'rg' else 'rg-' + op.args[1]
            if exp.cls in domref.TAIL_ONLY:
                last_mut += '(' + exp.cls + ')'
            last_mut_i = i
            if exp.quirks:
                run.opquirks[i] = list(exp.quirks)
        elif mutated and op.name in ('it', 'tw', 'list', 'map', 'rg', 'getById') and m.views:
            run.view_queries_after_mutation += 1
        if op.name in ('mkList', 'mkIter', 'mkWalker', 'mkMap', 'mkRange') or (op.name == 'rg' and len(op.args) > 2 and op.args[1] == 'cloneRange'):
            run.view_made[op.args[2] if op.name == 'rg' else op.args[0]] = i
            if exp.quirks:
                run.opquirks[i] = list(exp.quirks)
        run.seq.append((op.name, o.outcome))
        run.classes[op.name + ':' + exp.cls] = run.classes.get(op.name + ':' + exp.cls, 0) + 1
        if exp.codes is not None:
            run.exc_expected += 1
        if o.outcome != 'ok':
            run.codes_seen[o.outcome] = run.codes_seen.get(o.outcome, 0) + 1
        d = _outcome_ok(exp, o.outcome)
        if d is not None:
            run.mismatch = Mismatch(i, op, exp, d, {'expected': sorted(map(str, exp.codes)) if exp.codes else 'ok', 'observed': o.outcome})
            return run
        if o.inv not in ('ok', '-'):
            # name the kind of node the invariant failed on (type + how it came into being): narrow key
            who = o.inv.split('@')[-1]
            desc = ''
            if who.startswith('n') and who[1:].isdigit() and int(who[1:]) in m.H:
                x = m.H[int(who[1:])]
                desc = ':%s-%s' % (x.origin, domref.TYPE_NAMES[x.t])
            run.mismatch = Mismatch(i, op, exp, 'invariant:' + o.inv[5:].split('@')[0] + desc, {'inv': o.inv})
            return run
        if o.outcome == 'ok' and exp.res is not None and exp.codes is None:
            okres = (o.res in exp.res) if isinstance(exp.res, (set, frozenset)) else (o.res == exp.res)
            if not okres:
                run.mismatch = Mismatch(i, op, exp, 'result', {'expected': sorted(exp.res) if isinstance(exp.res, (set, frozenset)) else exp.res, 'observed': o.res})
                run.mismatch.after = last_mut
                run.mismatch.after_i = last_mut_i
                return run
        if o.crc != '-':
            crc, nl, lines = m.dump_hash()
            if collect is not None:
                collect.add(crc)
            if str(crc) != o.crc or str(nl) != o.nl:
                direction = 'exception-but-changed' if o.outcome != 'ok' else 'tree-differs'
                run.mismatch = Mismatch(i, op, exp, direction, {'expected_dump': lines, 'observed_dump': o.dump, 'expected_hash': [crc, nl], 'observed_hash': [o.crc, o.nl]})
                return run
        if not exp.ud_dontcare and not ignore_ud:
            eu = sorted((a, b, c, d_) for (a, b, c, d_) in exp.ud)
            ou = sorted(o.ud)
            if exp.ud_optional:
                opt = list(exp.ud_optional)
                rest = list(eu)
                for x in ou:
                    if x in rest:
                        rest.remove(x)
                    elif x in opt:
                        opt.remove(x); eu.append(x)
                eu.sort()
            if eu != ou:
                kinds = sorted(set(x[0] for x in eu) ^ set(x[0] for x in ou)) or sorted(set(x[0] for x in eu + ou))
                run.soft.append(Mismatch(i, op, exp, 'userdata-events:%s' % ('missing' if len(ou) < len(eu) else 'unexpected' if len(ou) > len(eu) else 'different') +
                                         ':type' + '+'.join(map(str, kinds)), {'expected': eu, 'observed': ou}, cutting=False))
        if upto is not None and i >= upto:
            return run
    return run


def compare_case(ops, obs, pid=PID, base=frozenset()):
    """-> (Run of the final pass, [(key, what, detail)] violations)"""
    forced = {}
    viol = []
    states = set()
    for _ in range(64):
        run = lockstep(ops, obs, forced, collect=states, pid=pid, base=base)
        mm = run.mismatch
        if mm is None:
            break
        explained = False
        qs = list(dict.fromkeys(mm.exp.quirks)) if (mm.exp is not None and mm.exp.quirks) else []
        cands = [(mm.i, qs)] if qs else []
        if not qs and getattr(mm, 'after_i', None) is not None:
            # a wrong answer of a live view: the deviation may sit in the last tree mutation before the query, ...
            order = [mm.after_i]
            if mm.op.name in ('it', 'tw', 'list', 'map', 'rg'):
                # ... in the operation that created the view (a deep list taken from the document's pool), ...
                if mm.op.args and mm.op.args[0] in run.view_made:
                    order.append(run.view_made[mm.op.args[0]])
                # ... or in an earlier mutation whose effect on THIS view was not queried before other mutations followed (the generator
                # probes 1-3 of up to 8 live views after a mutation): the most recent operations with a known deviation, newest first
                order.extend(sorted((k for k in run.opquirks if k < mm.i), reverse=True)[:8])
            for k in dict.fromkeys(order):
                q2 = list(dict.fromkeys(run.opquirks.get(k, [])))
                if q2 and k not in forced:
                    cands.append((k, q2))
        for at, qs in cands:
            if explained:
                break
            if at in forced:
                continue
            combos = [frozenset([q]) for q in qs] + ([frozenset(qs)] if len(qs) > 1 else [])
            # one deviation can expose another one inside the same operation (e.g. an accepted xmlns name, then the node replacement of
            # setAttributeNS): last attempt with every known deviation switched on for this operation
            combos.append(frozenset(qs) | frozenset(domref.KNOWN_DEVIATIONS) | (frozenset(domref.KNOWN_VIEW_DEVIATIONS) if pid != PID else frozenset()))
            for combo in combos:
                f2 = dict(forced)
                f2[at] = combo
                r2 = lockstep(ops, obs, f2, upto=mm.i, pid=pid, base=base)
                if r2.mismatch is None and r2.stopped is None:      # outcome, result, invariants AND dump of the operation agree on this path
                    forced = f2
                    for q in sorted(combo if len(combo) <= len(qs) else frozenset(qs)):
                        viol.append(('%s:deviation:%s' % (pid, q), 'real library deviates from the DOM text in the way described by quirk "%s" (op %d: %s)' % (q, mm.i, mm.op.render()),
                                     {'op_index': mm.i, 'op': mm.op.render(), 'w3c_mismatch': mm.direction, 'detail': _short(mm.detail)}))
                    explained = True
                    break
        if not explained:
            viol.append((mm.key(pid), '%s at op %d: %s' % (mm.direction, mm.i, mm.op.render()), {'op_index': mm.i, 'op': mm.op.render(), 'class': mm.exp.cls if mm.exp else '', 'detail': _short(mm.detail)}))
            break
    for s in run.soft:
        viol.append((s.key(pid), '%s at op %d: %s' % (s.direction, s.i, s.op.render()), {'op_index': s.i, 'op': s.op.render(), 'detail': _short(s.detail)}))
    run.states = states
    return run, viol


def _short(d):
    out = {}
    for k, v in d.items():
        if isinstance(v, list) and len(v) > 120:
            v = v[:120] + ['... (%d lines)' % len(v)]
        out[k] = v
    return out


# ---------------------------------------------------------------------------------------------------
#  cases
# ---------------------------------------------------------------------------------------------------
def mk_case(cid, ops, chk=1, dump=-1, quiet=0, cls='random'):
    c = core.Case(cid, CMD, {'chk': chk, 'dump': dump, 'quiet': quiet}, meta={'ops': [o.to_json() for o in ops], 'class': cls})
    c.txt(domref.script_text(ops))
    return c


def case_ops(c):
    return [ScriptOp.from_json(j) for j in c.meta['ops']]


def gen_random(seed, shard, n, nops, tail_prob, chk=1, pid=PID, views=False):
    cases = []
    for k in range(n):
        g = domref.Gen(core.rng(seed, pid, 'random', shard, k), nops=nops, views=views)
        ops = g.script(tail_prob=tail_prob)
        cases.append(mk_case('r%d_%d' % (shard, k), ops, chk=chk, cls='random'))
    return cases


def gen_exhaustive(depth, shard, nshards):
    reduced = depth >= 3
    alphabet = domref.exh_ops(reduced)
    cases = []
    skipped = 0
    seen = set()
    for idx, seq in enumerate(itertools.product(alphabet, repeat=depth)):
        # shard by the FIRST operation so that sequences truncated to the same prefix meet in one shard and are run once
        if (idx // (len(alphabet) ** (depth - 1))) % nshards != shard:
            continue
        r = domref.exh_script(seq)
        if r is None:
            skipped += 1
            continue
        ops, nset, stopped = r
        text = domref.script_text(ops[nset:])
        if text in seen:
            skipped += 1
            continue
        seen.add(text)
        cases.append(mk_case('x%d_%d' % (depth, idx), ops, quiet=nset, cls='exhaustive'))
    return cases, skipped, len(alphabet)


# ---------------------------------------------------------------------------------------------------
#  pinned special cases: one minimal script per defect / deviation found while building this check (notes/C13.md).
#  They make every run exercise those operand classes deterministically (random scripts only reach them in their tail).
# ---------------------------------------------------------------------------------------------------
SPECIALS = {
 'self-append': '''newdoc=n0 ~ r 0
cE=n1 n0 e
app n1 n1''',
 'fragment-self-append-hang': '''newdoc=n0 ~ r 0
cDF=n1 n0
cE=n2 n0 e
app n1 n2
app n1 n1''',
 'substring-huge-count': '''newdoc=n0 ~ r 0
cT=n1 n0 hello
substringData n1 0 5000''',
 'clone-firstchild-leaf': '''newdoc=n0 ~ r 0
bind=n1 n0 de
cT=n2 n0 hello
app n1 n2
clone=n3 n2 0
cE=n4 n0 x
cC=n5 n0 y
app n4 n5
app n4 n3''',
 'rename-illegal-ns-attr': '''newdoc=n0 ~ r 0
cANS=n1 n0 urn:u1 p:a
rename=n2 n0 n1 urn:u1 a:''',
 'rename-illegal-owned-attr': '''newdoc=n0 ~ r 0
bind=n1 n0 de
setAttr n1 a v
getAttrNode=n2 n1 a
rename=n3 n0 n2 urn:u1 xml:a''',
 'setAttributeNode-own': '''newdoc=n0 ~ r 0
bind=n1 n0 de
setAttr n1 a v
getAttrNode=n2 n1 a
setAttrNode=n3 n1 n2''',
 'replaceWholeText-after-element': '''newdoc=n0 ~ r 0
bind=n1 n0 de
cE=n2 n0 b
cT=n3 n0 T1
app n2 n3
app n1 n2
cT=n4 n0 T2
app n1 n4
replaceWholeText=n5 n4 Z''',
 'wholeText-after-element': '''newdoc=n0 ~ r 0
bind=n1 n0 de
cE=n2 n0 b
cT=n3 n0 T1
app n2 n3
app n1 n2
cT=n4 n0 T2
app n1 n4
wholeText n4''',
 'attr-map-out-of-order': '''newdoc=n0 ~ r 0
bind=n1 n0 de
setAttr n1 p:a 1
setAttrNS n1 urn:u2 b 2
cANS=n2 n0 urn:u2 q:b
setAttrNodeNS=n3 n1 n2
setAttr n1 p:a 3''',
 'fragment-two-elements-into-document': '''newdoc=n0 ~ ~ 0
cDF=n1 n0
cE=n2 n0 a
cE=n3 n0 b
app n1 n2
app n1 n3
app n0 n1''',
 'document-replaceChild-fragment': '''newdoc=n0 ~ r 0
bind=n1 n0 de
cDF=n2 n0
cE=n3 n0 a
cE=n4 n0 b
app n2 n3
app n2 n4
rep n0 n2 n1''',
 'document-replaceChild-self': '''newdoc=n0 ~ r 0
bind=n1 n0 de
rep n0 n1 n1''',
 'import-events': '''newdoc=n0 ~ r 0
bind=n1 n0 de
setUD n1 k1 7 1
import=n2 n0 n1 0''',
 'adopt-events': '''newdoc=n0 ~ r 0
bind=n1 n0 de
cE=n2 n0 e
setUD n2 k1 7 1
adopt n0 n2''',
 'normalize-empty-text': '''newdoc=n0 ~ r 0
bind=n1 n0 de
cT=n2 n0 %
app n1 n2
normalize n1''',
 'normalize-attr': '''newdoc=n0 ~ r 0
bind=n1 n0 de
cA=n2 n0 a
cT=n3 n0 x
cT=n4 n0 y
app n2 n3
app n2 n4
setAttrNode=n5 n1 n2
normalize n1''',
 'move-docelement': '''newdoc=n0 ~ r 0
bind=n1 n0 de
cC=n2 n0 c
app n0 n2
app n0 n1''',
 'setAttributeNodeNS-own': '''newdoc=n0 ~ r 0
bind=n1 n0 de
setAttrNS n1 urn:u1 p:a v
getAttrNodeNS=n2 n1 urn:u1 a
setAttrNodeNS=n3 n1 n2''',
 'setTextContent-empty': '''newdoc=n0 ~ r 0
bind=n1 n0 de
setTC n1 %''',
 'setAttributeNS-prefixed': '''newdoc=n0 ~ r 0
bind=n1 n0 de
setAttrNS n1 urn:u1 p:a v
getAttrNodeNS=n2 n1 urn:u1 a
setAttrNS n1 urn:u1 q:a w''',
 'setAttributeNS-keeps-prefix': '''newdoc=n0 ~ r 0
bind=n1 n0 de
setAttrNS n1 urn:u1 p:a v
setAttrNS n1 urn:u1 a w''',
 'rename-no-name-check': '''newdoc=n0 ~ r 0
cE=n1 n0 e
rename=n2 n0 n1 ~ 1a''',
 'xmlns-element': '''newdoc=n0 ~ r 0
cENS=n1 n0 urn:u1 xmlns:a''',
 'xmlns-uri-other-name': '''newdoc=n0 ~ r 0
cANS=n1 n0 http://www.w3.org/2000/xmlns/ a''',
 'setIdAttributeNode-foreign': '''newdoc=n0 ~ r 0
bind=n1 n0 de
setAttr n1 a v
cA=n2 n0 a
setIdNode n1 n2 1''',
}


def gen_specials(table=None):
    cases = []
    for name, text in (table or SPECIALS).items():
        ops = domref.parse_script(text)
        full = _rebuild(ops)
        cases.append(mk_case('sp_' + name, full if full is not None else ops, cls='special:' + name))
    return cases


# ---------------------------------------------------------------------------------------------------
#  one shard (runs in a worker process)
# ---------------------------------------------------------------------------------------------------
def crash_key(rep):
    """<tool>:<kind>:<innermost library function>, stable across runs: no addresses, and for memory errors no sanitizer error kind
    (where a stray write lands decides between stack-buffer-overflow / stack-use-after-scope / SEGV)"""
    import re as _re
    inner = next((f for f in rep.frames if f[1]), None)
    fn = inner[0] if inner else None
    if not fn or fn == '?':
        m = _re.search(r'xercesc_4_0::([A-Za-z0-9_]+::[A-Za-z0-9_~]+)\(', rep.text or '')
        if m:
            fn = m.group(1)
        else:
            # no symbolised frame (the symbolizer gives up on an overloaded machine): the source file named by the report
            m = _re.search(r'/xercesc/[A-Za-z0-9_/]*?([A-Za-z0-9_]+\.(?:cpp|hpp|c)):\d+', rep.text or '')
            fn = m.group(1) if m else '?'
    if rep.tool == 'ubsan':
        kind = rep.kind.split(' of ')[0]
        kind = _re.sub(r'[^A-Za-z ]+', '', kind).strip().replace(' ', '-')[:40]
        return 'ubsan:%s:%s' % (kind, fn)
    if rep.tool in ('asan', 'signal'):
        return 'memory-error:%s' % fn
    return '%s:%s:%s' % (rep.tool, rep.kind, fn)


def safe_run_shard(binary, cases, **kw):
    """core.run_shard, but a batch whose FIRST case never finishes (core raises 'driver made no progress') costs that case only"""
    out = {}
    cases = list(cases)
    while cases:
        try:
            out.update(core.run_shard(binary, cases, **kw))
            break
        except RuntimeError as e:
            if 'no progress' not in str(e):
                raise
            r = core.Record(cases[0].id)
            r.hang = True
            if 'rc=-9' not in str(e) and 'rc=None' not in str(e):
                reps = core.parse_san(str(e))
                r.hang = False
                r.crash = reps[0] if reps else core.SanReport('signal', 'start', [], str(e)[-2000:])
            out[cases[0].id] = r
            cases = cases[1:]
    return out


def _detailed(c, dump=-1):
    c2 = core.Case(c.id + '_d', CMD, dict(c.opt, chk=1, dump=dump), meta=c.meta)
    c2.steps = list(c.steps)
    return c2


def attach_observed_dump(binary, witness):
    """re-execute the witness case with a full dump after every operation and attach what the real library showed"""
    c = core.Case.from_json(witness['case'])
    c2 = _detailed(c, dump=1)
    r = safe_run_shard(binary, [c2], tag='c13w', env=_env_for(binary)).get(c2.id)
    if r is None or not r.complete or r.crash:
        return
    dobs, _ = parse_obs(r.lines)
    i = (witness.get('expected_vs_observed') or {}).get('op_index')
    o = dobs.get(i)
    if o is not None and o.dump is not None:
        witness['observed_dump_at_op'] = o.dump[:200]


def run_shard(args):
    binary, kind, seed, shard, nshards, n, nops, tail_prob, depth = args[:9]
    chk = args[9] if len(args) > 9 else 1
    opts = args[10] if len(args) > 10 else {}
    pid = opts.get('pid', PID)
    base = frozenset(opts.get('base', ()))
    t0 = time.time()
    out = dict(evaluations=0, ops=0, violations=[], harness=[], distinct=[], samples=[], classes={}, codes={}, stopped={}, crashes=[],
               skipped=0, alphabet=0, exc_expected=0, states=set(), kind=kind, scripts=0)
    if kind == 'random':
        cases = gen_random(seed, shard, n, nops, tail_prob, chk, pid, bool(opts.get('views')))
    elif kind == 'special':
        cases = gen_specials(opts.get('specials'))
    else:
        cases, out['skipped'], out['alphabet'] = gen_exhaustive(depth, shard, nshards)
    out['scripts'] = len(cases)
    tgen = time.time() - t0
    # a hang costs one batch time-out: keep batches small enough for that to stay around a minute
    recs = {}
    CH = 300 if kind != 'special' else 4      # special cases in small batches (some of them used to crash or loop)
    for b in range(0, len(cases), CH):
        recs.update(safe_run_shard(binary, cases[b:b + CH], tag='c13%s%d' % (kind[0], shard), per_case_timeout=90.0, min_batch_timeout=180.0, env=_env_for(binary)))
    trun = time.time() - t0 - tgen
    suspects = []

    def crash_entry(c, r):
        key = None
        if r is not None:
            key = 'incomplete'
            if r.hang and not r.crash:
                key = 'hang'
            elif r.crash:
                key = crash_key(r.crash)
        out['crashes'].append((c.to_json(), key, None if r is None or not r.crash else r.crash.text[:6000], [] if r is None else r.lines[-3:]))

    for c in cases:
        r = recs.get(c.id)
        if r is not None and r.hang and not r.crash:
            # the batch watchdog fired (possible on an overloaded machine): the case is re-run alone; only a second trip is a hang
            r = safe_run_shard(binary, [c], tag='c13h%d' % shard, per_case_timeout=300.0, min_batch_timeout=300.0, env=_env_for(binary)).get(c.id)
        if r is None or not r.complete or r.crash or r.hang:
            crash_entry(c, r)
            continue
        ops = case_ops(c)
        obs, xl = parse_obs(r.lines)
        if xl:
            out['harness'].append('%s: %s' % (c.id, xl[0]))
            continue
        try:
            run, viol = compare_case(ops, obs, pid, base)
        except Harness as h:
            out['harness'].append('%s: %s' % (c.id, h))
            continue
        out['evaluations'] += 1
        out['ops'] += run.compared
        out['exc_expected'] += run.exc_expected
        for k, v in run.classes.items():
            out['classes'][k] = out['classes'].get(k, 0) + v
        for k, v in run.codes_seen.items():
            out['codes'][k] = out['codes'].get(k, 0) + v
        if run.stopped:
            sk = run.stopped.split(':')[0] + ':' + run.stopped.split(':', 1)[1][:40]
            out['stopped'][sk] = out['stopped'].get(sk, 0) + 1
        out['states'] |= run.states
        if run.compared >= 10 and len(run.kinds) >= 4 and run.exc_expected >= 1 and (not opts.get('views') or run.view_queries_after_mutation >= 5):
            out['distinct'].append(core.h(run.seq))
        if viol:
            suspects.append((c, viol))
        elif len(out['samples']) < 2 and run.compared >= 3:
            last = max(obs) if obs else None
            out['samples'].append({'script': domref.script_text(ops)[:1500], 'outcomes': run.seq[:60],
                                   'final_observed': (obs[last].outcome, obs[last].res, obs[last].inv, obs[last].crc) if last is not None else None})
    # authoritative verdict for every suspect: one more batch with invariants + dump hash after EVERY operation
    if suspects:
        need = [x for x in suspects if int(x[0].opt.get('chk', 1)) != 1]
        recs2 = {}
        for b in range(0, len(need), 40):
            recs2.update(safe_run_shard(binary, [_detailed(c) for c, _ in need[b:b + 40]], tag='c13v%d' % shard, per_case_timeout=120.0,
                                        min_batch_timeout=240.0, env=_env_for(binary)))
        for c, viol in suspects:
            r2 = recs2.get(c.id + '_d')
            if int(c.opt.get('chk', 1)) != 1 and (r2 is None or not r2.complete or r2.hang):
                # batch was cut short (watchdog on an overloaded machine): again, alone, up to three times
                for _try in range(3):
                    r2 = safe_run_shard(binary, [_detailed(c)], tag='c13w%d' % shard, per_case_timeout=300.0, min_batch_timeout=300.0, env=_env_for(binary)).get(c.id + '_d')
                    if r2 is not None and (r2.complete or r2.crash):
                        break
            if r2 is not None and r2.complete and not r2.crash and not r2.hang:
                dobs, xl = parse_obs(r2.lines)
                try:
                    _, viol2 = compare_case(case_ops(c), dobs, pid, base)
                    if viol2:
                        viol = viol2
                except Harness:
                    pass
            elif int(c.opt.get('chk', 1)) != 1:
                if r2 is not None and r2.crash:
                    crash_entry(c, r2)
                else:
                    out['harness'].append('%s: disagreement seen with coarse checking could not be re-executed with per-operation checking (%s)' % (
                        c.id, 'no record' if r2 is None else 'complete=%s hang=%s lines=%d' % (r2.complete, r2.hang, len(r2.lines))))
                continue
            for key, what, det in viol:
                out['violations'].append((key, what, {'case': c.to_json(), 'expected_vs_observed': det}))
    out['states'] = len(out['states'])
    out['t'] = (round(tgen, 1), round(trun, 1), round(time.time() - t0 - tgen - trun, 1))
    return out


# ---------------------------------------------------------------------------------------------------
#  shrinking (delta debugging on the operation list; the model regenerates the kill lines)
# ---------------------------------------------------------------------------------------------------
def _rebuild(ops_nokill):
    """re-run the model over a candidate list: drop it when a handle is dead or the model cannot decide"""
    m = Model()
    m.quirk = set(domref.KNOWN_DEVIATIONS)
    out = []
    for op in ops_nokill:
        try:
            exp = m.apply(op.resolve(m))
        except (KeyError, Undecided, IndexError, AttributeError, ValueError):
            return None
        out.append(ScriptOp(op.name, op.want, op.args, sorted(set(exp.kills))))
        if exp.dontcare:
            break
    return out


def shrink(binary, case_json, key, max_rounds=14, pid=PID, base=frozenset()):
    c = core.Case.from_json(case_json)
    cur = [o for o in case_ops(c) if o.name != 'kill']
    chunk = max(1, len(cur) // 2)
    rounds = 0
    while chunk >= 1 and rounds < max_rounds:
        rounds += 1
        cands = []
        for s in range(0, len(cur), chunk):
            cand = cur[:s] + cur[s + chunk:]
            if not cand:
                continue
            full = _rebuild(cand)
            if full is None:
                continue
            cands.append((cand, mk_case('s%d_%d' % (rounds, s), full, cls='shrink')))
        if not cands:
            if chunk == 1:
                break
            chunk = max(1, chunk // 2)
            continue
        recs = core.run_cases(binary, [x[1] for x in cands], shards=1, tag='c13s', env=_env_for(binary))
        hit = None
        for cand, cc in cands:
            r = recs.get(cc.id)
            if r is None:
                continue
            if not r.complete or r.crash:
                k2 = ['%s:%s' % (pid, crash_key(r.crash))] if (r.crash is not None) else []
            else:
                obs, xl = parse_obs(r.lines)
                try:
                    _, viol = compare_case(case_ops(cc), obs, pid, base)
                except Harness:
                    continue
                k2 = [v[0] for v in viol]
            if key in k2:
                hit = cand
                break
        if hit is not None:
            cur = hit
            chunk = min(chunk, max(1, len(cur) // 2))
        else:
            if chunk == 1:
                break
            chunk = max(1, chunk // 2)
    full = _rebuild(cur)
    return mk_case(c.id + '_min', full if full is not None else cur, dump=1, cls='shrunk')


# ---------------------------------------------------------------------------------------------------
#  check entry points
# ---------------------------------------------------------------------------------------------------
TIERS = {
    #            random scripts, ops each, exhaustive depth
    'micro': dict(nrandom=96, nops=200, depth=0, chk=1),         # first 6 scripts of each shard
    'mini': dict(nrandom=320, nops=200, depth=0, chk=1),        # subset of quick (same shards, first 20 scripts each): sensitivity runs
    'quick': dict(nrandom=2000, nops=200, depth=2, chk=1),      # invariants + dump hash after EVERY operation
    'thorough': dict(nrandom=6000, nops=200, depth=3, chk=1),    # every operation compared (see the note in c14.py)
}


def _env_for(binary):
    return None


def run(tier):
    ck = core.Check(PID, tier)
    cfg = TIERS.get(tier, TIERS['quick'])
    binary = build.ensure('asan', parts=['domscript'])
    return _run(ck, cfg, tier, binary)


def _run(ck, cfg, tier, binary, opts=None):
    opts = opts or {}
    pid = ck.pid
    base = frozenset(opts.get('base', ()))
    nsh = 16                                   # logical shards: fixed, so that a seed always means the same scripts
    workers = max(1, min(16, core.NCPU, int(os.environ.get('XV_JOBS', '16'))))
    jobs = [(binary, 'special', ck.seed, 0, 1, 0, 0, 0, 0, 1, opts)]
    per = (cfg['nrandom'] + nsh - 1) // nsh
    for s in range(nsh):
        jobs.append((binary, 'random', ck.seed, s, nsh, per, cfg['nops'], cfg.get('tail', 0.06), 0, cfg['chk'], opts))
    xsh = (nsh if cfg['depth'] < 3 else nsh * 4) if cfg['depth'] > 0 else 0
    for s in range(xsh):
        jobs.append((binary, 'exhaustive', ck.seed, s, xsh, 0, 0, 0, cfg['depth'], 1, opts))
    ck.note('running %d shards (%d random scripts x %d ops, exhaustive depth %d)' % (len(jobs), per * nsh, cfg['nops'], cfg['depth']))
    res = []
    with ProcessPoolExecutor(workers) as ex:
        for r in ex.map(run_shard, jobs):
            res.append(r)
    classes, codes, stopped = {}, {}, {}
    nops = 0
    exh_scripts = exh_skipped = rnd_scripts = 0
    alphabet = 0
    states = 0
    first_witness = {}
    for r in res:
        ck.evaluations += r['evaluations']
        nops += r['ops']
        for d in r['distinct']:
            ck.add_distinct(d)
        for k, v in r['classes'].items():
            classes[k] = classes.get(k, 0) + v
        for k, v in r['codes'].items():
            codes[k] = codes.get(k, 0) + v
        for k, v in r['stopped'].items():
            stopped[k] = stopped.get(k, 0) + v
        for s in r['samples']:
            ck.sample(s, limit=4)
        if r['kind'] == 'exhaustive':
            exh_scripts += r['scripts']; exh_skipped += r['skipped']; alphabet = max(alphabet, r['alphabet'])
        else:
            rnd_scripts += r['scripts']
        states += r['states']
        for h in r['harness']:
            ck.inconclusive.append('harness: ' + h)
        for cj, key, text, tail in r['crashes']:
            c = core.Case.from_json(cj)
            if key in (None, 'incomplete'):
                ck.inconclusive.append('case %s did not complete: %s' % (c.id, tail))
            elif key == 'hang':
                ck.violation('%s:hang:%s' % (pid, c.meta.get('class', '')), 'script did not terminate within the watchdog', {'case': cj})
            else:
                key = '%s:%s' % (pid, key)
                ck.violation(key, 'sanitizer/crash report while executing a DOM script', {'case': cj, 'report': text, 'last_lines': tail})
        for key, what, w in r['violations']:
            ck.violation(key, what, w)
            first_witness.setdefault(key, w['case'])
    # shrink the first witness of every key (parallel, bounded); the pinned special cases are minimal already
    keys = [k for k in ck.violations if k in first_witness]
    is_special = lambda k: str((first_witness[k].get('meta') or {}).get('class', '')).startswith('special')
    # witnesses of known findings are pinned in replays/ already: only NEW violations are shrunk
    is_known = lambda k: any(kf.get('property') == ck.pid and kf.get('status') == 'known' and core._key_match(kf.get('key'), k) for kf in ck.known)
    if keys:
        ck.note('%d violation key(s), %d new: attaching dumps / shrinking the new ones' % (len(keys), sum(1 for k in keys if not is_known(k))))
        from concurrent.futures import ThreadPoolExecutor
        def sh(k):
            try:
                if is_known(k):
                    return k, None
                if 'expected_vs_observed' in ck.violations[k]['witness']:
                    attach_observed_dump(binary, ck.violations[k]['witness'])
                if os.environ.get('XV_NOSHRINK'):
                    return k, None
                return k, (None if is_special(k) else shrink(binary, first_witness[k], k, pid=pid, base=base))
            except Exception as e:          # shrinking is a convenience, never a verdict
                return k, None
        with ThreadPoolExecutor(min(workers, len(keys))) as ex:
            for k, mc in ex.map(sh, keys):
                if mc is not None:
                    ck.violations[k]['witness']['minimal_case'] = mc.to_json()
                    ck.violations[k]['witness']['minimal_script'] = domref.script_text(case_ops(mc))
    ck.rule = opts.get('rule') or ('random script that executed >= 10 compared operations of >= 4 kinds including >= 1 operation for which the '
                                   'model expects a DOMException; distinct by hash of the (operation, outcome) sequence.  Exhaustive scripts are '
                                   'counted separately in coverage.')
    ck.cov['operations_compared'] = nops
    ck.cov['random_scripts'] = rnd_scripts
    ck.cov['exhaustive_scripts'] = exh_scripts
    ck.cov['exhaustive_depth'] = cfg['depth']
    ck.cov['exhaustive_alphabet'] = alphabet
    ck.cov['exhaustive_sequences_skipped_dead_handle_or_undecided'] = exh_skipped
    ck.cov['operand_classes'] = dict(sorted(classes.items()))
    ck.cov['exception_codes_observed'] = dict(sorted(codes.items()))
    ck.cov['comparison_stopped'] = dict(sorted(stopped.items()))
    ck.cov['distinct_tree_states_per_shard_sum'] = states
    ck.assumptions = list(domref.ASSUMPTIONS) + list(opts.get('assumptions', []))
    # targeted construct classes must have been exercised
    need = opts['need'] if 'need' in opts else ['ins:insert-ancestor', 'ins:insert-into-self', 'ins:foreign-document', 'ins:ref-not-child', 'ins:wrong-type-child', 'ins:read-only', 'app:fragment',
            'insertData:offset-out-of-range', 'splitText:offset-out-of-range', 'cE:invalid-name', 'cENS:invalid-qname', 'release:owned',
            'rem:not-a-child', 'setAttrNode:in-use']
    if tier in TIERS:
        for n in need:
            if not any(k == n or k.startswith(n) for k in classes):
                ck.inconclusive.append('operand class never exercised: ' + n)
    return ck.finish()


def replay(j, pid=PID, base=frozenset()):
    binary = build.ensure('asan', parts=['domscript'])
    w = j['witness']
    cj = w.get('minimal_case') or w['case']
    c = core.Case.from_json(cj)
    c.opt['chk'] = 1
    c.opt['dump'] = 1
    recs = core.run_cases(binary, [c], shards=1, tag='c13r')
    r = recs.get(c.id)
    ops = case_ops(c)
    print('script:')
    print(domref.script_text(ops))
    if r is None or not r.complete or r.crash:
        print('observed: crash/incomplete', r.crash.key() if r is not None and r.crash else '')
        if r is not None and r.crash:
            print(r.crash.text[:3000])
        return 1
    obs, xl = parse_obs(r.lines)
    run_, viol = compare_case(ops, obs, pid, base)
    for key, what, det in viol:
        print('VIOLATED', key, what)
        print(json.dumps(det, indent=1, default=str)[:6000])
    if not viol:
        print('model and real library agree on all %d compared operations' % run_.compared)
    return 1 if any(v[0] == j.get('key') for v in viol) or (viol and j.get('key') is None) else (1 if viol else 0)
