"""C12: a serialised DOM re-parses to an equal tree; the output is always well-formed.

Oracles (all computed here; the driver command `serialize` only executes and records):
 (1) metamorphic: parse . serialise = identity, serialise . parse . serialise = serialise (bytes);
 (2) well-formedness: the re-parse by a fresh Xerces parser must not be fatal; pyexpat is a second opinion for XML 1.0 output in
     UTF-8 / UTF-16 / ISO-8859-1 / US-ASCII;
 (3) tree equality judged twice: by DOMNode::isEqualNode (both directions) and by an independent comparison of the two canonical
     dumps (dumpDOM + the division of character data into Text/CDATA nodes).  The independent comparison exists in a strict form
     (predicts what isEqualNode must answer) and in the form the property asks for (modulo CDATA division where a section had to be
     split, namespace declarations added by fix-up, defaulted attributes dropped by discard-default-content when no DOCTYPE is written);
 (4) expected-error classification from the tree: content with no well-formed spelling (']]>' in CDATA with split off, '--' in a comment,
     '?>' in PI data, characters illegal in the document's XML version, characters the encoding cannot represent in names / comments / PIs /
     CDATA with split off / the DOCTYPE) must be REPORTED; everything else must be written;
 (5) XMLFormatter: every EscapeFlags x UnRepFlags combination against a per-character model.

The DOM's internal subset is a reconstruction made by the parser (AbstractDOMParser) that is not always a faithful spelling of the
declarations (DESIGN section 5 #17).  Whether it is faithful is decided from the subset string of the tree that is serialised (the string IS
part of the tree handed to the serializer): when it is not, failures confined to what depends on the DOCTYPE are reported under
C12:*:internal-subset-<class> and nothing else is demanded of the DOCTYPE; the same documents are also run with the DOCTYPE removed, where
everything is demanded."""
import collections, re, pyexpat, itertools
from .. import core, build, parsecmp as pc
from ..gen import xmlgen

PID = 'C12'
XMLNS_NS = 'http://www.w3.org/2000/xmlns/'

ENCODINGS = ['UTF-8', 'UTF-16', 'UTF-16LE', 'UTF-16BE', 'ISO-8859-1', 'US-ASCII', 'windows-1252', 'IBM037', 'IBM1047', 'IBM1140', 'ISO-8859-2', 'Shift_JIS']
UTF = ('UTF-8', 'UTF-16', 'UTF-16LE', 'UTF-16BE')
EBCDIC = ('IBM037', 'IBM1047', 'IBM1140')
# python codec used to *read* the output for the textual checks (XML declaration, character references): only invariant characters are
# looked at, so an approximate codec is good enough for IBM1047 / windows-1252 / Shift_JIS
READ_CODEC = {'UTF-8': 'utf-8', 'UTF-16': 'utf-16-le', 'UTF-16LE': 'utf-16-le', 'UTF-16BE': 'utf-16-be', 'ISO-8859-1': 'latin-1', 'US-ASCII': 'latin-1',
              'windows-1252': 'latin-1', 'IBM037': 'cp037', 'IBM1047': 'cp037', 'IBM1140': 'cp1140', 'ISO-8859-2': 'latin-1', 'Shift_JIS': 'latin-1'}


# ---------------------------------------------------------------------------------------------------
#  what can the target encoding represent?   True / False / None (= not decided here)
# ---------------------------------------------------------------------------------------------------
def _py_can(codec, ch):
    try:
        ch.encode(codec)
        return True
    except (UnicodeEncodeError, LookupError):
        return False


def rep(enc, ch):
    o = ord(ch)
    if 0xD800 <= o <= 0xDFFF:
        return None
    if enc in UTF or enc == '':
        return True
    if enc == 'US-ASCII':
        return o < 0x80
    if enc == 'ISO-8859-1':
        return o < 0x100
    if enc == 'windows-1252':
        if 0x80 <= o <= 0x9f:
            return None          # C1 controls: ICU / intrinsic tables and python disagree on the five holes
        return _py_can('cp1252', ch)
    if enc == 'ISO-8859-2':
        return _py_can('iso8859_2', ch)
    if enc in EBCDIC:
        if enc == 'IBM1140':
            return o == 0x20AC or (o < 0x100 and o != 0xA4)      # the euro sign took the place of the currency sign
        return o < 0x100
    if enc == 'Shift_JIS':
        if o < 0x80:
            return None if o in (0x5c, 0x7e) else True
        a, b = _py_can('cp932', ch), _py_can('shift_jis', ch)
        if a and b:
            return True
        if not a and not b:
            return False
        return None
    return None


def rep_all(enc, s):
    """True: every character representable; False: some character certainly not; None: undecided"""
    res = True
    for ch in set(s):
        r = rep(enc, ch)
        if r is False:
            return False
        if r is None:
            res = None
    return res


# ---------------------------------------------------------------------------------------------------
#  legality of characters
# ---------------------------------------------------------------------------------------------------
def illegal_chars(s, ver):
    """characters that are not Char in the version (lone surrogates, FFFE/FFFF, C0 in 1.0)"""
    bad = []
    for ch in s:
        o = ord(ch)
        if 0xD800 <= o <= 0xDFFF or o in (0xFFFE, 0xFFFF) or o == 0:
            bad.append(ch)
        elif o < 0x20 and ch not in '\t\n\r' and ver != '1.1':
            bad.append(ch)
    return bad


def restricted11(s):
    """XML 1.1 RestrictedChar: legal only as character reference"""
    return [ch for ch in s if (ord(ch) < 0x20 and ch not in '\t\n\r') or (0x7f <= ord(ch) <= 0x9f and ord(ch) != 0x85)]


# ---------------------------------------------------------------------------------------------------
#  reading the driver's record
# ---------------------------------------------------------------------------------------------------
class Obs:
    __slots__ = ('p1', 'ops', 'node', 'A', 'B', 'tlA', 'tlB', 'W', 'W2', 'wexc', 'w2exc', 'de', 'out', 'out2', 'p2', 'eq', 'eqexc', 'misc', 'rawA', 'rawB')


def read_record(r):
    o = Obs()
    o.p1 = o.p2 = o.node = o.W = o.W2 = o.out = o.out2 = o.eq = o.tlA = o.tlB = o.wexc = o.w2exc = o.eqexc = None
    o.ops, o.de, o.misc = [], [], []
    a, b = [], []
    for l in r.lines:
        t = l[:2]
        if t == 'A\t':
            a.append(l[2:])
        elif t == 'B\t':
            b.append(l[2:])
        else:
            f = l.split('\t')
            k = f[0]
            if k == 'P1':
                o.p1 = f[1:]
            elif k == 'P2':
                o.p2 = f[1:]
            elif k == 'OP':
                o.ops.append(f[1:])
            elif k == 'NODE':
                o.node = [f[1]] + [core.unesc(x) for x in f[2:]]
            elif k == 'TL':
                if f[1] == 'A':
                    o.tlA = f[2] if len(f) > 2 else ''
                else:
                    o.tlB = f[2] if len(f) > 2 else ''
            elif k == 'W':
                if f[1] == 'exc' and len(f) == 4:
                    o.wexc = (f[2], f[3])
                elif f[1] == 'cfg':
                    o.misc.append(l)
                else:
                    o.W = f[1:]
            elif k == 'W2':
                if f[1] == 'exc' and len(f) == 4:
                    o.w2exc = (f[2], f[3])
                elif f[1] == 'cfg':
                    o.misc.append(l)
                else:
                    o.W2 = f[1:]
            elif k == 'DE':
                o.de.append((f[1], f[2], core.unesc(f[3]) if len(f) > 3 else None))
            elif k == 'OUT':
                o.out = bytes.fromhex(f[1]) if len(f) > 1 else b''
            elif k == 'OUT2':
                o.out2 = 'same' if f[1:] == ['same'] else (bytes.fromhex(f[1]) if len(f) > 1 else b'')
            elif k == 'EQ':
                if f[1] == 'exc':
                    o.eqexc = f[2:]
                else:
                    o.eq = (f[1] == '1', f[2] == '1')
            else:
                o.misc.append(l)
    o.rawA, o.rawB = a, b
    o.A = pc.parse_step(a).events if a else None
    o.B = pc.parse_step(b).events if b else None
    return o


# ---------------------------------------------------------------------------------------------------
#  tree views
# ---------------------------------------------------------------------------------------------------
def is_xmlns(qn):
    return qn == 'xmlns' or qn.startswith('xmlns:')


def view(ev, strict, drop_cd=False, drop_er=False, drop_unspecified=False, skip_dt=False, er_content=True, attr_values=True):
    """list of comparable tuples.  Attributes: (qname, uri, local, value) sorted; 'specified' and DTD attribute types are not part of
    node equality.  Ignorable white space counts as character data; adjacent character data is merged (the division is compared
    separately through the TL line)."""
    out = []
    in_dt = False
    er_depth = 0
    for e in ev:
        t = e[0]
        if t == 'DT':
            in_dt = True
            if not skip_dt:
                out.append(('DT', e[1], e[2] or '', e[3] or ''))
            continue
        if t == 'EDT':
            in_dt = False
            if not skip_dt:
                out.append(e)
            continue
        if in_dt:
            if not skip_dt:
                out.append(tuple(x if x is not None else '' for x in e) if t in ('DE', 'DN', 'DIS') else e)
            continue
        if t in ('SER', 'EER'):
            if t == 'SER':
                er_depth += 1
            else:
                er_depth -= 1
            if not drop_er:
                out.append(e)
            continue
        if er_depth and not er_content:
            continue
        if t == 'SE':
            attrs = []
            for a in e[4]:
                if drop_unspecified and a[4] is False:
                    continue
                attrs.append((a[0], a[1], a[2], a[3] if attr_values else None))
            attrs.sort(key=lambda x: (x[0], x[1] or ''))
            out.append(('SE', e[1], e[2], e[3], tuple(attrs)))
        elif t in ('CH', 'IW'):
            if e[1] == '':
                continue
            if out and out[-1][0] == 'CH':
                out[-1] = ('CH', out[-1][1] + e[1])
            else:
                out.append(('CH', e[1]))
        elif t in ('CD0', 'CD1'):
            if not drop_cd:
                out.append(e)
        else:
            out.append(e)
    return out


def drop_added_nsdecls(va, vb):
    """remove from vb's elements the namespace declaration attributes that va's corresponding element does not have (declarations supplied
    by fix-up); positions correspond only as long as the lists agree, which is all that is needed to decide equality"""
    out = []
    for i, e in enumerate(vb):
        if e[0] == 'SE' and i < len(va) and va[i][0] == 'SE' and va[i][1] == e[1]:
            have = set(a[0] for a in va[i][4])
            attrs = tuple(a for a in e[4] if not (is_xmlns(a[0]) and a[0] not in have))
            out.append(('SE', e[1], e[2], e[3], attrs))
        else:
            out.append(e)
    return out


def texts_of(ev, refs_kept=False):
    """(context, string) for every string of the tree that the serializer writes; with refs_kept (entities=true) the content below an
    entity reference node is not written - only the reference is"""
    out = []
    in_cd = False
    in_dt = False
    er = 0
    for e in ev:
        t = e[0]
        if t == 'DT':
            in_dt = True
            out.append(('doctype', e[1] or ''))
            out.append(('doctype', e[2] or ''))
            out.append(('doctype', e[3] or ''))
        elif t == 'EDT':
            in_dt = False
        elif t == 'DIS':
            out.append(('doctype', e[1] or ''))
        elif in_dt:
            continue
        elif t == 'SER':
            if not (er and refs_kept):
                out.append(('eref-name', e[1]))
            er += 1
        elif t == 'EER':
            er -= 1
        elif er and refs_kept:
            continue
        elif t == 'SE':
            out.append(('elem-name', e[1]))
            for a in e[4]:
                out.append(('attr-name', a[0]))
                out.append(('attr' if a[4] is not False else 'attr-default', a[3] or ''))
        elif t == 'CD0':
            in_cd = True
        elif t == 'CD1':
            in_cd = False
        elif t in ('CH', 'IW'):
            out.append(('cdata' if in_cd else 'text', e[1]))
        elif t == 'CM':
            out.append(('comment', e[1]))
        elif t == 'PI':
            out.append(('pi-target', e[1]))
            out.append(('pi', e[2] or ''))
    return out


# ---------------------------------------------------------------------------------------------------
#  is the internal subset string a faithful spelling?  -> set of loss classes (empty = faithful)
# ---------------------------------------------------------------------------------------------------
_NAME = r'[^\s<>&"\'%;=/()|#\[\]]+'
_re_ws = re.compile(r'\s+')
_re_comment = re.compile(r'<!--.*?-->', re.S)
_re_pi = re.compile(r'<\?' + _NAME + r'(\s[^?]*(\?(?!>)[^?]*)*)?\?>', re.S)
_re_element = re.compile(r'<!ELEMENT\s+' + _NAME + r'\s+[^<>"\']*>')
_re_notation = re.compile(r'<!NOTATION\s+' + _NAME + r'\s+(PUBLIC\s+"[^"<>&]*"(\s+"[^"<>&]*")?|SYSTEM\s+"[^"<>&]*")\s*>')
_re_entity_int = re.compile(r'<!ENTITY ([^\s"]+) "(.*?)">', re.S)
_re_entity_ext = re.compile(r'<!ENTITY ' + _NAME + r'(?P<pub> PUBLIC "[^"]*")?(?P<sys> SYSTEM "[^"]*")?(?P<nd> NDATA ' + _NAME + r')?>')
_re_attlist_head = re.compile(r'<!ATTLIST\s+' + _NAME)
_re_attdef = re.compile(r'\s+' + _NAME + r'\s+(CDATA|IDREFS|IDREF|ID|ENTITY|ENTITIES|NMTOKENS|NMTOKEN|NOTATION\s*\([^()]*\)|\([^()]*\))(?=[\s>])(\s+#(REQUIRED|IMPLIED|FIXED)(?=[\s>]))?(\s+"(?P<v>[^"]*)")?')
_re_ref = re.compile(r'&(#[0-9]+|#x[0-9a-fA-F]+|' + _NAME + r');')


def _literal_loss(v, ver, attr):
    """would re-reading "v" give v back?"""
    if '"' in v or '%' in v:
        return True
    rest = _re_ref.sub(lambda m: '' if not m.group(1).startswith('#') else '&', v)
    if '&' in rest:          # a character reference (expanded when re-read) or a bare ampersand
        return True
    if attr and ('<' in v or '&' in v or any(c in v for c in '\t\n\r')):
        return True
    if '\r' in v:
        return True
    if ver == '1.1' and (restricted11(v) or '\u0085' in v or '\u2028' in v):
        return True
    if illegal_chars(v, ver):
        return True
    return False


def subset_losses(s, ver):
    loss = _subset_losses(s, ver)
    if 'unparsed' in loss and len(loss) > 1:
        loss.discard('unparsed')      # what follows a damaged literal cannot be tokenised: one cause, one name
    return loss


def _subset_losses(s, ver):
    if not s:
        return set()
    loss = set()
    last = [None]

    def fail():
        # garbage after a declaration whose literal contained a quote belongs to that declaration
        return loss | ({last[0]} if last[0] else {'unparsed'})
    i, n = 0, len(s)
    while i < n:
        m = _re_ws.match(s, i)
        if m:
            i = m.end()
            continue
        if s.startswith('<!--', i):
            m = _re_comment.match(s, i)
            if not m:
                return fail()
            loss.add('comment-padding')
            i = m.end()
            continue
        if s.startswith('<?', i):
            m = _re_pi.match(s, i)
            if not m:
                return fail()
            i = m.end()
            continue
        if s.startswith('<!ELEMENT', i):
            m = _re_element.match(s, i)
            if not m:
                return fail()
            i = m.end()
            continue
        if s.startswith('<!NOTATION', i):
            m = _re_notation.match(s, i)
            if not m:
                return fail()
            i = m.end()
            continue
        if s.startswith('<!ENTITY', i):
            m = _re_entity_ext.match(s, i)
            if m and (m.group('pub') or m.group('sys')):
                if m.group('pub') and m.group('sys'):
                    loss.add('entity-public-system')
                if m.group('nd') and not m.group('sys'):
                    loss.add('unparsed')
                i = m.end()
                continue
            m = _re_entity_int.match(s, i)
            if not m:
                return fail()
            if _literal_loss(m.group(2), ver, False):
                loss.add('entity-literal')
            last[0] = 'entity-literal'
            i = m.end()
            continue
        if s.startswith('<!ATTLIST', i):
            m = _re_attlist_head.match(s, i)
            if not m:
                return fail()
            i = m.end()
            while True:
                m = _re_attdef.match(s, i)
                if not m:
                    break
                v = m.group('v')
                if v is not None and _literal_loss(v, ver, True):
                    loss.add('attr-default')
                i = m.end()
            m = re.compile(r'\s*>').match(s, i)
            if not m:
                # a default value containing a quote ends the definition early: whatever follows is not a declaration
                return loss | {'attr-default'}
            last[0] = 'attr-default'
            i = m.end()
            continue
        return fail()
    return loss


# ---------------------------------------------------------------------------------------------------
#  expected-error classification from the tree
# ---------------------------------------------------------------------------------------------------
def tree_reasons(ev, enc, ver, split, whole, doctype_written, refs_kept=False):
    """-> (must: set of classes for which serialisation must report an error, may: set of classes where it is not decided,
           notes: dict of facts used later)"""
    must, may = set(), set()
    notes = collections.Counter()
    for ctx, s in texts_of(ev, refs_kept):
        if ctx == 'doctype' and not doctype_written:
            continue
        if ctx == 'attr-default':
            ctx = 'attr'
        if not s:
            continue
        if ctx == 'doctype':
            # legality of what the subset string contains is part of the faithfulness question (subset_losses)
            r = rep_all(enc, s)
            if r is False and enc in ICU_ENCODINGS and all(ord(ch) in DEFAULT_IGNORABLE for ch in s if rep(enc, ch) is False):
                must.add('icu-default-ignorable-dropped')
            elif r is not True:
                (must if r is False else may).add('unrep:doctype')
            continue
        bad = illegal_chars(s, ver)
        if bad:
            must.add('illegal-char:' + ctx)
        if ver == '1.1':
            if restricted11(s):
                if ctx in ('text', 'attr'):
                    notes['xml11-restricted-in-' + ctx] += 1      # expressible through character references
                elif ctx == 'cdata' and split:
                    may.add('xml11-restricted:cdata')             # could be moved out of the section as a reference
                else:
                    must.add('xml11-restricted:' + ctx)
            if '\u0085' in s or '\u2028' in s:
                notes['xml11-nel-ls-in-' + ctx] += 1
        r = rep_all(enc, s)
        if r is not True:
            if ctx in ('text', 'attr'):
                notes['unrep-' + ctx] += 1
            elif ctx == 'cdata' and split:
                notes['unrep-cdata-split'] += 1
                if any(ord(c) > 0xFFFF and rep(enc, c) is not True for c in s):
                    notes['unrep-cdata-split-supplementary'] += 1
            elif r is False and enc in ICU_ENCODINGS and all(ord(ch) in DEFAULT_IGNORABLE for ch in s if rep(enc, ch) is False):
                must.add('icu-default-ignorable-dropped')
            else:
                (must if r is False else may).add('unrep:' + ctx)
        if ctx == 'cdata' and ']]>' in s:
            if split:
                notes['cdata-close-split'] += 1
            else:
                must.add('cdata-close')
        if ctx == 'comment' and ('--' in s or s.endswith('-')):
            must.add('comment-dashes')
        if ctx == 'pi' and '?>' in s:
            must.add('pi-close')
    for e in ev:
        if e[0] == 'DT' and doctype_written and e[2] and not e[3]:
            must.add('doctype-public-without-system')
    return must, may, notes


# ---------------------------------------------------------------------------------------------------
#  second opinion on well-formedness
# ---------------------------------------------------------------------------------------------------
def expat_verdict(data, forced):
    """None = accepted; string = error; 'skip' = not applicable"""
    try:
        p = pyexpat.ParserCreate(forced) if forced else pyexpat.ParserCreate()
    except Exception:
        return 'skip'
    try:
        p.Parse(data, True)
        return None
    except pyexpat.ExpatError as e:
        msg = str(e)
        if 'unknown encoding' in msg or 'encoding' in msg and 'unsupported' in msg:
            return 'skip'
        return msg
    except Exception:
        return 'skip'


# ---------------------------------------------------------------------------------------------------
#  workload
# ---------------------------------------------------------------------------------------------------
def pick_config(r, g_ver, has_dtd, ns, allow_sub=True, enc=None):
    """one serializer configuration (case options + meta)"""
    o = {}
    enc = enc or r.choice(ENCODINGS)
    o['enc'] = enc
    o['target'] = r.choice(['mem', 'mem', 'mem', 'file', 'str', 'uri'])
    if o['target'] == 'str':
        o['enc'] = enc = 'UTF-16'         # writeToString always produces UTF-16 code units
    if o['target'] == 'uri':
        o['enc'] = enc = ''               # no way to choose: the serializer takes the document's input encoding
    o['xmldecl'] = 1 if (g_ver == '1.1' or enc == '' or r.random() < 0.75) else 0
    o['split'] = 0 if r.random() < 0.25 else 1
    o['ddc'] = 0 if r.random() < 0.4 else 1
    o['bom'] = 1 if r.random() < 0.3 else 0
    if r.random() < 0.3:
        o['nl'] = r.choice(['CR', 'CRLF', 'LF'])
    o['ns'] = 1 if ns else 0
    mode = 'whole'
    x = r.random()
    if has_dtd and x < 0.35:
        mode = 'nodoctype'
    elif allow_sub and x > 0.8 and g_ver == '1.0' and o['target'] != 'uri':
        mode = 'sub'
    o['eref'] = 1 if (mode == 'whole' and has_dtd and r.random() < 0.4) else 0
    if o['eref'] and r.random() < 0.25:
        o['ents'] = 0
    if ns and r.random() < 0.1 and mode != 'sub':
        o['normalize'] = 1
    if mode == 'sub':
        o['sub'] = 'el%d' % r.randint(0, 30)
    return o, mode


def finish_case_opts(o, mode):
    """decide whether the re-parse needs to be told the encoding (only when the output cannot carry the information itself)"""
    enc = o.get('enc', '')
    declared = o.get('xmldecl', 1) and mode != 'sub'
    if o.get('target') == 'str':
        if not declared:
            o['reparse_enc'] = 'UTF-16LE'
    elif not declared and enc not in ('UTF-8', ''):
        if not (o.get('bom') and mode != 'sub' and enc in ('UTF-16', 'UTF-16LE', 'UTF-16BE')):
            o['reparse_enc'] = 'UTF-16LE' if enc == 'UTF-16' else enc
    return o


def doc_cases(ck, n, per_doc, tag):
    cases = []
    for i in range(n):
        r = core.rng(ck.seed, PID, 'doc', tag, i)
        big = (i % 101 == 0)
        g = xmlgen.make(r, max_depth=5 if big else 4, max_children=7 if big else 4)
        cx = g['cx']
        has_dtd = bool(g['doc']['doctype'])
        for k in range(per_doc):
            o, mode = pick_config(r, cx.version, has_dtd, cx.ns)
            ops = []
            if mode == 'nodoctype':
                ops.append(('', {'op': 'rmdoctype'}))
            cls = 'parsed'
            # some parsed trees lose their namespace declarations: fix-up has to restore them
            if cx.ns and mode != 'sub' and r.random() < 0.12:
                ops.append(('', {'op': 'rmxmlns', 'at': r.randint(0, 5)}))
                cls = 'parsed-rmxmlns'
            finish_case_opts(o, mode)
            c = core.Case('%sd%d.%d' % (tag, i, k), 'serialize', o, ents=g.get('ents') or [], meta={'mode': mode, 'class': cls, 'ver': cx.version, 'src': 'xmlgen', 'tags': sorted(cx.tags)})
            c.doc(g['bytes'])
            for v, oo in ops:
                c.txt(v, **oo)
            cases.append(c)
    return cases


BASE_DOCS = {
    'plain': '<a><b>t</b><c/></a>',
    'ns': '<a xmlns="urn:d" xmlns:p="urn:p"><p:b p:x="1">t</p:b><c/></a>',
    'nsp': '<p:a xmlns:p="urn:p" xmlns="urn:d"><b/><p:c/></p:a>',
    'nons': '<a><b q="1">t</b></a>',
    'dtd': '<!DOCTYPE a [<!ENTITY e "ent-text"><!ENTITY f "<b>x</b>"><!ATTLIST b q CDATA "dq" r NMTOKEN #IMPLIED>]><a><b>t&e;</b><c/></a>',
    'v11': '<?xml version="1.1"?><a><b>t</b><c/></a>',
}

SPECIAL_TEXT = ['<', '>', '&', ']]>', '"', "'", '\r', '\t', '\n', '\r\n', ' ', '  ', 'x', 'ab', '\u0085', '\u00a0', 'é', 'Ā', '€', 'あ', '中',
                '\ud7ff', '\ue000', '\ufffd', '\U00010000', '\U0001f600', '\U0010ffff', '-', '--', '?>', '?', ']', ']]', '\\', '~', '\x7f', '\x80', '\x9f', '\u2028', '#', ';', '&#60;', '&lt;']


def rnd_string(r, lo=1, hi=6, pool=None):
    pool = pool or SPECIAL_TEXT
    return ''.join(r.choice(pool) for _ in range(r.randint(lo, hi)))


PROG_CLASSES = ['text-markup', 'text-ws', 'attr-markup-ws', 'unrep-text', 'unrep-attr', 'unrep-name', 'unrep-comment', 'unrep-pi', 'unrep-cdata', 'comment-dashes',
                'pi-close', 'cdata-close', 'illegal-char', 'invalid-name', 'ns-missing-decl', 'ns-default-undeclare', 'ns-prefix-conflict', 'ns-attr-no-prefix',
                'ns-rebind-child', 'eref-node', 'doctype-public-without-system', 'doctype-ids', 'xml11-chars', 'empty-and-mixed', 'standalone']

NONASCII_NAMES = ['él', 'nĀ', 'Ωx', '中', 'あb', 'z·']
WIDE = ['é', 'Ā', '€', 'あ', '中', '\U00010000', '\U0001f600', 'Ж', '¤', 'Ł', '\u200b', '\u00ad', '\ufeff']
ILLEGAL = ['\ufffe', '\uffff', '\ud800', '\udc00', '\udbff', '\x01', '\x08', '\x0b', '\x1f', 'a\ud800b', '\udc00\ud800']


def prog_case(r, cid, cls):
    """programmatic content: a base document plus edit operations aimed at one construct class"""
    base = 'plain'
    ops = []
    ver = '1.0'
    enc = None
    expect_ops = {}

    def op(v='', **kw):
        ops.append((v, kw))
    at = r.randint(0, 2)
    if cls == 'text-markup':
        op(rnd_string(r, 1, 8, ['<', '>', '&', ']]>', '"', "'", 'x', ']', ']]', '&#60;', '&lt;', ';', '#']), op='text', at=at)
    elif cls == 'text-ws':
        op(rnd_string(r, 1, 8, ['\r', '\t', '\n', '\r\n', ' ', 'x', '\u0085', '\u2028', '\u00a0']), op=r.choice(['text', 'text', 'cdata']), at=at)
    elif cls == 'attr-markup-ws':
        base = r.choice(['plain', 'ns', 'nons'])
        op(rnd_string(r, 0, 8, ['<', '>', '&', '"', "'", '\r', '\t', '\n', '\r\n', ' ', '  ', 'x', '\u0085', ']]>']), op='att', at=at, name=r.choice(['k', 'q', 'zz']))
    elif cls == 'unrep-text':
        op(rnd_string(r, 1, 6, WIDE + ['x', '<', '&']), op='text', at=at)
    elif cls == 'unrep-attr':
        op(rnd_string(r, 1, 6, WIDE + ['x', '"', '&']), op='att', at=at, name='k')
    elif cls == 'unrep-name':
        nm = r.choice(NONASCII_NAMES)
        k = r.choice(['el', 'att', 'pi', 'elns'])
        if k == 'el':
            op(op='el', at=at, name=nm)
        elif k == 'att':
            op('v', op='att', at=at, name=nm)
        elif k == 'pi':
            op('d', op='pi', at=at, name=nm)
        else:
            base = 'ns'
            op(op='elns', at=at, name='q:' + nm, uri='urn:q')
    elif cls == 'unrep-comment':
        op(rnd_string(r, 1, 5, WIDE + ['x', ' ']), op='comment', at=at)
    elif cls == 'unrep-pi':
        op(rnd_string(r, 1, 5, WIDE + ['x']), op='pi', at=at, name='tg')
    elif cls == 'unrep-cdata':
        op(rnd_string(r, 1, 6, WIDE + ['x', '<', ']]>', 'y']), op='cdata', at=at)
    elif cls == 'comment-dashes':
        op(r.choice(['--', 'a--b', '-', 'a-', '---', 'a--', '- -', '-a', 'a-b']), op=r.choice(['comment', 'comment', 'doccomment']), at=at)
    elif cls == 'pi-close':
        op(r.choice(['?>', 'a?>b', 'x?>', '?', '>', '??>', '? >']), op=r.choice(['pi', 'pi', 'docpi']), at=at, name='tg')
    elif cls == 'cdata-close':
        op(r.choice([']]>', 'a]]>b', ']]>]]>', ']]', ']>', 'a]]>', ']]>b', ']]]>', ']]>>', 'x]]>y]]>z']), op='cdata', at=at)
    elif cls == 'illegal-char':
        bad = r.choice(ILLEGAL)
        k = r.choice(['text', 'att', 'comment', 'pi', 'cdata'])
        if k == 'att':
            op('x' + bad, op='att', at=at, name='k')
        elif k == 'pi':
            op('x' + bad, op='pi', at=at, name='tg')
        else:
            op('x' + bad + 'y', op=k, at=at)
    elif cls == 'invalid-name':
        nm = r.choice(['1a', 'a b', '-a', 'a<b', '', 'a&b', '.x', 'a>', 'a"b', '·a', 'a:b:c', ':a', 'a:'])
        k = r.choice(['el', 'elns', 'att', 'attns', 'pi'])
        if ':' in nm and k == 'pi':
            k = 'elns'       # a colon is legal in an XML Name; only the namespace-aware factory methods must refuse these
        base = 'ns'
        kw = dict(op=k, at=at, name=nm)
        if k in ('elns', 'attns'):
            kw['uri'] = 'urn:z'
        op('v', **kw)
        expect_ops[0] = 'exc'
    elif cls == 'ns-missing-decl':
        base = r.choice(['plain', 'ns', 'nsp'])
        k = r.choice(['elns', 'attns', 'both', 'nested'])
        pfx = r.choice(['n', 'p', 'zq'])
        uri = r.choice(['urn:n', 'urn:new', 'http://example.org/?a=1&b=2', 'urn:"q"', 'urn:<x>'])
        if base != 'plain' and pfx == 'p':
            uri = 'urn:p'            # same binding as in scope: nothing to add, or re-declared
        if k in ('elns', 'both', 'nested'):
            op(op='elns', at=at, name=pfx + ':e', uri=uri)
        if k in ('attns', 'both'):
            op('v', op='attns', at=at, name=pfx + ':k', uri=uri)
        if k == 'nested':
            op(op='elns', at=r.choice([-1, -1, 99]), name=pfx + ':inner', uri=uri)       # -1: below the element just created
    elif cls == 'ns-default-undeclare':
        base = r.choice(['ns', 'nsp'])
        op(op='elns', at=r.choice([0, 1, 2]), name='nn')           # no namespace, under a default namespace
        if r.random() < 0.5:
            op(op='elns', at=r.choice([-1, -1, 99]), name='inner')
    elif cls == 'ns-prefix-conflict':
        base = r.choice(['ns', 'nsp'])
        k = r.choice(['attr-vs-element', 'attr-vs-attr', 'attr-vs-decl'])
        if k == 'attr-vs-element':
            op(op='elns', at=0, name='w:e', uri='urn:1')
            op('v', op='attns', at=r.choice([-1, -1, 99]), name='w:k', uri='urn:2')
        elif k == 'attr-vs-attr':
            op('v', op='attns', at=at, name='w:k', uri='urn:1')
            op('v', op='attns', at=at, name='w:j', uri='urn:2')
        else:
            op('v', op='attns', at=0, name='p:k', uri='urn:other')   # p is declared as urn:p on the same element
    elif cls == 'ns-attr-no-prefix':
        base = r.choice(['plain', 'ns'])
        op('v', op='attns', at=at, name='k', uri='urn:attr')
    elif cls == 'ns-rebind-child':
        base = 'ns'
        op(op='elns', at=1, name='p:e', uri='urn:p2')                # p is bound to urn:p on the root: a re-declaration is needed
        k = r.random()
        if k < 0.6:
            # back to the outer binding below the element that re-bound the prefix (-1), possibly one level further down
            if r.random() < 0.4:
                op(op='elns', at=-1, name='mid')
            if r.random() < 0.5:
                op(op='elns', at=-1, name='p:back', uri='urn:p')
            else:
                op(op='elns', at=-1, name='back')
                op('v', op='attns', at=-1, name='p:att', uri='urn:p')
        elif k < 0.8:
            op(op='elns', at=99, name='p:back', uri='urn:p')
    elif cls == 'eref-node':
        base = 'dtd'
        op(op='eref', at=at, name=r.choice(['e', 'f']))
    elif cls == 'doctype-public-without-system':
        op(op='doctype', name='a', uri='pub id')
    elif cls == 'doctype-ids':
        k = r.choice(['sys', 'pubsys', 'none', 'sysq'])
        if k == 'sys':
            op(op='doctype', name='a', a2='file:///xv/none.dtd')
        elif k == 'pubsys':
            op(op='doctype', name='a', uri='-//XV//DTD x//EN', a2='none.dtd')
        elif k == 'sysq':
            op(op='doctype', name='a', a2="it's")
        else:
            op(op='doctype', name='a')
    elif cls == 'xml11-chars':
        base = 'v11'
        ver = '1.1'
        s = rnd_string(r, 1, 5, ['\x01', '\x1f', '\x7f', '\x80', '\x9f', '\u0085', '\u2028', 'x', '\t', '\n', '\r'])
        op(s, op=r.choice(['text', 'att']), at=at, name='k')
    elif cls == 'empty-and-mixed':
        op(op='clear', at=1)
        for _ in range(r.randint(1, 4)):
            k = r.choice(['text', 'cdata', 'comment', 'pi', 'el'])
            if k == 'el':
                op(op='el', at=1, name=r.choice(['x', 'y']))
            elif k == 'pi':
                op(r.choice(['', 'd', 'd  e', 'd ']), op='pi', at=1, name='tg')
            elif k == 'cdata':
                op(r.choice(['', 'c', ' ', '<&>']), op='cdata', at=1)
            elif k == 'comment':
                op(r.choice(['', 'c', ' c ']), op='comment', at=1)
            else:
                op(r.choice(['t', ' ', '\n']), op='text', at=1)
    elif cls == 'standalone':
        base = r.choice(['plain', 'dtd'])
        op('1', op='standalone')
    o, mode = pick_config(r, ver, base == 'dtd', base != 'nons', allow_sub=False, enc=enc)
    if base != 'nons':
        # the tree is namespace-aware: use the Level 2 factory methods throughout (a Level 1 node has a null localName and can
        # never be equal to its re-parsed counterpart)
        for v, kw in ops:
            if kw.get('op') == 'el':
                kw['op'] = 'elns'
            elif kw.get('op') == 'att':
                kw['op'] = 'attns'
    if mode == 'nodoctype':
        mode = 'whole'
    if cls.startswith('doctype') or cls == 'eref-node':
        o['eref'] = 1 if cls == 'eref-node' else 0
    if cls.startswith('unrep') and o.get('enc') in UTF + ('',):
        if o['target'] in ('str', 'uri'):
            o['target'] = 'mem'
        o['enc'] = r.choice([e for e in ENCODINGS if e not in UTF])
        if ver == '1.0' and r.random() < 0.25:
            o['xmldecl'] = 0
    if cls.startswith('ns-') and r.random() < 0.2:
        o['normalize'] = 1
    else:
        o.pop('normalize', None)
    finish_case_opts(o, mode)
    c = core.Case(cid, 'serialize', o, meta={'mode': mode, 'class': cls, 'ver': ver, 'src': 'prog:' + base, 'expect_ops': expect_ops})
    c.doc(BASE_DOCS[base].encode('utf-8'))
    for v, kw in ops:
        c.txt(v, **kw)
    return c


PINNED = [
    # (id, class, document, ops, options): witnesses of the findings listed in notes/C12.md, run on every tier
    ('pin-comment-dashes', 'comment-dashes', '<a/>', [('a--b-', {'op': 'comment', 'at': 0})], {}),
    ('pin-pi-close', 'pi-close', '<a/>', [('x?>y', {'op': 'pi', 'at': 0, 'name': 'p'})], {}),
    ('pin-subset-entity', 'parsed', '<!DOCTYPE a [<!ENTITY e4 "&#38;#60;q">]><a>&e4;</a>', [], {'eref': 1}),
    ('pin-subset-quote', 'parsed', '<!DOCTYPE a [<!ENTITY e \'a"b\'>]><a/>', [], {}),
    ('pin-subset-attdef', 'parsed', '<!DOCTYPE a [<!ATTLIST a q CDATA "a&lt;b">]><a/>', [], {}),
    ('pin-subset-comment', 'parsed', '<!DOCTYPE a [<!-- c -->]><a/>', [], {}),
    ('pin-subset-pubsys', 'parsed', '<!DOCTYPE a [<!ENTITY x PUBLIC "p" "file:///xv/s.ent">]><a/>', [], {}),
    ('pin-cdata-supp', 'unrep-cdata', '<a/>', [('a\U0001f600b', {'op': 'cdata', 'at': 0})], {'enc': 'ISO-8859-1'}),
    ('pin-xml11-nel', 'xml11-chars', '<?xml version="1.1"?><a>x&#x85;y</a>', [], {}),
    ('pin-xml11-c0', 'xml11-chars', '<?xml version="1.1"?><a>x&#1;y</a>', [], {}),
    ('pin-ns-default', 'ns-default-undeclare', '<p:a xmlns:p="u" xmlns="urn:d"><b/></p:a>', [('', {'op': 'elns', 'at': 0, 'name': 'c'})], {}),
    ('pin-ns-conflict', 'ns-prefix-conflict', '<p:e xmlns:p="urn:1"/>', [('1', {'op': 'attns', 'at': 0, 'name': 'p:a', 'uri': 'urn:2'})], {}),
    ('pin-ns-attr-noprefix', 'ns-attr-no-prefix', '<a/>', [('v', {'op': 'attns', 'at': 0, 'name': 'k', 'uri': 'urn:attr'})], {}),
]


def pinned_cases():
    out = []
    for cid, cls, doc, ops, opt in PINNED:
        o = {'enc': 'UTF-8', 'target': 'mem', 'xmldecl': 1, 'ns': 1}
        o.update(opt)
        ver = '1.1' if 'version="1.1"' in doc else '1.0'
        c = core.Case(cid, 'serialize', o, meta={'mode': 'whole', 'class': cls, 'ver': ver, 'src': 'pinned', 'expect_ops': {}})
        c.doc(doc.encode('utf-8'))
        for v, kw in ops:
            c.txt(v, **kw)
        out.append(c)
    return out


# ---------------------------------------------------------------------------------------------------
#  the judge
# ---------------------------------------------------------------------------------------------------
def decode_out(data, enc, target):
    if target == 'str':
        codec = 'utf-16-le'
    else:
        codec = READ_CODEC.get(enc or 'UTF-8', 'latin-1')
    d = data
    if codec == 'utf-8' and d.startswith(b'\xef\xbb\xbf'):
        d = d[3:]
    elif codec == 'utf-16-le' and d.startswith(b'\xff\xfe'):
        d = d[2:]
    elif codec == 'utf-16-be' and d.startswith(b'\xfe\xff'):
        d = d[2:]
    return d.decode(codec, 'replace')


_re_xmldecl = re.compile(r'^<\?xml version="([^"]*)" encoding="([^"]*)" standalone="(yes|no)" \?>')
_re_charref = re.compile(r'&#x([0-9A-Fa-f]+);')


def diff_kind(d):
    """coarse class of the first difference between two views"""
    if d is None:
        return 'none'
    i, a, b = d
    if a is None or b is None:
        return 'length'
    if a[0] != b[0]:
        return 'structure:%s/%s' % (a[0], b[0])
    t = a[0]
    if t == 'CH':
        return 'text'
    if t in ('SE', 'EE'):
        if a[1] != b[1]:
            return 'element-name'
        if a[2] != b[2]:
            return 'element-ns'
        if t == 'SE':
            na, nb = dict((x[0], x) for x in a[4]), dict((x[0], x) for x in b[4])
            if set(na) != set(nb):
                x = sorted(set(na) ^ set(nb))[0]
                return 'attr-set:' + ('xmlns' if is_xmlns(x) else 'missing' if x in na else 'extra')
            for k in sorted(na):
                if na[k][1] != nb[k][1]:
                    return 'attr-ns'
                if na[k][3] != nb[k][3]:
                    return 'attr-value'
        return 'element'
    if t in ('DT', 'DE', 'DN', 'DIS'):
        return 'doctype:' + t
    return t


def char_classes(a, b):
    """what kind of characters distinguish two strings (for keys)"""
    if a is None or b is None:
        return 'null'
    sa = set(a) ^ set(b)
    cl = set()
    for ch in sa:
        o = ord(ch)
        if ch in '\u0085\u2028':
            cl.add('nel-ls')
        elif ch in '\r\n\t ':
            cl.add('ws')
        elif o < 0x20 or 0x7f <= o <= 0x9f:
            cl.add('control')
        elif o > 0xFFFF:
            cl.add('supplementary')
        elif o > 0x7f:
            cl.add('nonascii')
        else:
            cl.add('ascii')
    return '+'.join(sorted(cl)) or 'arrangement'


def first_text_diff(va, vb):
    d = pc.first_diff(va, vb)
    if d is None or d[1] is None or d[2] is None:
        return None
    a, b = d[1], d[2]
    if a[0] == 'CH' and b[0] == 'CH':
        return a[1], b[1]
    if a[0] == 'SE' and b[0] == 'SE':
        na, nb = dict((x[0], x) for x in a[4]), dict((x[0], x) for x in b[4])
        for k in sorted(na):
            if k in nb and na[k][3] != nb[k][3]:
                return na[k][3], nb[k][3]
    return None


DEFAULT_IGNORABLE = set([0xAD, 0x34F, 0x61C, 0x115F, 0x1160, 0x17B4, 0x17B5, 0x3164, 0xFEFF, 0xFFA0]) | set(range(0x180B, 0x180F)) | set(range(0x200B, 0x2010)) | \
    set(range(0x202A, 0x202F)) | set(range(0x2060, 0x2070)) | set(range(0xFE00, 0xFE10)) | set(range(0xFFF0, 0xFFF9))
ICU_ENCODINGS = ('ISO-8859-2', 'Shift_JIS')


REFS_KEPT = [False]      # set by the judge for the case at hand: content below entity reference nodes is not written


def _map_texts(ev, f_text, f_attr=None, only_cdata=False, f_other=None):
    """apply f_text to character data (inside CDATA sections only when only_cdata) and f_attr to attribute values; content below an
    entity reference node is left alone when references are kept (it is not written, so no loss of the writer can touch it)"""
    out = []
    in_cd = False
    er = 0
    for e in ev:
        t = e[0]
        if t == 'SER':
            er += 1
        elif t == 'EER':
            er -= 1
        if er and REFS_KEPT[0] and t not in ('SER', 'EER'):
            out.append(e)
            continue
        if t == 'CD0':
            in_cd = True
        elif t == 'CD1':
            in_cd = False
        if t in ('CH', 'IW') and (in_cd or not only_cdata):
            out.append((t, f_text(e[1])))
        elif t == 'SE' and f_attr is not None:
            out.append(('SE', e[1], e[2], e[3], tuple((a[0], a[1], a[2], f_attr(a[3]) if a[3] is not None else None, a[4], a[5]) for a in e[4])))
        elif f_other is not None and t in ('CM', 'DIS'):
            out.append((t, f_other(e[1]) if e[1] is not None else None))
        elif f_other is not None and t == 'PI':
            v = f_other(e[2]) if e[2] is not None else None
            if v is not None and v != e[2]:
                v = v.lstrip(' \t\n\r')          # white space after the target is not part of the data
            out.append((t, e[1], v))
        else:
            out.append(e)
    return out


def hypotheses(enc, ver, split):
    """named transformations of the serialised tree, each modelling ONE suspected loss; used only to name a difference that was already
    established (narrow, stable keys) - never to excuse one"""
    H = []
    if split:
        H.append(('cdata-split-drops-terminator', lambda ev: _map_texts(ev, lambda s: s.replace(']]>', ''), only_cdata=True)))
    H.append(('cdata-cr-not-preserved', lambda ev: _map_texts(ev, lambda s: s.replace('\r\n', '\n').replace('\r', '\n'), only_cdata=True)))
    if ver == '1.1':
        lit = [ch for ch in '\u0085\u2028' if rep(enc, ch) is not False]     # an unrepresentable one is written as a reference and survives

        def t11(s, to='\n'):
            for ch in lit:
                s = s.replace(ch, to)
            return s
        H.append(('xml11-nel-ls-written-literally', lambda ev: _map_texts(ev, t11, lambda v: t11(v, ' '))))
    if enc in EBCDIC:
        H.append(('ebcdic-nel-becomes-lf', lambda ev: _map_texts(ev, lambda s: s.replace('\u0085', '\n'), lambda v: v.replace('\u0085', ' '), f_other=lambda s: s.replace('\u0085', '\n'))))
        # inside the DOCTYPE string the character may sit in an attribute default, where the line end is further normalised to a space
        H.append(('ebcdic-nel-becomes-lf', lambda ev: [('DIS', e[1].replace('\u0085', ' ')) if e[0] == 'DIS' and e[1] else e for e in ev]))
    if enc in ICU_ENCODINGS:
        def drop(s):
            return ''.join(ch for ch in s if not (ord(ch) in DEFAULT_IGNORABLE and rep(enc, ch) is not True))
        H.append(('icu-default-ignorable-dropped', lambda ev: _map_texts(ev, drop, drop)))
    return H


class Judge:
    def __init__(self, ck):
        self.ck = ck
        self.stats = collections.Counter()
        self.cls_seen = collections.Counter()
        self.enc_seen = collections.Counter()
        self.feat_seen = collections.Counter()
        self.reported = collections.Counter()

    def viol(self, key, what, c, o, **extra):
        w = {'case': c.to_json(), 'class': c.meta.get('class')}
        if o is not None:
            if o.out is not None:
                w['output_hex'] = o.out[:4000].hex()
                w['output_text'] = decode_out(o.out, c.opt.get('enc', ''), c.opt.get('target'))[:1500]
            w['serializer_errors'] = o.de[:6]
            w['W'] = o.W
            w['reparse'] = o.p2
            w['isEqualNode'] = o.eq
        w.update(extra)
        self.ck.violation(key, what, w)

    def judge(self, c, r):
        ck, st = self.ck, self.stats
        o = read_record(r)
        m = c.meta
        cls = m.get('class', 'parsed')
        if int(c.opt.get('normalize', 0)) and cls in ('parsed', 'parsed-rmxmlns'):
            cls += '+normalize'
        mode = m.get('mode', 'whole')
        enc = c.opt.get('enc', '')
        target = c.opt.get('target', 'mem')
        split = int(c.opt.get('split', 1)) != 0
        ddc = int(c.opt.get('ddc', 1)) != 0
        eref = int(c.opt.get('eref', 0)) != 0
        ents = int(c.opt.get('ents', 1)) != 0
        xmldecl = int(c.opt.get('xmldecl', 1)) != 0
        bom = int(c.opt.get('bom', 0)) != 0
        if o.p1 is None or o.p1[0] != 'ok':
            st['input_not_parsed'] += 1
            return False
        # --- edit operations: invalid names must be refused by the DOM, everything else must succeed
        exp_ops = m.get('expect_ops') or {}
        for k, f in enumerate(o.ops):
            want = exp_ops.get(k, exp_ops.get(str(k), 'ok'))
            got = 'exc' if (len(f) > 2 and f[2] == 'exc') else 'ok'
            if want == 'exc' and got == 'ok':
                self.viol('C12:invalid-name-accepted:%s' % f[1], 'a DOM factory method accepted a name that is not an XML name', c, o, op=f)
            elif want == 'ok' and got == 'exc':
                st['op_refused'] += 1
                st['op_refused:' + cls] += 1
            elif want == 'exc':
                st['invalid_name_refused'] += 1
        if o.A is None or o.node is None:
            st['no_tree'] += 1
            return False
        for l in o.misc:
            if l.startswith('P1SRV\t'):
                st['cases_with_external_entities_served'] += 1
        ver = o.node[1] or '1.0'
        whole = o.node[0] == 'doc'
        from_doc = False
        decl_enc = None
        if target == 'str':
            eff_enc = 'UTF-16'
        elif enc == '':
            # taken by the serializer from the document: inputEncoding, else xmlEncoding, else UTF-8 (DOM L3 LS)
            from_doc = True
            decl_enc = o.node[2] or o.node[3] or 'UTF-8'
            eff_enc = {'UTF-8': 'UTF-8', 'UTF-16': 'UTF-16', 'UTF-16 (LE)': 'UTF-16LE', 'UTF-16 (BE)': 'UTF-16BE', 'UTF-16LE': 'UTF-16LE', 'UTF-16BE': 'UTF-16BE',
                       'ISO-8859-1': 'ISO-8859-1', 'US-ASCII': 'US-ASCII'}.get(decl_enc)
            if eff_enc is None:
                st['document_encoding_unknown_to_checker:' + decl_enc] += 1
                return True
        else:
            eff_enc = enc
        has_dt = any(e[0] == 'DT' for e in o.A)
        dis = next((e[1] for e in o.A if e[0] == 'DIS'), None)
        losses = subset_losses(dis, ver) if has_dt else set()
        ck.evaluations += 1
        self.cls_seen[cls] += 1
        self.enc_seen[enc or '(document)'] += 1
        self.feat_seen['target=' + target] += 1
        self.feat_seen['mode=' + mode] += 1
        for k in ('xmldecl', 'split', 'ddc', 'bom', 'eref', 'ents', 'normalize', 'nl'):
            if k in c.opt:
                self.feat_seen['%s=%s' % (k, c.opt[k])] += 1
        self.feat_seen['version=' + ver] += 1

        # --- what does the tree contain?
        must, may, notes = tree_reasons(o.A, eff_enc, ver, split, whole, has_dt and whole, refs_kept=ents)
        for k, v in notes.items():
            st['tree:' + k] += 1
        failed = (o.W is None) or o.W[0] != '1' or o.wexc is not None or int(o.W[2]) > 0 or int(o.W[3]) > 0
        nontrivial = bool(notes) or bool(must) or cls != 'parsed' or any(ch in s for ctx, s in texts_of(o.A, ents) if ctx in ('text', 'attr') for ch in '<&>"\r\t\n')

        if failed:
            st['serialisation_reported_error'] += 1
            if must:
                for x in must:
                    self.reported[x] += 1
                if nontrivial:
                    ck.add_distinct(core.h('fail', c.opt.get('enc'), o.rawA))
                return True
            if may:
                st['undecided_failure'] += 1
                return True
            # a refusal with no reason in the tree
            why = 'other'
            nt = next((d[1] for d in o.de if d[0] != 'W'), '~')
            if nt == '4' and eff_enc in ICU_ENCODINGS and notes.get('unrep-cdata-split-supplementary'):
                why = 'icu-unrep-supplementary-split'
            elif ver == '1.1' and ((nt == '3' and notes.get('xml11-restricted-in-text')) or (nt == '2' and notes.get('xml11-restricted-in-attr'))):
                why = 'xml11-control-char'
            elif not ents and eref:
                why = 'entities-false'
            self.viol('C12:spurious-error:%s:node%s' % (why, nt), 'serialisation reported an error although everything in the tree has a well-formed spelling', c, o)
            return False

        # --- serialisation claims success
        silent = set(must)
        if silent:
            for x in sorted(silent):
                ctx = x
                self.viol('C12:emitted-silently:%s' % ctx, 'content with no well-formed spelling was written without any error', c, o)
            return False
        if o.out is None:
            st['no_output'] += 1
            return False
        text = decode_out(o.out, eff_enc, target)
        # --- XML declaration / BOM
        if whole:
            bom_bytes = {'UTF-8': b'\xef\xbb\xbf', 'UTF-16': b'\xff\xfe', 'UTF-16LE': b'\xff\xfe', 'UTF-16BE': b'\xfe\xff'}
            if eff_enc in bom_bytes and target != 'str':
                hasb = o.out.startswith(bom_bytes[eff_enc])
                if bom and not hasb:
                    self.viol('C12:bom:missing:%s' % eff_enc, 'byte-order-mark requested but not written', c, o)
                elif not bom and hasb:
                    self.viol('C12:bom:unexpected:%s' % eff_enc, 'byte order mark written although the feature is off', c, o)
                st['bom_checked'] += 1
            if from_doc:
                st['encoding_from_document:' + decl_enc] += 1
            if True:
                mm = _re_xmldecl.match(text)
                if xmldecl:
                    if not mm:
                        self.viol('C12:xmldecl:missing', 'xml-declaration is on but the output does not start with one', c, o)
                    elif mm.group(1) != ver or mm.group(2) != (decl_enc if from_doc else eff_enc):
                        self.viol('C12:xmldecl:wrong-%s' % ('version' if mm.group(1) != ver else 'encoding'), 'XML declaration does not state the version / encoding used', c, o)
                    st['xmldecl_checked'] += 1
                elif text.startswith('<?xml '):
                    self.viol('C12:xmldecl:unexpected', 'xml-declaration is off but a declaration was written', c, o)
        # --- unrepresentable characters must appear as references (ASCII-transparent encodings: the text is readable)
        if eff_enc in ('US-ASCII', 'ISO-8859-1', 'ISO-8859-2', 'windows-1252') and (notes.get('unrep-text') or notes.get('unrep-attr') or notes.get('unrep-cdata-split')):
            want = collections.Counter()
            for ctx, s in texts_of(o.A, ents):
                if ctx in ('text', 'attr') or (ctx == 'cdata' and split) or (ctx == 'attr-default' and not ddc):
                    for ch in s:
                        if rep(eff_enc, ch) is False and ord(ch) <= 0xFFFF:
                            want[ord(ch)] += 1
            have = collections.Counter(int(x, 16) for x in _re_charref.findall(text))
            missing = [k for k, v in want.items() if have[k] < v]
            st['charref_checked'] += 1
            if missing:
                if eff_enc in ICU_ENCODINGS and all(k in DEFAULT_IGNORABLE for k in missing):
                    key = 'C12:unrep-not-referenced:icu-default-ignorable-dropped'
                else:
                    key = 'C12:unrep-not-referenced:%s' % eff_enc
                self.viol(key, 'a character the encoding cannot represent does not appear as a character reference', c, o, missing=[hex(k) for k in missing[:5]])
        # --- well-formedness
        doctype_cls = '+'.join(sorted(losses)) if (losses and whole) else None
        if o.p2 is None or o.p2[0] != 'ok':
            code = (o.p2[4] if o.p2 and len(o.p2) > 4 else '?')
            code = ':'.join(code.split(':')[:3])
            if doctype_cls:
                self.viol('C12:reparse-fatal:internal-subset-%s' % doctype_cls, 'the output is not well-formed: the DOCTYPE reconstruction kept by the DOM is not a faithful spelling', c, o, subset=dis)
                return True
            why = cls + ':' + code
            supp_unrep = any(ord(ch) > 0xFFFF and rep(eff_enc, ch) is not True for ctx, s in texts_of(o.A, ents) if ctx in ('text', 'attr', 'attr-default') for ch in s)
            if from_doc and whole and not re.fullmatch(r'[A-Za-z][A-Za-z0-9._-]*', decl_enc):
                why = 'xmldecl-encoding-from-document-not-an-encname'
            if why.startswith(cls) and 'unrep:attr-name' in may and re.search(r'[\s][^\s=<>"]*&#x[0-9A-F]+;[^\s=<>"]*=', text):
                why = 'unrep-attr-name-charref'
            elif why.startswith(cls) and notes.get('unrep-cdata-split-supplementary'):
                why = 'cdata-unrep-supplementary'
            elif why.startswith(cls) and eff_enc in ICU_ENCODINGS and supp_unrep:
                why = 'icu-unrep-supplementary-split'
            self.viol('C12:reparse-fatal:%s' % why, 'the output of a successful serialisation is not well-formed (fresh parser reports a fatal error)', c, o)
            return False
        st['reparsed'] += 1
        forced = c.opt.get('reparse_enc')
        if ver == '1.0' and (eff_enc in UTF or eff_enc in ('ISO-8859-1', 'US-ASCII')):
            fe = None
            if forced:
                fe = {'UTF-16LE': 'UTF-16', 'UTF-16BE': 'UTF-16', 'ISO-8859-1': 'ISO-8859-1', 'US-ASCII': 'US-ASCII', 'UTF-16': 'UTF-16'}.get(forced)
            data = o.out
            if forced == 'UTF-16LE' and not data.startswith(b'\xff\xfe'):
                data = b'\xff\xfe' + data
            elif forced == 'UTF-16BE' and not data.startswith(b'\xfe\xff'):
                data = b'\xfe\xff' + data
            v = expat_verdict(data, fe)
            if v == 'skip':
                st['expat_skipped'] += 1
            else:
                st['expat_checked'] += 1
                if v is not None:
                    self.viol('C12:wellformed-disagree:expat-rejects:%s' % re.sub(r'[^a-z ]+', '', v.split(':')[0])[:40].strip().replace(' ', '-'),
                              'Xerces re-parsed the output but pyexpat rejects it: %s' % v, c, o)
        if o.B is None:
            st['no_tree_b'] += 1
            return False

        # --- equality: strict prediction of isEqualNode
        sa = view(o.A, True)
        sb = view(o.B, True)
        strict_equal = (sa == sb) and (o.tlA == o.tlB)
        # absent vs empty public/system identifiers: the dump distinguishes them, DOM does not say which a parser must produce
        ids_a = [tuple(e[1:]) for e in o.A if e[0] in ('DT', 'DE', 'DN', 'DIS')]
        ids_b = [tuple(e[1:]) for e in o.B if e[0] in ('DT', 'DE', 'DN', 'DIS')]
        null_vs_empty = ids_a != ids_b and [tuple(x or '' for x in t) for t in ids_a] == [tuple(x or '' for x in t) for t in ids_b]
        nve = 'subset' if [e[1] for e in o.A if e[0] == 'DIS'] != [e[1] for e in o.B if e[0] == 'DIS'] else 'id'
        if o.eq is None:
            self.viol('C12:isEqualNode:exception', 'isEqualNode threw', c, o, exc=o.eqexc)
        else:
            if o.eq[0] != o.eq[1]:
                self.viol('C12:isEqualNode:asymmetric' + (':null-vs-empty-' + nve if null_vs_empty else ''), 'a.isEqualNode(b) != b.isEqualNode(a)', c, o)
            elif null_vs_empty:
                st['isEqualNode_undecided_null_vs_empty'] += 1
            elif o.eq[0] and not strict_equal:
                d = pc.first_diff(sa, sb)
                self.viol('C12:isEqualNode:true-but-dumps-differ:%s' % (diff_kind(d) if d else 'text-division'), 'isEqualNode says equal, the independent comparison of the dumps does not', c, o,
                          diff=repr(d)[:600], tl=[o.tlA, o.tlB])
            elif not o.eq[0] and strict_equal:
                self.viol('C12:isEqualNode:false-but-dumps-equal', 'isEqualNode says different, the dumps (all public getters) are identical', c, o)
            st['isEqualNode_' + ('true' if o.eq[0] else 'false')] += 1
        # --- equality as the property demands it
        doctype_written = whole and has_dt
        cd_split_needed = bool(notes.get('cdata-close-split') or notes.get('unrep-cdata-split')) or ('xml11-restricted:cdata' in may)
        # content below an entity reference node is not written when references are kept (it comes from the declaration on re-parse):
        # for references created through the API it need not be the declared content at all
        kw = dict(drop_cd=cd_split_needed, drop_er=not ents, er_content=not (cls == 'eref-node' and ents))

        def loose(eva, evb, **more):
            k2 = dict(kw)
            k2.update(more)
            va = view(eva, False, drop_unspecified=(ddc and not doctype_written), **k2)
            vb = view(evb, False, **k2)
            if cls == 'ns-prefix-conflict':
                # an inconsistent tree (one prefix, two namespaces on one element): fix-up may re-declare; only names and namespaces are compared
                va = [(e[0], e[1], e[2], e[3], tuple(a for a in e[4] if not is_xmlns(a[0]))) if e[0] == 'SE' else e for e in va]
                vb = [(e[0], e[1], e[2], e[3], tuple(a for a in e[4] if not is_xmlns(a[0]))) if e[0] == 'SE' else e for e in vb]
            return va, drop_added_nsdecls(va, vb)
        la, lb = loose(o.A, o.B)
        equal = la == lb
        kw2 = None
        if not equal and doctype_cls:
            # is the difference confined to what depends on the DOCTYPE?
            kw2 = dict(drop_cd=cd_split_needed, drop_er=not ents, skip_dt=True, er_content=not ents, drop_unspecified=ddc, attr_values=not eref)
            ra = view(o.A, False, **kw2)
            rb = drop_added_nsdecls(ra, view(o.B, False, **kw2))
            if ra == rb:
                self.viol('C12:reparse-not-equal:internal-subset-%s' % doctype_cls, 'the re-parsed tree differs only in what depends on the DOCTYPE, whose reconstruction is not faithful', c, o, subset=dis)
                return True
        if not equal:
            # name the loss: which single modelled transformation (or smallest combination) of A gives B?
            H = hypotheses(eff_enc, ver, split)
            REFS_KEPT[0] = bool(ents)
            named = None
            for k in range(1, len(H) + 1):
                for combo in (itertools.permutations(H, k) if k <= 3 else itertools.combinations(H, k)):
                    ev = o.A
                    for _, f in combo:
                        ev = f(ev)
                    if doctype_cls:
                        xa = view(ev, False, **kw2)
                        xb = drop_added_nsdecls(xa, view(o.B, False, **kw2))
                    else:
                        xa, xb = loose(ev, o.B)
                        if xa != xb:
                            xa, xb = loose(ev, o.B, drop_cd=True)
                    if xa == xb:
                        named = '+'.join(sorted(set(n for n, _ in combo)))
                        break
                if named:
                    break
            d = pc.first_diff(la, lb)
            if named:
                self.viol('C12:reparse-not-equal:' + named, 'the re-parsed tree is not equal to the serialised tree; the difference is exactly the modelled loss "%s"' % named, c, o, diff=repr(d)[:800])
                return False
            kind = diff_kind(d)
            nsloss = None
            if kind == 'element-ns' and ':' not in d[1][1]:
                # an unprefixed element came back in another namespace: its default-namespace (un)declaration was not written.  The known
                # cause needs an ancestor that carries an xmlns attribute without being in that namespace through an empty prefix itself
                # (prefixed, or in no namespace): processNode files that declaration under the key "xmlns"
                stack = []
                for e in la[:d[0]]:
                    if e[0] == 'SE':
                        stack.append(e)
                    elif e[0] == 'EE' and stack:
                        stack.pop()
                trigger = any(any(a[0] == 'xmlns' for a in e[4]) and (':' in e[1] or e[2] is None) for e in stack)
                if trigger:
                    nsloss = 'nsfixup-default-namespace-not-undeclared' if d[1][2] is None else 'nsfixup-default-namespace-not-redeclared'
            elif kind == 'attr-ns':
                na, nb = dict((x[0], x) for x in d[1][4]), dict((x[0], x) for x in d[2][4])
                bad = [k for k in sorted(na) if na[k][1] != nb[k][1]]
                if bad and all(':' not in k and na[k][1] is not None and nb[k][1] is None for k in bad):
                    nsloss = 'nsfixup-attr-namespace-without-prefix'      # attribute with a namespace but no prefix: written bare
            if nsloss:
                key = 'C12:reparse-not-equal:' + nsloss
            elif cls.startswith('ns-') or (cls.startswith('parsed-rmxmlns') or cls.endswith('+normalize')) and kind in ('element-ns', 'attr-ns', 'attr-set:xmlns'):
                key = 'C12:reparse-not-equal:%s:%s' % (cls, kind)
            else:
                td = first_text_diff(la, lb)
                if td is not None:
                    kind += ':' + char_classes(td[0], td[1])
                encfam = 'ebcdic' if eff_enc in EBCDIC else 'utf' if (eff_enc in UTF) else eff_enc
                key = 'C12:reparse-not-equal:%s:%s:%s:v%s' % (cls, kind, encfam, ver)
            self.viol(key, 'the re-parsed tree is not equal to the serialised tree (independent comparison of the dumps; isEqualNode=%s)' % (o.eq,), c, o,
                      diff=repr(d)[:800], expected_equal_modulo={'cdata_division': cd_split_needed, 'defaults_dropped': ddc and not doctype_written})
            return False
        st['trees_equal'] += 1
        if not strict_equal:
            st['equal_only_modulo_allowed_differences'] += 1
        # --- second serialisation
        if o.W2 is None or o.W2[0] != '1' or o.w2exc is not None:
            self.viol('C12:reserialise-failed:%s' % cls, 'serialising the re-parsed tree failed although the first serialisation succeeded', c, o, W2=o.W2, exc=o.w2exc)
            return False
        if o.out2 != 'same':
            if doctype_cls:
                self.viol('C12:reserialise-differs:internal-subset-%s' % doctype_cls, 'second serialisation differs: DOCTYPE reconstruction not faithful', c, o, subset=dis)
                return True
            if cls == 'ns-prefix-conflict':
                st['reserialise_undecided_inconsistent_tree'] += 1
                return True
            if lb != view(o.B, False, **kw):
                # fix-up supplied declarations: the re-parsed tree has them as attributes, which are written at their sorted position
                st['reserialise_undecided_after_fixup'] += 1
                return True
            if int(c.opt.get('normalize', 0)) and isinstance(o.out2, bytes) and sorted(o.out) == sorted(o.out2):
                # normalizeDocument re-prefixed an attribute in place: the attribute map of A is no longer in name order (C13's finding
                # attr-map-out-of-order), B's is; the two outputs are permutations of each other
                st['reserialise_undecided_attribute_order_after_normalize'] += 1
                return True
            if not ents and any(o.A[i][0] == 'SER' and o.A[i + 1][0] == 'EER' for i in range(len(o.A) - 1)):
                # entities=false drops an entity reference without content: <e></e> the first time, <e/> the second
                st['reserialise_undecided_empty_entity_reference'] += 1
                return True
            self.viol('C12:reserialise-differs:%s' % cls, 'serialise(parse(serialise(t))) != serialise(t)', c, o,
                      output2_text=decode_out(o.out2 or b'', eff_enc, target)[:1500])
            return False
        st['bytes_identical'] += 1
        nn = sum(1 for e in o.A if e[0] in ('SE', 'CH', 'CM', 'PI', 'SER'))
        if nn >= 3 and nontrivial:
            ck.add_distinct(core.h(c.opt.get('enc'), c.opt.get('target'), sorted((k, v) for k, v in c.opt.items() if k in ('split', 'ddc', 'bom', 'xmldecl', 'eref', 'ents', 'sub')), o.rawA))
        if len(ck.samples) < 4 and 60 < len(o.out) < 600 and (notes or cls != 'parsed'):
            ck.sample({'case_options': c.opt, 'class': cls, 'edit_ops': [[p, oo] for k, p, oo in c.steps[1:]], 'input': c.steps[0][1].decode('utf-8', 'replace')[:600],
                       'output_text': text[:600], 'isEqualNode': o.eq, 'independent_equal': equal, 'second_serialisation': 'identical'})
        return True


# ---------------------------------------------------------------------------------------------------
#  XMLFormatter
# ---------------------------------------------------------------------------------------------------
FMT_STRINGS = ['a<b>c&d"e\'f', 'x\ty\nz\rw', ']]>', 'éĀ中\U0001f600', 'a\x7f\x80\x85\x9f\u2028b', '\x01\x02\x1f', 'plain', '', '<<>>&&""\'\'', '\r\n\r', 'a€b',
               '\U00010000\U0010ffff', '\u00a0ÿ', '&#60;&lt;', 'qあア', 'a\u200bb\u2060c\u00ad']
# escapes REQUIRED for the context each mode is meant for (XML 1.0 sec. 2.4, 3.3.3, 2.11) ...
REQUIRED = {'no': '', 'std': '&<>"\'', 'attr': '&<"\t\n\r', 'char': '&<>\r'}
# ... and the table documented in XMLFormatter.hpp
DOCUMENTED = {'no': '', 'std': '&><"\'', 'attr': '&>"', 'char': '&>'}
STD_REF = {'&': '&amp;', '<': '&lt;', '>': '&gt;', '"': '&quot;', "'": '&apos;'}


def fmt_cases(ck):
    cases = []
    k = 0
    for enc in ENCODINGS:
        for ver in ('1.0', '1.1'):
            for ops in (0, 1):
                c = core.Case('fmt%d' % k, 'serialize', {'mode': 'fmt', 'enc': enc, 'ver': ver, 'ops': ops}, meta={'class': 'formatter'})
                strs = list(FMT_STRINGS)
                r = core.rng(ck.seed, PID, 'fmt', k)
                for _ in range(6):
                    strs.append(rnd_string(r, 1, 10))
                strs = [s for s in strs if not illegal_chars(s, '1.1') and '\x00' not in s]
                for s in strs:
                    c.txt(s)
                c.meta['strings'] = strs
                cases.append(c)
                k += 1
    return cases


def fmt_encode(enc, s):
    """bytes of a string of representable invariant characters in the target encoding"""
    if enc == 'UTF-8':
        return s.encode('utf-8')
    if enc in ('UTF-16', 'UTF-16LE'):
        return s.encode('utf-16-le')
    if enc == 'UTF-16BE':
        return s.encode('utf-16-be')
    return None


def judge_fmt(jd, c, r):
    ck, st = jd.ck, jd.stats
    enc, ver = c.opt['enc'], c.opt['ver']
    strs = c.meta['strings']
    rows = {}
    for l in r.lines:
        f = l.split('\t')
        if f[0] != 'F':
            continue
        key = (int(f[1]), f[2], f[3])
        if f[4] == 'exc':
            rows.setdefault(key, {})['exc'] = (f[5], f[6])
        else:
            rows.setdefault(key, {})['status'] = f[4]
            rows[key]['bytes'] = bytes.fromhex(f[5]) if len(f) > 5 else b''
    readable = enc in UTF or enc in ('US-ASCII', 'ISO-8859-1', 'ISO-8859-2', 'windows-1252') or enc in EBCDIC
    for (si, esc, unrep), row in sorted(rows.items()):
        s = strs[si]
        ck.evaluations += 1
        st['fmt_rows'] += 1
        # model: per character -> ('raw', ch) | ('ref', text)
        exp = []
        must_fail = False
        undecided = False
        for ch in s:
            o = ord(ch)
            ctl11 = ver == '1.1' and ((o < 0x20 and ch not in '\t\n\r') or (0x7f <= o <= 0x9f and o != 0x85))
            if esc != 'no' and ch in REQUIRED[esc]:
                exp.append(('req', STD_REF.get(ch) or '&#x%X;' % o))
            elif esc != 'no' and ctl11:
                exp.append(('req', '&#x%X;' % o))
            else:
                rp = rep(enc, ch)
                if rp is None:
                    undecided = True
                    exp.append(('any', ch))
                elif rp:
                    exp.append(('raw', ch))
                elif unrep == 'ref':
                    exp.append(('ref', '&#x%X;' % o))
                elif unrep == 'fail':
                    must_fail = True
                    break
                else:
                    exp.append(('any', ch))
                    undecided = True
        got_exc = 'exc' in row
        if must_fail:
            if not got_exc:
                ign = enc in ICU_ENCODINGS and all(ord(ch) in DEFAULT_IGNORABLE for ch in s if rep(enc, ch) is False)
                jd.viol('C12:formatter:unrep-fail-no-exception:%s' % ('icu-default-ignorable-dropped' if ign else enc), 'UnRep_Fail: an unrepresentable character did not raise', c, None, string=s, mode=[esc, unrep], got=row.get('bytes', b'').hex())
            else:
                st['fmt_fail_raised'] += 1
            continue
        if got_exc:
            if undecided:
                st['fmt_undecided'] += 1
                continue
            jd.viol('C12:formatter:unexpected-exception:%s:%s' % (esc, unrep), 'formatting representable text raised %r' % (row['exc'],), c, None, string=s, mode=[esc, unrep], enc=enc)
            continue
        if not readable or undecided:
            st['fmt_not_decoded'] += 1
            continue
        if enc in UTF:
            txt = row['bytes'].decode({'UTF-8': 'utf-8', 'UTF-16': 'utf-16-le', 'UTF-16LE': 'utf-16-le', 'UTF-16BE': 'utf-16-be'}[enc], 'surrogatepass')
        elif enc in EBCDIC:
            txt = None
        else:
            txt = row['bytes'].decode('latin-1')
        if txt is None:
            # EBCDIC: compare only when the whole expectation consists of invariant characters
            want = ''.join(x[1] for x in exp)
            if all(ch in 'abcdefghijklmnopqrstuvwxyzABCDEFGHIJKLMNOPQRSTUVWXYZ0123456789&#;<>"\'?=/ ' for ch in want):
                got = row['bytes'].decode('cp037', 'replace')
                if got != want:
                    jd.viol('C12:formatter:%s:%s:ebcdic' % (esc, unrep), 'XMLFormatter output differs from the model', c, None, string=s, expected=want, got=got, enc=enc)
                st['fmt_compared'] += 1
            continue
        want = ''
        ok_cmp = True
        for kind, v in exp:
            if kind == 'raw' and enc not in UTF and ord(v) > 0x7f:
                ok_cmp = False     # byte value depends on the code page: not compared
                break
            want += v
        if not ok_cmp:
            st['fmt_not_decoded'] += 1
            continue
        st['fmt_compared'] += 1
        if txt != want:
            # which character?
            what = 'other'
            if enc in ICU_ENCODINGS and unrep == 'ref' and any(ord(ch) > 0xFFFF for ch in s) and re.search(r'&#xD[89A-F][0-9A-F]{2};', txt):
                what = 'icu-unrep-supplementary-split'
            elif enc in ICU_ENCODINGS and any(ord(ch) in DEFAULT_IGNORABLE and rep(enc, ch) is False for ch in s):
                what = 'icu-default-ignorable-dropped'
            for ch in (REQUIRED[esc] if what == 'other' else ''):
                if ch in s and (STD_REF.get(ch) or '&#x%X;' % ord(ch)) not in txt:
                    what = 'not-escaped:U+%04X' % ord(ch)
                    break
            key = 'C12:formatter:%s' % what if what.startswith('icu-') else 'C12:formatter:%s:%s:%s' % (esc, unrep, what)
            jd.viol(key, 'XMLFormatter output differs from the per-character model', c, None, string=s, expected=want, got=txt, enc=enc, ver=ver, mode=[esc, unrep])
    # documentation table vs required set: recorded, not judged (the header table is evidently incomplete: see notes)
    jd.ck.cov['formatter_documented_table_vs_required'] = {k: {'documented': DOCUMENTED[k], 'required_and_implemented': REQUIRED[k]} for k in DOCUMENTED}


# ---------------------------------------------------------------------------------------------------
def run(tier):
    ck = core.Check(PID, tier)
    binary = build.ensure('asan', parts=['serialize'])
    jd = Judge(ck)
    if tier == 'quick':
        ndocs, per_doc, nprog, rounds = 6000, 4, 4000, 1
    else:
        ndocs, per_doc, nprog, rounds = 25000, 5, 25000, 5        # ~150 000 serialisations: 8-12 min on 16 idle cores
    for rd in range(rounds):
        cases = []
        if rd == 0:
            cases += pinned_cases()
            cases += fmt_cases(ck)
        cases += doc_cases(ck, ndocs // rounds, per_doc, 'r%d' % rd)
        for i in range(nprog // rounds):
            r = core.rng(ck.seed, PID, 'prog', rd, i)
            cases.append(prog_case(r, 'r%dp%d' % (rd, i), PROG_CLASSES[i % len(PROG_CLASSES)]))
        ck.note('round %d: %d cases' % (rd, len(cases)))
        recs = core.run_cases(binary, cases, tag='c12')
        for c in cases:
            r = recs.get(c.id)
            if r is None:
                continue
            if not r.complete or r.crash or r.hang:
                ck.crash_violation(r, c, 'C12:')
                continue
            if c.opt.get('mode') == 'fmt':
                judge_fmt(jd, c, r)
            else:
                jd.judge(c, r)
        for k, v in recs.items():
            if k.startswith('__exit__') and v.crash:
                ck.violation('C12:exit:' + v.crash.key(), 'driver process failed at exit', {'report': v.crash.text[:3000]})
    ck.rule = ('a case = (tree, output encoding, feature combination, target, whole document / subtree / DOCTYPE removed); trees are parsed from xmlgen documents '
               '(all encodings, XML 1.0 and 1.1, DTD with entities and defaulted attributes) or built by DOM edit operations on small base documents; '
               'non-trivial = the tree has >= 3 nodes and contains a character that needs escaping or a reference, a construct that needs fix-up / CDATA splitting, '
               'or content that must be refused; distinct by (dump of the tree, encoding, target, features); evaluations = serialisations judged + XMLFormatter rows')
    ck.cov['stats'] = dict(jd.stats)
    ck.cov['classes'] = dict(jd.cls_seen)
    ck.cov['encodings'] = dict(jd.enc_seen)
    ck.cov['features'] = dict(jd.feat_seen)
    ck.cov['errors_reported_as_expected'] = dict(jd.reported)
    ck.assumptions = [
        'DOMLSSerializer of this tree has no "namespaces" parameter: namespace fix-up is built into the element writer (always on); DOMDocument::normalizeDocument is exercised as the second fix-up path',
        'xml-declaration=false is combined only with XML 1.0 documents; without a declaration (or for a subtree) the re-parse is told the encoding unless it is UTF-8 or a BOM was written',
        'subtrees and DOCTYPE-less variants are parsed without entity reference nodes (a reference cannot be written without its declaration)',
        'representability is decided in python only where python and the library provably agree (see rep()); undecided characters never produce a verdict',
        'the internal subset string of the DOM is taken as given: where re-reading it cannot give the same declarations (classes entity-literal, attr-default, comment-padding, '
        'entity-public-system) failures confined to DOCTYPE-dependent content are reported under C12:*:internal-subset-<class> and the DOCTYPE-less variant carries the full demand',
        'pyexpat second opinion only for XML 1.0 output in UTF-8/UTF-16/ISO-8859-1/US-ASCII, without namespace processing',
        'XMLFormatter: the escape sets demanded are those XML requires for the context of each mode; the table in XMLFormatter.hpp lists fewer characters and "&gt;" where the attribute mode needs "&lt;" (recorded under coverage, not judged)',
    ]
    for cl in PROG_CLASSES:
        if jd.cls_seen[cl] == 0:
            ck.inconclusive.append('construct class never exercised: ' + cl)
    for e in ENCODINGS:
        if jd.enc_seen[e] == 0:
            ck.inconclusive.append('encoding never exercised: ' + e)
    for f in ('target=mem', 'target=file', 'target=str', 'target=uri', 'mode=sub', 'mode=nodoctype', 'split=0', 'ddc=0', 'bom=1', 'xmldecl=0', 'version=1.1', 'eref=1'):
        if jd.feat_seen[f] == 0:
            ck.inconclusive.append('configuration never exercised: ' + f)
    if jd.stats['input_not_parsed'] > 0.02 * max(1, ck.evaluations):
        ck.inconclusive.append('more than 2%% of the generated inputs were not parsed (%d)' % jd.stats['input_not_parsed'])
    return ck.finish()


def replay(j):
    w = j['witness']
    binary = build.ensure('asan', parts=['serialize'])
    c = core.Case.from_json(w['case'])
    recs = core.run_cases(binary, [c], shards=1)
    r = recs.get(c.id)
    if r is None or not r.complete or r.crash or r.hang:
        print('case crashed / hung:', r.crash if r else None)
        return 1
    ck = core.Check(PID, 'replay')
    jd = Judge(ck)
    if c.opt.get('mode') == 'fmt':
        judge_fmt(jd, c, r)
    else:
        jd.judge(c, r)
    print('case options:', c.opt)
    print('edit operations:', [[p, o] for k, p, o in c.steps[1:]])
    for l in r.lines:
        if l.startswith('OUT\t'):
            print('OUT(text)\t' + decode_out(bytes.fromhex(l[4:]), c.opt.get('enc', ''), c.opt.get('target'))[:2000])
        elif l.startswith('OUT2\t') and l != 'OUT2\tsame':
            print('OUT2(text)\t' + decode_out(bytes.fromhex(l[5:]), c.opt.get('enc', ''), c.opt.get('target'))[:2000])
        else:
            print(l[:400])
    print('expected: serialisation succeeds iff the tree is expressible; the re-parse is not fatal; tree B equals tree A (modulo the allowed differences); OUT2 same')
    for k, v in ck.violations.items():
        print('OBSERVED VIOLATION', k, '-', v['what'])
    return 1 if j.get('key') in ck.violations or (ck.violations and j.get('key') is None) else 0
