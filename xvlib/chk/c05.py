"""C05: transcoders and encoding detection decode every supported encoding exactly.

Runtime monitoring of the real library (asan build) through two driver commands:

* `xcode` (drivers/xd_xcode.cpp): XMLTranscoder objects obtained from makeNewTranscoderFor.  The large
  enumerations (all 1-3 byte sequences, 4-byte sequences, all code points x 5 Unicode encodings, all bytes /
  code points x single-byte pages, split positions x maxChars) run inside the driver against a table-driven
  C++ reference; this module shards them, aggregates counts and mismatches, and runs a few thousand
  python-generated strings through the *python* reference (gen/xcref.py), so that the two references and the
  library are compared pairwise.
* `parse` (drivers/xd_parse.cpp): the same document in 11 encodings x BOM x declaration variants must give
  the same SAX2 events; contradictory declarations must be reported; ill-formed sequences inside documents
  must be fatal.

Violation keys (DESIGN 2.6 `<rule>:<direction>:<construct class>`):
  u8:from:<verdict>:<class>[:split][:after-32-chars]   UTF-8 sweep (class = kind of ill-formedness)
  cp:<ENC>:<dir>:<verdict>:<bmp|supplementary|split>   code point sweep
  tbl:<ENC>:<dir>:<verdict>[:nul|:lone-surrogate]       single-byte pages
  str:<ENC>:<dir>:<verdict>[:<class>]                   python-reference strings (also split: and helper:)
  icu:<ENC>:<verdict>                                   ICU round trip / split invariance / illegal input
  alias:<NAME>:<verdict>, probe:<form>, doc:<...>
"""
import codecs, os, re, struct
from concurrent.futures import ThreadPoolExecutor
from .. import core, build
from ..gen import xcref

PID = 'C05'
SHARDS = int(os.environ.get('XV_C05_SHARDS', '0')) or core.NCPU


class BulkSet(set):
    """ck.distinct with a measured bulk counter: the driver enumerates millions of pairwise distinct sequences
    and reports how many of them are non-trivial; hashing each in python would cost more than the sweep itself."""
    bulk = 0

    def __len__(self):
        return set.__len__(self) + self.bulk


# --------------------------------------------------------------------------------------------------------
#  case generation
# --------------------------------------------------------------------------------------------------------
def X(id, cost, **opt):
    c = core.Case(id, 'xcode', opt)
    c.meta = {'cost': cost, 'class': opt.get('mode')}
    return c


def gen_u8_sweeps(tier, seed):
    cs = []
    thorough = tier == 'thorough'
    # ---- base sweeps (these define the exhaustive sub-spaces) ----
    cs.append(X('u8.l1', 1, mode='u8sweep', len=1, splits=1, base=1))
    for b0 in range(0, 256, 32):
        cs.append(X('u8.l2.%02X' % b0, 3, mode='u8sweep', len=2, b0lo=b0, b0hi=b0 + 31, splits=1, base=1))
    # 3 bytes, ASCII or continuation lead: padded only (the bare form is a stream of shorter sequences)
    st = 2 if thorough else 4
    for b0 in range(0, 0xC0, st):
        cs.append(X('u8.l3.%02X' % b0, 8, mode='u8sweep', len=3, b0lo=b0, b0hi=b0 + st - 1, bare=0, base=1))
    # 3 bytes, lead C0..FF: bare (end of input semantics) and padded
    st = 1 if thorough else 2
    for b0 in range(0xC0, 0x100, st):
        cs.append(X('u8.l3.%02X' % b0, 8, mode='u8sweep', len=3, b0lo=b0, b0hi=b0 + st - 1, splits=1 if thorough else 0, base=1))
    if not thorough:
        # every split position x maxChars 1..4 where a continuation byte follows the lead
        for b0 in range(0xC0, 0x100, 4):
            cs.append(X('u8.l3s.%02X' % b0, 10, mode='u8sweep', len=3, b0lo=b0, b0hi=b0 + 3, b1lo=0x80, b1hi=0xBF, bare=0, splits=1))
    # behind 40 ASCII characters (the decoder has already produced more than 32 units in the same call)
    cs.append(X('u8.l2p', 3, mode='u8sweep', len=2, b0lo=0x80, b0hi=0xFF, bare=0, pre=40))
    for b0 in range(0xC0, 0x100, 4):
        cs.append(X('u8.l3p.%02X' % b0, 8, mode='u8sweep', len=3, b0lo=b0, b0hi=b0 + 3, bare=0, pre=40))
    # ---- 4 bytes ----
    if thorough:
        for b0 in range(0xF0, 0xF8):
            for b1 in range(0, 256, 8):
                cs.append(X('u8.l4.%02X%02X' % (b0, b1), 30, mode='u8sweep', len=4, b0lo=b0, b0hi=b0, b1lo=b1, b1hi=b1 + 7, base=1, full4=1))
            for b1 in range(0x80, 0xC0, 16):
                cs.append(X('u8.l4s.%02X%02X' % (b0, b1), 12, mode='u8sweep', len=4, b0lo=b0, b0hi=b0, b1lo=b1, b1hi=b1 + 15, bare=0, splits=1, sample=300, seed=seed))
    else:
        for b0 in range(0xF0, 0xF8):
            cs.append(X('u8.l4.%02X' % b0, 6, mode='u8sweep', len=4, b0lo=b0, b0hi=b0, sample=156, seed=seed, base=1))
            cs.append(X('u8.l4s.%02X' % b0, 5, mode='u8sweep', len=4, b0lo=b0, b0hi=b0, b1lo=0x80, b1hi=0xBF, bare=0, splits=1, sample=28, seed=seed + 1))
    for b0 in range(0, 0xF0, 0x30):
        cs.append(X('u8.l4.%02X' % b0, 6, mode='u8sweep', len=4, b0lo=b0, b0hi=b0 + 0x2F, bare=0, sample=40 if thorough else 8, edges=0, seed=seed + 2, base=1))
    cs.append(X('u8.l4p', 5, mode='u8sweep', len=4, b0lo=0xF0, b0hi=0xFF, bare=0, pre=40, sample=300 if thorough else 28, seed=seed + 3))
    # alias name gives the same transcoder
    cs.append(X('u8.l2.alias', 2, mode='u8sweep', enc='UTF8', len=2, b0lo=0xC0, b0hi=0xFF, bare=0))
    return cs


CP_ENCS = xcref.UNICODE_ENCODINGS + (('XERCES-XMLCH', 'utf16le'),)   # XMLChTranscoder: native (little-endian host) UTF-16 copy


def gen_cp_sweeps(tier):
    cs = []
    for enc, kind in CP_ENCS:
        for lo in range(0, 0x110000, 0x8000):
            cs.append(X('cp.%s.%06X' % (enc, lo), 1, mode='cpsweep', enc=enc, kind=kind, lo=lo, hi=lo + 0x8000))
    return cs


def table_txt(tab, undecided):
    return ','.join('?' if b in undecided else ('-' if cp is None else '%X' % cp) for b, cp in enumerate(tab))


def gen_sb_sweeps():
    cs = []
    for enc, key in xcref.TABLE_ENCODINGS:
        tab = xcref.table(key)
        c = X('sb.' + enc, 4, mode='sbsweep', enc=enc, ucps=','.join('%X' % x for x in sorted(xcref.undecided_cps(key))),
              bf=','.join('%X' % x for x in sorted(xcref.XERCES_ONE_WAY)))
        c.txt(table_txt(tab, xcref.undecided_bytes(key)))
        c.meta['key'] = key
        cs.append(c)
    for enc, codec in xcref.ICU_SINGLE_BYTE:
        tab = xcref.py_table(codec)
        # python leaves holes where the standard has none: those bytes are not judged ('?'), never "must reject"
        c = X('sbi.' + enc, 4, mode='sbsweep', enc=enc, icu=1)
        c.txt(','.join('?' if cp is None else '%X' % cp for cp in tab))
        c.meta['codec'] = codec
        cs.append(c)
    return cs


def gen_icu(tier):
    cs = []
    for enc in xcref.ICU_ROUNDTRIP + tuple(e for e, _ in xcref.ICU_SINGLE_BYTE):
        step = 1 if tier == 'thorough' else 3
        cs.append(X('icurt.' + enc, 6, mode='icurt', enc=enc, lo=0x20, hi=0x10000, step=step, chunk=48, split_every=(4 if tier == 'thorough' else 16)))
        cs.append(X('icurt2.' + enc, 2, mode='icurt', enc=enc, lo=0x10000, hi=0x30000, step=17 if tier == 'thorough' else 61, chunk=24, split_every=4))
    return cs


# ---- strings for the python reference ------------------------------------------------------------------
BOUNDARY_CPS = [0, 1, 9, 0x20, 0x41, 0x7F, 0x80, 0xFF, 0x100, 0x7FF, 0x800, 0xFFF, 0x1000, 0xD7FF, 0xE000, 0xFFFD, 0xFFFE, 0xFFFF,
                0x10000, 0x10001, 0x1F600, 0x3FFFF, 0x40000, 0xFFFFF, 0x100000, 0x10FFFF]
BAD_U8 = [b'\x80', b'\xbf', b'\xc0\x80', b'\xc1\xbf', b'\xc2\x41', b'\xc2\xc2', b'\xe0\x80\x80', b'\xe0\x9f\xbf', b'\xe1\x41\x80', b'\xe1\x80\x41',
          b'\xed\xa0\x80', b'\xed\xbf\xbf', b'\xed\xa0\x80\xed\xb0\x80', b'\xf0\x80\x80\x80', b'\xf0\x8f\xbf\xbf', b'\xf4\x90\x80\x80', b'\xf4\xbf\xbf\xbf',
          b'\xf5\x80\x80\x80', b'\xf7\xbf\xbf\xbf', b'\xf8\x88\x80\x80\x80', b'\xfc\x84\x80\x80\x80\x80', b'\xfe', b'\xff', b'\xf1\x80\x80\x41', b'\xf1\x80\x41\x80',
          b'\xef\xbf\xc0', b'\xf4\x8f\xbf\xc0']


def rnd_cp(r, hi=0x110000):
    k = r.random()
    if k < 0.25:
        cp = r.choice(BOUNDARY_CPS)
    elif k < 0.5:
        cp = r.randrange(0x20, 0x7F)
    elif k < 0.65:
        cp = r.randrange(0x80, 0x800)
    elif k < 0.85:
        cp = r.randrange(0x800, 0x10000)
    else:
        cp = r.randrange(0x10000, 0x110000)
    if 0xD800 <= cp < 0xE000 or cp >= hi:
        cp = 0x41
    return cp


def S(id, enc, kind, direction, payload, **opt):
    o = dict(mode='str', enc=enc, dir=direction, helper=1)
    o.update(opt)
    c = core.Case(id, 'xcode', o).doc(payload)
    c.meta = {'cost': 0.05, 'class': 'str', 'kind': kind}
    return c


def units_be(units):
    return b''.join(struct.pack('>H', u) for u in units)


def gen_str_cases(tier, r):
    cs = []
    n = 0
    reps = 3 if tier == 'thorough' else 1

    def nid(p):
        nonlocal n
        n += 1
        return 'str.%s.%d' % (p, n)
    # ---- decoding: Unicode encodings ----
    for enc, kind in CP_ENCS:
        for i in range(60 * reps):
            ln = r.choice((1, 2, 3, 5, 8, 13, 21, 40, 70))
            cps = [rnd_cp(r) for _ in range(ln)]
            units = [u for cp in cps for u in xcref.units_of(cp)]
            data = bytes(xcref.enc_units(kind, units).data)
            how = r.random()
            if kind == 'utf8':
                if how < 0.45:
                    pos = r.randrange(len(data) + 1)
                    # insert at a character boundary so that the class of the ill-formedness is the inserted one
                    while pos < len(data) and 0x80 <= data[pos] <= 0xBF:
                        pos += 1
                    data = data[:pos] + r.choice(BAD_U8) + data[pos:]
                elif how < 0.6 and len(data) > 1:
                    data = data[:r.randrange(1, len(data))]          # truncated
                elif how < 0.7:
                    data = bytes(r.randrange(256) for _ in range(r.randint(1, 12)))
            elif kind.startswith('ucs4'):
                if how < 0.3:
                    v = r.choice((0xD800, 0xDBFF, 0xDC00, 0xDFFF, 0x110000, 0x04010000, 0x7FFFFFFF, 0x80000000, 0xFFFFFFFF, r.randrange(0x110000, 1 << 32)))
                    pos = 4 * r.randrange(len(data) // 4 + 1)
                    data = data[:pos] + v.to_bytes(4, 'big' if kind == 'ucs4be' else 'little') + data[pos:]
                elif how < 0.45:
                    data = data[:r.randrange(1, len(data))] if len(data) > 1 else data
            else:
                if how < 0.3:
                    v = r.choice((0xD800, 0xDBFF, 0xDC00, 0xDFFF))
                    pos = 2 * r.randrange(len(data) // 2 + 1)
                    data = data[:pos] + v.to_bytes(2, 'big' if kind == 'utf16be' else 'little') + data[pos:]
                elif how < 0.45:
                    data = data[:r.randrange(1, len(data))] if len(data) > 1 else data
            cs.append(S(nid('from.' + enc), enc, kind, 'from', data))
    # every ill-formed UTF-8 shape at the start, in the middle, at the end, and after more than 32 characters
    for bad in BAD_U8:
        for pre in (b'', b'ab', 'é€'.encode(), b'x' * 33, ('z' * 20 + 'é' * 20).encode()):
            for post in (b'', b'A', '€A'.encode()):
                cs.append(S(nid('from.UTF-8'), 'UTF-8', 'utf8', 'from', pre + bad + post))
    # ---- decoding: table pages ----
    for enc, key in xcref.TABLE_ENCODINGS:
        und = xcref.undecided_bytes(key)
        for i in range(25 * reps):
            data = bytes(b for b in (r.randrange(256) for _ in range(r.choice((1, 3, 9, 40, 120)))) if b not in und)
            if data:
                cs.append(S(nid('from.' + enc), enc, 'table:' + key, 'from', data))
    # ---- encoding ----
    lone = [[0xD800], [0xDBFF], [0xDC00], [0xDFFF], [0xD800, 0x41], [0xD800, 0xD800], [0xDC00, 0xD800], [0xDC00, 0xDC00], [0xD800, 0xD7FF], [0xDBFF, 0xE000],
            [0xD800, 0xDC00, 0xDC00], [0xD800, 0xD800, 0xDC00]]
    for enc, kind in CP_ENCS:
        for i in range(40 * reps):
            cps = [rnd_cp(r) for _ in range(r.choice((1, 2, 3, 5, 8, 13, 33, 60)))]
            units = [u for cp in cps for u in xcref.units_of(cp)]
            cs.append(S(nid('to.' + enc), enc, kind, 'to', units_be(units)))
        for l in lone:
            for pre in ([], [0x61, 0xE9], [0xD83D, 0xDE00]):
                for post in ([], [0x62]):
                    cs.append(S(nid('to.' + enc), enc, kind, 'to', units_be(pre + l + post)))
    for enc, key in xcref.TABLE_ENCODINGS:
        tab = xcref.table(key)
        und = xcref.undecided_cps(key)
        pool = [cp for cp in tab if cp is not None and cp not in und and cp != 0]
        for i in range(30 * reps):
            units = []
            for _ in range(r.choice((1, 2, 5, 17, 60))):
                cp = r.choice(pool) if r.random() < 0.85 else rnd_cp(r)
                if cp in und or cp == 0:          # U+0000 has its own key in the page sweep (tbl:<ENC>:to:...:nul)
                    cp = 0x41
                units += xcref.units_of(cp)
            for unrep in ('throw', 'rep'):
                cs.append(S(nid('to.' + enc), enc, 'table:' + key, 'to', units_be(units), unrep=unrep))
        for l in lone[:4]:
            cs.append(S(nid('to.' + enc), enc, 'table:' + key, 'to', units_be([0x61] + l), unrep='throw'))
    # ---- aliases: same behaviour as the canonical name ----
    probe_units = [0x41, 0xE9, 0x20AC, 0xD83D, 0xDE00, 0x7A]
    for alias, canon in sorted(xcref.ALIASES.items()):
        kind = dict(xcref.UNICODE_ENCODINGS).get(canon)
        if kind:
            data = bytes(xcref.enc_units(kind, probe_units).data)
        else:
            key = dict(xcref.TABLE_ENCODINGS)[canon]
            kind = 'table:' + key
            data = bytes(b for b in range(256) if xcref.table(key)[b] is not None and b not in xcref.undecided_bytes(key))
        c = S(nid('alias.' + alias), alias, kind, 'from', data)
        c.meta['alias_of'] = canon
        cs.append(c)
    # ---- ICU: ill-formed input must not be decoded (probe; byte sequences that are illegal in every version
    #      of the encoding: a lead byte followed by a byte that can never be a trail byte) ----
    for enc, data in (('Shift_JIS', b'ab\x81\x20cd'), ('EUC-JP', b'ab\xa4\x20cd'), ('Big5', b'ab\xa4\x20cd'), ('GB2312', b'ab\xb0\x20cd')):
        c = S(nid('icubad.' + enc), enc, 'icu-illegal', 'from', data, fresh=1, helper=0)
        cs.append(c)
    return cs


def gen_names():
    c = core.Case('names', 'xcode', {'mode': 'names'})
    c.meta = {'cost': 0.1, 'class': 'names'}
    names = [e for e, _ in CP_ENCS] + [e for e, _ in xcref.TABLE_ENCODINGS] + sorted(xcref.ALIASES) + ['UTF-16', 'UCS-4', 'UCS4', 'UTF-32', 'UCS2', 'ISO-10646-UCS-2', 'ISO-10646-UCS-4'] + \
            [e for e, _ in xcref.ICU_SINGLE_BYTE] + list(xcref.ICU_ROUNDTRIP) + ['x-no-such-encoding-xv']
    for nm in names:
        c.txt(nm)
    c.meta['names'] = names
    return [c]


INTRINSIC_CLASS = {'UTF-8': 'XMLUTF8Transcoder', 'UTF-16LE': 'XMLUTF16Transcoder', 'UTF-16BE': 'XMLUTF16Transcoder', 'UCS-4LE': 'XMLUCS4Transcoder',
                   'UCS-4BE': 'XMLUCS4Transcoder', 'XERCES-XMLCH': 'XMLChTranscoder', 'ISO-8859-1': 'XML88591Transcoder', 'US-ASCII': 'XMLASCIITranscoder',
                   'WINDOWS-1252': 'XMLWin1252Transcoder', 'IBM037': 'XMLEBCDICTranscoder', 'IBM1047': 'XMLIBM1047Transcoder', 'IBM1140': 'XMLIBM1140Transcoder',
                   'UTF-16': 'XMLUTF16Transcoder', 'UCS2': 'XMLUTF16Transcoder', 'ISO-10646-UCS-2': 'XMLUTF16Transcoder', 'UCS-4': 'XMLUCS4Transcoder', 'UCS4': 'XMLUCS4Transcoder',
                   'UTF-32': 'XMLUCS4Transcoder', 'ISO-10646-UCS-4': 'XMLUCS4Transcoder'}

# XMLRecognizer::Encodings
EBCDIC, UCS_4B, UCS_4L, US_ASCII, UTF_8, UTF_16B, UTF_16L, XERCES_XMLCH = range(8)
XMLDECL = '<?xml '
PROBES = [   # (form, bytes, expected enum)
    ('ascii-decl', b'<?xml version="1.0"?>', UTF_8), ('ascii-decl-6', b'<?xml ', UTF_8), ('utf8-bom', b'\xef\xbb\xbf<a/>', UTF_8),
    ('utf8-bom-decl', b'\xef\xbb\xbf<?xml version="1.0"?>', UTF_8),
    ('utf16be-bom', b'\xfe\xff\x00<\x00a', UTF_16B), ('utf16le-bom', b'\xff\xfe<\x00a\x00', UTF_16L),
    ('utf16be-bom-2', b'\xfe\xff', UTF_16B), ('utf16le-bom-2', b'\xff\xfe', UTF_16L), ('utf16be-bom-3', b'\xfe\xff\x00', UTF_16B), ('utf16le-bom-3', b'\xff\xfe<', UTF_16L),
    ('ucs4be-bom', b'\x00\x00\xfe\xff\x00\x00\x00<', UCS_4B), ('ucs4le-bom', b'\xff\xfe\x00\x00<\x00\x00\x00', UCS_4L),
    ('ucs4be-bom-4', b'\x00\x00\xfe\xff', UCS_4B), ('ucs4le-bom-4', b'\xff\xfe\x00\x00', UCS_4L),
    ('utf16be-decl', XMLDECL.encode('utf-16-be') + 'version="1.0"?>'.encode('utf-16-be'), UTF_16B), ('utf16le-decl', XMLDECL.encode('utf-16-le') + 'v'.encode('utf-16-le'), UTF_16L),
    ('utf16be-decl-12', XMLDECL.encode('utf-16-be'), UTF_16B), ('utf16le-decl-12', XMLDECL.encode('utf-16-le'), UTF_16L),
    ('ucs4be-decl', XMLDECL.encode('utf-32-be') + 'v'.encode('utf-32-be'), UCS_4B), ('ucs4le-decl', XMLDECL.encode('utf-32-le') + 'v'.encode('utf-32-le'), UCS_4L),
    ('ucs4be-decl-24', XMLDECL.encode('utf-32-be'), UCS_4B), ('ucs4le-decl-24', XMLDECL.encode('utf-32-le'), UCS_4L),
    ('ebcdic-decl', (XMLDECL + 'version="1.0"?>').encode('cp037'), EBCDIC), ('ebcdic-decl-7', (XMLDECL + 'v').encode('cp037'), EBCDIC),
    ('plain-element', b'<a/>', UTF_8), ('one-byte', b'<', UTF_8), ('empty', b'', UTF_8), ('latin-text', b'\xe9\xe8\xe7\xe6\xe5', UTF_8),
]


def gen_probe():
    c = core.Case('probe', 'xcode', {'mode': 'probe', 'enums': 1})
    for form, data, exp in PROBES:
        c.doc(data)
    c.meta = {'cost': 0.1, 'class': 'probe'}
    b1 = core.Case('probe.fffe', 'xcode', {'mode': 'probe', 'bomsweep': 1}).doc(b'\xff\xfe')
    b1.meta = {'cost': 0.5, 'class': 'probe', 'bom': 'fffe'}
    b2 = core.Case('probe.feff', 'xcode', {'mode': 'probe', 'bomsweep': 1}).doc(b'\xfe\xff')
    b2.meta = {'cost': 0.5, 'class': 'probe', 'bom': 'feff'}
    return [c, b1, b2]


# ---- documents -----------------------------------------------------------------------------------------
# (label, python codec used to produce the bytes, declaration names that match, BOM or None, family)
DOC_ENCODINGS = [
    ('UTF-8', 'utf-8', ['UTF-8', 'utf-8', 'UTF8'], codecs.BOM_UTF8, '8bit'),
    ('UTF-16LE', 'utf-16-le', ['UTF-16', 'UTF-16LE', 'utf-16'], codecs.BOM_UTF16_LE, 'utf16'),
    ('UTF-16BE', 'utf-16-be', ['UTF-16', 'UTF-16BE', 'UCS2'], codecs.BOM_UTF16_BE, 'utf16'),
    ('UCS-4LE', 'utf-32-le', ['UCS-4', 'UCS-4LE', 'UTF-32', 'ISO-10646-UCS-4'], codecs.BOM_UTF32_LE, 'ucs4'),
    ('UCS-4BE', 'utf-32-be', ['UCS-4', 'UCS-4BE', 'ucs-4'], codecs.BOM_UTF32_BE, 'ucs4'),
    ('ISO-8859-1', 'latin-1', ['ISO-8859-1', 'iso-8859-1', 'LATIN1'], None, '8bit'),
    ('US-ASCII', 'ascii', ['US-ASCII', 'ASCII'], None, '8bit'),
    ('WINDOWS-1252', 'cp1252', ['windows-1252', 'WINDOWS-1252'], None, '8bit'),
    ('IBM037', 'cp037', ['IBM037', 'ebcdic-cp-us'], None, 'ebcdic'),
    ('IBM1047', None, ['IBM1047', 'IBM-1047'], None, 'ebcdic'),
    ('IBM1140', 'cp1140', ['IBM1140', 'IBM01140', 'CP01140'], None, 'ebcdic'),
]
NAME_FAMILY = {'UTF-8': '8bit', 'ISO-8859-1': '8bit', 'US-ASCII': '8bit', 'windows-1252': '8bit', 'UTF-16': 'utf16', 'UTF-16LE': 'utf16', 'UTF-16BE': 'utf16',
               'UCS-4': 'ucs4', 'UCS-4LE': 'ucs4', 'UCS-4BE': 'ucs4', 'IBM037': 'ebcdic', 'IBM1140': 'ebcdic', 'IBM1047': 'ebcdic'}
REPERTOIRE = {
    'ascii': 'abc XYZ 019 ,;:!?()=+*/#@$~_-.',     # characters invariant in the three EBCDIC pages are a subset; see doc_text()
    'latin1': 'éèüÿÀß¡¿©®±µ¶·×÷\xa0\xad',
    'cp1252': '€‚ƒ„…†‡ˆ‰Š‹ŒŽ‘’“”•–—˜™š›œžŸ',
    'bmp': 'ĀſΩжשﷲ中あก퟿�', 'supp': '\U00010000\U0001f600\U000e0001\U0010fffd',
}


def enc_doc_text(label, codec, s):
    if label == 'IBM1047':
        inv = {cp: b for b, cp in enumerate(xcref.table('ibm1047'))}
        return bytes(inv[ord(ch)] for ch in s)
    return s.encode(codec)


def doc_pool(label):
    if label == 'US-ASCII':
        return REPERTOIRE['ascii']
    if label in ('ISO-8859-1', 'IBM037', 'IBM1047'):
        return REPERTOIRE['ascii'] + REPERTOIRE['latin1']
    if label == 'IBM1140':
        return REPERTOIRE['ascii'] + REPERTOIRE['latin1'].replace('¤', '') + '€'
    if label == 'WINDOWS-1252':
        return REPERTOIRE['ascii'] + REPERTOIRE['latin1'] + REPERTOIRE['cp1252']
    return REPERTOIRE['ascii'] + REPERTOIRE['latin1'] + REPERTOIRE['cp1252'] + REPERTOIRE['bmp'] + REPERTOIRE['supp']


def make_body(r, pool, nonascii_names, size):
    def txt(n):
        return ''.join(r.choice(pool) for _ in range(n))
    nm = 'é' if nonascii_names else 'e'
    parts = ['<r%s a="%s" b%s="%s">' % (nm, txt(r.randint(0, 12)), nm, txt(r.randint(1, 6)))]
    for i in range(size):
        k = r.random()
        if k < 0.5:
            parts.append(txt(r.randint(1, 30)))
        elif k < 0.7:
            parts.append('<c%d x="%s">%s</c%d>' % (i, txt(r.randint(0, 5)), txt(r.randint(0, 10)), i))
        elif k < 0.8:
            parts.append('<!--%s-->' % txt(r.randint(0, 8)).replace('-', '_'))
        elif k < 0.9:
            parts.append('<?p%d %s?>' % (i, txt(r.randint(0, 8)).replace('?', '.')))
        else:
            parts.append('<![CDATA[%s]]>' % txt(r.randint(1, 8)))
    parts.append('</r%s>' % nm)
    return ''.join(parts)


def P(id, data, **meta):
    c = core.Case(id, 'parse', {'api': 'sax2', 'loc': 0}).doc(data)
    c.meta = dict(meta)
    c.meta.setdefault('cost', 0.02)
    c.meta['class'] = 'doc'
    return c


def decl(name, standalone=False):
    return '<?xml version="1.0" encoding="%s"%s?>' % (name, ' standalone="yes"' if standalone else '')


def gen_docs(tier, r):
    cs = []
    groups = []
    ndocs = 24 if tier == 'thorough' else 6
    n = 0
    for gi in range(ndocs):
        # one body per repertoire level; each body is expressed in every encoding that can represent it
        level = ('ascii', 'latin1', 'cp1252', 'full')[gi % 4]
        labels = [l for l, *_ in DOC_ENCODINGS if level == 'ascii' or (level == 'latin1' and l != 'US-ASCII') or
                  (level == 'cp1252' and l in ('UTF-8', 'UTF-16LE', 'UTF-16BE', 'UCS-4LE', 'UCS-4BE', 'WINDOWS-1252')) or
                  (level == 'full' and l in ('UTF-8', 'UTF-16LE', 'UTF-16BE', 'UCS-4LE', 'UCS-4BE'))]
        pool = {'ascii': REPERTOIRE['ascii'], 'latin1': doc_pool('ISO-8859-1'), 'cp1252': doc_pool('WINDOWS-1252'), 'full': doc_pool('UTF-8')}[level]
        body = make_body(r, pool, level != 'ascii' and r.random() < 0.5, r.choice((3, 8, 25)) if gi % 5 else 120)
        gid = 'g%d' % gi
        ref = P('doc.%s.ref' % gid, body.encode('utf-8'), group=gid, role='ref', body=body)
        cs.append(ref)
        groups.append(gid)
        for label, codec, names, bom, fam in DOC_ENCODINGS:
            if label not in labels:
                continue
            for use_bom in ((False, True) if bom else (False,)):
                variants = [('match', nm) for nm in names]
                if label == 'UTF-8' or (use_bom and fam == 'utf16'):
                    variants.append(('none', None))
                for how, nm in variants:
                    text = (decl(nm, standalone=r.random() < 0.2) if nm else '') + body
                    data = (bom if use_bom else b'') + enc_doc_text(label, codec, text)
                    n += 1
                    cs.append(P('doc.%s.%d' % (gid, n), data, group=gid, role='same', enc=label, bom=use_bom, decl=nm or '-'))
                    if gi % 5 == 0 and how == 'match' and nm == names[0]:
                        # the same bytes delivered in small raw reads after the declaration has been seen
                        n += 1
                        c = P('doc.%s.%d' % (gid, n), data, group=gid, role='same', enc=label, bom=use_bom, decl=nm, chunked=1)
                        c.opt.update({'src': 'chunk', 'chunk': 'l400,' + ','.join(str(r.randint(1, 9)) for _ in range(300)) + ',*'})
                        cs.append(c)
            # contradictory declarations: the bytes are in `label`, the declaration names another family
            for wrong, wfam in NAME_FAMILY.items():
                if wfam == fam:
                    continue
                for use_bom in ((False, True) if bom else (False,)):
                    if gi >= 1 and r.random() < 0.8:
                        continue
                    data = (bom if use_bom else b'') + enc_doc_text(label, codec, decl(wrong) + body)
                    n += 1
                    cs.append(P('doc.%s.%d' % (gid, n), data, group=gid, role='contra', enc=label, bom=use_bom, decl=wrong, fam=fam, wfam=wfam))
            # same family, different member, where the bytes themselves say which member it is
            if fam == 'utf16':
                other = 'UTF-16BE' if label == 'UTF-16LE' else 'UTF-16LE'
                for use_bom in (False, True):
                    data = (bom if use_bom else b'') + enc_doc_text(label, codec, decl(other) + body)
                    n += 1
                    cs.append(P('doc.%s.%d' % (gid, n), data, group=gid, role='contra-member', enc=label, bom=use_bom, decl=other, fam=fam, wfam=fam))
            if label == 'UTF-8' and level != 'ascii':
                for other in ('ISO-8859-1', 'windows-1252'):
                    data = bom + (decl(other) + body).encode('utf-8')
                    n += 1
                    cs.append(P('doc.%s.%d' % (gid, n), data, group=gid, role='contra-bom8', enc=label, bom=True, decl=other, fam=fam, wfam=fam))
    # ---- ill-formed sequences inside documents must be fatal ----
    bad = []
    for seq in BAD_U8:
        for pre in (3, 45):
            bad.append(('utf8', seq, pre, ('<r>' + 'a' * pre).encode() + seq + b'b</r>'))
            bad.append(('utf8-attr', seq, pre, ('<r a="' + 'a' * pre).encode() + seq + b'"/>'))
    for v in (0xD800, 0xDFFF):
        for le in (True, False):
            cd = 'utf-16-le' if le else 'utf-16-be'
            b = codecs.BOM_UTF16_LE if le else codecs.BOM_UTF16_BE
            bad.append(('utf16-lone', v.to_bytes(2, 'little' if le else 'big'), 0, b + '<r>a'.encode(cd) + v.to_bytes(2, 'little' if le else 'big') + 'b</r>'.encode(cd)))
    for v in (0xD800, 0xDFFF, 0x110000, 0x04010000, 0x00110041, 0x7FFF0041, 0xFFFFFFFF):
        for le in (True, False):
            cd = 'utf-32-le' if le else 'utf-32-be'
            b = codecs.BOM_UTF32_LE if le else codecs.BOM_UTF32_BE
            q = v.to_bytes(4, 'little' if le else 'big')
            bad.append(('ucs4-' + ('surrogate' if v < 0x10000 else 'above-10FFFF'), q, 0, b + (decl('UCS-4') + '<r>a').encode(cd) + q + 'b</r>'.encode(cd)))
    bad.append(('ascii-high', b'\xe9', 0, (decl('US-ASCII') + '<r>a').encode() + b'\xe9' + b'b</r>'))
    for kind, seq, pre, data in bad:
        n += 1
        cs.append(P('docbad.%d' % n, data, role='bad', kind=kind, seq=seq.hex(), pre=pre))
    return cs, groups


# --------------------------------------------------------------------------------------------------------
#  evaluation
# --------------------------------------------------------------------------------------------------------
def kv(line):
    d = {}
    for f in line.split('\t')[1:]:
        if '=' in f:
            k, v = f.split('=', 1)
            d[k] = v
    return d


def sweep_lines(rec):
    out = {'N': {}, 'K': {}, 'M': [], 'X': {}, 'XC': {}, 'other': []}
    for l in rec.lines:
        t = l.split('\t')
        if t[0] == 'N':
            out['N'] = {k: int(v) for k, v in kv(l).items()}
        elif t[0] == 'K':
            out['K'][t[1]] = int(t[2])
        elif t[0] == 'X':
            out['X'][t[1]] = int(t[2])
        elif t[0] == 'XC':
            out['XC'][(t[1], t[2])] = int(t[3])
        elif t[0] == 'M':
            out['M'].append(t[1:])
        else:
            out['other'].append(l)
    return out


U8_STRICT_CLASSES = ('lone-continuation', 'overlong2', 'overlong3', 'surrogate', 'overlong4', 'above-10FFFF', 'bad-continuation')
U8_VERDICT = {'accepted-illformed': 'not-rejected', 'skipped-illformed': 'not-rejected'}


def parse_units(s):
    return [int(x, 16) for x in s.split()] if s.strip() else []


def eval_case(ck, c, rec):
    """Judge one executed case.  Yields (key, what, extra witness)."""
    mode = c.opt.get('mode') if c.cmd == 'xcode' else 'doc'
    bad_lines = [l for l in rec.lines if l.split('\t')[0] in ('NOTRANS', 'BADCASE', 'BADMODE', 'ESCAPED', 'BADCMD', 'DRIVERCATCH')]
    if bad_lines and not (mode == 'names'):
        yield ('driver:%s:%s' % (mode, bad_lines[0].split('\t')[0].lower()), 'driver could not run the case: ' + bad_lines[0], {})
        return
    if mode in ('u8sweep', 'cpsweep', 'sbsweep', 'icurt'):
        sw = sweep_lines(rec)
        first = {}
        for m in sw['M']:
            first.setdefault(m[0], m)
        if mode == 'u8sweep':
            # How a sequence is rejected: ill-formedness that the first two bytes already show (Table 3-7 lead / second byte
            # ranges, continuation bytes) is the library's "malformed UTF-8" condition, UTFDataFormatException
            # (XMLExcepts::UTF8_*).  A generic TranscodingException for these classes means the dedicated test is gone and
            # only the value-range backstop behind it caught the sequence.  Lead bytes F5..FF may use either.
            for (cls, exc), cnt in sw['XC'].items():
                if cls in U8_STRICT_CLASSES and not exc.startswith('UTFDataFormatException:'):
                    yield ('u8:from:exception-type:%s' % cls, '%d ill-formed sequence(s) of class %s were rejected with %s instead of UTFDataFormatException' % (cnt, cls, exc), {'expected': 'UTFDataFormatException', 'observed': exc, 'count': cnt})
        for kind, cnt in sw['K'].items():
            m = first.get(kind, [kind])
            if mode == 'u8sweep':
                parts = kind.split(':')
                parts[0] = U8_VERDICT.get(parts[0], parts[0])
                key = 'u8:from:' + ':'.join(parts) + (':after-32-chars' if int(c.opt.get('pre', 0)) > 32 else '')
            elif mode == 'cpsweep':
                d, rest = kind.split(':', 1)
                key = 'cp:%s:%s:%s' % (c.opt['enc'], d, rest)
            elif mode == 'sbsweep':
                key = 'tbl:%s:%s' % (c.opt['enc'].upper(), kind)
            else:
                key = 'icu:%s:%s' % (c.opt['enc'], kind.replace('rt:', ''))
            yield (key, '%s: %d mismatching run(s); first: %s' % (kind, cnt, ' | '.join(m[1:])[:400]), {'mismatch': m, 'count': cnt})
        return
    if mode == 'str':
        yield from eval_str(ck, c, rec)
        return
    if mode == 'names':
        got = {}
        for l in rec.lines:
            t = l.split('\t')
            if t[0] == 'NM':
                got[core.unesc(t[1])] = t[2]
        for nm in c.meta['names']:
            cls = got.get(nm)
            canon = xcref.ALIASES.get(nm, nm)
            want = INTRINSIC_CLASS.get(canon if canon in INTRINSIC_CLASS else nm)
            if nm == 'x-no-such-encoding-xv':
                if cls != 'none':
                    yield ('alias:unknown-name:accepted', 'a transcoder was created for a name that is no encoding: %s' % cls, {})
            elif want:
                ck.cov['aliases_checked'] = ck.cov.get('aliases_checked', 0) + 1
                if cls != want:
                    yield ('alias:%s:wrong-transcoder' % nm, 'name %r gave %s, intrinsic %s expected' % (nm, cls, want), {'expected': want, 'observed': cls})
            else:
                if cls != 'ICUTranscoder':
                    yield ('alias:%s:no-transcoder' % nm, 'name %r gave %s, ICU transcoder expected' % (nm, cls), {'observed': cls})
        return
    if mode == 'probe':
        if c.opt.get('bomsweep'):
            hist = {}
            for l in rec.lines:
                t = l.split('\t')
                if t[0] == 'PH':
                    hist[int(t[1])] = (int(t[2]), t[3])
            if c.meta['bom'] == 'fffe':
                exp = {UTF_16L: 65535, UCS_4L: 1}
                ok = {k: v[0] for k, v in hist.items()} == exp and hist[UCS_4L][1] == 'FFFE0000'
            else:
                # FE FF 00 00 is "UCS-4 unusual octet order (3412)" in XML Appendix F: unsupported, not judged
                n = {k: v[0] for k, v in hist.items()}
                ok = set(n) == {UTF_16B} or (set(n) <= {UTF_16B, UTF_8, UCS_4B, UCS_4L} and n.get(UTF_16B) == 65535 and hist.get(UTF_16B, (0, ''))[1] != 'FEFF0000')
            ck.cov['probe_prefixes'] = ck.cov.get('probe_prefixes', 0) + 65536
            if not ok:
                yield ('probe:bom-%s' % c.meta['bom'], 'basicEncodingProbe on %s + every byte pair: answers %r' % (c.meta['bom'].upper(), hist), {'observed': {str(k): v for k, v in hist.items()}})
            return
        got = {}
        for l in rec.lines:
            t = l.split('\t')
            if t[0] == 'P':
                got[int(t[1])] = int(t[2])
            elif t[0] == 'EN':
                e, nm, back = int(t[1]), t[2], int(t[3])
                # EBCDIC is a family name, not an encoding name: no round trip expected
                if e != EBCDIC and back != e:
                    yield ('probe:name-roundtrip:%d' % e, 'encodingForName(nameForEncoding(%d)=%s) = %d' % (e, nm, back), {})
        for i, (form, data, exp) in enumerate(PROBES):
            ck.cov['probe_prefixes'] = ck.cov.get('probe_prefixes', 0) + 1
            if got.get(i) != exp:
                yield ('probe:%s' % form, 'basicEncodingProbe(%s) = %r, expected %d' % (data.hex(), got.get(i), exp), {'expected': exp, 'observed': got.get(i)})
        return


def str_ref(kind, data, direction, unrep='throw'):
    table = None
    k = kind
    if kind.startswith('table:'):
        key = kind[6:]
        table = xcref.table(key)
        k = 'table'
    if direction == 'from':
        return xcref.decode(k, data, table)
    units = [struct.unpack('>H', data[i:i + 2])[0] for i in range(0, len(data) - 1, 2)]
    return xcref.enc_units(k, units, table), units


SECONDARY = (':split-variance', ':protocol:')


def eval_str(ck, c, rec):
    """split-variance / size bookkeeping reports are consequences when the same string already has a value verdict:
    they are then attached to that verdict instead of getting keys of their own"""
    res = list(_eval_str(ck, c, rec))
    direct = [x for x in res if ':helper-' not in x[0] and not any(t in x[0] for t in SECONDARY)]
    if direct:
        # TranscodeFromStr/TranscodeToStr sit on top of transcodeFrom/To: same root cause, no key of its own
        res = [x for x in res if ':helper-' not in x[0]]
    primary = [x for x in res if not any(t in x[0] for t in SECONDARY)]
    if primary:
        extra = [x[0] + ': ' + x[1][:200] for x in res if x not in primary]
        for key, what, w in primary:
            if extra:
                w = dict(w, also=extra)
            yield key, what, w
    else:
        yield from res


def _eval_str(ck, c, rec):
    kind = c.meta['kind']
    enc = c.opt['enc']
    canon = xcref.ALIASES.get(enc, enc).upper() if c.meta.get('alias_of') else enc.upper()
    direction = c.opt['dir']
    data = c.steps[0][1]
    R = V = H = None
    D = []
    cls = None
    for l in rec.lines:
        t = l.split('\t')
        if t[0] == 'R':
            R = (t[1], kv(l))
        elif t[0] == 'V':
            V = kv(l)
        elif t[0] == 'H':
            H = t[1:]
        elif t[0] == 'D':
            D.append(l)
        elif t[0] == 'CLASS':
            cls = t[1]
    if R is None or V is None:
        yield ('driver:str:no-result', 'no result line', {})
        return
    pfx = ('alias:%s' % enc) if c.meta.get('alias_of') else ('str:%s' % canon)
    status, f = R
    if kind == 'icu-illegal':
        units = parse_units(f.get('out', ''))
        ck.cov['icu_illegal_probes'] = ck.cov.get('icu_illegal_probes', 0) + 1
        if status != 'exc':
            yield ('icu:%s:illegal-sequence-not-rejected' % enc, 'ICU-backed %s decoded the illegal bytes %s to [%s] without an exception' % (enc, data.hex(), ' '.join('%04X' % u for u in units)),
                   {'expected': 'exception', 'observed': f})
        return
    if int(V.get('diffs', 0)):
        yield ('%s:%s:split-variance' % (pfx, direction), 'result depends on the split position / per-call limit: %s' % (D[0] if D else ''), {'observed': D[:4]})
    if direction == 'from':
        ref = str_ref(kind, data, 'from')
        units = parse_units(f.get('out', ''))
        sizes = list(bytes.fromhex(f.get('sz', '')))
        longest = parse_units(V.get('longest', ''))
        after32 = ':after-32-chars' if (kind == 'utf8' and ref.status == 'err' and len(ref.units) > 32) else ''
        exp = repr(ref)
        if f.get('bad', '-') not in ('-', 'sizes-sum') or (f.get('bad') == 'sizes-sum' and cls != 'ICUTranscoder'):
            yield ('%s:from:protocol:%s' % (pfx, f['bad']), 'transcodeFrom broke its contract (%s) on %s' % (f['bad'], data.hex()), {'expected': exp, 'observed': l})
        if ref.status == 'ok':
            if status != 'ok' or units != ref.units or int(f['pos']) != len(data):
                yield ('%s:from:%s' % (pfx, 'rejected-wellformed' if status == 'exc' else 'wrong-chars'), 'well-formed %s decoded wrongly' % data.hex(), {'expected': exp, 'observed': f})
            elif sizes != ref.sizes:
                yield ('%s:from:char-sizes' % pfx, 'charSizes inconsistent with the decoded characters for %s' % data.hex(), {'expected': ref.sizes, 'observed': sizes})
        elif ref.status == 'err':
            tail_short = kind == 'utf8' and len(data) - ref.at < xcref.u8_generic_len(data[ref.at])
            if status == 'exc' or (status == 'stall' and tail_short and int(f['pos']) == ref.at):
                if units != ref.units[:len(units)] or longest != ref.units[:len(longest)]:
                    yield ('%s:from:wrong-chars-before-error' % pfx, 'characters before the ill-formed sequence differ for %s' % data.hex(), {'expected': exp, 'observed': f})
            else:
                yield ('%s:from:not-rejected:%s%s' % (pfx, ref.cls, after32), 'ill-formed (%s at byte %d) %s was not rejected: %s [%s]' % (ref.cls, ref.at, data.hex(), status, f.get('out', '')),
                       {'expected': exp, 'observed': f})
        else:
            if not (status == 'stall' and int(f['pos']) == ref.at and units == ref.units):
                yield ('%s:from:truncated:%s' % (pfx, status), 'incomplete trailing sequence in %s: expected to stop at byte %d' % (data.hex(), ref.at), {'expected': exp, 'observed': f})
        if H is not None:
            hok = H[0] == 'ok'
            hunits = parse_units(kv('H\t' + '\t'.join(H)).get('out', '')) if hok else None
            if ref.status == 'ok':
                if not hok or hunits != ref.units:
                    yield ('%s:helper-from:%s' % (pfx, 'wrong-chars' if hok else 'rejected-wellformed'), 'TranscodeFromStr on well-formed %s' % data.hex(), {'expected': exp, 'observed': H})
            elif hok:
                yield ('%s:helper-from:not-rejected:%s%s' % (pfx, ref.cls or 'truncated', after32), 'TranscodeFromStr accepted %s (%s at byte %d)' % (data.hex(), ref.status, ref.at), {'expected': exp, 'observed': H})
    else:
        ref, units = str_ref(kind, data, 'to')
        out = bytes.fromhex(f.get('out', ''))
        exp = repr(ref)
        us = ' '.join('%04X' % u for u in units)
        rep = c.opt.get('unrep') == 'rep'
        if f.get('bad', '-') != '-':
            yield ('%s:to:protocol:%s' % (pfx, f['bad']), 'transcodeTo broke its contract (%s) on [%s]' % (f['bad'], us), {'expected': exp, 'observed': f})
        if ref.status == 'ok':
            if status != 'ok' or out != bytes(ref.data) or int(f['pos']) != len(units):
                yield ('%s:to:%s' % (pfx, 'rejected-representable' if status == 'exc' else 'wrong-bytes:' + first_diff_class(kind, units, out, ref.data)), 'encoding of [%s]' % us, {'expected': exp, 'observed': f})
        elif ref.status == 'unrep':
            if rep:
                # representable characters must keep their bytes; every unrepresentable unit becomes one replacement
                # byte (a surrogate pair: one or two - not decided)
                okr = status == 'ok' and int(f['pos']) == len(units) and check_rep(kind, units, out)
                if not okr:
                    yield ('%s:to:repchar' % pfx, 'UnRep_RepChar encoding of [%s]' % us, {'expected': 'representable characters unchanged, replacements elsewhere', 'observed': f})
            elif status != 'exc' or bytes.fromhex(V.get('longest', '')) != bytes(ref.data)[:len(bytes.fromhex(V.get('longest', '')))]:
                yield ('%s:to:unrepresentable-not-reported' % pfx, 'UnRep_Throw encoding of [%s] (first unrepresentable: %s)' % (us, ref.cls), {'expected': exp, 'observed': f})
        else:   # ill-formed UTF-16 input
            if kind in ('utf16le', 'utf16be'):
                # the UTF-16 transcoders copy code units; lone surrogates are judged at document level, not here
                ck.cov['utf16_passthrough_not_judged'] = ck.cov.get('utf16_passthrough_not_judged', 0) + 1
                want = b''.join(u.to_bytes(2, 'big' if kind == 'utf16be' else 'little') for u in units)
                if status != 'ok' or out != want:
                    yield ('%s:to:unit-copy' % pfx, 'UTF-16 unit copy of [%s]' % us, {'expected': want.hex(), 'observed': f})
            elif rep and kind.startswith('table:'):
                pass
            else:
                high_end = ref.cls == 'high-at-end' and ref.at == len(units) - 1
                if not (status == 'exc' or (status == 'stall' and high_end)):
                    yield ('%s:to:lone-surrogate-encoded:%s' % (pfx, ref.cls), 'lone surrogate in [%s] was encoded as %s instead of being reported' % (us, out.hex()), {'expected': exp, 'observed': f})
        if H is not None:
            hok = H[0] == 'ok'
            hout = bytes.fromhex(kv('H\t' + '\t'.join(H)).get('out', '')) if hok else None
            if ref.status == 'ok':
                if not hok or hout != bytes(ref.data):
                    yield ('%s:helper-to:%s' % (pfx, 'wrong-bytes:' + first_diff_class(kind, units, hout, ref.data) if hok else 'rejected-representable'), 'TranscodeToStr on [%s]' % us, {'expected': exp, 'observed': H})
            elif hok and not (kind in ('utf16le', 'utf16be')):
                yield ('%s:helper-to:not-reported:%s' % (pfx, ref.status if ref.status == 'unrep' else 'lone-surrogate:' + ref.cls), 'TranscodeToStr accepted [%s]' % us, {'expected': exp, 'observed': H})


def check_rep(kind, units, out):
    """UnRep_RepChar result: representable characters keep their byte, every other scalar gives one replacement byte
    (a surrogate pair may give one or two - not decided, but the same choice throughout the string)"""
    table = xcref.table(kind[6:])
    inv = {}
    for b, cp in enumerate(table):
        if cp is not None:
            inv.setdefault(cp, b)
    for pair_bytes in (1, 2):
        pos = 0
        ok = True
        for i, cp, nu, cls in xcref.scalars(units):
            if cp is not None and cp in inv:
                if pos >= len(out) or out[pos] != inv[cp]:
                    ok = False
                    break
                pos += 1
            else:
                pos += pair_bytes if nu == 2 else 1
        if ok and pos == len(out):
            return True
    return False


def first_diff_class(kind, units, out, ref_bytes):
    """class of the first scalar whose encoding differs (narrows the key of a wrong-bytes violation)"""
    pos = 0
    for i, cp, nu, cls in xcref.scalars(units):
        if cp is None:
            return 'lone-surrogate'
        e = bytes(xcref.enc_units(kind if not kind.startswith('table:') else 'table', xcref.units_of(cp), xcref.table(kind[6:]) if kind.startswith('table:') else None).data)
        if out[pos:pos + len(e)] != e:
            return 'supplementary' if cp >= 0x10000 else 'bmp'
        pos += len(e)
    return 'length'


EVENT_TAGS = ('SD', 'ED', 'SE', 'AT', 'SEX', 'EE', 'CH', 'IW', 'PI', 'CM', 'CD0', 'CD1', 'SPM', 'EPM', 'DT', 'EDT')


def doc_view(rec):
    ev = [l for l in rec.lines if l.split('\t')[0] in EVENT_TAGS]
    rep = [l for l in rec.lines if l.split('\t')[0] in ('ERR', 'EH', 'EXC')]
    r = next((l.split('\t') for l in rec.lines if l.startswith('R\t')), None)
    return ev, rep, r


def expected_events(body):
    """what the reference document must report, computed from the generated text (no DTD, no entities)"""
    import re
    ev = ['SD']
    pos = 0
    tok = re.compile(r'<!--(.*?)-->|<\?([^ ?]+) *(.*?)\?>|<!\[CDATA\[(.*?)\]\]>|<(/?)([^ /<>]+)((?: +[^ =]+="[^"]*")*) *(/?)>', re.S)
    text = []

    def flush():
        if text:
            ev.append('CH\t' + ''.join(text))
            del text[:]
    for m in tok.finditer(body):
        if m.start() > pos:
            text.append(body[pos:m.start()])
        pos = m.end()
        if m.group(1) is not None:
            flush()
            ev.append('CM\t' + m.group(1))
        elif m.group(2) is not None:
            flush()
            ev.append('PI\t%s\t%s' % (m.group(2), m.group(3)))
        elif m.group(4) is not None:
            flush()
            ev.append('CD0')
            if m.group(4):
                ev.append('CH\t' + m.group(4))
            ev.append('CD1')
        elif m.group(5) == '/':
            flush()
            ev.append('EE\t\t%s\t%s' % (m.group(6), m.group(6)))
        else:
            flush()
            nm = m.group(6)
            ev.append('SE\t\t%s\t%s' % (nm, nm))
            ats = re.findall(r' +([^ =]+)="([^"]*)"', m.group(7))
            for an, av in sorted(ats):
                ev.append('AT\t\t%s\t%s\tCDATA\t~\t%s' % (an, an, re.sub(r'[\t\n\r]', ' ', av)))
            ev.append('SEX')
            if m.group(8) == '/':
                ev.append('EE\t\t%s\t%s' % (nm, nm))
    if pos < len(body):
        text.append(body[pos:])
    flush()
    ev.append('ED')
    return ev


def unesc_line(l):
    return '\t'.join(core.unesc(f) if f != '~' else '~' for f in l.split('\t'))


# --------------------------------------------------------------------------------------------------------
def build_cases(tier, seed):
    r = core.rng(seed, PID, tier)
    cases = []
    cases += gen_u8_sweeps(tier, seed)
    cases += gen_cp_sweeps(tier)
    cases += gen_sb_sweeps()
    cases += gen_icu(tier)
    cases += gen_str_cases(tier, r)
    cases += gen_names()
    cases += gen_probe()
    docs, groups = gen_docs(tier, r)
    cases += docs
    return cases, groups


def run(tier):
    ck = core.Check(PID, tier)
    ck.distinct = BulkSet()
    bad = xcref.verify_golden()
    if bad:
        ck.inconclusive.append('golden tables differ from python codecs: %s' % bad)
    if xcref.selftest(3000, ck.seed):
        ck.inconclusive.append('python reference disagrees with python codecs (selftest)')
    binary = build.ensure('asan', parts=['xcode'])
    cases, groups = build_cases(tier, ck.seed)
    ck.note('%d cases (%d sweeps)' % (len(cases), sum(1 for c in cases if c.meta.get('cost', 0) >= 1)))
    # heavy cases first so that round-robin sharding balances them.  The enumerations run with a small ASan
    # quarantine (each rejected sequence costs several heap blocks inside the library: with the default 256 MB
    # quarantine the sweeps spend most of their time in page faults); documents and single strings keep the default.
    heavy = sorted((c for c in cases if c.meta.get('cost', 0) >= 1), key=lambda c: -c.meta['cost'])
    light = [c for c in cases if c.meta.get('cost', 0) < 1]
    env = {'ASAN_OPTIONS': core.SAN_ENV['ASAN_OPTIONS'] + ':quarantine_size_mb=4:thread_local_quarantine_size_kb=64'}
    recs = {}
    with ThreadPoolExecutor(2) as ex:
        f1 = ex.submit(core.run_cases, binary, heavy, max(1, SHARDS - 3), 'c05s', 200.0, (), env)
        f2 = ex.submit(core.run_cases, binary, light, 3 if SHARDS > 4 else 1, 'c05l', 60.0)
        recs.update(f1.result())
        recs.update(f2.result())
    ck.note('executed')
    judge(ck, cases, recs, groups)
    return ck.finish()


def judge(ck, cases, recs, groups):
    tier = ck.tier
    cov = ck.cov
    by_group = {}
    u8_base = {1: 0, 2: 0, 3: 0, 4: 0}
    u8_full4 = 0
    cp_seqs = {}
    exc_types = {}
    for c in cases:
        r = recs.get(c.id)
        if r is None or not r.complete or r.crash or r.hang:
            if r is None:
                ck.inconclusive.append('case %s not executed' % c.id)
            else:
                crash_violation(ck, r, c)
            continue
        mode = c.opt.get('mode') if c.cmd == 'xcode' else 'doc'
        if mode == 'doc':
            by_group.setdefault(c.meta.get('group', '-'), []).append((c, r))
            continue
        if mode in ('u8sweep', 'cpsweep', 'sbsweep', 'icurt'):
            sw = sweep_lines(r)
            N = sw['N']
            ck.evaluations += N.get('runs', 0)
            for k, v in sw['X'].items():
                exc_types[k] = exc_types.get(k, 0) + v
            if mode == 'u8sweep':
                for (cls, exc), v in sw['XC'].items():
                    d = cov.setdefault('u8_exception_by_class', {}).setdefault(cls, {})
                    d[exc] = d.get(exc, 0) + v
                ln = int(c.opt['len'])
                if c.opt.get('base'):
                    u8_base[ln] += N.get('seqs', 0)
                    # non-trivial: contains a byte >= 0x80 (anything else is plain ASCII); measured by the driver as
                    # ref_err+ref_trunc+multi-byte ok is not available per sequence, so count conservatively:
                    # sequences whose lead byte is >= 0x80 (all of them differ pairwise inside one sweep)
                    lo, hi = int(c.opt.get('b0lo', 0)), int(c.opt.get('b0hi', 255))
                    frac = max(0, hi - max(lo, 0x80) + 1) / float(hi - lo + 1)
                    ck.distinct.bulk += int(N.get('seqs', 0) * frac)
                    if c.opt.get('full4'):
                        u8_full4 += N.get('seqs', 0)
                cov['u8_ref_wellformed'] = cov.get('u8_ref_wellformed', 0) + N.get('ref_ok', 0)
                cov['u8_ref_illformed'] = cov.get('u8_ref_illformed', 0) + N.get('ref_err', 0)
                cov['u8_ref_truncated'] = cov.get('u8_ref_truncated', 0) + N.get('ref_trunc', 0)
            elif mode == 'cpsweep':
                cp_seqs[c.opt['enc']] = cp_seqs.get(c.opt['enc'], 0) + N.get('seqs', 0)
                ck.distinct.bulk += max(0, N.get('seqs', 0) - (0x80 if int(c.opt['lo']) == 0 else 0))
            elif mode == 'sbsweep':
                cov.setdefault('pages', []).append(c.opt['enc'])
                ck.distinct.bulk += 256
                for l in sw['other']:
                    if l.startswith('UND\t'):
                        cov['undecided_table_entries'] = cov.get('undecided_table_entries', 0) + 1
                    elif l.startswith('REP\t'):
                        cov.setdefault('replacement_bytes', {}).setdefault(c.opt['enc'], []).append(l.split('\t')[1])
                    elif l.startswith('CLASS\t'):
                        want = INTRINSIC_CLASS.get(c.opt['enc'].upper(), 'ICUTranscoder')
                        if l.split('\t')[1] != want:
                            ck.violation('alias:%s:wrong-transcoder' % c.opt['enc'], 'name %s gave %s, expected %s' % (c.opt['enc'], l.split('\t')[1], want), {'case': c.to_json()})
            else:
                rt = next((kv(l) for l in sw['other'] if l.startswith('RT\t')), {})
                cov.setdefault('icu_roundtrip_representable', {})
                cov['icu_roundtrip_representable'][c.opt['enc']] = cov['icu_roundtrip_representable'].get(c.opt['enc'], 0) + int(rt.get('representable', 0))
                ck.distinct.bulk += int(rt.get('chunks', 0))
        else:
            ck.evaluations += 1
            if mode == 'str':
                v = next((kv(l) for l in r.lines if l.startswith('V\t')), {})
                ck.evaluations += int(v.get('runs', 0))
                data = c.steps[0][1]
                if any(b >= 0x80 for b in data) or c.opt['dir'] == 'to':
                    ck.add_distinct(core.h(c.opt['enc'], c.opt['dir'], c.opt.get('unrep'), data))
                for l in r.lines:
                    if l.startswith('R\t'):
                        e = kv(l).get('exc', '-')
                        if e != '-':
                            exc_types[e] = exc_types.get(e, 0) + 1
        for key, what, extra in eval_case(ck, c, r):
            w = {'case': c.to_json()}
            w.update(extra)
            ck.violation(key, what, w)
        if mode == 'str' and len(ck.samples) < 3 and c.opt['enc'] == 'UTF-8' and c.opt['dir'] == 'from' and 3 < len(c.steps[0][1]) < 24 and \
                sum(1 for b in c.steps[0][1] if b >= 0x80) >= 3 and xcref.dec_utf8(c.steps[0][1]).status == ('ok', 'err', 'trunc')[len(ck.samples)]:
            ck.sample({'case': c.id, 'encoding': 'UTF-8', 'bytes': c.steps[0][1].hex(), 'expected': repr(xcref.dec_utf8(c.steps[0][1])), 'observed': [l for l in r.lines if l[:2] in ('R\t', 'V\t', 'H\t')]})
    judge_docs(ck, by_group, groups)
    # ---- coverage bookkeeping / completeness of the enumerations ----
    cov['exception_types'] = exc_types
    cov['u8_sequences_enumerated'] = {str(k): v for k, v in u8_base.items()}
    cov['codepoints_enumerated'] = cp_seqs
    want = {1: 256, 2: 65536, 3: 16777216}
    ex = []
    for ln, n in want.items():
        if u8_base[ln] != n:
            ck.inconclusive.append('UTF-8 %d-byte space: %d of %d sequences enumerated' % (ln, u8_base[ln], n))
        else:
            ex.append('all %d UTF-8 byte sequences of length %d (transcodeFrom, unsplit maxChars=64, followed by 5 ASCII bytes; lead >= C0 and all 1-2 byte ones also bare)' % (n, ln))
    if tier == 'thorough':
        if u8_full4 != 8 * 256 * 65536:
            ck.inconclusive.append('UTF-8 4-byte space F0..F7: %d of %d' % (u8_full4, 8 * 256 * 65536))
        else:
            ex.append('all 134217728 four-byte sequences with lead byte F0..F7 (bare and padded, unsplit)')
    for enc, _ in CP_ENCS:
        if cp_seqs.get(enc) != 0x110000 - 0x800:
            ck.inconclusive.append('code point sweep %s: %s of %d' % (enc, cp_seqs.get(enc), 0x110000 - 0x800))
        else:
            ex.append('all 1112064 scalar values through %s transcodeTo (maxBytes 64,1,2,3,4,5,7), canTranscodeTo and transcodeFrom (maxChars 64,1,2,3; every split of the encoded form)' % enc)
    for enc, _ in xcref.TABLE_ENCODINGS:
        if enc in cov.get('pages', []):
            ex.append('%s: all 256 bytes (transcodeFrom), all BMP code points both UnRep options (transcodeTo), canTranscodeTo on all 1114112 code points' % enc)
        else:
            ck.inconclusive.append('page %s not swept' % enc)
    if cov.get('probe_prefixes', 0) < 2 * 65536:
        ck.inconclusive.append('encoding probe sweep incomplete')
    else:
        ex.append('basicEncodingProbe on FF FE xx yy and FE FF xx yy for all 65536 (xx,yy)')
    cov['exhaustive'] = not ck.inconclusive
    cov['exhaustive_subspaces'] = ex
    cov['not_exhaustive'] = ['4-byte UTF-8 sequences (quick: all lead/second bytes x boundary+sampled tails)', 'split positions x maxChars for 3/4-byte sequences whose second byte is not a continuation byte (quick)',
                             'python-reference strings', 'documents', 'ICU encodings (every 3rd BMP code point in quick)']
    for need in ('UTFDataFormatException:89', 'UTFDataFormatException:90', 'UTFDataFormatException:91', 'UTFDataFormatException:92', 'UTFDataFormatException:93', 'TranscodingException:77'):
        if not exc_types.get(need):
            ck.inconclusive.append('exception %s never observed' % need)
    ck.rule = ('enumeration: every byte sequence / code point / table entry of the listed sub-spaces is generated exactly once by the driver; a sweep sequence counts as '
               'distinct+non-trivial when its lead byte is >= 0x80 (UTF-8 sweeps, base sweeps only - prefix/split variants of the same sequence are not counted again), a code point '
               'when it is >= U+0080, a table page as 256, an ICU chunk once; python-reference strings count when they contain a non-ASCII byte or are encode cases (hashed, '
               'duplicates collapse); documents count per distinct byte content')


def judge_docs(ck, by_group, groups):
    cov = ck.cov
    seen_enc = {}
    for gid in groups:
        items = by_group.get(gid, [])
        ref = next(((c, r) for c, r in items if c.meta['role'] == 'ref'), None)
        if ref is None:
            ck.inconclusive.append('document group %s has no reference' % gid)
            continue
        rev, rrep, rr = doc_view(ref[1])
        ck.evaluations += 1
        exp = expected_events(ref[0].meta['body'])
        got = [unesc_line(l) for l in rev]
        if got != exp or rrep or not rr or rr[1] != 'ok':
            # the generator's own expectation and the UTF-8 parse disagree: do not use this group (counted)
            cov['doc_groups_discarded'] = cov.get('doc_groups_discarded', 0) + 1
            d = next((i for i, (a, b) in enumerate(zip(got, exp)) if a != b), min(len(got), len(exp)))
            ck.violation('doc:reference:utf8-events-differ-from-text', 'plain UTF-8 document: events differ from the generated text at event %d' % d,
                         {'case': ref[0].to_json(), 'expected': exp[max(0, d - 1):d + 2], 'observed': got[max(0, d - 1):d + 2], 'reports': rrep})
            continue
        if len(ck.samples) < 6:
            ck.sample({'case': ref[0].id, 'document': ref[0].meta['body'][:200], 'expected_events': exp[:6], 'observed_events': got[:6]})
        for c, r in items:
            role = c.meta['role']
            if role == 'ref':
                continue
            ev, rep, rr = doc_view(r)
            ck.evaluations += 1
            ck.add_distinct(core.h('doc', c.steps[0][1]))
            m = c.meta
            tag = '%s%s' % (m['enc'], '+bom' if m['bom'] else '')
            w = {'case': c.to_json(), 'ref_case': ref[0].to_json(), 'encoding': m['enc'], 'bom': m['bom'], 'declared': m['decl']}
            if role == 'same':
                seen_enc[tag] = seen_enc.get(tag, 0) + 1
                if ev != rev or rep or not rr or rr[1] != 'ok':
                    d = next((i for i, (a, b) in enumerate(zip(ev, rev)) if a != b), min(len(ev), len(rev)))
                    w.update({'expected': rev[max(0, d - 1):d + 2], 'observed': ev[max(0, d - 1):d + 2], 'reports': rep[:4]})
                    how = 'rejected' if (rep or not rr or rr[1] != 'ok') else 'different-content'
                    ck.violation('doc:same:%s:%s:decl-%s%s' % (how, tag, 'none' if m['decl'] == '-' else ('generic' if m['decl'].upper() in ('UTF-16', 'UCS-4', 'UCS2', 'UTF-32', 'ISO-10646-UCS-4') else 'matching'), ':chunked' if m.get('chunked') else ''),
                                 'document in %s declared %s: %s' % (tag, m['decl'], how), w)
            else:
                cov['contradictory_docs'] = cov.get('contradictory_docs', 0) + 1
                reported = bool(rep) or not rr or rr[1] != 'ok'
                same = ev == rev
                if reported:
                    cov['contradictions_reported'] = cov.get('contradictions_reported', 0) + 1
                    continue
                w.update({'expected': 'an error/warning report' + ('' if role == 'contra' else ' or the content of the real encoding'), 'observed': ev[:6]})
                if role == 'contra':
                    ck.violation('doc:contradiction:%s:%s-bytes:decl-%s-family' % ('unreported' if same else 'silently-different-content', m['fam'] + ('+bom' if m['bom'] else ''), m['wfam']),
                                 'bytes are %s, declaration says %s: nothing reported%s' % (tag, m['decl'], '' if same else ' and the content differs'), w)
                elif role == 'contra-member':
                    if not same:
                        ck.violation('doc:contradiction:silently-different-content:%s:decl-%s' % (tag, m['decl']), 'bytes are %s, declaration says %s: accepted with different content' % (tag, m['decl']), w)
                    else:
                        cov['same_family_contradiction_tolerated'] = cov.get('same_family_contradiction_tolerated', 0) + 1
                elif role == 'contra-bom8':
                    if not same:
                        ck.violation('doc:contradiction:silently-different-content:utf8-bom:decl-8bit', 'UTF-8 BOM followed by encoding="%s": the BOM is ignored, the bytes are decoded as %s, nothing is reported' % (m['decl'], m['decl']), w)
    cov['doc_encodings_seen'] = seen_enc
    for label, codec, names, bom, fam in DOC_ENCODINGS:
        for t in ([label, label + '+bom'] if bom else [label]):
            if not seen_enc.get(t):
                ck.inconclusive.append('no document compared for %s' % t)
    # ---- ill-formed sequences in documents ----
    for c, r in by_group.get('-', []):
        if c.meta.get('role') != 'bad':
            continue
        ev, rep, rr = doc_view(r)
        ck.evaluations += 1
        ck.add_distinct(core.h('docbad', c.steps[0][1]))
        fatal = any(l.startswith('ERR\tF') or l.startswith('EXC') for l in rep) or not rr or rr[1] != 'ok'
        cov['illformed_docs'] = cov.get('illformed_docs', 0) + 1
        if not fatal:
            kind = c.meta['kind']
            if kind.startswith('utf8'):
                seq = bytes.fromhex(c.meta['seq'])
                kind = 'utf8:' + xcref.u8_class(seq + b'b', 0)
            ck.violation('doc:illformed-accepted:%s%s' % (kind, ':after-32-chars' if c.meta['pre'] > 32 else ''),
                         'document containing the ill-formed sequence %s was parsed without a fatal error' % c.meta['seq'], {'case': c.to_json(), 'expected': 'fatal error', 'observed': ev[:8] + rep[:4]})


def crash_violation(ck, rec, c):
    """like core.Check.crash_violation, but with address-free keys and the input class in the key"""
    m = c.meta
    if c.cmd == 'parse':
        ctx = 'doc:%s' % m.get('role', '?')
        if m.get('role') in ('contra', 'contra-member', 'contra-bom8'):
            ctx += ':%s-bytes:decl-%s' % (m.get('fam'), m.get('decl'))
    else:
        ctx = 'xcode:%s:%s' % (c.opt.get('mode'), c.opt.get('enc', '-'))
    if rec.hang and not rec.crash:
        ck.violation('hang:%s' % ctx, 'case did not terminate within the watchdog', {'case': c.to_json()})
        return
    cr = rec.crash
    kind = cr.kind
    if 'misaligned address' in kind:
        kind = 'misaligned-' + kind.split(' ')[0]
    kind = re.sub(r'0x[0-9a-fA-F]+|NxN[0-9a-fN]*', 'ADDR', kind)
    fn = next((f[0] for f in cr.frames if f[1]), cr.frames[0][0] if cr.frames else '?')
    if cr.tool == 'ubsan':
        # UBSan prints file:line of the faulting expression itself (no symbolizer needed, which can fail on a loaded
        # machine): use the source file, not the function, so that the key does not depend on symbolization
        m = re.search(r'([A-Za-z0-9_]+\.(?:cpp|hpp|c|h)):\d+:\d+: runtime error', cr.text)
        fn = m.group(1) if m else fn
    ck.violation('%s:%s:%s:%s' % (cr.tool, kind.strip().replace(' ', '-')[:50], fn, ctx), 'sanitizer/crash report in %s' % fn, {'case': c.to_json(), 'report': cr.text[:5000]})


def replay(j):
    w = j['witness']
    c = core.Case.from_json(w['case'])
    binary = build.ensure('asan', parts=['xcode'])
    cases = [c]
    groups = [c.meta['group']] if c.cmd == 'parse' and c.meta.get('group') else []
    ck = core.Check(PID, j.get('tier', 'quick'))
    ck.distinct = BulkSet()
    if w.get('ref_case'):
        cases.append(core.Case.from_json(w['ref_case']))      # the same document in plain UTF-8
    recs = core.run_cases(binary, cases, shards=1, tag='c05r', per_case_timeout=150.0)
    by_group = {}
    for x in cases:
        r = recs.get(x.id)
        if r is None or not r.complete or r.crash or r.hang:
            if r is not None:
                crash_violation(ck, r, x)
            continue
        if x.cmd == 'parse':
            by_group.setdefault(x.meta.get('group', '-'), []).append((x, r))
        else:
            for key, what, extra in eval_case(ck, x, r):
                ck.violation(key, what, dict(extra))
    judge_docs(ck, by_group, groups)
    ck.inconclusive = []
    hit = j['key'] in ck.violations
    print('replay %s: key %s %s' % (c.id, j['key'], 'REPRODUCED' if hit else 'not reproduced'))
    for k, v in ck.violations.items():
        print('  %s: %s' % (k, v['what'][:300]))
        for f in ('expected', 'observed', 'mismatch'):
            if f in v['witness']:
                print('    %s: %s' % (f, str(v['witness'][f])[:600]))
    return 1 if hit else 0
