"""C20: XInclude processing yields the specified merged tree and detects inclusion loops.

Oracle: reference expansion computed in python on the model of the file graph (xvlib/gen/xigen.py, XInclude 1.0: xml / text
inclusion, fallback, xml:base semantics, loop and usage errors).  The driver command `xinclude` writes the graph into a
private directory, parses the root with XInclude on through XercesDOMParser or DOMLSParser (namespaces on) and dumps
the DOM, every element's getBaseURI() and everything the error reporter / error handler saw.  Verdicts:
  tree expected   -> nothing of severity error/fatal reported, DOM == reference modulo xml:base attributes, namespace
                     declarations, CDATA / entity-reference boundaries; getBaseURI() of every element == the URI it had in
                     its source document (modulo "file://" and dot segments)
  fatal expected  -> reported (error/fatal through the handler, or an exception out of parse) and terminated
  undecided       -> skipped and counted
The in-repo XInclude test documents run as sanitizer / termination-only cases."""
import os, collections, glob
from .. import core, build, parsecmp as pc
from ..gen import xigen

PID = 'C20'
NSDECL = xigen.NSDECL
HOWS = ['path', 'url', 'lfis', 'rel']
TIMEOUT = 30.0
# every xi:include instantiates a parser: with the default 256 MB quarantine each of them runs on fresh pages (page-fault bound,
# measured 2.5x slower); 16 MB still covers the lifetime of several nested inclusions
ENV = {'ASAN_OPTIONS': core.SAN_ENV['ASAN_OPTIONS'] + ':quarantine_size_mb=16'}


# ---------------------------------------------------------------------------------------------------------------------
def make_cases(gid, g, r):
    how = r.choice(HOWS)
    res = 'x' if r.random() < 0.25 else 'none'
    out = []
    for api in ('dom', 'domls'):
        c = core.Case('%s.%s' % (gid, api), 'xinclude', dict(api=api, how=how, root=g.root, resolver=res, ns=1),
                      ents=[(p, d) for p, d in sorted(g.files.items())], meta=dict(g.meta, **{'class': g.meta.get('profile', 'hand')}))
        out.append(c)
    return out


def case_graph(c):
    return dict(c.ents), c.opt['root']


def observed(rec):
    """-> (step, root directory, [(qname, base uri, own xml:base)], document uri)"""
    root = None
    bus = []
    du = None
    rest = []
    for l in rec.lines:
        if l.startswith('ROOT\t'):
            root = core.unesc(l[5:])
        elif l.startswith('BU\t'):
            f = l.split('\t')
            bus.append((core.unesc(f[2]), core.unesc(f[3]), core.unesc(f[4])))
        elif l.startswith('DU\t'):
            du = core.unesc(l.split('\t')[1])
        elif l.startswith('HARNESS\t') or l == 'BU-BUDGET':
            rest.append('?\t' + l)
        else:
            rest.append(l)
    return pc.parse_step(rest), root, bus, du


def norm_events(events, drop_bom=False):
    """driver dump -> the model's event form"""
    out = []

    def text(s):
        if drop_bom:
            s = s.replace('\ufeff', '')
        if s == '':
            return
        if out and out[-1][0] == 'CH':
            out[-1] = ('CH', out[-1][1] + s)
        else:
            out.append(('CH', s))
    in_dt = False
    for e in events:
        t = e[0]
        if t == 'DT':
            in_dt = True
        elif t == 'EDT':
            in_dt = False
        elif in_dt or t in ('SD', 'ED', 'CD0', 'CD1', 'SER', 'EER', 'DE', 'DN', 'DIS'):
            pass
        elif t == 'SE':
            attrs = tuple(sorted((a[1] or '', a[2], a[0], a[3]) for a in e[4]
                                 if a[1] != NSDECL and a[0] != 'xml:base' and not (a[1] == xigen.XMLNS and a[2] == 'base')))
            out.append(('SE', e[2] or '', e[3], e[1], attrs))
        elif t == 'EE':
            out.append(('EE',))
        elif t in ('CH', 'IW'):
            text(e[1])
        elif t == 'CM':
            out.append(('CM', e[1]))
        elif t == 'PI':
            out.append(('PI', e[1], e[2]))
        else:
            out.append(('?',) + tuple(e))
    return out


def norm_expected(events, drop_bom):
    if not drop_bom:
        return list(events)
    out = []
    for e in events:
        if e[0] == 'CH':
            s = e[1].replace('\ufeff', '')
            if s:
                out.append(('CH', s))
        else:
            out.append(e)
    return out


def norm_uri(u, root):
    """observed base URI -> model URI: the case directory is mapped onto xigen.VROOT (paths that climb above it stay comparable)"""
    if u is None:
        return None
    if u.startswith('file://'):
        u = u[7:]
    elif u.startswith('file:'):
        u = u[5:]
    u = xigen.normpath(u)
    if not root or not u.startswith('/'):
        return u
    if u.startswith(root + '/'):
        return xigen.VROOT + u[len(root) + 1:]
    import posixpath
    rel = posixpath.relpath(u, root) + ('/' if u.endswith('/') else '')
    return xigen.normpath(xigen.VROOT + rel)


ERROR_CAUSES = [  # feature of the graph -> construct class named in the key of an "error on valid input" violation
    ('unused-fallback-with-include:root-doc', 'include-in-unused-fallback:root-doc'),
    ('href-dot-segments-through-missing-directory', 'href-dot-segments-through-missing-directory'),
    ('href-dot-segment-before-dotdot', 'href-dot-segment-before-dotdot'),
    ('explicit-xml-base:included-root', 'explicit-xml-base:included-root'),
    ('text-over-16k-multibyte', 'over-16k-multibyte'),
    ('dtd-entities-or-defaults:included-doc', 'xml-include:dtd'),
]


def judge(c, rec, res):
    """-> (verdict, key, what, detail)   verdict: ok | skip | violation"""
    st, root, bus, du = observed(rec)
    codes = ['%s:%s-%d' % (e[0], e[1], e[2]) for e in st.errs if e[0] in ('E', 'F')]
    reported = (st.nE + st.nF) > 0 or st.status in ('exc', 'foreign')
    obs_summary = {'status': st.status, 'handler': [st.nW, st.nE, st.nF], 'reporter': ['%s:%s-%d' % (e[0], e[1], e[2]) for e in st.errs], 'exc': st.exc}
    if st.status == 'foreign':
        return 'violation', 'C20:foreign-exception:%s' % (st.exc[0][0] if st.exc else '?'), 'an exception that is not part of the API escaped the parse', {'observed': obs_summary}
    if res.kind == 'undecided':
        return 'skip', res.why, None, None
    if res.kind == 'fatal':
        if reported:
            return 'ok', 'fatal:' + res.cls, None, {'by_exception': st.status == 'exc' and st.nE + st.nF == 0}
        if res.cls == 'loop':
            key = 'C20:loop-not-reported:length-%d%s' % (res.extra['length'], ':via-fallback' if res.extra.get('via_fallback') else '')
            what = 'an inclusion loop of length %d was not reported' % res.extra['length']
        else:
            key = 'C20:not-reported:%s:%s' % (res.cls, res.where)
            what = 'invalid XInclude usage (%s, in %s) was accepted without any error' % (res.cls, res.where)
        return 'violation', key, what, {'expected': 'reported (error or fatal)', 'observed': obs_summary, 'dom': [repr(e) for e in norm_events(st.events)[:40]]}
    # a tree is expected.  Graphs that contain a construct behind a known defect name it in every key they produce, so that a
    # known-findings entry for that defect cannot hide a different defect met on graphs without the construct
    cause = next((name for f, name in ERROR_CAUSES if f in res.features), None)
    sfx = lambda key: key + (':' + cause if cause and cause not in key else '')
    if reported:
        if cause is None:
            cause = 'other:' + (codes[0] if codes else (st.exc[0][0] if st.exc else '?'))
        return 'violation', 'C20:error-on-valid:' + cause, 'a valid inclusion graph was rejected: %s' % (codes or st.exc), {'expected': 'no error', 'observed': obs_summary}
    exp = norm_expected(res.events, res.bom_text)
    obs = norm_events(st.events, res.bom_text)
    if exp != obs:
        k = 0
        while k < len(exp) and k < len(obs) and exp[k] == obs[k]:
            k += 1
        origin = res.origins[k] if (k < len(exp) and not res.bom_text and k < len(res.origins)) else ('end' if k >= len(exp) else 'bom-text')
        if k < len(exp) and k < len(obs) and exp[k][0] == obs[k][0] == 'SE' and exp[k][:4] == obs[k][:4]:
            kind = 'attributes'
        elif k < len(exp) and k < len(obs) and exp[k][0] == obs[k][0] == 'CH':
            kind = 'text'
        elif k < len(obs) and obs[k][0] == 'SE' and obs[k][1] == xigen.XI:
            kind = 'xi-element-left'
        else:
            kind = 'structure'
        if k >= len(exp):
            origin = res.origins[-1] if res.origins else 'end'
        return 'violation', sfx('C20:tree-differs:%s:%s' % (origin, kind)), 'resulting DOM differs from the reference expansion at event %d' % k, \
            {'expected': [repr(e) for e in exp[max(0, k - 3):k + 4]], 'observed': [repr(e) for e in obs[max(0, k - 3):k + 4]], 'at': k}
    # base URIs, element by element
    if len(bus) != len(res.bases):
        return 'violation', 'C20:harness:element-count', 'element count of the base URI walk differs from the tree', {'expected': len(res.bases), 'observed': len(bus)}
    for k, ((q, u, own), (eb, flags)) in enumerate(zip(bus, res.bases)):
        if norm_uri(u, root) != eb:
            return 'violation', sfx('C20:base-uri:' + flags), 'getBaseURI() of element #%d <%s> differs from the URI it had in its source document' % (k, q), \
                {'expected': eb, 'observed': u, 'observed_normalised': norm_uri(u, root), 'own_xml_base_attribute': own, 'root': root}
    return 'ok', 'tree', None, None


def crash_violation(ck, rec, c, res, prefix='C20:'):
    """crashes get a key made of tool, kind and source file of the report (function names of the symbolizer proved unstable when
    the library is rebuilt while a batch runs), plus the construct class the model knows to trigger the known crash"""
    if rec.hang and not rec.crash:
        cls = c.meta.get('class', '?')
        if res is not None and res.kind == 'fatal' and res.cls == 'loop':
            cls = 'loop:length-%d' % res.extra['length']
        ck.violation('%shang:%s' % (prefix, cls), 'case did not terminate within the watchdog (re-run once alone with three times the budget)', {'case': c.to_json()})
        return
    rep = rec.crash
    where = '?'
    import re
    m = re.search(r'([A-Za-z0-9_]+\.(?:cpp|hpp|c)):\d+(?::\d+)?: runtime error', rep.text) or re.search(r'/src/xercesc/[a-z/]+/([A-Za-z0-9_]+\.(?:cpp|hpp)):\d+', rep.text)
    if m:
        where = m.group(1)
    kind = re.sub(r"[^A-Za-z0-9]+", '-', rep.kind.split(' of type')[0]).strip('-')
    cls = 'other'
    if res is not None and 'include-replaced-by-nothing:first-child' in res.features:
        cls = 'include-replaced-by-nothing:first-child'
    ck.violation('%scrash:%s:%s:%s:%s' % (prefix, rep.tool, kind, where, cls), 'sanitizer/crash report', {'case': c.to_json(), 'report': rep.text[:6000]})


# ---------------------------------------------------------------------------------------------------------------------
HAND = [  # regression graphs (each a finding or a corner met during development); (name, files, root)
    ('chain-dirs', {'a.xml': '<r xmlns:xi="%s"><p>x</p><xi:include href="sub/b.xml"/><q/></r>' % xigen.XI,
                    'sub/b.xml': '<!--c1--><b xmlns:xi="%s"><xi:include href="../t/c.xml"/><xi:include href="t.txt" parse="text"/></b><?pi d?>' % xigen.XI,
                    't/c.xml': '<c><d/></c>', 'sub/t.txt': 'a<b>&amp;'}, 'a.xml'),
    ('loop-2-dirs', {'a.xml': '<r xmlns:xi="%s"><xi:include href="sub/b.xml"/></r>' % xigen.XI, 'sub/b.xml': '<b xmlns:xi="%s"><xi:include href="../a.xml"/></b>' % xigen.XI}, 'a.xml'),
    ('self', {'a.xml': '<r xmlns:xi="%s"><xi:include href="a.xml"/></r>' % xigen.XI}, 'a.xml'),
    ('self-dotdot', {'d/a.xml': '<r xmlns:xi="%s"><xi:include href="../d/a.xml"/></r>' % xigen.XI}, 'd/a.xml'),
    ('empty-href', {'a.xml': '<r xmlns:xi="%s"><xi:include href=""/></r>' % xigen.XI}, 'a.xml'),
    ('twice', {'a.xml': '<r xmlns:xi="%s"><xi:include href="b.xml"/><m><xi:include href="b.xml"/></m></r>' % xigen.XI, 'b.xml': '<b/>'}, 'a.xml'),
    ('root-include', {'a.xml': '<!--x--><xi:include xmlns:xi="%s" href="s/b.xml"/><?p q?>' % xigen.XI, 's/b.xml': '<!--c--><b><e/></b><?z y?>'}, 'a.xml'),
    ('xml-base-root-doc', {'a.xml': '<r xmlns:xi="%s" xml:base="s/"><xi:include href="b.xml"/><xi:include xml:base="../t/" href="c.xml"/></r>' % xigen.XI, 's/b.xml': '<b/>', 't/c.xml': '<c><d/></c>'}, 'a.xml'),
    ('nested-fallback', {'a.xml': '<r xmlns:xi="%s"><xi:include href="no.xml"><xi:fallback>t<xi:include href="no2.xml"><xi:fallback><xi:include href="s/c.xml"/></xi:fallback></xi:include></xi:fallback></xi:include></r>' % xigen.XI,
                         's/c.xml': '<c/>'}, 'a.xml'),
    # minimal witnesses of the defects found on the unchanged tree (notes/C20.md); they stay in the workload so that a repair shows up
    ('w1-empty-fallback-first-child', {'a.xml': '<p xmlns:xi="%s"><xi:include href="missing.xml"><xi:fallback/></xi:include>text</p>' % xigen.XI}, 'a.xml'),
    ('w2-unused-fallback-include', {'a.xml': '<r xmlns:xi="%s"><xi:include href="b.xml"><xi:fallback><xi:include href="no.xml"/></xi:fallback></xi:include></r>' % xigen.XI, 'b.xml': '<b/>'}, 'a.xml'),
    ('w3-include-in-include', {'a.xml': '<r xmlns:xi="%s"><xi:include href="b.xml"><xi:include href="b.xml"/></xi:include></r>' % xigen.XI, 'b.xml': '<b/>'}, 'a.xml'),
    ('w4-href-fragment', {'a.xml': '<r xmlns:xi="%s"><xi:include href="b.xml#x"/></r>' % xigen.XI, 'b.xml': '<b/>'}, 'a.xml'),
    ('w5a-text-bad-bytes', {'a.xml': '<r xmlns:xi="%s"><xi:include href="t.txt" parse="text"/></r>' % xigen.XI, 't.txt': b'ab\xffcd'}, 'a.xml'),
    ('w5b-text-bad-char', {'a.xml': '<r xmlns:xi="%s"><xi:include href="t.txt" parse="text"/></r>' % xigen.XI, 't.txt': b'ab\x01cd'}, 'a.xml'),
    ('w6-text-16k', {'a.xml': '<r xmlns:xi="%s"><xi:include href="t.txt" parse="text"/></r>' % xigen.XI, 't.txt': ('x' * 16383 + '\u20ac' * 3 + 'y' * 20000).encode('utf-8')}, 'a.xml'),
    ('w7-included-dtd', {'a.xml': '<r xmlns:xi="%s"><xi:include href="b.xml"/></r>' % xigen.XI, 'b.xml': "<!DOCTYPE b [<!ENTITY e 'text'><!ATTLIST b d CDATA 'dv'>]><b>x&e;y</b>"}, 'a.xml'),
    ('w8-xml-base-included-root', {'a.xml': '<r xmlns:xi="%s"><xi:include href="s/b.xml"/></r>' % xigen.XI, 's/b.xml': '<b xml:base="other.xml"/>'}, 'a.xml'),
    ('w9a-dot-dotdot', {'a.xml': '<r xmlns:xi="%s"><xi:include href="d/./../c.xml"/></r>' % xigen.XI, 'c.xml': '<c/>', 'd/': b''}, 'a.xml'),
    ('w9b-missing-dir-dotdot', {'a.xml': '<r xmlns:xi="%s"><xi:include href="nonexistent/../c.xml"/></r>' % xigen.XI, 'c.xml': '<c/>'}, 'a.xml'),
    ('w10-root-replaced-by-nothing', {'a.xml': '<xi:include xmlns:xi="%s" href="no.xml"><xi:fallback/></xi:include>' % xigen.XI}, 'a.xml'),
]


def graphs(tier, seed):
    n = 800 if tier == 'quick' else 20000
    for name, files, root in HAND:
        g = xigen.Graph()
        g.files = dict((p, d if isinstance(d, bytes) else d.encode()) for p, d in files.items())
        g.root = root
        g.meta = {'profile': 'hand:' + name}
        yield 'H.' + name, g
    for i in range(n):
        r = core.rng(seed, PID, 'graph', i)
        yield 'G%d' % i, xigen.gen_graph(r)


def repo_cases():
    base = os.path.join(build.REPO, 'tests', 'src', 'xinclude')
    out = []
    files = sorted(glob.glob(os.path.join(base, '**', '*.xml'), recursive=True))
    for k, f in enumerate(files):
        for api in ('dom', 'domls'):
            out.append(core.Case('R%d.%s' % (k, api), 'xinclude', dict(api=api, how='path', root='unused.xml', abs=f, ns=1), meta={'class': 'in-repo-test', 'file': os.path.relpath(f, base)}))
    return out


def run(tier):
    ck = core.Check(PID, tier)
    binary = build.ensure('asan', parts=['xinclude'])
    cases = []
    expect = {}
    profiles = collections.Counter()
    for gid, g in graphs(tier, ck.seed):
        r = core.rng(ck.seed, PID, 'cfg', gid)
        res = g.expected or xigen.expand(g.files, g.root)
        for c in make_cases(gid, g, r):
            cases.append(c)
            expect[c.id] = res
        profiles[g.meta['profile'].split(':')[0]] += 1
    rcases = repo_cases()
    ck.note('%d graph cases, %d in-repo documents' % (len(cases), len(rcases)))
    shards = int(os.environ.get('XV_SHARDS', '0')) or None      # development knob (shared machine); default: all cores
    recs = core.run_cases(binary, cases + rcases, shards=shards, tag='c20', per_case_timeout=TIMEOUT, env=ENV, rerun_hangs=False)
    # cases that tripped the watchdog run once more with three times the budget, in parallel (with a library that loops on
    # inclusion cycles dozens of cases hang: re-running them one after the other, as run_cases does, would take hours)
    byid = dict((c.id, c) for c in cases + rcases)
    hung = [byid[k] for k, v in recs.items() if k in byid and v.hang and not v.crash]
    false_alarms = 0
    if hung:
        ck.note('%d case(s) tripped the watchdog, re-running with %ds' % (len(hung), TIMEOUT * 3))
        again = core.run_cases(binary, hung, shards=shards, tag='c20h', per_case_timeout=TIMEOUT * 3, env=ENV, rerun_hangs=False)
        for c in hung:
            r2 = again.get(c.id)
            if r2 is not None and (r2.complete or r2.crash):
                recs[c.id] = r2
                false_alarms += 0 if r2.crash else 1
    for k, v in recs.items():
        if k.startswith('__exit__'):
            ck.violation('C20:' + v.crash.key(), 'sanitizer report at process exit', {'report': v.crash.text[:4000]})
    outcomes = collections.Counter()
    fatal_classes = collections.Counter()
    features = collections.Counter()
    skipped = collections.Counter()
    apis = collections.Counter()
    hows = collections.Counter()
    loops = collections.Counter()
    by_exc = 0
    for c in cases:
        rec = recs.get(c.id)
        res = expect[c.id]
        if rec is None:
            ck.inconclusive.append('no record for %s' % c.id)
            continue
        if not rec.complete or rec.crash or rec.hang:
            crash_violation(ck, rec, c, res)
            continue
        ck.evaluations += 1
        verdict, key, what, detail = judge(c, rec, res)
        if verdict == 'skip':
            skipped[key] += 1
            continue
        if verdict == 'violation':
            w = {'case': c.to_json(), 'files': dict((p, d.decode('utf-8', 'replace') if len(d) < 600 else '%d bytes: %r...' % (len(d), d[:80])) for p, d in c.ents), 'root': c.opt['root'],
                 'model': {'kind': res.kind, 'class': res.cls, 'where': res.where, 'features': sorted(res.features)}}
            w.update(detail or {})
            ck.violation(key, what, w)
            outcomes['violation'] += 1
            continue
        outcomes[res.kind] += 1
        apis[c.opt['api']] += 1
        hows[c.opt['how']] += 1
        if res.kind == 'fatal':
            fatal_classes['%s@%s' % (res.cls, res.where)] += 1
            if res.cls == 'loop':
                loops['length-%d%s' % (res.extra['length'], ':via-fallback' if res.extra['via_fallback'] else '')] += 1
            if detail and detail.get('by_exception'):
                by_exc += 1
        for f in res.features:
            features[f] += 1
        # distinct + non-trivial: at least one xi:include was processed by the model (an inclusion, a fallback or a fatal error)
        if res.kind == 'fatal' or res.features & {'xml-include', 'text-include', 'fallback-used'}:
            ck.add_distinct(core.h(c.ents, c.opt['root'], c.opt['api']))
        if res.kind == 'tree' and 'fallback-used' in res.features and 'xml-include' in res.features:
            st = observed(rec)[0]
            ck.sample({'files': dict((p, d.decode('utf-8', 'replace')[:300]) for p, d in c.ents), 'root': c.opt['root'], 'api': c.opt['api'], 'how': c.opt['how'],
                       'expected_events': [repr(e) for e in res.events[:30]], 'expected_bases': [b for b, _ in res.bases][:12],
                       'observed_warnings': ['%s:%s-%d' % (e[0], e[1], e[2]) for e in st.errs]}, limit=3)
        elif res.kind == 'fatal':
            ck.sample({'files': dict((p, d.decode('utf-8', 'replace')[:300]) for p, d in c.ents), 'root': c.opt['root'], 'api': c.opt['api'], 'expected': 'reported: %s in %s' % (res.cls, res.where),
                       'observed': observed(rec)[0].raw[-6:]}, limit=6)
    # in-repo documents: sanitizer + termination only
    rstat = collections.Counter()
    for c in rcases:
        rec = recs.get(c.id)
        if rec is None:
            ck.inconclusive.append('no record for %s' % c.id)
            continue
        if not rec.complete or rec.crash or rec.hang:
            crash_violation(ck, rec, c, None, 'C20:in-repo:')
            continue
        ck.evaluations += 1
        st = observed(rec)[0]
        if st.status == 'foreign':
            ck.violation('C20:foreign-exception:in-repo', 'an exception that is not part of the API escaped the parse', {'case': c.to_json()})
        rstat['fatal' if st.nF else 'error' if st.nE else 'exception' if st.status == 'exc' else 'clean'] += 1
    ck.cov.update(graph_profiles=dict(profiles), outcomes=dict(outcomes), fatal_classes=dict(fatal_classes), loops=dict(loops), model_features=dict(features),
                  skipped_undecided=dict(skipped), api=dict(apis), root_given_as=dict(hows), fatal_reported_by_exception_only=by_exc,
                  in_repo_documents=dict(rstat), watchdog_false_alarms=false_alarms)
    ck.rule = ('one evaluation = one parse (graph x API) compared with the reference expansion, or one in-repo document under the sanitizers; distinct + non-trivial = graph cases in which the '
               'model processed at least one xi:include (an inclusion, a used fallback or a fatal error), distinct by (files, root, API)')
    ck.assumptions = [
        'xpointer is documented as unsupported (message XIncludeXPointerNotSupported): any xpointer attribute is expected to be reported, never followed',
        'continue-after-fatal-error is documented as undetermined: it stays off',
        '"reported" = at least one error or fatal error reaches the application error handler, or parse() throws an API exception (XMLException/SAXException/DOMException); severities and messages are not compared',
        'DOM comparison is modulo xml:base attributes, namespace declaration attributes (normalizeDocument adds some), CDATA and entity-reference node boundaries, adjacent text nodes',
        'base URIs are compared after removing "file://" and dot segments',
        'undecided by XInclude 1.0 and therefore skipped: not-well-formed target with a fallback present; parse="text" with href=""; an included (non-root) document whose document element is replaced by a non-element; a byte order mark at the start of a text resource may be kept or dropped (compared modulo U+FEFF)',
        'text resources have no media type on file: URLs: the encoding is the encoding attribute, else UTF-8',
        'xml:lang fix-up is not part of the property: documents carry no xml:lang',
    ]
    need = {'xml-include': 'parse=xml inclusion', 'text-include': 'parse=text inclusion', 'fallback-used': 'fallback', 'nested-fallback-used': 'nested fallback', 'same-target-twice': 'same file twice',
            'dotdot-href': '../ href', 'depth:3': 'chain depth 3'}
    for f, name in need.items():
        if not features.get(f):
            ck.inconclusive.append('construct never exercised without violation: ' + name)
    if not loops:
        ck.inconclusive.append('no inclusion loop was exercised')
    if not any(k.startswith('text-enc:ISO-8859-1') for k in features) or not any(k.startswith('text-enc:UTF-16') for k in features):
        ck.inconclusive.append('text inclusion with ISO-8859-1 / UTF-16 never exercised')
    if not rcases:
        ck.inconclusive.append('in-repo XInclude documents not found')
    return ck.finish()


def replay(j):
    c = core.Case.from_json(j['witness']['case'])
    files, root = case_graph(c)
    res = xigen.expand(files, root)
    binary = build.ensure('asan', parts=['xinclude'])
    recs = core.run_cases(binary, [c], shards=1, tag='c20r', per_case_timeout=TIMEOUT, env=ENV)
    rec = recs.get(c.id)
    print('key      :', j.get('key'))
    print('root     :', root, ' api:', c.opt.get('api'), ' given as:', c.opt.get('how'))
    for p, d in sorted(files.items()):
        print('file     : %s = %r' % (p, d[:400]))
    print('expected :', res.kind, res.cls or '', res.where or '', sorted(res.features))
    if rec is None or not rec.complete or rec.crash or rec.hang:
        print('observed : crash / hang', rec.crash if rec else None)
        return 1
    if c.meta.get('class') == 'in-repo-test':
        print('observed : completed')
        return 0
    verdict, key, what, detail = judge(c, rec, res)
    print('observed :', verdict, key, what or '')
    for k, v in (detail or {}).items():
        print('   %s: %s' % (k, v))
    return 1 if verdict == 'violation' else 0
