"""C10: identity constraints (unique, key, keyref) are enforced in the value space.

Oracle: icref (xvlib/gen/icref.py): selector/field evaluation for the XPath subset of XSD 1.0 3.11.6, key-sequences
compared in the value space of the field types, node tables propagated per 3.11.5.  Workload: a small family of schemas
(db > grp* > item/ref, recursive groups) with constraint definitions drawn from selector/field/type/scope templates, x
instances with 0..200 tuples steered by scenarios (duplicates in equal / different lexical form, near misses, absent and
nilled fields, a field matching twice, dangling and resolved keyrefs, references before keys, duplicates across nested
scopes), both scanners, SAX2 and DOM.  Metamorphic (no reference needed): permuting siblings or duplicating a conforming
group with fresh key values must not change the verdict class.  Instances are batched as children of a wrapper element,
one scope element per line; every disagreement is re-run as a stand-alone document before it is reported."""
import collections, os, re
from concurrent.futures import ProcessPoolExecutor
from .. import core, build, parsecmp as pc
from ..gen import xsdgen as xg
from ..gen import icref as ic

PID = 'C10'
TYPES = ['string', 'token', 'integer', 'decimal', 'date', 'QName', 'int', 'boolean']
SIZES = [0, 1, 2, 3, 4, 5, 7, 9, 12, 17, 33, 64, 130, 200]


# ---------------------------------------------------------------------------------------------------------------------
#  values: k-th distinct value of a type in several lexical forms (all forms of one k are equal in the value space)
# ---------------------------------------------------------------------------------------------------------------------
def forms(tname, k):
    if tname in ('integer', 'int'):
        return [str(k), '0%d' % k, '+%d' % k, ' %d ' % k]
    if tname == 'decimal':
        return [str(k), '%d.0' % k, '0%d.00' % k, '+%d.' % k]
    if tname == 'string':
        return ['s%d' % k]
    if tname == 'token':
        return ['v%d a' % k, ' v%d   a ' % k, 'v%d\ta' % k]
    if tname == 'date':
        import datetime
        d = datetime.date(2000, 1, 1) + datetime.timedelta(days=k)
        return [d.isoformat() + 'Z', d.isoformat() + '+00:00', d.isoformat() + '-00:00']
    if tname == 'QName':
        return ['t:n%d' % k, 't2:n%d' % k, ' t:n%d ' % k]
    if tname == 'boolean':
        return [['false', '0'], ['true', '1']][k % 2]
    raise ValueError(tname)


def near_miss(tname, k):
    """lexically close to forms(k)[0] but a DIFFERENT value (or None)"""
    if tname == 'string':
        return 's%d ' % k
    if tname == 'token':
        return 'v%da' % k
    if tname == 'date':
        import datetime
        d = datetime.date(2000, 1, 1) + datetime.timedelta(days=k)
        return d.isoformat()          # no time zone: never equal to a zoned date
    if tname == 'QName':
        return 'u:n%d' % k
    if tname == 'decimal':
        return '%d.01' % k
    return None


# ---------------------------------------------------------------------------------------------------------------------
#  schema family
# ---------------------------------------------------------------------------------------------------------------------
def q(tns, name):
    return ('t:' + name) if tns else name


def build_schema(r, cross=None):
    """-> (schema, meta) ; meta describes where the constraints live and which fields they use.
    cross=True: the keyref's attribute field `to` gets a type that is NOT related to the key field's type by derivation
    (xs:string against decimal / integer / date / boolean / QName): equal lexical forms are then different values and
    every reference is dangling (cvc-identity-constraint.4.3; values of unrelated primitive types are never equal)"""
    tns = xg.T if r.random() < 0.8 else None
    s = xg.Schema(tns, True)
    B = xg.B
    s.add_elem(xg.EDecl(xg.U, 'g1', B['int'], glob=True), 'u')
    tid = r.choice(TYPES)
    tcode = r.choice(TYPES)
    if tid == 'boolean' and tcode == 'boolean':
        tcode = 'integer'
    if cross is None:
        cross = r.random() < 0.15
    if cross and tid in ('string', 'token'):
        tid = r.choice(['decimal', 'date', 'boolean', 'integer', 'QName'])
    tref = 'string' if cross else tid
    lns = tns
    sub_t = s.add_type(xg.CType(tns, 'Sub', own_attrs=[xg.AUse(xg.ADecl(None, 'k', B[tid]))]))
    code = xg.EDecl(lns, 'code', B[tcode])
    alt = xg.EDecl(lns, 'alt', B[tcode], nillable=True)
    sub = xg.EDecl(lns, 'sub', sub_t)
    item_t = s.add_type(xg.CType(tns, 'Item', own_particle=('seq', [('e', code, 0, 1), ('e', alt, 0, 1), ('e', sub, 0, xg.UNB)], 1, 1),
                                 own_attrs=[xg.AUse(xg.ADecl(None, 'id', B[tid])), xg.AUse(xg.ADecl(None, 'id2', B[tcode]))]))
    rcode = xg.EDecl(lns, 'rcode', B[tcode])
    ref_t = s.add_type(xg.CType(tns, 'Ref', own_particle=('seq', [('e', rcode, 0, 1)], 1, 1),
                                own_attrs=[xg.AUse(xg.ADecl(None, 'to', B[tref])), xg.AUse(xg.ADecl(None, 'to2', B[tcode]))]))
    item = s.add_elem(xg.EDecl(tns, 'item', item_t, glob=True))
    ref = s.add_elem(xg.EDecl(tns, 'ref', ref_t, glob=True))
    grp_t = xg.CType(tns, 'Grp')
    grp = xg.EDecl(tns, 'grp', grp_t, glob=True)
    grp_t.own_particle = ('choice', [('e', item, 1, 1), ('e', ref, 1, 1), ('e', grp, 1, 1)], 0, xg.UNB)
    s.add_type(grp_t)
    s.add_elem(grp)
    db_t = s.add_type(xg.CType(tns, 'Db', own_particle=('choice', [('e', grp, 1, 1), ('e', item, 1, 1), ('e', ref, 1, 1)], 0, xg.UNB)))
    db = s.add_elem(xg.EDecl(tns, 'db', db_t, glob=True))
    wt = xg.CType(tns, None, own_particle=('choice', [('e', db, 1, 1)], 0, xg.UNB))
    s.add_elem(xg.EDecl(tns, 'w', wt, glob=True))
    # ---- constraints --------------------------------------------------------------------------------------------
    I, R, G = q(tns, 'item'), q(tns, 'ref'), q(tns, 'grp')
    star = 't:*' if tns else '*'
    field_sets = [(['@id'], ['@to'], 'attr'), ([q(tns, 'code')], [q(tns, 'rcode')], 'elem'), (['@id', q(tns, 'code')], ['@to', q(tns, 'rcode')], 'attr+elem'),
                  ([q(tns, 'sub') + '/@k'], ['@to'], 'path-attr'), (['@id2', '@id'], ['@to2', '@to'], 'two-attrs'), (['.//@k'], ['@to'], 'desc-attr'),
                  ([q(tns, 'alt')], [q(tns, 'rcode')], 'nillable-elem'), (['@*'], ['@to'], 'attr-wildcard'), (['child::' + q(tns, 'code')], [q(tns, 'rcode')], 'child-axis')]
    fset = r.choice(field_sets[:3] * 3 + field_sets[3:])
    scope = r.choice(['db', 'db', 'grp', 'grp-key/db-ref', 'both'])
    kind = r.choice(['key', 'key', 'unique'])
    with_ref = r.random() < 0.7
    item_sels_db = [I, './/' + I, '%s/%s' % (G, I), '*/' + I, '%s|%s/%s' % (I, G, I), './/%s/%s' % (G, I), '%s/%s/%s' % (G, G, I), star, './' + I, '%s | .//%s/%s' % (I, G, I)]
    ref_sels_db = [R, './/' + R, '%s/%s' % (G, R), '%s|%s/%s' % (R, G, R), '*/' + R]
    item_sels_grp = [I, './/' + I, '%s/%s' % (G, I), './' + I]
    ref_sels_grp = [R, './/' + R]
    if cross:
        # the cross-typed field must be the one the keyref uses, and there must be a keyref
        fset = r.choice([field_sets[0], field_sets[3], field_sets[4], field_sets[5]])
        with_ref = True
    meta = {'tid': tid, 'tcode': tcode, 'tref': tref, 'cross_typed_keyref': bool(cross), 'fields': fset[2], 'scope': scope, 'kind': kind, 'with_ref': with_ref, 'tns': tns}
    ics = []
    if fset[2] == 'path-attr' and r.random() < 0.5:
        # select the sub elements themselves: field '.'-relative attribute
        item_sels_db = ['%s/%s' % (I, q(tns, 'sub')), './/' + q(tns, 'sub')]
        item_sels_grp = ['%s/%s' % (I, q(tns, 'sub'))]
        fset = (['@k'], ['@to'], 'sub-selected')
        meta['fields'] = 'sub-selected'
    if fset[2] == 'elem' and r.random() < 0.3:
        item_sels_db = ['%s/%s' % (I, q(tns, 'code')), './/' + q(tns, 'code')]
        item_sels_grp = ['%s/%s' % (I, q(tns, 'code'))]
        fset = (['.'], [q(tns, 'rcode')], 'self-field')
        meta['fields'] = 'self-field'
    if scope in ('db', 'both'):
        k1 = ic.IC(kind, 'K1', r.choice(item_sels_db), fset[0])
        db.ics.append(k1)
        ics.append(k1)
        if with_ref:
            db.ics.append(ic.IC('keyref', 'R1', r.choice(ref_sels_db), fset[1], refer=k1))
    if scope in ('grp', 'both', 'grp-key/db-ref'):
        k2 = ic.IC(kind, 'K2', r.choice(item_sels_grp), fset[0])
        grp.ics.append(k2)
        ics.append(k2)
        if with_ref:
            if scope == 'grp-key/db-ref':
                db.ics.append(ic.IC('keyref', 'R2', r.choice(ref_sels_db), fset[1], refer=k2))
            else:
                grp.ics.append(ic.IC('keyref', 'R2', r.choice(ref_sels_grp), fset[1], refer=k2))
    meta['selectors'] = [(c.kind, c.selector) for d in (db, grp) for c in d.ics]
    s.finalize()
    return s, meta


# ---------------------------------------------------------------------------------------------------------------------
#  instances
# ---------------------------------------------------------------------------------------------------------------------
def mk_item(s, meta, idv=None, codev=None, id2v=None, altv=None, subs=()):
    tns = s.tns
    e = xg.El(tns, 'item')
    if idv is not None:
        e.attrs.append((None, 'id', idv))
    if id2v is not None:
        e.attrs.append((None, 'id2', id2v))
    if codev is not None:
        e.kids.append(xg.El(tns, 'code', [], [codev] if codev != '' else []))
    if altv is not None:
        e.kids.append(xg.El(tns, 'alt', [], [altv]) if altv != '#nil' else xg.El(tns, 'alt', nil='true'))
    for k in subs:
        e.kids.append(xg.El(tns, 'sub', [(None, 'k', k)]))
    return e


def mk_ref(s, meta, tov=None, rcodev=None, to2v=None):
    e = xg.El(s.tns, 'ref')
    if tov is not None:
        e.attrs.append((None, 'to', tov))
    if to2v is not None:
        e.attrs.append((None, 'to2', to2v))
    if rcodev is not None:
        e.kids.append(xg.El(s.tns, 'rcode', [], [rcodev]))
    return e


SCENARIOS = ['none', 'none', 'dup-same-lex', 'dup-diff-lex', 'near-miss', 'absent-field', 'field-twice', 'dangling-ref', 'ref-diff-lex', 'refs-first',
             'cross-group-dup', 'nil-field', 'nested-groups', 'ref-to-other-group', 'dup-far-apart', 'partial-tuple-dup', 'empty-value']


def build_instance(r, s, meta, n, scenario):
    """one <db> with about n items; returns El"""
    tid, tcode = meta['tid'], meta['tcode']
    db = xg.El(s.tns, 'db')
    ngroups = r.choice([0, 1, 2, 3]) if n > 1 else r.choice([0, 1])
    if scenario in ('cross-group-dup', 'nested-groups', 'ref-to-other-group'):
        ngroups = max(ngroups, 2)
    containers = [db]
    groups = []
    for g in range(ngroups):
        ge = xg.El(s.tns, 'grp')
        groups.append(ge)
        containers.append(ge)
        if scenario == 'nested-groups' and g > 0 and r.random() < 0.7:
            groups[r.randrange(g)].kids.append(ge)
        else:
            db.kids.append(ge)
    if tid == 'boolean' or tcode == 'boolean':
        n = min(n, 2)
    items = []
    lex = (lambda t, k: r.choice(forms(t, k))) if scenario != 'none' or r.random() < 0.5 else (lambda t, k: forms(t, k)[0])
    for k in range(n):
        cont = r.choice(containers)
        it = mk_item(s, meta, lex(tid, k), lex(tcode, k), lex(tcode, k + 1000) if r.random() < 0.5 else None,
                     lex(tcode, k) if r.random() < 0.4 else None, [lex(tid, k)] if r.random() < 0.8 else [])
        items.append((k, cont, it))
        cont.kids.append(it)
    refs = []
    nrefs = (min(n, r.choice([0, 1, 2, 5, 20])) if meta['with_ref'] else r.choice([0, 1])) if items else 0
    for j in range(nrefs):
        k, cont, it = r.choice(items)
        rcont = cont if r.random() < 0.7 else r.choice(containers)
        if scenario == 'ref-to-other-group' and len(containers) > 2:
            rcont = r.choice([c for c in containers if c is not cont])
        rf = mk_ref(s, meta, lex(tid, k), lex(tcode, k), lex(tcode, k + 1000) if r.random() < 0.5 else None)
        refs.append((k, rcont, rf))
        if scenario == 'refs-first':
            rcont.kids.insert(0, rf)
        else:
            rcont.kids.insert(r.randint(0, len(rcont.kids)), rf)
    # scenario edits
    if scenario in ('dup-same-lex', 'dup-diff-lex', 'dup-far-apart', 'cross-group-dup', 'partial-tuple-dup') and len(items) >= 2:
        (k1, c1, a), (k2, c2, b) = (items[0], items[-1]) if scenario == 'dup-far-apart' else r.sample(items, 2)
        if scenario == 'cross-group-dup':
            cand = [(x, y) for x in items for y in items if x[1] is not y[1]]
            if cand:
                (k1, c1, a), (k2, c2, b) = r.choice(cand)
        same = scenario == 'dup-same-lex'

        def cp(t, k):
            return forms(t, k)[0] if same else r.choice(forms(t, k))
        b.attrs = [(ns, l, (forms(tid, k1)[0] if same else cp(tid, k1)) if l == 'id' else v) for (ns, l, v) in b.attrs]
        if same:
            a.attrs = [(ns, l, forms(tid, k1)[0] if l == 'id' else v) for (ns, l, v) in a.attrs]
        for x in b.elems():
            if x.local == 'code' and scenario != 'partial-tuple-dup':
                x.kids = [forms(tcode, k1)[0] if same else cp(tcode, k1)]
            if x.local == 'sub':
                x.attrs = [(None, 'k', cp(tid, k1))]
            if x.local == 'alt':
                x.kids = [cp(tcode, k1)]
        if same:
            for x in a.elems():
                if x.local == 'code':
                    x.kids = [forms(tcode, k1)[0]]
        b.attrs = [(ns, l, cp(tcode, k1 + 1000) if l == 'id2' else v) for (ns, l, v) in b.attrs]
        a.attrs = [(ns, l, cp(tcode, k1 + 1000) if l == 'id2' else v) for (ns, l, v) in a.attrs]
        if scenario == 'cross-group-dup' and meta['with_ref']:
            # a reference to the value that now exists in two scopes (ambiguous when both tables propagate to one ancestor)
            db.kids.append(mk_ref(s, meta, cp(tid, k1), cp(tcode, k1), cp(tcode, k1 + 1000)))
    elif scenario == 'near-miss' and items:
        k1, c1, a = r.choice(items)
        nm_id, nm_code = near_miss(tid, k1), near_miss(tcode, k1)
        b = mk_item(s, meta, nm_id if nm_id is not None else forms(tid, 5000)[0], nm_code if nm_code is not None else forms(tcode, 5000)[0])
        c1.kids.append(b)
    elif scenario == 'absent-field' and items:
        k1, c1, a = r.choice(items)
        if r.random() < 0.5:
            a.attrs = [x for x in a.attrs if x[1] != 'id']
        else:
            a.kids = [x for x in a.kids if not (isinstance(x, xg.El) and x.local in ('code', 'sub'))]
    elif scenario == 'field-twice' and items:
        k1, c1, a = r.choice(items)
        a.kids.append(xg.El(s.tns, 'sub', [(None, 'k', forms(tid, k1 + 300)[0])]))
        a.kids.append(xg.El(s.tns, 'sub', [(None, 'k', forms(tid, k1 + 301)[0])]))
    elif scenario == 'dangling-ref':
        cont = r.choice(containers)
        cont.kids.insert(r.randint(0, len(cont.kids)), mk_ref(s, meta, forms(tid, 7000)[0], forms(tcode, 7000)[0]))
    elif scenario == 'nil-field' and items:
        k1, c1, a = r.choice(items)
        a.kids = [x for x in a.kids if not (isinstance(x, xg.El) and x.local == 'alt')]
        pos = 1 if any(isinstance(x, xg.El) and x.local == 'code' for x in a.kids) else 0
        a.kids.insert(pos, xg.El(s.tns, 'alt', nil='true'))
    elif scenario == 'empty-value' and items and tid in ('string', 'token'):
        k1, c1, a = r.choice(items)
        a.attrs = [(ns, l, '' if l == 'id' else v) for (ns, l, v) in a.attrs]
    return db


def permute(r, el):
    """same instance with sibling order shuffled everywhere where the content model is a repeated choice (db, grp)"""
    c = el.copy()
    for e in xg.all_elements(c):
        if e.local in ('db', 'grp'):
            r.shuffle(e.kids)
    return c


def duplicate_fresh(r, s, meta, el, shift=20000):
    """copy of the instance in which one subtree (a group, or an item) is duplicated with fresh key values"""
    c = el.copy()
    groups = [e for e in xg.all_elements(c) if e.local == 'grp' and e is not c]
    if not groups:
        return None
    g = r.choice(groups)
    parent = next(e for e in xg.all_elements(c) if any(k is g for k in e.kids))
    g2 = g.copy()

    # fresh values: find the index k of the value among the generated forms, then take k + shift
    def fresh(v, t):
        for k in range(0, 8000):
            if v in forms(t, k):
                return forms(t, k + shift)[0]
        return None
    tid, tcode = meta['tid'], meta['tcode']
    if tid == 'boolean' or tcode == 'boolean':
        return None
    for e in xg.all_elements(g2):
        na = []
        for (ns, l, v) in e.attrs:
            t = tid if l in ('id', 'to', 'k') else tcode
            nv = fresh(v, t)
            if nv is None:
                return None
            na.append((ns, l, nv))
        e.attrs = na
        if e.local in ('code', 'rcode', 'alt') and e.kids and isinstance(e.kids[0], str):
            nv = fresh(e.kids[0], tcode)
            if nv is None:
                return None
            e.kids = [nv]
    parent.kids.append(g2)
    return c


# ---------------------------------------------------------------------------------------------------------------------
def gen(seed, si, tier):
    """-> (schema, meta, checker, [(family, scenario, n, El, violations, skips, base index)]) ; deterministic"""
    r = core.rng(seed, PID, 'schema', si)
    s, meta = build_schema(r, cross=True if si % 8 == 4 else None)
    chk = ic.Checker(s)
    out = []
    ninst = 26 if tier == 'quick' else 60
    sizes = SIZES if tier != 'quick' else SIZES[:-2] + ([130, 200] if si % 4 == 0 else [])
    for ii in range(ninst):
        n = r.choice(sizes)
        scen = r.choice(SCENARIOS)
        el = build_instance(r, s, meta, n, scen)
        viol, skips = chk.check(el)
        out.append(('base', scen, n, el, viol, skips, None))
        base_idx = len(out) - 1
        if viol is not None and (ii % 2 == 0 or skips):
            p = permute(r, el)
            v2, s2 = chk.check(p)
            out.append(('permuted', scen, n, p, v2, s2, base_idx))
        if viol is not None and not skips and not viol and ii % 3 == 0:
            d = duplicate_fresh(r, s, meta, el)
            if d is not None:
                v3, s3 = chk.check(d)
                out.append(('dup-fresh', scen, n, d, v3, s3, base_idx))
    return s, meta, chk, out


def work(seed, si, tier):
    s, meta, chk, out = gen(seed, si, tier)
    return {'si': si, 'tns': s.tns, 'docs': xg.Renderer(s).documents(), 'meta': meta,
            'instances': [(f, sc, n, xg.ser(el), v, sk, b) for (f, sc, n, el, v, sk, b) in out]}


def removable(root):
    return [e for e in xg.all_elements(root) if e is not root and e.local in ('item', 'ref', 'grp', 'sub', 'code', 'alt', 'rcode')]


def keep_only(root, keep):
    """copy of root with every removable element whose index is not in keep dropped (with its subtree)"""
    c = root.copy()
    idx = {id(e): i for i, e in enumerate(removable(c))}

    def prune(e):
        e.kids = [k for k in e.kids if not (isinstance(k, xg.El) and id(k) in idx and idx[id(k)] not in keep)]
        for k in e.elems():
            prune(k)
    prune(c)
    return c


def shrink_and_name(ck, binary, nproc, tier, confirmed):
    """confirmed: [(w, i, cfg, cls, codes)] -> [(w, i, cfg, cls, codes, key, shrunk xml, features, violations)]
    One representative per (schema, class, violation kinds) is minimised with ddmin through the driver; the groups are
    minimised concurrently (one driver process each)."""
    from .. import shrink
    from concurrent.futures import ThreadPoolExecutor
    import threading
    groups = collections.OrderedDict()
    for m in confirmed:
        w, i, cfg, cls, ecodes = m
        x = w['instances'][i]
        groups.setdefault((w['si'], cls, vkey(x[4]), tuple(ecodes)), []).append(m)
    gens = {}
    glock = threading.Lock()
    counter = [0]

    def one(item):
        (si, cls, vk, _codes), members = item
        w, i, cfg, cls, ecodes = members[0]
        with glock:
            if si not in gens:
                gens[si] = gen(ck.seed, si, tier)
            s, meta, _chk, insts = gens[si]
        chk = ic.Checker(s)           # own checker per thread
        el0 = insts[i][3]
        viol0 = insts[i][4]
        kinds0 = set(v[0] for v in viol0)
        units = list(range(len(removable(el0))))

        def test_batch(cands):
            cases, res = [], [False] * len(cands)
            for n, keep in enumerate(cands):
                c = keep_only(el0, set(keep))
                v, sk = chk.check(c)
                if v is not None and not sk and bool(v) == bool(viol0) and set(x[0] for x in v) <= kinds0:
                    with glock:
                        counter[0] += 1
                        cid = 'sh%d' % counter[0]
                    cases.append((n, mk_case(cid, cfg, w['ents'], wrap_single(w['tns'], xg.ser(c)))))
            recs = core.run_cases(binary, [c for _, c in cases], tag='c10s%d-' % counter[0], shards=1) if cases else {}
            for n, c in cases:
                rec = recs.get(c.id)
                if rec is not None and rec.complete and not rec.crash and not rec.hang and rec.steps():
                    st_ = pc.parse_step(rec.steps()[0])
                    # same class and (for errors) the same set of codes: shrinking must not drift to another defect
                    res[n] = classify(st_) == cls and (cls != 'E' or sorted(set(e[2] for e in st_.errs if e[0] == 'E')) == list(ecodes))
            return res
        keep = shrink.ddmin(units, test_batch, max_rounds=12) if len(units) > 1 else units
        fin = keep_only(el0, set(keep))
        if len(keep) != len(units) and not test_batch([keep])[0]:
            fin = el0
        v, sk = chk.check(fin)
        feats = sorted(chk.feats)
        primary = [f for f in feats if f.startswith(('nested-scopes-', 'field-multiple-match:', 'keyref:no-key-table', 'propagation:'))]
        feats = primary or feats
        if meta.get('cross_typed_keyref') and any(x[0] == 'keyref-not-found' for x in (v or [])):
            feats = feats + ['cross-typed-keyref']
        if insts[i][1] == 'nested-groups' and any(re.search(r'\.//[^|]*:?grp/', sel) for _k, sel in meta['selectors']) and not any(f.startswith('nested-scopes-') for f in feats):
            # selector ".//grp/item" in a document where grp occurs inside grp: XercesXPath's matcher does not restart after
            # the partial match db/grp/(grp) and misses grp/grp/item (known finding KF-C10-06)
            feats = feats + ['descendant-then-child-step-over-self-nested-element']
        elif insts[i][1] == 'nested-groups' and meta['scope'] != 'db' and not any(f.startswith('nested-scopes-') for f in feats):
            # a constraint whose scope element (grp) occurs inside another instance of itself: the value stores of one
            # constraint are kept per depth and re-used (known findings KF-C10-03/04), every verdict in such a document is
            # unreliable -- the key says so, so that the same disagreement in a flat document keeps its own key
            feats = feats + ['scope-nested-in-itself']
        if cls == 'V':
            key = 'C10:accepted-invalid:%s:%s' % (vkey(v), '+'.join(feats) or 'plain')
        elif cls == 'E':
            key = 'C10:rejected-valid:%s:code%s' % ('+'.join(feats) or 'plain', '+'.join(map(str, ecodes[:2])))
        else:
            key = 'C10:fatal:%s:%s' % (vkey(v), '+'.join(feats) or 'plain')
        return [m + (key, xg.ser(fin), feats, v) for m in members]
    out = []
    with ThreadPoolExecutor(max(2, nproc)) as ex:
        for r_ in ex.map(one, list(groups.items())):
            out += r_
    return out


def _work(a):
    return work(*a)


def ns_decl_text(tns):
    class _S:
        pass
    o = _S()
    o.tns = tns
    return xg.ns_decls(o)


def wrap_single(tns, xml):
    m = re.match(r'<[^\s/>]+', xml)
    return (xml[:m.end()] + ns_decl_text(tns) + xml[m.end():]).encode()


def wrap_batch(tns, xmls):
    w = xg.qname(tns, 'w')
    return ('<%s%s>\n' % (w, ns_decl_text(tns)) + '\n'.join(xmls) + '\n</%s>' % w).encode()


def mk_case(cid, cfg, ents, data):
    api, sc = cfg
    return core.Case(cid, 'parse', dict(api=api, scanner=sc, val='always', schema=1, full=1, ns=1, ic=1, loc=0, dump=0), ents=ents).doc(data)


def classify(st, line=None):
    """'V' | 'E' | 'F' for a step (line: only errors on that line)"""
    if st.status != 'ok' or any(e[0] == 'F' for e in st.errs):
        return 'F'
    if any(e[0] == 'E' and (line is None or e[3] == line) for e in st.errs):
        return 'E'
    return 'V'


def vkey(viol):
    return '+'.join(sorted(set(v[0] for v in viol))) if viol else 'valid'


def run(tier):
    ck = core.Check(PID, tier)
    binary = build.ensure('asan', parts=['parse', 'domdump'])
    nproc = max(2, min(core.NCPU, int(os.environ.get('XV_PROCS', core.NCPU))))
    nschemas = int(os.environ.get('XV_C10_N', 80 if tier == 'quick' else 800))      # XV_C10_N: development knob
    chunk = 80 if tier == 'quick' else 200
    stats = collections.Counter()
    scen_seen = collections.Counter()
    viol_seen = collections.Counter()
    codes = collections.Counter()
    feat = collections.Counter()
    skipped = collections.Counter()
    sizes_seen = collections.Counter()
    sampled = [0]
    CFG = [('sax2', 'IG'), ('sax2', 'SG'), ('dom', 'IG'), ('dom', 'SG')]
    with ProcessPoolExecutor(nproc) as ex:
        for c0 in range(0, nschemas, chunk):
            works = list(ex.map(_work, [(ck.seed, si, tier) for si in range(c0, min(nschemas, c0 + chunk))]))
            cases = []
            meta = {}
            for w in works:
                m = w['meta']
                for k in ('tid', 'tcode', 'fields', 'scope', 'kind', 'cross_typed_keyref'):
                    feat['%s=%s' % (k, m[k])] += 1
                for knd, sel in m['selectors']:
                    feat['selector:' + re.sub(r'[a-z0-9]+:', '', sel)] += 1
                w['ents'] = [('file:///xv/' + n, d) for n, d in w['docs']]
                inst = w['instances']
                usable = []
                for i, x in enumerate(inst):
                    if x[4] is None or x[5]:
                        for sk in (x[5] or ['?']):
                            skipped[sk.split(':')[0]] += 1
                    if x[4] is not None:
                        usable.append(i)          # undecided instances still run: they take part in the metamorphic pairs
                # batches bounded by size
                cur, size, batches = [], 0, []
                for i in usable:
                    cur.append(i)
                    size += len(inst[i][3])
                    if size > 60000 or len(cur) >= 40:
                        batches.append(cur)
                        cur, size = [], 0
                if cur:
                    batches.append(cur)
                for bi, idx in enumerate(batches):
                    data = wrap_batch(w['tns'], [inst[i][3] for i in idx])
                    for n in range(2):
                        cfg = CFG[(w['si'] + bi + 2 * n + (n and 1)) % 4] if n == 0 else None
                        if n == 0:
                            first = cfg
                        else:
                            cfg = (('dom' if first[0] == 'sax2' else 'sax2') if (w['si'] + bi) % 2 else first[0], 'SG' if first[1] == 'IG' else 'IG')
                        cid = 's%d.b%d.%s.%s' % (w['si'], bi, cfg[0], cfg[1])
                        cases.append(mk_case(cid, cfg, w['ents'], data))
                        meta[cid] = (w, idx, False, cfg)
                r = core.rng(ck.seed, PID, 'single', w['si'])
                for i in r.sample(usable, min(len(usable), 4)):
                    cfg = r.choice(CFG)
                    cid = 's%d.i%d.%s.%s' % (w['si'], i, cfg[0], cfg[1])
                    cases.append(mk_case(cid, cfg, w['ents'], wrap_single(w['tns'], inst[i][3])))
                    meta[cid] = (w, [i], True, cfg)
            recs = core.run_cases(binary, cases, tag='c10', shards=nproc)
            recheck = []
            observed = {}        # (si, instance index, cfg) -> class
            disagree = set()     # (si, instance index) that differ from the reference (reported on their own)
            confirmed = []
            pairs = []
            for c in cases:
                w, idx, single, cfg = meta[c.id]
                rec = recs.get(c.id)
                if rec is None or not rec.complete or rec.crash or rec.hang or not rec.steps():
                    if rec is not None:
                        ck.crash_violation(rec, c, 'C10:')
                    continue
                st = pc.parse_step(rec.steps()[0])
                if st.status != 'ok' or st.fatal():
                    ck.violation('C10:fatal:%s' % ('single' if single else 'batch'), 'fatal error / exception while checking identity constraints (%s)' % st.verdict(), {'case': c.to_json(), 'errs': st.errs[:4], 'exc': st.exc})
                    continue
                schema_err = [e for e in st.errs if e[0] == 'E' and not (e[5] or '').endswith('doc.xml')]
                if schema_err:
                    key = 'C10:schema-rejected:%s:%d:%s' % (schema_err[0][1], schema_err[0][2], w['meta']['fields'])
                    ck.violation(key, 'a schema with a constraint over the supported XPath subset was reported as erroneous', {'case': c.to_json(), 'errs': schema_err[:3], 'meta': w['meta']})
                    continue
                for e in st.errs:
                    if e[0] == 'E':
                        codes['%s:%d' % (e[1], e[2])] += 1
                for pos, i in enumerate(idx):
                    fam_, scen, n, xml, viol, skips, base = w['instances'][i]
                    line = None if single else pos + 2
                    cls = classify(st, line)
                    exp = 'E' if viol else 'V'
                    observed[(w['si'], i, cfg)] = cls
                    if skips:
                        stats['undecided_by_reference_run_for_metamorphic_pairs'] += 1
                        continue
                    ck.evaluations += 1
                    if cls != exp:
                        ecodes = sorted(set(e[2] for e in st.errs if e[0] == 'E' and (line is None or e[3] == line)))
                        (confirmed if single else recheck).append((w, i, cfg, cls, ecodes))
                        disagree.add((w['si'], i))
                        continue
                    stats[fam_ + ('_valid' if exp == 'V' else '_invalid')] += 1
                    scen_seen[scen] += 1
                    sizes_seen[n] += 1
                    for v in viol:
                        viol_seen[v[0]] += 1
                    ck.add_distinct(core.h(w['si'], xml))
                    if sampled[0] < 3 and viol and n <= 5:
                        sampled[0] += 1
                        ck.sample({'schema': w['docs'][0][1].decode()[:2500], 'instance': xml[:800], 'expected': 'invalid: ' + vkey(viol), 'observed': 'errors (codes %s)' % sorted(set(e[2] for e in st.errs if e[0] == 'E' and (line is None or e[3] == line))), 'config': list(cfg)})
                pairs.append((w, idx, cfg))
            # metamorphic: a variant must fall into the class of its base under the same configuration (pairs in which a
            # member already disagrees with the reference are reported through that disagreement only)
            for (w, idx, cfg) in pairs:
                for i in idx:
                    fam_, scen, n, xml, viol, skips, base = w['instances'][i]
                    if base is None or (w['si'], i) in disagree or (w['si'], base) in disagree:
                        continue
                    a, b = observed.get((w['si'], base, cfg)), observed.get((w['si'], i, cfg))
                    if a is None or b is None:
                        continue
                    bx = w['instances'][base]
                    stats['metamorphic_pairs_' + fam_] += 1
                    und = 'undecided' if (skips or bx[5]) else vkey(viol)
                    if fam_ == 'permuted' and a != b and (skips or bx[5] or vkey(bx[4]) == vkey(viol)):
                        ck.violation('C10:order-dependent:%s' % und, 'permuting siblings changed the verdict class (%s -> %s)' % (a, b),
                                     {'case': mk_case('w', cfg, w['ents'], wrap_single(w['tns'], xml)).to_json(), 'base': bx[3], 'permuted': xml, 'schema': w['docs'][0][1].decode(), 'meta': w['meta']})
                    if fam_ == 'dup-fresh' and a == 'V' and b != 'V' and not viol:
                        ck.violation('C10:fresh-duplicate-rejected', 'duplicating a conforming group with fresh key values made the instance invalid',
                                     {'case': mk_case('w', cfg, w['ents'], wrap_single(w['tns'], xml)).to_json(), 'base': bx[3], 'variant': xml, 'schema': w['docs'][0][1].decode(), 'meta': w['meta']})
            if recheck:
                rc = []
                rmeta = {}
                for n_, (w, i, cfg, bcls, bcodes) in enumerate(recheck):
                    cid = 'rc%d' % n_
                    rc.append(mk_case(cid, cfg, w['ents'], wrap_single(w['tns'], w['instances'][i][3])))
                    rmeta[cid] = (w, i, cfg, bcls)
                rrecs = core.run_cases(binary, rc, tag='c10r', shards=nproc)
                for c in rc:
                    w, i, cfg, bcls = rmeta[c.id]
                    rec = rrecs.get(c.id)
                    if rec is None or not rec.complete or rec.crash or rec.hang or not rec.steps():
                        if rec is not None:
                            ck.crash_violation(rec, c, 'C10:')
                        continue
                    st = pc.parse_step(rec.steps()[0])
                    cls = classify(st)
                    x = w['instances'][i]
                    stats['batch_disagreements_rechecked'] += 1
                    if cls != bcls:
                        ck.violation('C10:context-dependent:%s' % vkey(x[4]), 'verdict for one scope element differs between stand-alone document and inside the wrapper (%s vs %s)' % (cls, bcls),
                                     {'case': c.to_json(), 'instance': x[3], 'schema': w['docs'][0][1].decode()})
                    if cls != ('E' if x[4] else 'V'):
                        confirmed.append((w, i, cfg, cls, sorted(set(e[2] for e in st.errs if e[0] == 'E'))))
            for (w, i, cfg, cls, ecodes, key, sxml, feats, sviol) in shrink_and_name(ck, binary, nproc, tier, confirmed):
                fam_, scen, n, xml, viol, skips, base = w['instances'][i]
                ck.violation(key, '%s / %s, %d tuples: reference says %s, parser says %s' % (fam_, scen, n, vkey(viol), {'V': 'valid', 'E': 'invalid', 'F': 'fatal'}[cls]),
                             {'case': mk_case('witness', cfg, w['ents'], wrap_single(w['tns'], sxml)).to_json(), 'instance': sxml[:20000], 'original_instance': xml[:20000], 'schema': w['docs'][0][1].decode(),
                              'expected': [list(v) for v in sviol], 'observed_class': cls, 'observed_codes': ecodes, 'features': feats, 'meta': w['meta']})
            ck.note('schemas %d..%d done, evaluations=%d' % (c0, c0 + len(works), ck.evaluations))
    ck.rule = ('distinct (schema, scope instance) pairs decided by icref and agreed; every instance carries at least one constraint definition in scope; '
               'metamorphic pairs are counted separately')
    ck.cov['stats'] = dict(stats)
    ck.cov['scenarios'] = dict(scen_seen)
    ck.cov['violation_kinds_exercised'] = dict(viol_seen)
    ck.cov['constraint_features'] = dict(feat)
    ck.cov['tuples_per_instance'] = {str(k): v for k, v in sorted(sizes_seen.items())}
    ck.cov['validity_codes_observed'] = dict(codes)
    ck.cov['skipped'] = dict(skipped)
    ck.cov['schemas'] = nschemas
    for need in ('duplicate-key', 'duplicate-unique', 'key-field-absent', 'keyref-not-found', 'field-multiple-match'):
        if not viol_seen.get(need):
            ck.inconclusive.append('violation kind never exercised: ' + need)
    if not any(k >= 130 for k in sizes_seen):
        ck.inconclusive.append('no instance with >= 130 tuples')
    ck.assumptions = ['instances are structurally valid (checked by xsdref); only identity-constraint errors are at stake',
                      'fields whose node is a nilled element are not decided (XSD 1.0 gives a nilled element no value; skipped and counted)',
                      'a keyref on an element refers to keys/uniques of that element or of its descendants (3.11.4; Xerces documents the same reading)']
    return ck.finish()


def replay(j):
    w = j['witness']
    c = core.Case.from_json(w['case'])
    binary = build.ensure('asan', parts=['parse', 'domdump'])
    recs = core.run_cases(binary, [c], shards=1)
    rec = recs[c.id]
    print(c.ents[0][1].decode('utf-8', 'replace')[:3000])
    print('--- instance')
    print((w.get('instance') or w.get('permuted') or w.get('variant') or '')[:3000])
    print('expected:', w.get('expected'), '| recorded:', j['what'])
    print('observed:', '\n'.join(l for l in rec.lines if l.startswith(('ERR', 'EXC', 'R\t')))[-2000:])
    st = pc.parse_step(rec.steps()[-1])
    exp = w.get('expected')
    if exp is not None:
        return 1 if classify(st) != ('E' if exp else 'V') else 0
    return 1
