"""C08: XML Schema structure validation accepts exactly the schema-valid instances.

Oracle: xsdref (xvlib/gen/xsdgen.py), a validator for exactly the generated schema subset (derivative matcher with
occurrence counters, wildcards, substitution groups, abstract/block, xsi:type, xsi:nil, attribute uses and wildcards,
mixed/empty/simple content, extension and occurrence-range restriction).  Workload per random schema: ALL child
sequences up to a bound over the focus type's alphabet (+ foreign elements), neighbours of random valid words, all
subsets of an attribute alphabet, random valid trees and single-rule mutants of them; many instances are batched as
children of a wrapper element, one per line, and the line of each reported error attributes it to an instance; every
disagreement is re-run as a stand-alone document before it is reported.  Verdict classes only (valid / errors / fatal);
on instances both sides call valid, the reported attributes (incl. defaults), element default text and type
information (PSVIHandler, DOMTypeInfo) are compared with the governing declarations.  Deliberately broken schemas and
the in-repo XSTS regression set are extra labelled cases."""
import collections, itertools, os, re
from concurrent.futures import ProcessPoolExecutor
from .. import core, build, parsecmp as pc
from ..gen import xsdgen as xg

PID = 'C08'
PSVI_VALIDITY_OBS = collections.Counter()
BATCH = 240

CONFIGS = [(cmd, api, sc, full) for cmd in ('parse', 'psvi') for api in ('sax2', 'dom') for sc in ('IG', 'SG') for full in (0, 1)]


# ---------------------------------------------------------------------------------------------------------------------
#  expected tree -> compact form ; observed lines -> tree
# ---------------------------------------------------------------------------------------------------------------------
def compact(node):
    t = node.type
    ty = None
    if t is not None and node.assessed:
        ty = (t.ns, t.name, bool(t.anon), 'S' if t.simple else 'C')
    return (node.ns, node.local, ty, tuple(sorted(((k[0] or '', k[1]), v, k in node.adefault) for k, v in node.attrs.items())),
            node.text, tuple(compact(k) for k in node.kids), node.assessed)


def _ns(x):
    return None if x in ('', '~', None) else core.unesc(x)


class ONode:
    __slots__ = ('ns', 'local', 'attrs', 'text', 'kids', 'ti', 'pe', 'line')

    def __init__(self, ns, local):
        self.ns, self.local, self.attrs, self.text, self.kids, self.ti, self.pe = ns, local, {}, '', [], None, None


def observed_trees(lines):
    """event lines of one step -> list of top-level ONode (document element first)"""
    root = ONode(None, '#doc')
    stack = [root]
    cur = None
    for l in lines:
        f = l.split('\t')
        t = f[0]
        if t == 'SE':
            cur = ONode(_ns(f[1]), core.unesc(f[2]))
            if len(f) > 4 and f[4].startswith('TI='):
                a, b = f[4][3:].split('|', 1)
                cur.ti = (_ns(a), None if b == '~' else core.unesc(b))
            stack[-1].kids.append(cur)
            stack.append(cur)
        elif t == 'AT':
            ns = _ns(f[1])
            if ns in (xg.XSI, 'http://www.w3.org/2000/xmlns/') or f[3].startswith('xmlns'):
                continue
            ti = None
            if len(f) > 7 and f[7].startswith('TI='):
                a, b = f[7][3:].split('|', 1)
                ti = (_ns(a), None if b == '~' else core.unesc(b))
            cur.attrs[(ns or '', core.unesc(f[2]))] = (core.unesc(f[6]), None if f[5] == '~' else f[5] == '1', ti)
        elif t in ('CH', 'IW'):
            stack[-1].text += core.unesc(f[1]) if len(f) > 1 else ''
        elif t == 'PE':
            stack[-1].pe = f
        elif t == 'EE':
            stack.pop()
    return root.kids


def compare_tree(exp, obs, mode, diffs, path='r'):
    """exp: compact tuple; obs: ONode; mode: 'sax' (no type info) | 'psvi' | 'dom'"""
    ns, local, ty, attrs, text, kids, assessed = exp
    if (obs.ns, obs.local) != (ns, local):
        diffs.append(('structure', path))
        return
    if assessed:
        ea = {}
        for (k, v, dflt) in attrs:
            ea[k] = (v, dflt)
        if set(ea) != set(obs.attrs):
            diffs.append(('attribute-set', path, sorted(ea), sorted(obs.attrs)))
        else:
            for k, (v, dflt) in ea.items():
                ov, spec, ti = obs.attrs[k]
                if v == xg.ws_apply('collapse', v) and ov != v:
                    diffs.append(('attribute-value' + ('-default' if dflt else ''), path, k, v, ov))
                if spec is not None and spec == dflt:
                    diffs.append(('attribute-specified-flag', path, k, dflt, spec))
        if text is not None and text == xg.ws_apply('collapse', text) and '  ' not in text:
            if obs.text != text:
                diffs.append(('element-text', path, text, obs.text))
        if ty is not None:
            tns, tname, anon, cat = ty
            if mode == 'dom' and obs.ti is not None:
                if anon:
                    if not (obs.ti[1] or '').startswith('__Anon'):
                        diffs.append(('type-anonymous', path, ty, obs.ti))
                elif obs.ti != (tns, tname):
                    diffs.append(('type-name', path, ty, obs.ti))
            elif mode == 'dom':
                diffs.append(('type-missing', path, ty, None))
            elif mode == 'psvi':
                if obs.pe is None:
                    diffs.append(('type-missing', path, ty, None))
                else:
                    f = obs.pe[3].split('|')
                    if len(f) != 4:
                        diffs.append(('type-missing', path, ty, obs.pe[3]))
                    else:
                        o = (_ns(f[0]), core.unesc(f[1]), f[2] == '1', f[3])
                        if anon:
                            if not o[2] or o[3] != cat:
                                diffs.append(('type-anonymous', path, ty, o))
                        elif o != (tns, tname, False, cat):
                            diffs.append(('type-name', path, ty, o))
                    if obs.pe[4] != '2':
                        PSVI_VALIDITY_OBS[obs.pe[4]] += 1       # observation only (not part of the property's observables)
    if len(kids) != len(obs.kids):
        diffs.append(('structure', path))
        return
    for i, (a, b) in enumerate(zip(kids, obs.kids)):
        compare_tree(a, b, mode, diffs, '%s/%s[%d]' % (path, a[1], i))


# ---------------------------------------------------------------------------------------------------------------------
#  work per schema (runs in a worker process)
# ---------------------------------------------------------------------------------------------------------------------
def seq_bound(k, budget):
    n, L = 1, 0
    while L < 5 and n + k ** (L + 1) <= budget:
        L += 1
        n += k ** L
    return L


def gen_instances(seed, si, tier):
    """-> (schema, builder, validator, [[family, label, El, Result], ...]) ; deterministic in (seed, si, tier)"""
    r = core.rng(seed, PID, 'schema', si)
    # every eighth schema exercises two wildcards over one namespace (deterministic only through counting)
    # ... every eighth an all group, an abstract substitution head, a nillable root of mixed type (rare constructs must be present in every run)
    s = xg.gen_schema(r, {'twowild': True, 'content': 'elements', 'all': False} if si % 8 == 5 else {'all': True, 'content': 'elements', 'twowild': False} if si % 8 == 3
                      else {'head': True, 'content': 'elements', 'twowild': False} if si % 8 == 1
                      else {'content': 'mixed', 'nillable': True, 'twowild': False} if si % 8 == 7
                      else dict([{'anysplit': 'other-absent', 'fany': ('set', frozenset([xg.U])), 'tns': xg.T},
                                 {'anysplit': 'other-both', 'fany': ('set', frozenset([xg.U, xg.O])), 'tns': xg.T},
                                 {'anysplit': 'sets', 'fany': ('set', frozenset([None, xg.U]))},
                                 {'anysplit': 'any', 'fany': True}][(si // 8) % 4], twowild=False) if si % 8 == 2
                      else {'xany': True, 'fany': True, 'named': True, 'twowild': False} if si % 8 == 6 else None)
    bld = xg.Builder(s)
    val = xg.Validator(s)
    info = s.info
    out = []
    budget = 500 if tier == 'quick' else 2500
    selfcheck = [0]

    def add(family, label, el):
        decl = s.elems.get((el.ns, el.local))
        res = val.validate(el, decl)
        out.append([family, label, el, res])

    # A: exhaustive child sequences
    for ri, (rname, rd) in enumerate(info['roots']):
        variants = [(rd, rd.type, None, None)]
        if rname == 'r':
            for dt in info['derived']:
                variants.append((rd, dt, dt.key, None))
        if rd.nillable:
            variants.append((rd, rd.type, None, 'true'))        # nilled: only the empty sequence is valid
        for vi, (decl, t, xtype, nil) in enumerate(variants):
            alpha = xg.alphabet(s, t, bld)
            syms = sorted(alpha)
            b = budget if (ri == 0 and vi == 0) else budget // 4 if nil is None else 60
            L = max(2, seq_bound(len(syms), b))
            base = xg.El(decl.ns, decl.local, xtype=xtype, nil=nil)
            if not t.simple:
                for key, u in t.attrs.items():
                    if u.use == 'required':
                        base.attrs.append((key[0], key[1], u.fixed if u.fixed is not None else xg.good_value(u.decl.type)))
            count = 0
            for n in range(L + 1):
                for seq in itertools.product(syms, repeat=n):
                    if count >= b * 2:
                        break
                    count += 1
                    e = base.copy()
                    e.kids = [alpha[x].copy() for x in seq]
                    add('seq', '%s%s%s:%s' % (rname, '^' + xtype[1] if xtype else '', '^nil' if nil else '', ' '.join(seq)), e)
            if nil:
                for txt in ('txt', ' ', ('c', 'note')):
                    e = base.copy()
                    e.kids = [txt]
                    add('seq', '%s^nil:text' % rname, e)
            # B: neighbours of random valid words
            if nil is None and not t.simple and t.content == 'elements' and t.particle is not None:
                nwords = 5 if tier == 'quick' else 14
                for wi in range(nwords):
                    word = xg.rand_word(t.particle, r, big=(wi % 3 == 2))
                    if len(word) > 60:
                        continue
                    e = base.copy()
                    bld.content_for(e, t, word)
                    e.attrs = list(base.attrs)
                    add('near', '%s:word' % rname, e)
                    kids = e.kids
                    muts = []
                    for i in range(len(kids)):
                        muts.append(kids[:i] + kids[i + 1:])
                        muts.append(kids[:i] + [kids[i].copy()] + kids[i:])
                        if i + 1 < len(kids) and xg.ser(kids[i]) != xg.ser(kids[i + 1]):
                            muts.append(kids[:i] + [kids[i + 1], kids[i]] + kids[i + 2:])
                    for sy in syms:
                        p = r.randint(0, len(kids))
                        muts.append(kids[:p] + [alpha[sy].copy()] + kids[p:])
                    r.shuffle(muts)
                    for m in muts[:12 if tier == 'quick' else 40]:
                        e2 = base.copy()
                        e2.kids = [k.copy() for k in m]
                        add('near', '%s:neighbour' % rname, e2)
                    # oracle self-check: two independent matchers agree on the word and its neighbours
                    for m in [kids] + muts[:10]:
                        ls = []
                        ok = True
                        for k in m:
                            cands = t.candidates(k.ns, k.local)
                            if not cands:
                                ok = False
                                break
                            ls.append(frozenset(c[1] for c in cands))
                        if ok:
                            selfcheck[0] += 1
                            if xg.regex_match(t.regex, ls) != xg.naive_match(t.particle, ls):
                                raise RuntimeError('reference matchers disagree: %r %r' % (t.particle, ls))
        # C: attribute subsets
        t = rd.type
        if not t.simple:
            aalpha = []
            for key, u in sorted(t.attrs.items(), key=lambda kv: (kv[0][0] or '', kv[0][1])):
                aalpha.append((key[0], key[1], u.fixed if u.fixed is not None else xg.good_value(u.decl.type)))
                bad = xg.bad_value(u.decl.type, r) if u.fixed is None else 'other'
                if bad is not None:
                    aalpha.append((key[0], key[1], bad))
            for u in t.base.attrs.values() if (t.base is not None and not t.base.simple and t.base is not xg.ANYTYPE) else []:
                if u.decl.key not in t.attrs:
                    aalpha.append((u.decl.ns, u.decl.local, xg.good_value(u.decl.type)))      # prohibited in the restriction
            # wildcard probes: undeclared attributes that are unqualified, in the target namespace, in two foreign
            # namespaces (one with a global declaration); they are kept when the alphabet is cut
            probes = [(None, 'zz', '1'), (xg.O, 'oa', 'v')]
            if s.tns is not None:
                probes.append((s.tns, 'tz', '1'))
            if (xg.U, 'ga') not in t.attrs:
                probes += [(xg.U, 'ga', '5'), (xg.U, 'ga', 'notint')]
            aalpha = aalpha[:max(4, 10 - len(probes))] + probes
            base = bld.min_instance(rd)
            base.attrs = []
            for n in range(0, min(len(aalpha), 3 if tier == 'quick' else 5) + 1):
                for combo in itertools.combinations(aalpha, n):
                    names = [c[:2] for c in combo]
                    if len(set(names)) != len(names):
                        continue
                    e = base.copy()
                    e.attrs = list(combo)
                    add('att', '%s:%s' % (rname, ' '.join(xg.qname(a[0], a[1]) + '=' + a[2] for a in combo)), e)
        # D: random valid trees and mutants
        ntrees = 8 if tier == 'quick' else 30
        for ti in range(ntrees):
            e = bld.rand_instance(rd, r, fancy=(ti % 4 == 3))
            add('tree', '%s:tree' % rname, e)
            for mi in range(8 if tier == 'quick' else 16):
                m = xg.mutate(s, bld, e, r)
                if m is not None:
                    add('mut', '%s:%s' % (rname, m[0]), m[1])
    s.info['selfcheck'] = selfcheck[0]
    return s, bld, val, out


def instances_for_schema(seed, si, tier):
    """worker: -> dict with the schema documents and the packed instances
    (family, label, xml text, violated rules, expected tree or None, feature tags)"""
    s, bld, val, out = gen_instances(seed, si, tier)
    docs = xg.Renderer(s).documents()
    packed = []
    for fam, label, el, res in out:
        rules = tuple(sorted(set(res.errors)))
        tree = compact(res.root) if (res.valid and res.root is not None) else None
        packed.append((fam, label, xg.ser(el), rules, tree, tuple(sorted(res.feats))))
    return {'si': si, 'tns': s.tns, 'docs': docs, 'tags': s.info['tags'], 'instances': packed, 'selfcheck': s.info['selfcheck'],
            'shape': particle_shape(s.info['focus'])}


def particle_shape(t):
    def sh(p):
        if p is None:
            return '-'
        occ = '{%s,%s}' % (p[-2], '*' if p[-1] is None else p[-1])
        if p[0] == 'e':
            return 'e' + occ
        if p[0] == 'any':
            return 'any[%s,%s]' % (p[1][0], p[2]) + occ
        return p[0] + '(' + ','.join(sh(x) for x in p[1]) + ')' + occ
    if t.simple:
        return 'simple'
    return '%s:%s' % (t.content + ('/mixed' if t.mixed else ''), sh(t.particle))


def ns_decl_text(tns):
    class _S:
        pass
    o = _S()
    o.tns = tns
    return xg.ns_decls(o)


def wrap_single(tns, xml):
    m = re.match(r'<[^\s/>]+', xml)
    return (xml[:m.end()] + ns_decl_text(tns) + xml[m.end():]).encode()


def wrap_batch(tns, xmls):
    w = xg.qname(tns, 'w')
    return ('<%s%s>\n' % (w, ns_decl_text(tns)) + '\n'.join(xmls) + '\n</%s>' % w).encode()


# ---------------------------------------------------------------------------------------------------------------------
#  broken schemas: (name, needs full checking, broken schema body, repaired body); the instance is <t:r/>
# ---------------------------------------------------------------------------------------------------------------------
def broken_schemas():
    H = '<xs:schema xmlns:xs="http://www.w3.org/2001/XMLSchema" targetNamespace="urn:t" xmlns:t="urn:t" elementFormDefault="qualified">%s</xs:schema>'
    R = '<xs:element name="r"><xs:complexType><xs:sequence>%s</xs:sequence>%s</xs:complexType></xs:element>'
    A = '<xs:element name="a" type="xs:int" %s/>'
    L = []

    def add(name, full, broken, fixed, inst='', binst=None):
        # inst: children of <t:r> that make the instance valid against the repaired twin; binst: children that would be valid against
        # the broken schema under every reading (then any error at all is the schema error; otherwise the error must be located
        # in the schema document)
        doc = '<t:r xmlns:t="urn:t" xmlns:xsi="http://www.w3.org/2001/XMLSchema-instance" xsi:schemaLocation="urn:t s.xsd">%s</t:r>'
        L.append((name, full, (H % broken).encode(), (H % fixed).encode(), (doc % inst).encode(), (doc % binst).encode() if binst is not None else None))
    a1, b1 = '<t:a>1</t:a>', '<t:b>1</t:b>'
    add('upa-element-element', True, R % (A % 'minOccurs="0"' + A % '', ''), R % (A % 'minOccurs="0"' + '<xs:element name="b" type="xs:int"/>', ''), b1, a1)
    add('upa-wildcard-element', True, R % ('<xs:any namespace="##any" processContents="skip" minOccurs="0"/>' + A % '', ''),
        R % ('<xs:any namespace="##other" processContents="skip" minOccurs="0"/>' + A % '', ''), a1, a1)
    add('upa-choice-same-name', True, R % ('<xs:choice>' + A % '' + A % '' + '</xs:choice>', ''), R % ('<xs:choice>' + A % '' + '<xs:element name="b" type="xs:int"/></xs:choice>', ''), a1, a1)
    add('upa-repeated-optional-tail', True, R % ('<xs:sequence maxOccurs="2">' + A % '' + A % 'minOccurs="0"' + '</xs:sequence>', ''),
        R % ('<xs:sequence maxOccurs="2">' + A % '' + '<xs:element name="b" type="xs:int" minOccurs="0"/></xs:sequence>', ''), a1, a1)
    add('duplicate-global-element', False, R % ('', '') + R % ('', ''), R % ('', ''))
    add('duplicate-global-type', False, R % ('', '') + '<xs:complexType name="X"/><xs:complexType name="X"/>', R % ('', '') + '<xs:complexType name="X"/>')
    add('duplicate-attribute', False, R % ('', '<xs:attribute name="q" type="xs:int"/><xs:attribute name="q" type="xs:int"/>'), R % ('', '<xs:attribute name="q" type="xs:int"/>'))
    add('min-greater-than-max', False, R % (A % 'minOccurs="3" maxOccurs="2"', ''), R % (A % 'minOccurs="2" maxOccurs="3"', ''), a1 + a1)
    add('group-min-greater-than-max', False, R % ('<xs:sequence minOccurs="2" maxOccurs="1">' + A % '' + '</xs:sequence>', ''), R % ('<xs:sequence minOccurs="1" maxOccurs="2">' + A % '' + '</xs:sequence>', ''), a1)
    B0 = '<xs:complexType name="B"><xs:sequence>' + A % 'minOccurs="0"' + '</xs:sequence>%s</xs:complexType>'
    D0 = '<xs:complexType name="D"><xs:complexContent><xs:restriction base="t:B"><xs:sequence>%s</xs:sequence>%s</xs:restriction></xs:complexContent></xs:complexType>'
    add('restriction-widens-range', True, R % ('', '') + B0 % '' + D0 % (A % 'minOccurs="0" maxOccurs="2"', ''), R % ('', '') + B0 % '' + D0 % (A % 'minOccurs="0" maxOccurs="1"', ''))
    add('restriction-adds-element', True, R % ('', '') + B0 % '' + D0 % (A % 'minOccurs="0"' + '<xs:element name="b" type="xs:int"/>', ''), R % ('', '') + B0 % '' + D0 % (A % '', ''))
    add('restriction-changes-element-type', True, R % ('', '') + B0 % '' + D0 % ('<xs:element name="a" type="xs:string" minOccurs="0"/>', ''), R % ('', '') + B0 % '' + D0 % ('<xs:element name="a" type="xs:short" minOccurs="0"/>', ''))
    add('restriction-relaxes-required-attribute', False, R % ('', '') + B0 % '<xs:attribute name="q" type="xs:int" use="required"/>' + D0 % ('', '<xs:attribute name="q" type="xs:int" use="optional"/>'),
        R % ('', '') + B0 % '<xs:attribute name="q" type="xs:int" use="optional"/>' + D0 % ('', '<xs:attribute name="q" type="xs:int" use="required"/>'))
    add('restriction-adds-attribute', False, R % ('', '') + B0 % '' + D0 % ('', '<xs:attribute name="nw" type="xs:int"/>'), R % ('', '') + B0 % '<xs:attribute name="nw" type="xs:int"/>' + D0 % ('', '<xs:attribute name="nw" type="xs:int"/>'))
    add('restriction-changes-attribute-type', False, R % ('', '') + B0 % '<xs:attribute name="q" type="xs:int"/>' + D0 % ('', '<xs:attribute name="q" type="xs:string"/>'),
        R % ('', '') + B0 % '<xs:attribute name="q" type="xs:int"/>' + D0 % ('', '<xs:attribute name="q" type="xs:short"/>'))
    add('unresolved-type', False, '<xs:element name="r" type="t:Nope"/>', '<xs:element name="r" type="xs:anyType"/>')
    add('unresolved-element-ref', False, R % ('<xs:element ref="t:nope" minOccurs="0"/>', ''), R % ('<xs:element ref="t:r" minOccurs="0"/>', ''))
    add('unresolved-base-type', False, R % ('', '') + '<xs:complexType name="D"><xs:complexContent><xs:extension base="t:Nope"/></xs:complexContent></xs:complexType>',
        R % ('', '') + '<xs:complexType name="D"><xs:complexContent><xs:extension base="xs:anyType"/></xs:complexContent></xs:complexType>')
    add('unresolved-group-ref', False, '<xs:element name="r"><xs:complexType><xs:group ref="t:nope" minOccurs="0"/></xs:complexType></xs:element>',
        '<xs:element name="r"><xs:complexType><xs:group ref="t:G" minOccurs="0"/></xs:complexType></xs:element><xs:group name="G"><xs:sequence>' + A % '' + '</xs:sequence></xs:group>')
    add('unresolved-attribute-group-ref', False, R % ('', '<xs:attributeGroup ref="t:nope"/>'), R % ('', '<xs:attributeGroup ref="t:AG"/>') + '<xs:attributeGroup name="AG"><xs:attribute name="q" type="xs:int"/></xs:attributeGroup>')
    add('unresolved-attribute-ref', False, R % ('', '<xs:attribute ref="t:nope"/>'), R % ('', '<xs:attribute ref="t:ga"/>') + '<xs:attribute name="ga" type="xs:int"/>')
    add('unresolved-substitution-group', False, R % ('', '') + '<xs:element name="m" substitutionGroup="t:nope"/>', R % ('', '') + '<xs:element name="m" substitutionGroup="t:r"/>')
    add('unresolved-attribute-type', False, R % ('', '<xs:attribute name="q" type="t:Nope"/>'), R % ('', '<xs:attribute name="q" type="xs:int"/>'))
    add('circular-type', False, R % ('', '') + '<xs:complexType name="D"><xs:complexContent><xs:extension base="t:D"/></xs:complexContent></xs:complexType>',
        R % ('', '') + '<xs:complexType name="D"><xs:complexContent><xs:extension base="xs:anyType"/></xs:complexContent></xs:complexType>')
    add('circular-type-two-step', False, R % ('', '') + '<xs:complexType name="D"><xs:complexContent><xs:extension base="t:E"/></xs:complexContent></xs:complexType><xs:complexType name="E"><xs:complexContent><xs:extension base="t:D"/></xs:complexContent></xs:complexType>',
        R % ('', '') + '<xs:complexType name="D"><xs:complexContent><xs:extension base="t:E"/></xs:complexContent></xs:complexType><xs:complexType name="E"/>')
    add('circular-group', False, R % ('', '') + '<xs:group name="G"><xs:sequence><xs:group ref="t:G" minOccurs="0"/></xs:sequence></xs:group>',
        R % ('', '') + '<xs:group name="G"><xs:sequence>' + A % '' + '</xs:sequence></xs:group>')
    add('circular-attribute-group', False, R % ('', '') + '<xs:attributeGroup name="AG"><xs:attributeGroup ref="t:AG"/></xs:attributeGroup>',
        R % ('', '') + '<xs:attributeGroup name="AG"><xs:attribute name="q" type="xs:int"/></xs:attributeGroup>')
    add('circular-substitution-group', False, R % ('', '') + '<xs:element name="m" substitutionGroup="t:n"/><xs:element name="n" substitutionGroup="t:m"/>',
        R % ('', '') + '<xs:element name="m" substitutionGroup="t:n"/><xs:element name="n"/>')
    add('circular-simple-type', False, R % ('', '') + '<xs:simpleType name="S"><xs:restriction base="t:S"/></xs:simpleType>', R % ('', '') + '<xs:simpleType name="S"><xs:restriction base="xs:int"/></xs:simpleType>')
    add('all-inside-sequence', False, R % ('<xs:all>' + A % '' + '</xs:all>', ''), '<xs:element name="r"><xs:complexType><xs:all>' + A % 'minOccurs="0"' + '</xs:all></xs:complexType></xs:element>')
    add('all-element-max-2', False, '<xs:element name="r"><xs:complexType><xs:all>' + A % 'minOccurs="0" maxOccurs="2"' + '</xs:all></xs:complexType></xs:element>',
        '<xs:element name="r"><xs:complexType><xs:all>' + A % 'minOccurs="0" maxOccurs="1"' + '</xs:all></xs:complexType></xs:element>')
    add('element-default-and-fixed', False, R % ('<xs:element name="a" type="xs:int" minOccurs="0" default="1" fixed="1"/>', ''), R % ('<xs:element name="a" type="xs:int" minOccurs="0" default="1"/>', ''))
    add('attribute-default-and-required', False, R % ('', '<xs:attribute name="q" type="xs:int" default="1" use="required"/>'), R % ('', '<xs:attribute name="q" type="xs:int" default="1" use="optional"/>'))
    add('element-ref-and-name', False, R % ('<xs:element ref="t:r" name="x" minOccurs="0"/>', ''), R % ('<xs:element ref="t:r" minOccurs="0"/>', ''))
    add('element-default-invalid-for-type', False, R % ('<xs:element name="a" type="xs:int" minOccurs="0" default="abc"/>', ''), R % ('<xs:element name="a" type="xs:int" minOccurs="0" default="12"/>', ''))
    add('attribute-default-invalid-for-type', False, R % ('', '<xs:attribute name="q" type="xs:int" default="abc"/>'), R % ('', '<xs:attribute name="q" type="xs:int" default="12"/>'))
    add('attribute-fixed-invalid-for-type', False, R % ('', '<xs:attribute name="q" type="xs:boolean" fixed="2"/>'), R % ('', '<xs:attribute name="q" type="xs:boolean" fixed="1"/>'))
    add('extension-of-final-type', False, R % ('', '') + '<xs:complexType name="B" final="extension"/><xs:complexType name="D"><xs:complexContent><xs:extension base="t:B"/></xs:complexContent></xs:complexType>',
        R % ('', '') + '<xs:complexType name="B" final="restriction"/><xs:complexType name="D"><xs:complexContent><xs:extension base="t:B"/></xs:complexContent></xs:complexType>')
    add('restriction-of-final-type', False, R % ('', '') + '<xs:complexType name="B" final="#all"/><xs:complexType name="D"><xs:complexContent><xs:restriction base="t:B"/></xs:complexContent></xs:complexType>',
        R % ('', '') + '<xs:complexType name="B" final="extension"/><xs:complexType name="D"><xs:complexContent><xs:restriction base="t:B"/></xs:complexContent></xs:complexType>')
    add('substitution-member-type-not-derived', False, R % ('', '') + '<xs:element name="hd" type="xs:int"/><xs:element name="m" type="xs:string" substitutionGroup="t:hd"/>',
        R % ('', '') + '<xs:element name="hd" type="xs:int"/><xs:element name="m" type="xs:short" substitutionGroup="t:hd"/>')
    add('substitution-head-final', False, R % ('', '') + '<xs:element name="hd" type="xs:int" final="#all"/><xs:element name="m" type="xs:short" substitutionGroup="t:hd"/>',
        R % ('', '') + '<xs:element name="hd" type="xs:int" final="extension"/><xs:element name="m" type="xs:short" substitutionGroup="t:hd"/>')
    add('extension-mixed-mismatch', False, R % ('', '') + '<xs:complexType name="B"><xs:sequence>' + A % '' + '</xs:sequence></xs:complexType><xs:complexType name="D" mixed="true"><xs:complexContent><xs:extension base="t:B"><xs:sequence><xs:element name="b" type="xs:int"/></xs:sequence></xs:extension></xs:complexContent></xs:complexType>',
        R % ('', '') + '<xs:complexType name="B"><xs:sequence>' + A % '' + '</xs:sequence></xs:complexType><xs:complexType name="D"><xs:complexContent><xs:extension base="t:B"><xs:sequence><xs:element name="b" type="xs:int"/></xs:sequence></xs:extension></xs:complexContent></xs:complexType>')
    add('local-element-same-name-different-type', False, R % (A % '' + '<xs:element name="a" type="xs:string"/>', ''), R % (A % '' + A % '', ''), a1 + a1)
    add('enumeration-not-in-base', False, R % ('', '') + '<xs:simpleType name="S"><xs:restriction base="xs:int"><xs:enumeration value="x"/></xs:restriction></xs:simpleType>',
        R % ('', '') + '<xs:simpleType name="S"><xs:restriction base="xs:int"><xs:enumeration value="1"/></xs:restriction></xs:simpleType>')
    add('nonsense-occurs', False, R % (A % 'minOccurs="-1"', ''), R % (A % 'minOccurs="0"', ''))
    add('unknown-schema-element', False, R % ('', '') + '<xs:elemnt name="x"/>', R % ('', '') + '<xs:element name="x"/>')
    add('anyattribute-twice', False, R % ('', '<xs:anyAttribute/><xs:anyAttribute/>'), R % ('', '<xs:anyAttribute/>'))
    add('simple-content-extends-complex-content', False, R % ('', '') + '<xs:complexType name="B"><xs:sequence>' + A % '' + '</xs:sequence></xs:complexType><xs:complexType name="D"><xs:simpleContent><xs:extension base="t:B"/></xs:simpleContent></xs:complexType>',
        R % ('', '') + '<xs:complexType name="B"><xs:simpleContent><xs:extension base="xs:int"/></xs:simpleContent></xs:complexType><xs:complexType name="D"><xs:simpleContent><xs:extension base="t:B"/></xs:simpleContent></xs:complexType>')
    return L




# ---------------------------------------------------------------------------------------------------------------------
#  XSTS regression set shipped with the library
# ---------------------------------------------------------------------------------------------------------------------
def xsts_cases():
    """-> list of (group, test name, kind 'schema'|'instance', href, expected 'valid'|'invalid', [schema hrefs of the group])"""
    root = os.path.join(build.REPO, 'tests', 'src', 'XSTSHarness', 'regression')
    path = os.path.join(root, 'Xerces.testSet')
    if not os.path.exists(path):
        return root, []
    import xml.dom.minidom
    dom = xml.dom.minidom.parse(path)
    out = []
    XL = 'http://www.w3.org/1999/xlink'
    for g in dom.getElementsByTagName('testGroup'):
        gname = g.getAttribute('name')
        schemas = []
        for n in g.childNodes:
            if n.nodeType != n.ELEMENT_NODE:
                continue
            if n.tagName == 'schemaTest':
                hrefs = [d.getAttributeNS(XL, 'href') for d in n.getElementsByTagName('schemaDocument')]
                exp = n.getElementsByTagName('expected')
                if hrefs and exp:
                    out.append((gname, n.getAttribute('name'), 'schema', hrefs, exp[0].getAttribute('validity'), []))
                    if exp[0].getAttribute('validity') == 'valid':
                        schemas += hrefs
            elif n.tagName == 'instanceTest':
                hrefs = [d.getAttributeNS(XL, 'href') for d in n.getElementsByTagName('instanceDocument')]
                exp = n.getElementsByTagName('expected')
                if hrefs and exp:
                    out.append((gname, n.getAttribute('name'), 'instance', hrefs, exp[0].getAttribute('validity'), list(schemas)))
    return root, out


def xsts_ents(root, href):
    """all files below the directory of href, as file:///xv/<relative path>"""
    d = os.path.dirname(os.path.normpath(os.path.join(root, href)))
    ents = []
    for dp, dn, fn in os.walk(d):
        for f in sorted(fn):
            p = os.path.join(dp, f)
            if os.path.getsize(p) < 2000000:
                ents.append(('file:///xv/' + os.path.relpath(p, root).replace(os.sep, '/'), open(p, 'rb').read()))
    return ents


# ---------------------------------------------------------------------------------------------------------------------
def _work(args):
    return instances_for_schema(*args)


# ---------------------------------------------------------------------------------------------------------------------
#  naming a disagreement: shrink the instance, then key = direction + violated rules + explanatory feature tags
# ---------------------------------------------------------------------------------------------------------------------
EXPLAIN = ('attribute-fixed:', 'element-fixed:', 'nil', 'skip:', 'lax:', 'cdata', 'charref', 'ws-only', 'ws-in-empty', 'comment-in', 'xsi-type', 'cm:', 'wildcard-', 'substitution-member', 'overlapping-wildcards',
           'prohibited-attribute-present', 'attribute-wildcard', 'element-default', 'element-fixed', 'mixed-text', 'value-with-whitespace')


def quarantine(key, tags):
    """schemas that contain two wildcards over one namespace (tag overlapping-wildcards) run into the known wildcard
    bookkeeping defect of the scanners (KF-C08-12): which wildcard an element is matched by -- and therefore everything
    judged below it -- is unreliable there.  Every key that comes from such a schema says so, so that the known entry can
    quarantine the construct without hiding the same kind of disagreement in an ordinary schema."""
    if 'overlapping-wildcards' in tags and 'overlapping-wildcards' not in key:
        return key + ':in-schema-with-overlapping-wildcards'
    return key


def explain(feats):
    f = sorted(x for x in feats if x.startswith(EXPLAIN))
    if any(x.startswith('nil') and x != 'nil' for x in f):
        f = [x for x in f if x != 'nil']
    if any(x.startswith('skip:xsi-') for x in f):
        f = [x for x in f if x != 'skip:declared-element']
    if 'ws-only-simple-content' in f:
        f = [x for x in f if x not in ('element-default', 'element-fixed')] + ['element-value-constraint'] if any(x in f for x in ('element-default', 'element-fixed')) else f
    f = [x for x in f if x not in ('element-default-applied', 'element-fixed-applied') or not any(y.startswith(('nil', 'skip:', 'cdata', 'ws-only')) for y in f)]
    return '+'.join(sorted(f))


def reductions(root, bld, schema):
    """single-step simplifications of an instance (biggest cuts first)"""
    out = []
    n = len(xg.all_elements(root))
    for ei in range(n):
        e0 = xg.all_elements(root)[ei]
        ops = [('kid', i) for i in range(len(e0.kids))] + [('att', i) for i in range(len(e0.attrs))]
        ops += [('plain', i) for i, k in enumerate(e0.kids) if isinstance(k, tuple) and k[0] in ('cd', 'cr')]
        if e0.xtype is not None:
            ops.append(('xtype', 0))
        if e0.nil is not None:
            ops.append(('nil', 0))
        if ei > 0 and (e0.ns, e0.local) in schema.elems and (e0.kids or e0.attrs):
            ops.append(('min', 0))
        if ei > 0 and (e0.ns, e0.local) in schema.elems and schema.elems[(e0.ns, e0.local)].subst is not None:
            ops.append(('head', 0))
        for op, i in ops:
            c = root.copy()
            e = xg.all_elements(c)[ei]
            if op == 'kid':
                e.kids.pop(i)
            elif op == 'plain':
                e.kids[i] = e.kids[i][1] if e.kids[i][0] == 'cd' else chr(e.kids[i][1])
            elif op == 'att':
                e.attrs.pop(i)
            elif op == 'xtype':
                e.xtype = None
            elif op == 'nil':
                e.nil = None
            elif op == 'head':
                h = schema.elems[(e.ns, e.local)].subst
                while h.subst is not None:
                    h = h.subst
                e.ns, e.local = h.ns, h.local
            else:
                m = bld.min_instance(schema.elems[(e.ns, e.local)])
                if xg.ser(m) == xg.ser(e):
                    continue
                e.attrs, e.kids, e.xtype, e.nil = m.attrs, m.kids, None, None
            out.append(c)
    out.sort(key=lambda c: len(xg.ser(c)))
    return out


def step_classes(step, nlines=None):
    """verdict class per line of a batch: ({line: 'E'}, fatal line or None, codes per line, positions per line)"""
    bad = collections.defaultdict(list)
    pos = collections.defaultdict(list)
    fatal = None
    for e in step.errs:
        if e[0] == 'F' and fatal is None:
            fatal = e[3]
            bad[e[3]].append('%s%d' % (e[1], e[2]))
            pos[e[3]].append((e[3], e[4]))
        elif e[0] == 'E':
            bad[e[3]].append('%s%d' % (e[1], e[2]))
            pos[e[3]].append((e[3], e[4]))
    return bad, fatal, pos


class Shrinker:
    """lock-step delta debugging of many disagreements: one driver run per round"""

    def __init__(self, ck, binary, tier, nproc):
        self.ck, self.binary, self.tier, self.nproc = ck, binary, tier, nproc
        self.cache = {}

    def schema(self, si):
        if si not in self.cache:
            if len(self.cache) > 40:
                self.cache.clear()
            self.cache[si] = gen_instances(self.ck.seed, si, self.tier)
        return self.cache[si]

    def run(self, items):
        """items: list of dict(si, idx, cfg, obs ('V'|'E'|'F'), docs, tns, codes, pos) -> list of (El, Result, codes, shrunk?, positions)"""
        state = []
        for it in items:
            s, bld, val, out = self.schema(it['si'])
            el = out[it['idx']][2]
            res = out[it['idx']][3]
            state.append({'it': it, 's': s, 'bld': bld, 'val': val, 'el': el, 'res': res, 'active': True, 'rules0': set(res.errors)})
        for rnd in range(16):
            cases = []
            plan = []
            for k, st in enumerate(state):
                if not st['active']:
                    continue
                cands = []
                for c in reductions(st['el'], st['bld'], st['s']):
                    r = st['val'].validate(c, st['s'].elems.get((c.ns, c.local)))
                    if any(e.startswith('unsupported:') for e in r.errors) or r.valid != st['res'].valid:
                        continue
                    if not r.valid and not set(r.errors) <= st['rules0']:
                        continue
                    cands.append((c, r))
                    if len(cands) >= 30:
                        break
                if not cands:
                    st['active'] = False
                    continue
                it = st['it']
                ents = [('file:///xv/' + n, d) for n, d in it['docs']]
                cid = 'shr%d.%d' % (rnd, k)
                cases.append(mk_case(cid, it['cfg'], ents, wrap_batch(it['tns'], [xg.ser(c) for c, _ in cands]), dump=0))
                plan.append((cid, k, cands))
            if not cases:
                break
            recs = core.run_cases(self.binary, cases, tag='c08s', shards=self.nproc)
            for cid, k, cands in plan:
                st = state[k]
                rec = recs.get(cid)
                if rec is None or not rec.complete or rec.crash or rec.hang or not rec.steps():
                    st['active'] = False
                    continue
                step = pc.parse_step(rec.steps()[0])
                if step.status != 'ok':
                    st['active'] = False
                    continue
                bad, fatal, _ = step_classes(step)
                want = st['it']['obs']
                hit = None
                for pos, (c, r) in enumerate(cands):
                    line = pos + 2
                    if fatal is not None and line > fatal:
                        break
                    cls = 'F' if line == fatal else 'E' if line in bad else 'V'
                    if cls == want:
                        hit = (c, r)
                        break
                if hit is None:
                    st['active'] = False
                else:
                    st['el'], st['res'] = hit
        # confirm the shrunk instances stand-alone; otherwise fall back to the original
        cases = []
        for k, st in enumerate(state):
            it = st['it']
            ents = [('file:///xv/' + n, d) for n, d in it['docs']]
            cases.append(mk_case('shc%d' % k, it['cfg'], ents, wrap_single(it['tns'], xg.ser(st['el'])), dump=0))
        recs = core.run_cases(self.binary, cases, tag='c08c', shards=self.nproc) if cases else {}
        out = []
        for k, st in enumerate(state):
            rec = recs.get('shc%d' % k)
            ok = False
            codes, pos = [], []
            if rec is not None and rec.complete and not rec.crash and not rec.hang and rec.steps():
                step = pc.parse_step(rec.steps()[0])
                bad, fatal, posd = step_classes(step)
                codes = sorted(set(x for v in bad.values() for x in v))
                pos = [x for v in posd.values() for x in v]
                cls = 'F' if (fatal is not None or step.status != 'ok') else 'E' if bad else 'V'
                ok = cls == st['it']['obs']
            if not ok:
                s, bld, val, o = self.schema(st['it']['si'])
                st['el'], st['res'] = o[st['it']['idx']][2], o[st['it']['idx']][3]
                codes, pos = st['it'].get('codes', []), st['it'].get('pos', [])
            out.append((st['el'], st['res'], codes, ok, pos))
        return out


def all_nodes(node, out=None):
    if out is None:
        out = []
    out.append(node)
    for k in node.kids:
        all_nodes(k, out)
    return out


def disagreement_key(obs, el, res, codes, positions, tns):
    """name a confirmed disagreement by the element it concerns.  Reference says invalid: the elements at which the
    reference raised a rule; reference says valid: the innermost elements containing the positions of the parser's errors
    (whole-instance tags of the shrunk witness when the position carries none)"""
    nodes = all_nodes(res.root) if res.root is not None else []
    if not res.valid:
        feats = set()
        for n in nodes:
            if n.rules:
                feats |= n.feats
        ex = explain(feats)
        return 'C08:%s:%s%s' % ('accepted-invalid' if obs == 'V' else 'fatal', '+'.join(sorted(set(res.errors))), ':' + ex if ex else '')
    spans = {}
    xg.ser(el, spans=spans, insert=ns_decl_text(tns))
    feats = set()
    cms = set()
    for (line, col) in positions:
        off = col - 1
        best = None
        for n in nodes:
            sp = spans.get(id(n.el))
            if sp and sp[0] < off <= sp[1] and (best is None or sp[1] - sp[0] < best[0]):
                best = (sp[1] - sp[0], n)
        if best is not None:
            feats |= best[1].feats
            if best[1].ctype is not None and not best[1].ctype.simple and best[1].ctype.content == 'elements':
                cms.add('cm:' + xg.cm_class(best[1].ctype))
    head = 'C08:rejected-valid' if obs == 'E' else 'C08:fatal:valid'
    if 'nil-false' in res.feats:
        feats.add('nil-false')      # its effect reaches children and following siblings
    ex = explain(feats) or explain(res.feats)
    if ex:
        return '%s:%s' % (head, ex)
    return '%s:%s:%s' % (head, '+'.join(sorted(cms)) or 'plain', codes[0] if codes else 'error')


def mk_case(cid, cfg, ents, data, dump=1):
    cmd, api, sc, full = cfg
    if cmd == 'parse':
        opt = dict(api=api, scanner=sc, val='always', schema=1, full=full, ns=1, ic=1, loc=0, dump=dump)
    else:
        opt = dict(api=api, scanner=sc, full=full, ic=1, dump=dump)
    return core.Case(cid, cmd, opt, ents=ents).doc(data)


# ---------------------------------------------------------------------------------------------------------------------
NEED_RULES = ['content-model-mismatch', 'child-not-allowed', 'required-attribute-missing', 'attribute-not-allowed', 'nil-not-empty', 'nil-not-nillable',
              'xsitype-not-derived', 'abstract-element', 'text-in-element-only', 'attribute-value-invalid', 'simple-value-invalid', 'strict-wildcard-no-declaration']
NEED_TAGS = ['all-group', 'wildcard-other', 'substitution-head-particle', 'extension', 'restriction', 'prohibited-attribute', 'content-mixed', 'content-simple', 'content-empty', 'abstract-head']


def coverage_gaps(cov):
    return ['rule never exercised: ' + ru for ru in NEED_RULES if not cov['rules'].get(ru)] + ['schema feature never generated: ' + tg for tg in NEED_TAGS if not cov['tags'].get(tg)]


def stage_generated(ck, binary, tier, nproc, cov):
    nschemas = int(os.environ.get('XV_C08_N', 32 if tier == 'quick' else 160))     # XV_C08_N: development knob
    chunk = 32 if tier == 'quick' else 50
    stats, fam, rules_seen, tags, codes, cfg_seen, skipped = (cov[k] for k in ('stats', 'fam', 'rules', 'tags', 'codes', 'cfg', 'skipped'))
    shapes = cov['shapes']
    sampled = [0]
    shr = Shrinker(ck, binary, tier, nproc)
    with ProcessPoolExecutor(nproc) as ex:
        only = [int(x) for x in os.environ.get('XV_C08_SI', '').split(',') if x]      # development knob: explicit schema indices
        c0 = -chunk
        while True:
            c0 += chunk
            if c0 >= nschemas:
                # the targeted rules and schema features must all have been exercised: the bound is a number of schemas, and
                # which of them carries a rare construct depends on the seed -- go on (bounded) until nothing is missing
                if only or not coverage_gaps(cov) or nschemas >= (4 if tier == 'quick' else 2) * int(os.environ.get('XV_C08_N', 32 if tier == 'quick' else 160)):
                    break
                ck.note('coverage gaps after %d schemas (%s): 16 more' % (nschemas, '; '.join(coverage_gaps(cov))))
                nschemas += 16
                chunk = 16
                c0 = nschemas - 16
            sis = list(range(c0, min(nschemas, c0 + chunk))) if not only else (only if c0 == 0 else [])
            if not sis:
                break
            works = list(ex.map(_work, [(ck.seed, si, tier) for si in sis]))
            cases = []
            meta = {}
            for w in works:
                tags.update(w['tags'])
                shapes.add(w['shape'])
                stats['oracle_selfcheck_sequences'] += w['selfcheck']
                w['ents'] = [('file:///xv/' + n, d) for n, d in w['docs']]
                inst = w['instances']
                r = core.rng(ck.seed, PID, 'cfg', w['si'])
                usable = [i for i, x in enumerate(inst) if not any(ru.startswith('unsupported:') for ru in x[3])]
                skipped['unsupported-instance'] += len(inst) - len(usable)
                order = list(CONFIGS)
                r.shuffle(order)
                k = 0
                for b0 in range(0, len(usable), BATCH):
                    idx = usable[b0:b0 + BATCH]
                    data = wrap_batch(w['tns'], [inst[i][2] for i in idx])
                    base = order[k % len(order)]
                    k += 1
                    # both scanners for every batch; API / full checking / command rotate; the second run is verdict-only
                    for n in range(2):
                        sc = base[2] if n == 0 else ('SG' if base[2] == 'IG' else 'IG')
                        cfg = (base[0], base[1], sc, base[3] if n == 0 else 1 - base[3])
                        cid = 's%d.b%d.%s' % (w['si'], b0, '.'.join(map(str, cfg)))
                        cases.append(mk_case(cid, cfg, w['ents'], data, dump=1 if n == 0 else 0))
                        meta[cid] = (w, idx, False, cfg)
                for i in r.sample(usable, min(len(usable), 16 if tier == 'quick' else 40)):
                    cfg = r.choice(CONFIGS)
                    cid = 's%d.i%d.%s' % (w['si'], i, '.'.join(map(str, cfg)))
                    cases.append(mk_case(cid, cfg, w['ents'], wrap_single(w['tns'], inst[i][2])))
                    meta[cid] = (w, [i], True, cfg)
            ck.note('chunk %d: %d schemas generated, %d cases' % (c0, len(works), len(cases)))
            recheck = []        # (w, i, cfg, class seen in the batch)
            confirmed = []      # (w, i, cfg, class, codes, positions) -- seen on a stand-alone document
            rounds = 0
            while cases and rounds < 12:
                rounds += 1
                recs = core.run_cases(binary, cases, tag='c08', shards=nproc)
                nxt = []
                for c in cases:
                    w, idx, single, cfg = meta[c.id]
                    rec = recs.get(c.id)
                    if rec is None or not rec.complete or rec.crash or rec.hang or not rec.steps():
                        if rec is not None:
                            ck.crash_violation(rec, c, 'C08:')
                        continue
                    st = pc.parse_step(rec.steps()[0])
                    cfg_seen['%s/%s/%s/full=%s' % cfg] += 1
                    if st.status != 'ok':
                        ck.violation('C08:exception:%s' % (st.exc[0][0] if st.exc else '?'), 'exception escaped the parse of a well-formed instance of a valid schema',
                                     {'case': c.to_json(), 'errs': st.errs[:4], 'exc': st.exc})
                        continue
                    schema_err = [e for e in st.errs if e[0] in ('E', 'F') and not (e[5] or '').endswith('doc.xml')]
                    if schema_err:
                        ck.violation('C08:rejected-valid-schema:%s:code%d' % (schema_err[0][1], schema_err[0][2]),
                                     'a generated (valid, UPA-clean) schema was reported as erroneous', {'case': c.to_json(), 'errs': schema_err[:4], 'tags': w['tags']})
                        continue
                    bad, fatal, posd = step_classes(st)
                    for e in st.errs:
                        if e[0] in ('E', 'F'):
                            codes['%s:%s:%d' % (e[0], e[1], e[2])] += 1
                    if not single and (1 in bad or (len(idx) + 2) in bad):
                        ck.violation('C08:wrapper-error', 'error reported on the wrapper element of a batch', {'case': c.to_json(), 'errs': st.errs[:4]})
                        continue
                    trees = None
                    for pos, i in enumerate(idx):
                        f_, label, xml, rules, tree, feats = w['instances'][i]
                        line = 1 if single else pos + 2
                        if fatal is not None and line > fatal:
                            # the parse stopped at a fatal error: the rest of the batch goes into a new document
                            rest = idx[pos:]
                            cid = c.id + '+'
                            nxt.append(mk_case(cid, cfg, w['ents'], wrap_batch(w['tns'], [w['instances'][x][2] for x in rest]), dump=c.opt.get('dump', 1)))
                            meta[cid] = (w, rest, False, cfg)
                            break
                        cls = 'F' if (fatal is not None and (single or line == fatal)) else 'E' if (bad if single else line in bad) else 'V'
                        exp = 'E' if rules else 'V'
                        ck.evaluations += 1
                        if cls != exp:
                            if single:
                                confirmed.append((w, i, cfg, cls, sorted(set(x for v in bad.values() for x in v)), [x for v in posd.values() for x in v]))
                            else:
                                prior = set()
                                for x in idx[:pos]:
                                    prior.update(w['instances'][x][5])
                                recheck.append((w, i, cfg, cls, c, (line, 'after-nil-false' if 'nil-false' in prior else 'plain')))
                            continue
                        fam[f_ + ('_valid' if exp == 'V' else '_invalid')] += 1
                        for ru in rules:
                            rules_seen[ru] += 1
                        ck.add_distinct(core.h(w['si'], xml))
                        if exp == 'V' and tree is not None and c.opt.get('dump', 1) != 0:
                            if trees is None:
                                tl = observed_trees(rec.steps()[0])
                                trees = tl[0].kids if (not single and tl) else tl
                            if pos >= len(trees):
                                ck.violation('C08:report:structure', 'reported element structure differs from the instance', {'case': c.to_json()})
                                continue
                            mode = 'psvi' if (cfg[0] == 'psvi' and cfg[1] == 'sax2') else 'dom' if cfg[0] == 'psvi' else 'sax'
                            diffs = []
                            compare_tree(tree, trees[pos], mode, diffs)
                            stats['report_compared_' + mode] += 1
                            if diffs:
                                d = diffs[0]
                                ck.violation(quarantine('C08:report:%s:%s:%s' % (d[0], mode, explain(feats) or 'plain'), w['tags']), 'valid instance: reported %s differs from the governing declaration: %r' % (d[0], d[1:]),
                                             {'case': c.to_json(), 'instance': xml, 'schema': w['docs'][0][1].decode(), 'diffs': [list(map(str, x)) for x in diffs[:5]], 'tags': w['tags']})
                            elif sampled[0] < 3 and f_ == 'tree':
                                sampled[0] += 1
                                ck.sample({'schema': w['docs'][0][1].decode()[:3000], 'instance': xml[:600], 'expected': 'valid; reported types/defaults equal governing declarations', 'config': list(cfg), 'observed': 'no error; tree compared (%s)' % mode})
                cases = nxt
            ck.note('chunk %d: main runs done (%d rounds), %d to re-check' % (c0, rounds, len(recheck)))
            # disagreements seen in a batch: decide on the stand-alone document
            if recheck:
                rc = []
                rmeta = {}
                for n, (w, i, cfg, bcls, bcase, bline) in enumerate(recheck):
                    cid = 'rc%d.s%d.i%d' % (n, w['si'], i)
                    rc.append(mk_case(cid, cfg, w['ents'], wrap_single(w['tns'], w['instances'][i][2]), dump=0))
                    rmeta[cid] = (w, i, cfg, bcls, bcase, bline)
                rrecs = core.run_cases(binary, rc, tag='c08r', shards=nproc)
                for c in rc:
                    w, i, cfg, bcls, bcase, bline = rmeta[c.id]
                    f_, label, xml, rules, tree, feats = w['instances'][i]
                    rec = rrecs.get(c.id)
                    if rec is None or not rec.complete or rec.crash or rec.hang or not rec.steps():
                        if rec is not None:
                            ck.crash_violation(rec, c, 'C08:')
                        continue
                    st = pc.parse_step(rec.steps()[0])
                    bad, fatal, posd = step_classes(st)
                    cls = 'F' if (fatal is not None or st.status != 'ok') else 'E' if bad else 'V'
                    stats['batch_disagreements_rechecked'] += 1
                    if cls != bcls:
                        # situation tag: the instance's own construct class; only a plain instance is attributed to what preceded it
                        ck.violation(quarantine('C08:context-dependent:%s:%s' % ('+'.join(rules) or 'valid', explain(feats) or bline[1]), w['tags']),
                                     'verdict class for the same element differs between stand-alone document and as a child of the wrapper (%s vs %s)' % (cls, bcls),
                                     {'case': bcase.to_json(), 'line_in_batch': bline[0], 'stand_alone_case': c.to_json(), 'instance': xml, 'schema': w['docs'][0][1].decode()})
                    if cls != ('E' if rules else 'V'):
                        confirmed.append((w, i, cfg, cls, sorted(set(x for v in bad.values() for x in v)), [x for v in posd.values() for x in v]))
            # name and report confirmed disagreements (one shrink per signature; members share the key)
            groups = collections.OrderedDict()
            for m in confirmed:
                (w, i, cfg, cls, ecodes, pos) = m
                f_, label, xml, rules, tree, feats = w['instances'][i]
                groups.setdefault((cls, rules, explain(feats), tuple(ecodes)), []).append(m)
            ck.note('chunk %d: re-check done, %d confirmed in %d signatures' % (c0, len(confirmed), len(groups)))
            reps = [g[0] for g in groups.values()]
            items = [{'si': w['si'], 'idx': i, 'cfg': cfg, 'obs': cls, 'docs': w['docs'], 'tns': w['tns'], 'codes': ec, 'pos': ps} for (w, i, cfg, cls, ec, ps) in reps]
            shrunk = shr.run(items) if items else []
            for (sig, members), (el, res, scodes, ok, pos) in zip(groups.items(), shrunk):
                w, i, cfg, cls, ecodes, _p = members[0]
                f_, label, xml, rules, tree, feats = w['instances'][i]
                key = quarantine(disagreement_key(cls, el, res, scodes, pos, w['tns']), w['tags'])
                wc = mk_case('witness', cfg, w['ents'], wrap_single(w['tns'], xg.ser(el)))
                names = {'V': 'valid', 'E': 'invalid (errors)', 'F': 'FATAL error'}
                for _ in members:
                    ck.violation(key, 'reference says %s (%s), parser says %s' % ('valid' if res.valid else 'invalid', ','.join(sorted(set(res.errors))), names[cls]),
                                 {'case': wc.to_json(), 'instance': xg.ser(el), 'original_instance': xml, 'schema': w['docs'][0][1].decode(), 'expected_errors': sorted(set(res.errors)),
                                  'observed_class': cls, 'observed_codes': scodes, 'features': sorted(res.feats), 'shrunk': ok, 'tags': w['tags'], 'family': f_})
            ck.note('schemas %d..%d done, evaluations=%d, disagreements=%d in %d classes' % (c0, c0 + len(works), ck.evaluations, len(confirmed), len(groups)))
    cov['nschemas'] = nschemas


def stage_broken(ck, binary, nproc, cov):
    stats, skipped = cov['stats'], cov['skipped']
    cases = []
    bmeta = {}
    for (name, needs_full, broken, fixed, inst, binst) in broken_schemas():
        for variant, data in (('broken', broken), ('fixed', fixed)):
            for cfg in (('parse', 'sax2', 'IG', 1), ('parse', 'dom', 'SG', 1), ('parse', 'sax2', 'SG', 0), ('psvi', 'dom', 'IG', 0)):
                cid = 'bs.%s.%s.%s' % (name, variant, '.'.join(map(str, cfg)))
                cases.append(mk_case(cid, cfg, [('file:///xv/s.xsd', data)], binst if (variant == 'broken' and binst is not None) else inst, dump=0))
                bmeta[cid] = (name, needs_full, variant, cfg, binst is not None)
    recs = core.run_cases(binary, cases, tag='c08b', shards=nproc)
    for c in cases:
        name, needs_full, variant, cfg, any_counts = bmeta[c.id]
        rec = recs.get(c.id)
        if rec is None or not rec.complete or rec.crash or rec.hang:
            if rec is not None:
                ck.crash_violation(rec, c, 'C08:')
            continue
        st = pc.parse_step(rec.steps()[0])
        ck.evaluations += 1
        if st.status in ('exc', 'foreign'):
            ck.violation('C08:schema-exception:%s' % name, 'exception instead of an error report while loading a schema', {'case': c.to_json(), 'exc': st.exc})
            continue
        any_err = any(e[0] in ('E', 'F') for e in st.errs)
        if variant == 'fixed':
            if any_err:
                ck.violation('C08:rejected-valid-schema:%s' % name, 'the repaired twin of a broken schema (with a valid instance) was reported as erroneous',
                             {'case': c.to_json(), 'schema': c.ents[0][1].decode(), 'errs': st.errs[:4]})
            else:
                stats['schema_fixed_clean'] += 1
                ck.add_distinct(core.h('bs', name, variant, cfg))
            continue
        if needs_full and not cfg[3]:
            skipped['broken-schema-decided-only-under-full-checking'] += 1
            continue
        schema_err = any(e[0] in ('E', 'F') and not (e[5] or '').endswith('doc.xml') for e in st.errs) or (any_counts and any_err)
        if not schema_err:
            ck.violation('C08:accepted-invalid-schema:%s' % name, 'a schema violating a constraint on schema components is used without any error',
                         {'case': c.to_json(), 'schema': c.ents[0][1].decode()})
        else:
            stats['schema_broken_reported'] += 1
            cov['codes'].update('%s:%d' % (e[1], e[2]) for e in st.errs if e[0] in ('E', 'F'))
            ck.add_distinct(core.h('bs', name, variant, cfg))


def stage_xsts(ck, binary, nproc, cov, tier='quick'):
    stats, skipped = cov['stats'], cov['skipped']
    root, tests = xsts_cases()
    cases = []
    xmeta = {}

    def sysid(h):
        return 'file:///xv/' + os.path.normpath(h).replace(os.sep, '/')
    for (g, name, kind, hrefs, expected, schemas) in tests:
        if expected not in ('valid', 'invalid'):
            continue
        if tier == 'quick' and g.startswith('XERCESC-1051'):
            skipped['xsts-slow-large-maxOccurs(quick tier; documented limitation)'] += 1
            continue
        ents = xsts_ents(root, hrefs[0])
        if sum(len(d) for _, d in ents) > 3000000:
            skipped['xsts-too-large'] += 1
            continue
        for sc in ('IG', 'SG'):
            cid = 'xsts.%s.%s' % (name, sc)
            c = core.Case(cid, 'parse', dict(api='sax2', scanner=sc, val='always', schema=1, full=1, ns=1, ic=1, nspfx=1, multiimport=1, usecached=1, loc=0, dump=0, resmiss='empty'), ents=ents)
            for sh in (schemas if kind == 'instance' else hrefs):
                p = os.path.normpath(os.path.join(root, sh))
                if os.path.exists(p):
                    c.doc(open(p, 'rb').read(), op='loadgrammar', gtype='xsd', tocache=1, sysid=sysid(sh))
            if kind == 'instance':
                p = os.path.normpath(os.path.join(root, hrefs[0]))
                if not os.path.exists(p):
                    continue
                c.doc(open(p, 'rb').read(), sysid=sysid(hrefs[0]))
            cases.append(c)
            xmeta[cid] = (g, name, kind, expected)
    recs = core.run_cases(binary, cases, tag='c08x', shards=nproc, per_case_timeout=120.0)
    for c in cases:
        g, name, kind, expected = xmeta[c.id]
        rec = recs.get(c.id)
        if rec is None or not rec.complete or rec.crash or rec.hang:
            if rec is not None:
                ck.crash_violation(rec, c, 'C08:xsts:')
            continue
        steps = pc.parse_record(rec)
        if not steps:
            continue
        # a resource that the case does not carry (absolute URL, directory outside the test) was asked for: not decidable here
        if any(len(s_.res) > len(s_.srv) for s_ in steps):
            skipped['xsts-needs-unavailable-resource'] += 1
            continue
        if kind == 'instance':
            if any(s_.errs or s_.status != 'ok' for s_ in steps[:-1]):
                skipped['xsts-instance-schema-not-clean'] += 1
                continue
            judged = [steps[-1]]
        else:
            judged = steps
        bad = any(e[0] in ('E', 'F') for s_ in judged for e in s_.errs) or any(s_.status != 'ok' for s_ in judged) or \
            (kind == 'schema' and any(('GRAMMAR', '0') in s_.events for s_ in judged))
        ck.evaluations += 1
        obs = 'invalid' if bad else 'valid'
        if obs != expected:
            ck.violation('C08:xsts:%s:%s' % (name, 'accepted-invalid' if expected == 'invalid' else 'rejected-valid'),
                         'XSTS regression test %s (%s): labelled %s, parser says %s' % (name, kind, expected, obs), {'case': c.to_json(), 'errs': [e for s_ in judged for e in s_.errs][:4]})
        else:
            stats['xsts_' + kind + '_' + expected] += 1
            ck.add_distinct(core.h('xsts', name, c.opt['scanner']))


def run(tier):
    ck = core.Check(PID, tier)
    binary = build.ensure('asan', parts=['parse', 'domdump', 'psvi'])
    nproc = max(2, min(core.NCPU, int(os.environ.get('XV_PROCS', core.NCPU))))
    cov = {k: collections.Counter() for k in ('stats', 'fam', 'rules', 'tags', 'codes', 'cfg', 'skipped')}
    cov['shapes'] = set()
    stages = os.environ.get('XV_C08_STAGES', 'generated,broken,xsts').split(',')      # development knob
    if 'generated' in stages:
        stage_generated(ck, binary, tier, nproc, cov)
    if 'broken' in stages:
        stage_broken(ck, binary, nproc, cov)
    if 'xsts' in stages:
        stage_xsts(ck, binary, nproc, cov, tier)
    rules_seen, tags = cov['rules'], cov['tags']
    ck.rule = ('distinct (schema, instance) pairs whose verdict was decided by the reference validator and agreed; every instance is non-trivial in that it exercises the focus type '
               '(exhaustive child sequences to a per-alphabet bound, neighbours of valid words, attribute subsets, random trees and single-rule mutants); plus broken/repaired schema twins and XSTS regression tests')
    ck.cov['stats'] = dict(cov['stats'])
    ck.cov['families'] = dict(cov['fam'])
    ck.cov['invalidity_rules_exercised'] = dict(rules_seen)
    ck.cov['schema_feature_tags'] = dict(tags)
    ck.cov['focus_content_model_shapes'] = len(cov['shapes'])
    ck.cov['configurations'] = dict(cov['cfg'])
    ck.cov['error_codes_observed'] = dict(cov['codes'])
    ck.cov['skipped'] = dict(cov['skipped'])
    ck.cov['schemas'] = cov.get('nschemas', 0)
    ck.cov['psvi_validity_flag_not_valid_on_error_free_instances'] = dict(PSVI_VALIDITY_OBS)
    if 'generated' in stages:
        ck.inconclusive += coverage_gaps(cov)
    if core.WATCHDOG_FALSE_ALARMS:
        ck.cov['watchdog_false_alarms'] = len(core.WATCHDOG_FALSE_ALARMS)
    ck.assumptions = ['generated schemas are UPA-clean and valid by construction (checked by the generator: no two particles of a content model can match one name)',
                      'XSD 1.0 Second Edition semantics: ##other excludes the absent namespace; substitution blocking takes intermediate types into account',
                      'reported text / attribute values are compared only where no whitespace normalisation is involved',
                      'UPA and particle-derivation violations are expected to be reported only under full schema checking (documented switch)']
    return ck.finish()


def replay(j):
    w = j['witness']
    c = core.Case.from_json(w['case'])
    binary = build.ensure('asan', parts=['parse', 'domdump', 'psvi'])
    c.opt['dump'] = 1
    recs = core.run_cases(binary, [c], shards=1)
    rec = recs[c.id]
    for sid, data in c.ents[:3]:
        print('---', sid)
        print(data.decode('utf-8', 'replace')[:4000])
    print('--- instance')
    print(w.get('instance') or c.steps[-1][1].decode('utf-8', 'replace')[:3000])
    print('expected:', w.get('expected_errors'), '| recorded:', j['what'])
    lines = [l for l in rec.lines if l.startswith(('ERR', 'EXC', 'R\t'))]
    print('observed:', '\n'.join(lines[-12:]))
    st = pc.parse_step(rec.steps()[-1]) if rec.steps() else None
    if st is None:
        return 1
    exp = w.get('expected_errors')
    if exp is not None:
        cls = 'F' if (st.fatal() or st.status != 'ok') else 'E' if any(e[0] == 'E' for e in st.errs) else 'V'
        print('expected class:', 'E' if exp else 'V', 'observed class:', cls)
        return 1 if cls != ('E' if exp else 'V') else 0
    return 1
