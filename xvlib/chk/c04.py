"""C04: the parse result does not depend on how the input stream chunks its bytes, on where constructs fall
relative to the reader's internal buffers (16K chars / 48K raw bytes), or on the kind of source.
Oracle: equality with the one-shot in-memory parse of the same bytes by the same build (events, error codes,
error positions)."""
import collections
from .. import core, build, parsecmp as pc
from ..gen import xmlgen, xmlmut

PID = 'C04'
# schedules whose first read may be shorter than the BOM + XML declaration (known finding F05 when it is) ...
SHORT_FIRST = ['1', '2', '3', '7', 'r%dm5', 'l1,*', 'l3,1,1,*']
# ... and schedules whose first read covers the declaration, hostile afterwards
SCHEDULES = SHORT_FIRST + ['f400:1', 'f400:2', 'f400:3', 'f400:7', 'f400:r%dm5', 'f400:r%dm64', 'f400:l1,1,1,*', 'l4096,1,1,1,*', 'l49151,2,*', 'l16383,1,1,*', 'f16384:1']


def decl_end(data):
    """number of leading bytes up to and including the first '>' of the entity (BOM included): the reader's
    constructor auto-senses the encoding and decodes this "first line" from what the FIRST read delivered"""
    for bom, enc in ((b'\xef\xbb\xbf', 'utf-8'), (b'\xff\xfe', 'utf-16-le'), (b'\xfe\xff', 'utf-16-be')):
        if data.startswith(bom):
            rest = data[len(bom):]
            gt = '>'.encode(enc)
            k = 0
            while True:
                k = rest.find(gt, k)
                if k < 0 or k % len(gt) == 0:
                    break
                k += 1
            return len(bom) + (k + len(gt) if k >= 0 else len(rest))
    k = data.find(b'>')
    return k + 1 if k >= 0 else len(data)


def first_read(spec):
    """upper bound of the size of the first read under a schedule"""
    if spec.startswith('f'):
        return int(spec[1:spec.index(':')])
    if spec.startswith('l'):
        v = spec[1:].split(',')[0]
        return 10 ** 9 if v == '*' else int(v)
    if spec.startswith('r'):
        return 1           # may be as small as one byte
    return int(spec)


def sig(st, with_sysid=False, line_shift=0):
    """comparable signature of a parsed step: events + errors (code, line, col) + status"""
    errs = [(e[0], e[1], e[2], e[3], e[4]) for e in st.errs]
    eh = [(e[0], e[1], e[2]) for e in st.eh]
    return (tuple(st.events), tuple(errs), tuple(eh), st.status, tuple(x[0] for x in st.exc))


def describe_diff(a, b):
    for name, x, y in (('events', a[0], b[0]), ('errors', a[1], b[1]), ('handler-errors', a[2], b[2]), ('status', a[3], b[3]), ('exception', a[4], b[4])):
        if x != y:
            if isinstance(x, tuple) and isinstance(y, tuple):
                d = pc.first_diff(list(x), list(y))
                return name, repr(d)[:500]
            return name, '%r vs %r' % (x, y)
    return None


def make_inputs(ck, n, tag):
    """list of dict(bytes, kind, enc, text)"""
    out = []
    for i in range(n):
        r = core.rng(ck.seed, PID, tag, i)
        g = xmlgen.make(r)
        item = {'bytes': g['bytes'], 'kind': 'wf', 'enc': g['encoding'], 'ns': g['cx'].ns, 'tags': g['cx'].tags, 'ents': g['ents']}
        if r.random() < 0.45:
            ops = list(xmlmut.ALL_OPS)
            r.shuffle(ops)
            for opn in ops:
                o = xmlmut.OPS.get(opn)
                if o and o['ns_only'] and not g['cx'].ns:
                    continue
                m = xmlmut.mutate(g, r, opn)
                if m:
                    item = {'bytes': m['bytes'], 'kind': 'mut:' + opn, 'enc': g['encoding'], 'ns': g['cx'].ns, 'tags': g['cx'].tags, 'ents': g['ents']}
                    break
        out.append(item)
    return out


def slide_doc(r, enc):
    """a document with one instance of each boundary-sensitive construct, to be slid across buffer boundaries"""
    body = ('<r a="v&#x10000;w" b=\'x&amp;y\'>t1\r\nt2\r&#13;<![CDATA[c]]>d]]&gt;<!--k--><?p q?>&lt;\U00010000中é'
            '<e xmlns:p="urn:x" p:a="1"/>&#65;&#x42;<long_element_name_abcdefghijklmnopqrstuvwxyz attr_name_0123456789="value"></long_element_name_abcdefghijklmnopqrstuvwxyz>'
            '</r>')
    return body


def run(tier):
    ck = core.Check(PID, tier)
    binary = build.ensure('asan', parts=['parse', 'domdump'])
    stats = collections.Counter()
    n = 500 if tier == 'quick' else 12000
    rounds = 1 if tier == 'quick' else 6
    schedc = collections.Counter()
    # ------------------------------------------------------------------ part A: chunk schedules and sources
    pinned = [
        # witnesses of the known findings, replayed on every run with the schedule that exposes them
        {'bytes': '<?xml version="1.0" encoding="UTF-16"?><a>t</a>'.encode('utf-16'), 'kind': 'pinned:F05', 'enc': 'UTF-16LE', 'ns': True, 'tags': set(), 'sched': ['1', 'l1,*']},
        {'bytes': b'<?p?><?xml version="1.0" encoding="ISO-8859-1"?><a>' + b'x' * 500 + b'\xe9</a>', 'kind': 'pinned:F28', 'enc': 'ISO-8859-1', 'ns': True, 'tags': set(), 'sched': ['f400:1']},
        {'bytes': '<a xmlns:p1="u">1#{a\u2028<p1:M xml:a:b="1"'.encode('utf-8'), 'kind': 'pinned:F27', 'enc': 'UTF-8', 'ns': True, 'tags': set(), 'sched': ['f4:1', 'f4:2']},
    ]
    for rd in range(rounds):
        items = make_inputs(ck, n // rounds, rd)
        if rd == 0:
            items = pinned + items
        cases = []
        meta = {}
        for i, it in enumerate(items):
            r = core.rng(ck.seed, PID, 'cfg', rd, i)
            api = r.choice(['sax2', 'sax2', 'dom', 'sax1', 'domls']) if 'sched' not in it else 'sax2'
            base = dict(api=api, ns=1 if it['ns'] else 0, cont=0)   # continue-after-fatal is documented as undetermined: not compared
            cid = 'r%da%d' % (rd, i)
            cases.append(core.Case(cid + '.mem', 'parse', base, ents=it.get('ents', ())).doc(it['bytes']))
            meta[cid + '.mem'] = (i, 'mem')
            scheds = list(SCHEDULES)
            r.shuffle(scheds)
            if 'sched' in it:
                scheds = it['sched']
            for s in scheds[:7]:
                if '%d' in s:
                    s = s % r.randint(1, 10 ** 6)
                k = cid + '.c' + s
                cases.append(core.Case(k, 'parse', dict(base, src='chunk', chunk=s, chunkents=1), ents=it.get('ents', ())).doc(it['bytes']))
                meta[k] = (i, 'chunk:' + s.split(',')[0][:6])
            for src in ('file', 'stdin'):
                if r.random() < 0.5:
                    k = cid + '.' + src
                    cases.append(core.Case(k, 'parse', dict(base, src=src, sysid='file:///xv/doc.xml'), ents=it.get('ents', ())).doc(it['bytes']))
                    meta[k] = (i, src)
        recs = core.run_cases(binary, cases, tag='c04')
        base_sig = {}
        for c in cases:
            i, how = meta[c.id]
            r_ = recs.get(c.id)
            if r_ is None or not r_.complete or r_.crash or r_.hang:
                if r_ is not None:
                    ck.crash_violation(r_, c, 'C04:')
                continue
            st = pc.parse_record(r_)[0]
            s = sig(st)
            if how == 'mem':
                base_sig[i] = (s, c, st)
                continue
            if i not in base_sig:
                continue
            ck.evaluations += 1
            schedc[how] += 1
            b = base_sig[i][0]
            if how in ('file', 'stdin'):
                pass
            d = describe_diff(b, s)
            it = items[i]
            if d is None:
                if len(st.events) >= 5 or st.errs:
                    ck.add_distinct(core.h(it['bytes'], how, c.opt.get('chunk')))
                continue
            enc = it['enc']
            first_short = how.startswith('chunk') and first_read(c.opt['chunk']) < decl_end(it['bytes'])
            cls = 'short-first-read' if first_short else '%s:%s' % (how.split(':')[0], d[0])
            # a byte sequence that cannot be decoded is reported when the block containing it is transcoded, which can be up to a
            # buffer ahead of the scan position: with two fatal defects in one input, which is reported first depends on chunking
            fe_a = next((e for e in b[1] if e[0] == 'F'), None)
            fe_b = next((e for e in s[1] if e[0] == 'F'), None)
            if not first_short and fe_a and fe_b and fe_a != fe_b and 'XML4CErrors' in (fe_a[1], fe_b[1]):
                cls = 'decode-error-lookahead'
            ck.violation('C04:differs:%s' % cls, 'result differs from the one-shot parse (%s; %s): %s' % (how, it['kind'], d[1][:300]),
                         {'case': c.to_json(), 'baseline_case': base_sig[i][1].to_json(), 'diff': d, 'kind': it['kind'], 'encoding': enc})
    # ------------------------------------------------------------------ part B: slide constructs across buffer boundaries
    r = core.rng(ck.seed, PID, 'slide')
    body = slide_doc(r, 'UTF-8')
    boundaries = [16384, 32768, 49152] if tier == 'quick' else [16384, 32768, 49152, 65536, 98304]
    step = 1
    cases = []
    meta = {}
    encs = [('UTF-8', 'utf-8', b''), ('UTF-16', 'utf-16-le', b'\xff\xfe'), ('ISO-8859-1', None, b'')]
    for encname, codec, bom in encs:
        if codec is None:
            continue
        head = '<?xml version="1.0" encoding="%s"?>' % encname
        for bnd in boundaries:
            # positions of the boundary relative to the body: every offset inside the body (+-8)
            lo = bnd - len(body) - 8
            hi = bnd + 8
            pads = list(range(lo, hi, step))
            if tier == 'quick':
                pads = pads[::3] if encname != 'UTF-8' else pads
            for p in pads:
                # unit of the boundary: characters for the char buffer (16384 chars), bytes for the raw buffer (49152)
                for unit in ('char', 'byte'):
                    if unit == 'byte' and bnd % 49152 != 0:
                        continue
                    if unit == 'char' and bnd % 16384 != 0:
                        continue
                    padlen = p - len(head) - 7 if unit == 'char' else None
                    if unit == 'byte':
                        per = 2 if encname == 'UTF-16' else 1
                        padlen = (p - len(bom)) // per - len(head) - 7 if encname == 'UTF-16' else p - len(head) - 7
                    if padlen is None or padlen < 0:
                        continue
                    text = head + '<!--' + 'x' * padlen + '-->' + body
                    data = bom + text.encode(codec)
                    for api in ('sax2',) if tier == 'quick' else ('sax2', 'dom'):
                        k = 's.%s.%d.%s.%d.%s' % (encname, bnd, unit, p, api)
                        cases.append(core.Case(k, 'parse', dict(api=api, ns=1, loc=0)).doc(data))
                        meta[k] = (encname, api)
    ref = {}
    for encname, codec, bom in encs:
        if codec is None:
            continue
        head = '<?xml version="1.0" encoding="%s"?>' % encname
        for api in ('sax2', 'dom'):
            k = 'sref.%s.%s' % (encname, api)
            cases.append(core.Case(k, 'parse', dict(api=api, ns=1, loc=0)).doc(bom + (head + '<!---->' + body).encode(codec)))
            meta[k] = (encname, api)
    recs = core.run_cases(binary, cases, tag='c04s', per_case_timeout=60)
    refills = collections.Counter()
    for c in cases:
        r_ = recs.get(c.id)
        if r_ is None or not r_.complete or r_.crash or r_.hang:
            if r_ is not None:
                ck.crash_violation(r_, c, 'C04:')
            continue
        st = pc.parse_record(r_)[0]
        ev = [e for e in st.events if not (e[0] == 'CM' and (e[1] == '' or set(e[1]) == {'x'}))]
        s = (tuple(ev), tuple((e[0], e[1], e[2]) for e in st.errs), st.status)
        if c.id.startswith('sref.'):
            ref[meta[c.id]] = s
    for c in cases:
        if c.id.startswith('sref.'):
            continue
        r_ = recs.get(c.id)
        if r_ is None or not r_.complete or r_.crash or r_.hang:
            continue
        st = pc.parse_record(r_)[0]
        ev = [e for e in st.events if not (e[0] == 'CM' and (e[1] == '' or set(e[1]) == {'x'}))]
        s = (tuple(ev), tuple((e[0], e[1], e[2]) for e in st.errs), st.status)
        ck.evaluations += 1
        stats['slide_cases'] += 1
        if st.hk:
            refills['raw>=%d' % min(st.hk[0], 3)] += 1
            refills['char>=%d' % min(st.hk[1], 4)] += 1
            if st.hk[1] >= 2:
                stats['slide_cases_with_char_refill_in_document'] += 1
        if s != ref.get(meta[c.id]):
            d = pc.first_diff(list(ref[meta[c.id]][0]), list(s[0]))
            ck.violation('C04:slide:%s' % meta[c.id][0], 'content depends on the position of a construct relative to a buffer boundary: %r' % (d,),
                         {'case': c.to_json(), 'diff': repr(d)})
        else:
            ck.add_distinct(core.h(c.id))
    if stats['slide_cases_with_char_refill_in_document'] < 10:
        ck.inconclusive.append('slide cases never crossed a character-buffer refill')
    ck.rule = ('part A: generated documents (well-formed and single-constraint mutants) x chunk schedules / file / stdin, compared with the one-shot memory parse '
               '(events, error codes and positions); non-trivial when the dump has >= 5 events or >= 1 error; distinct by (bytes, delivery). '
               'part B: one document containing every boundary-sensitive construct, padded so that the 16384-char and 49152-byte boundaries fall on every '
               'offset of it; hook counters prove the refills happened')
    ck.cov['stats'] = dict(stats)
    ck.cov['deliveries'] = dict(schedc)
    ck.cov['slide_refill_hook_counters'] = dict(refills)
    ck.cov['slide_body'] = body
    ck.sample({'schedules': SCHEDULES, 'example_case': cases[0].to_json()['opt'], 'slide_case_ids': [c.id for c in cases[:3]]})
    return ck.finish()


def replay(j):
    w = j['witness']
    binary = build.ensure('asan', parts=['parse', 'domdump'])
    cs = [core.Case.from_json(w['case'])]
    if 'baseline_case' in w:
        cs.append(core.Case.from_json(w['baseline_case']))
    recs = core.run_cases(binary, cs, shards=1)
    sigs = []
    for c in cs:
        print('==', c.id, c.opt)
        print('\n'.join(recs[c.id].lines[:60]))
        sigs.append(sig(pc.parse_record(recs[c.id])[0]))
    return 1 if len(sigs) == 2 and sigs[0] != sigs[1] else 0
