"""C17: distinct parser, document and transcoder objects are safe to use concurrently.
Oracles: ThreadSanitizer on the instrumented library (reports de-duplicated by root cause), a per-process watchdog
for deadlock, and digest equality: every work item must give the same result digest as the same item executed in a
single-threaded run of the same binary.  First-use races happen once per process and facility, so the workload is
many short processes; a barrier releases all threads onto the same not-yet-used facility and the library's hook
points (mutex pre/post/unlock, lazy-initialisation windows) inject seeded yields and prove overlap."""
import os, re, subprocess, collections, time
from concurrent.futures import ThreadPoolExecutor
from .. import core, build

PID = 'C17'
KINDS = ['private-parser-dtd', 'shared-pool-sax2', 'shared-pool-sax2-fullcheck', 'private-dom-serialize', 'ownerless-doctype-registry', 'regex-categories',
         'transcoders', 'exception-messages', 'shared-pool-dom']

ROOTS = [
    ('lazy-content-model', ('ComplexTypeInfo::getContentModel', 'ComplexTypeInfo::makeContentModel', 'DTDElementDecl::getContentModel', 'DTDElementDecl::makeContentModel',
                            'ComplexTypeInfo::buildContentModel', 'DTDElementDecl::createChildModel', 'ComplexTypeInfo::createChildModel', 'ComplexTypeInfo::expandContentModel',
                            'ComplexTypeInfo::convertContentSpecTree', 'SchemaElementDecl::getContentModel')),
    ('lazy-formatted-content-model', ('ComplexTypeInfo::getFormattedContentModel', 'ComplexTypeInfo::formatContentModel', 'DTDElementDecl::getFormattedContentModel',
                                      'DTDElementDecl::formatContentModel', 'SchemaElementDecl::getFormattedContentModel')),
    ('range-token-map', ('RangeToken::createMap', 'RangeToken::doCreateMap')),
    ('range-lookup', ('RangeTokenMap::getRange', 'RangeTokenElemMap::getRangeToken', 'RangeTokenElemMap::setRangeToken', 'RangeToken::complementRanges')),
]


def root_of(rep):
    fns = set(f[0] for f in rep.frames)
    for name, members in ROOTS:
        if fns & set(members):
            return name
    if any(f[0] == 'RangeToken::match' for f in rep.frames[:3]):
        return 'range-token-map'
    return None


def tsan_key(rep):
    root = root_of(rep)
    if root:
        return 'C17:tsan:%s:root=%s' % (rep.kind, root)
    lib = [f[0] for f in rep.frames if f[1]]
    # innermost library frames of the two accesses (first frame of the report, and the first frame that differs)
    a = lib[0] if lib else '?'
    b = next((x for x in lib[1:] if x != a), a)
    return 'C17:tsan:%s:%s' % (rep.kind, '|'.join(sorted([a, b])))


def suppression_file(ck):
    """TSan suppressions for the root causes that are listed as KNOWN findings: reports caused by them would otherwise
    number in the thousands per run and bury (and slow down) everything else.  A few pinned processes run without it."""
    known_roots = set()
    for k in ck.known:
        if k.get('property') == PID and k.get('status') == 'known':
            m = re.search(r'root=([a-z-]+)', k.get('key', ''))
            if m:
                known_roots.add(m.group(1))
    lines = []
    for name, members in ROOTS:
        if name in known_roots:
            lines += ['race:%s' % f for f in members]
    path = os.path.join(core.SCRATCH_ROOT, 'c17-%d.supp' % os.getpid())
    os.makedirs(core.SCRATCH_ROOT, exist_ok=True)
    open(path, 'w').write('\n'.join(lines) + '\n')
    return path, sorted(known_roots)


def run_one(binary, seed, nthreads, items, focus, serial, timeout, supp=None):
    env = dict(os.environ)
    env['TSAN_OPTIONS'] = 'halt_on_error=0:second_deadlock_stack=1:report_signal_unsafe=0:history_size=4' + (':suppressions=' + supp if supp else '')
    cmd = [binary, str(seed), str(nthreads), str(items), str(focus)] + (['serial'] if serial else [])
    try:
        p = subprocess.run(cmd, capture_output=True, env=env, timeout=timeout)
        return p.returncode, p.stdout.decode('utf-8', 'replace'), p.stderr.decode('utf-8', 'replace')
    except subprocess.TimeoutExpired as e:
        return 'timeout', (e.stdout or b'').decode('utf-8', 'replace'), (e.stderr or b'').decode('utf-8', 'replace')


def parse_out(out):
    d = {}
    h = {}
    for l in out.splitlines():
        f = l.split()
        if f and f[0] == 'D':
            d[(int(f[1]), int(f[2]))] = (int(f[3]), f[4])
        elif f and f[0] == 'H':
            h = dict(x.split('=') for x in f[1:])
    return d, h


def run(tier):
    ck = core.Check(PID, tier)
    build.build_lib('tsan')
    binary = build.build_named_driver('tsan', 'thr_stress')
    nproc = 40 if tier == 'quick' else 400
    items = 24 if tier == 'quick' else 120
    supp, suppressed_roots = suppression_file(ck)
    npinned = 5          # processes that run without suppressions (they re-observe the known findings)
    stats = collections.Counter()
    reports = collections.Counter()
    overlap_by_focus = collections.Counter()
    orders = set()
    plan = []
    for i in range(nproc):
        r = core.rng(ck.seed, PID, i)
        nthreads = [2, 4, 8, 16][i % 4] if tier != 'quick' else [4, 8, 8, 16][i % 4]
        focus = i % len(KINDS)
        plan.append((ck.seed * 100000 + i, nthreads, items, focus))
    workers = 6
    pinned = set(pl[0] for pl in plan if pl[3] in (1, 2, 8))
    pinned = set(sorted(pinned)[:npinned])

    def job(pl):
        seed, nthreads, items_, focus = pl
        sp = None if seed in pinned else supp
        par = run_one(binary, seed, nthreads, items_ if sp else min(items_, 8), focus, False, 900, sp)
        if par[0] == 'timeout':
            par2 = run_one(binary, seed, nthreads, items_ if sp else min(items_, 8), focus, False, 2700, sp)     # re-run once before calling it a hang
            if par2[0] != 'timeout':
                par = par2
        ser = run_one(binary, seed, nthreads, items_ if sp else min(items_, 8), focus, True, 2700)
        return pl, par, ser
    with ThreadPoolExecutor(workers) as ex:
        results = list(ex.map(job, plan))
    for (seed, nthreads, items_, focus), par, ser in results:
        rc, out, err = par
        ck.evaluations += 1
        if rc == 'timeout':
            ck.violation('C17:deadlock-or-hang:focus=%s' % KINDS[focus], 'process did not finish within the watchdog twice (threads=%d)' % nthreads,
                         {'cmd': [seed, nthreads, items_, focus], 'stderr_tail': err[-3000:]})
            continue
        d, h = parse_out(out)
        ds, hs = parse_out(ser[1])
        if rc not in (0, 66) and not d:
            reps = core.parse_san(err)
            ck.violation('C17:crash:%s' % (reps[0].key() if reps else 'rc%s' % rc), 'stress process crashed', {'cmd': [seed, nthreads, items_, focus], 'stderr_tail': err[-4000:]})
            continue
        if not ds or len(ds) != len(d):
            ck.inconclusive.append('serial reference run incomplete for seed %s' % seed)
            continue
        stats['items'] += len(d)
        stats['locks'] += int(h.get('locks', 0))
        stats['lazy_windows_entered'] += int(h.get('lazy', 0))
        stats['yields_injected'] += int(h.get('yields', 0))
        ov = int(h.get('overlap', 0))
        if ov:
            stats['processes_with_overlapped_first_use'] += 1
            overlap_by_focus[KINDS[focus]] += 1
            ck.add_distinct(h.get('order'))
        orders.add(h.get('order'))
        for k, (kind, dig) in d.items():
            if ds.get(k, (None, None))[1] != dig:
                ck.violation('C17:digest-mismatch:%s' % KINDS[kind], 'a work item gave a different result under concurrency than in the single-threaded run (thread %d item %d)' % k,
                             {'cmd': [seed, nthreads, items_, focus], 'item': list(k), 'kind': KINDS[kind], 'parallel': dig, 'serial': ds.get(k, (None, None))[1]})
        for rep in core.parse_san(err):
            if rep.tool != 'tsan':
                continue
            key = tsan_key(rep)
            reports[key] += 1
            ck.violation(key, 'ThreadSanitizer: %s' % rep.kind, {'cmd': [seed, nthreads, items_, focus], 'report': rep.text[:6000]})
    ck.cov['stats'] = dict(stats)
    ck.cov['tsan_reports_by_key'] = dict(reports)
    ck.cov['distinct_lock_acquisition_orders'] = len(orders)
    ck.cov['overlapped_first_use_by_focus'] = dict(overlap_by_focus)
    ck.cov['work_item_kinds'] = KINDS
    ck.cov['tsan_suppressed_known_roots'] = suppressed_roots
    ck.cov['processes_without_suppressions'] = len(pinned)
    try:
        os.unlink(supp)
    except OSError:
        pass
    ck.rule = ('short processes (threads 2-16) whose threads are released by a barrier onto the same not-yet-used facility, then draw %d seeded work items each (private parsers, parsers on a shared '
               'locked grammar pool, private DOM build/serialise, owner-less doctypes, implementation registry, regexes with category/block escapes, transcoders, exception messages); a process is '
               'non-trivial when the hooks prove that two threads were inside the same first-use window; distinct by lock-acquisition-order hash' % items)
    ck.sample({'command': 'thr_stress <seed> <threads> <items> <focus>', 'example': list(plan[0]), 'digest_line': 'D <thread> <item> <kind> <hash>'})
    ck.assumptions = ['ThreadSanitizer observes the happens-before relation of the executions produced; yields widen the set of interleavings but do not enumerate it',
                      'ICU and libstdc++ are not instrumented; no report originating there was seen']
    if stats['processes_with_overlapped_first_use'] == 0:
        ck.inconclusive.append('no process had two threads inside the same first-use window')
    return ck.finish()


def replay(j):
    w = j['witness']
    build.build_lib('tsan')
    binary = build.build_named_driver('tsan', 'thr_stress')
    seed, nthreads, items, focus = w['cmd']
    hit = 0
    for k in range(5):
        rc, out, err = run_one(binary, seed + k * 7, nthreads, items, focus, False, 900)
        reps = [tsan_key(r) for r in core.parse_san(err) if r.tool == 'tsan']
        print('attempt', k, 'reports:', collections.Counter(reps))
        if j['key'] in reps:
            hit += 1
    return 1 if hit else 0
