"""C01: arbitrary input never causes memory errors, UB, hangs or foreign exceptions.
Oracles: ASan+UBSan on the instrumented library; the harness's catch ladder (a non-Xerces exception type aborts);
libFuzzer's per-input timeout and the runner's watchdog (re-run once) for termination.
Workload: (1) coverage-guided fuzzing (libFuzzer) of all four APIs x scanners x validation x features with
in-harness entity serving; (2) generated pathological shapes through the batch driver."""
import os, re, glob, shutil, subprocess, time, collections, hashlib
from concurrent.futures import ThreadPoolExecutor
from .. import core, build
from ..gen import xmlgen, xmlmut

PID = 'C01'
MARK = b'\n--XV-ENT--\n'
REPO = build.REPO


def cfg_bytes(r):
    return bytes([r.randrange(256), r.randrange(256)])


def seed_corpus(ck, d):
    """write seed inputs (config prefix + document [+ marker + entity]) into directory d; returns count"""
    n = 0
    r = core.rng(ck.seed, PID, 'seeds')
    skipped_slow = []
    ck.cov['seeds_skipped_large_occurrence_bounds'] = skipped_slow

    def put(data):
        nonlocal n
        if len(data) > 60000:
            return
        # schemas with large occurrence bounds (the XERCESC-1051 group of the in-repo regression set: maxOccurs 100 around
        # 99 + 99) take minutes to turn into a DFA under ASan -- a documented performance limitation (doc/schema.xml), not a
        # hang: as seeds they only make every fuzz shard trip libFuzzer's per-input timeout while it loads the corpus.
        # The shape is exercised with its own budget by the pathological case "big-maxoccurs".
        occ = sorted((int(x) for x in re.findall(rb'(?:max|min)Occurs="(\d+)"', data)), reverse=True)
        if occ and (occ[0] > 1000 or (len(occ) > 1 and occ[0] * occ[1] > 2000)):
            skipped_slow.append(len(data))
            return
        with open(os.path.join(d, 'seed-%s' % hashlib.sha1(data).hexdigest()[:16]), 'wb') as f:
            f.write(data)
        n += 1
    files = []
    for pat in ('samples/data/*.xml', 'samples/data/*.dtd', 'samples/data/*.xsd', 'tests/src/XSTSHarness/regression/**/*.x*', 'tests/src/xinclude/**/*.xml',
                'tests/src/DOM/TypeInfo/data/*.x*', 'tests/src/XSTSHarness/regression/**/*.xml'):
        files += glob.glob(os.path.join(REPO, pat), recursive=True)
    files = sorted(set(files))
    byname = {}
    for f in files:
        try:
            byname[f] = open(f, 'rb').read()
        except OSError:
            pass
    for f, data in byname.items():
        put(cfg_bytes(r) + data)
        # pair instance + schema/dtd of the same directory through the entity channel
        if f.endswith('.xml'):
            sib = [g for g in byname if os.path.dirname(g) == os.path.dirname(f) and (g.endswith('.xsd') or g.endswith('.dtd'))]
            if sib:
                put(bytes([r.randrange(256) | 0x80, r.randrange(256)]) + data + MARK + byname[r.choice(sib)])
    for i in range(150):
        g = xmlgen.make(core.rng(ck.seed, PID, 'seedgen', i))
        put(cfg_bytes(r) + g['bytes'])
        ops = list(xmlmut.ALL_OPS)
        r.shuffle(ops)
        m = xmlmut.mutate(g, r, ops[0])
        if m:
            put(cfg_bytes(r) + m['bytes'])
    # hand-made seeds for the entity channel
    put(b'\x10\x04<!DOCTYPE a SYSTEM "a.dtd"><a>&e;</a>' + MARK + b'<!ELEMENT a (#PCDATA)><!ENTITY e "x"><!ENTITY % p "<!ATTLIST a b CDATA #IMPLIED>">%p;')
    put(b'\x90\x05<a xmlns:xsi="http://www.w3.org/2001/XMLSchema-instance" xsi:noNamespaceSchemaLocation="a.xsd">1</a>' + MARK +
        b'<xs:schema xmlns:xs="http://www.w3.org/2001/XMLSchema"><xs:element name="a" type="xs:int"/></xs:schema>')
    put(b'\x42\x40<a xmlns:xi="http://www.w3.org/2001/XInclude"><xi:include href="b.xml"><xi:fallback>f</xi:fallback></xi:include></a>' + MARK + b'<b>t</b>')
    put(b'\x00\x10<!DOCTYPE a [<!ENTITY a "aaaaaaaaaa"><!ENTITY b "&a;&a;&a;&a;&a;&a;&a;&a;"><!ENTITY c "&b;&b;&b;&b;&b;&b;&b;&b;">]><a>&c;&c;</a>')
    return n


def run_fuzz_shard(binary, shard, seeds_dir, work, runs, maxlen, seedval, dictf, timeout_s):
    out = os.path.join(work, 'out%d' % shard)
    art = os.path.join(work, 'art%d' % shard)
    os.makedirs(out, exist_ok=True)
    os.makedirs(art, exist_ok=True)
    env = dict(os.environ)
    env.update(core.SAN_ENV)
    env['ASAN_OPTIONS'] += ':detect_leaks=0'
    cmd = [binary, out, seeds_dir, '-runs=%d' % runs, '-seed=%d' % seedval, '-max_len=%d' % maxlen, '-timeout=90', '-rss_limit_mb=6000', '-malloc_limit_mb=2000',
           '-artifact_prefix=' + art + '/', '-print_final_stats=1', '-dict=' + dictf, '-len_control=50', '-reload=0', '-use_value_profile=0']
    t0 = time.time()
    try:
        p = subprocess.run(cmd, stdout=subprocess.DEVNULL, stderr=subprocess.PIPE, env=env, timeout=timeout_s)
        err = p.stderr.decode('utf-8', 'replace')
        rc = p.returncode
    except subprocess.TimeoutExpired as e:
        err = (e.stderr or b'').decode('utf-8', 'replace')
        rc = 'watchdog'
    arts = sorted(glob.glob(os.path.join(art, '*')))
    return dict(shard=shard, rc=rc, err=err, artifacts=arts, wall=time.time() - t0, out=out)


def pathological_cases(ck, tier):
    """documents with extreme shapes; each is a C01 case run through the batch driver"""
    r = core.rng(ck.seed, PID, 'patho')
    big = tier != 'quick'
    C = []

    def add(name, data, **opt):
        for api in (('sax2', 'dom') if not big else ('sax1', 'sax2', 'dom', 'domls')):
            o = dict(api=api, dump=0)
            o.update(opt)
            C.append(core.Case('p.%s.%s.%s' % (name, api, '-'.join('%s%s' % kv for kv in sorted(opt.items()))), 'parse', o, meta={'class': name}).doc(data))
    depth = 20000 if not big else 100000
    add('deep-nesting', b'<a>' * depth + b'</a>' * depth)
    add('deep-nesting-unclosed', b'<a>' * depth)
    add('deep-nesting-ns', b'<p:a xmlns:p="urn:x">' * (depth // 10) + b'</p:a>' * (depth // 10), ns=1)
    nat = 70000 if big else 20000
    add('many-attributes', b'<a ' + b' '.join(b'a%d="%d"' % (i, i) for i in range(nat)) + b'/>')
    add('many-attributes-dup-last', b'<a ' + b' '.join(b'a%d="%d"' % (i, i) for i in range(nat // 4)) + b' a7="x"/>')
    add('many-ns-decls', b'<a ' + b' '.join(b'xmlns:p%d="urn:%d"' % (i, i) for i in range(5000)) + b'><p4999:b/></a>', ns=1)
    add('huge-name', b'<' + b'n' * 70000 + b'/>')
    add('huge-name-mismatch', b'<' + b'n' * 40000 + b'></' + b'n' * 39999 + b'>')
    add('huge-attr-value', b'<a b="' + b'v' * 300000 + b'"/>')
    add('huge-text', b'<a>' + b'x' * 1000000 + b'</a>')
    add('huge-comment-pi', b'<!--' + b'c' * 100000 + b'--><?p ' + b'd' * 100000 + b'?><a/>')
    add('long-error-message', b'<a ' + b'x' * 5000 + b' ' + b'y' * 5000 + b'>')
    add('huge-entity-name', b'<a>&' + b'e' * 50000 + b';</a>')
    leaves = 1500 if not big else 6000
    add('wide-content-model', b'<!DOCTYPE a [<!ELEMENT a (' + b'|'.join(b'e%d' % i for i in range(leaves)) + b')*>' + b''.join(b'<!ELEMENT e%d EMPTY>' % i for i in range(0, leaves, 50)) + b']><a><e0/><e50/></a>', val='always')
    add('seq-content-model', b'<!DOCTYPE a [<!ELEMENT a (' + b','.join(b'e%d?' % i for i in range(leaves // 3)) + b')><!ELEMENT e1 EMPTY>]><a><e1/></a>', val='always')
    nest = 300
    add('nested-content-model', b'<!DOCTYPE a [<!ELEMENT a ' + b'(' * nest + b'b' + b')*' * nest + b'><!ELEMENT b EMPTY>]><a><b/><b/></a>', val='always')
    chain = 2000
    ents = b''.join(b'<!ENTITY e%d "&e%d;">' % (i, i + 1) for i in range(chain)) + b'<!ENTITY e%d "x">' % chain
    add('long-entity-chain', b'<!DOCTYPE a [' + ents + b']><a>&e0;</a>')
    add('long-entity-chain-attr', b'<!DOCTYPE a [' + ents + b']><a b="&e0;"/>')
    bomb = b'<!DOCTYPE a [<!ENTITY a "aaaaaaaaaa">' + b''.join(b'<!ENTITY l%d "%s">' % (i, (b'&l%d;' % (i - 1) if i else b'&a;') * 10) for i in range(8)) + b']><a>&l7;</a>'
    add('entity-bomb-limited', bomb, seclimit=1000)
    add('many-ids', b'<!DOCTYPE a [<!ATTLIST b i ID #IMPLIED r IDREF #IMPLIED>]><a>' + b''.join(b'<b i="i%d" r="i%d"/>' % (i, (i * 7) % 20000) for i in range(20000)) + b'</a>', val='always')
    add('mixed-encod-garbage', bytes(r.randrange(256) for _ in range(20000)))
    add('utf16-garbage', b'\xff\xfe' + bytes(r.randrange(256) for _ in range(20000)))
    add('ucs4-garbage', b'\x00\x00\xfe\xff' + bytes(r.randrange(256) for _ in range(4000)))
    add('ebcdic-decl', '<?xml version="1.0" encoding="IBM037"?><a/>'.encode('cp037'))
    add('ebcdic-no-encoding', '<?xml version="1.0"?><a/>'.encode('cp037'))
    add('deep-schema-groups', b'<a xmlns:xsi="http://www.w3.org/2001/XMLSchema-instance" xsi:noNamespaceSchemaLocation="s.xsd"><b/></a>', schema=1, val='always', ns=1)
    C[-1].ents.append(('file:///xv/s.xsd', b'<xs:schema xmlns:xs="http://www.w3.org/2001/XMLSchema"><xs:element name="a"><xs:complexType>' + b'<xs:sequence>' * 200 +
                       b'<xs:element name="b" minOccurs="0"/>' + b'</xs:sequence>' * 200 + b'</xs:complexType></xs:element></xs:schema>'))
    C[-2].ents.append(C[-1].ents[0])
    add('big-maxoccurs', b'<a xmlns:xsi="http://www.w3.org/2001/XMLSchema-instance" xsi:noNamespaceSchemaLocation="m.xsd"><b/><b/></a>', schema=1, val='always', ns=1)
    mx = (b'<xs:schema xmlns:xs="http://www.w3.org/2001/XMLSchema"><xs:element name="a"><xs:complexType><xs:sequence><xs:element name="b" minOccurs="1" maxOccurs="3000"/>'
          b'<xs:element name="c" minOccurs="0" maxOccurs="2000"/></xs:sequence></xs:complexType></xs:element></xs:schema>')
    C[-1].ents.append(('file:///xv/m.xsd', mx))
    C[-2].ents.append(('file:///xv/m.xsd', mx))
    return C


def replay_input(fz, data, timeout_s):
    """run one input alone on fresh parsers; True if it completes without any report"""
    d = core._scratch('c01r')
    try:
        p = os.path.join(d, 'input')
        open(p, 'wb').write(data)
        env = dict(os.environ)
        env.update(core.SAN_ENV)
        env['XV_FUZZ_FRESH'] = '1'
        try:
            r = subprocess.run([fz, p, '-timeout=%d' % timeout_s], env=env, capture_output=True, text=True, timeout=timeout_s + 60)
        except subprocess.TimeoutExpired:
            return False
        return r.returncode == 0
    finally:
        shutil.rmtree(d, ignore_errors=True)


def length_sweep_cases(ck, tier):
    """every length 1..N of each string-bearing construct (fixed-size scratch buffers are a classic off-by-one site):
    attribute values of every declared type, names, ids, literals, tokens; with DTD validation on and off"""
    C = []
    top = 300 if tier == 'quick' else 1100
    lens = list(range(0, top + 1)) + [x + d for x in (512, 1023, 1024, 2048, 4096, 8192, 16384, 32768, 65536) for d in (-1, 0, 1) if x + d > top]
    D = ('<!DOCTYPE r [<!ELEMENT r ANY><!ELEMENT e EMPTY><!NOTATION n SYSTEM "n"><!ENTITY u SYSTEM "u" NDATA n>'
         '<!ATTLIST e c CDATA #IMPLIED t NMTOKEN #IMPLIED ts NMTOKENS #IMPLIED i ID #IMPLIED f IDREF #IMPLIED fs IDREFS #IMPLIED en ENTITY #IMPLIED ens ENTITIES #IMPLIED '
         'no NOTATION (n) #IMPLIED em (%s) #IMPLIED>%s]>')
    for L in lens:
        s = ('x' * L)
        nm = ('n' * L) if L else 'n'
        variants = {
            'cdata': ('', '<e c="%s"/>' % s),
            'nmtoken': ('', '<e t="%s"/>' % (s or 'x')),
            'nmtokens': ('', '<e ts="%s"/>' % ' '.join(['ab'] * (L // 3 + 1))[:max(L, 1)].strip() or 'a'),
            'id': ('', '<e i="%s"/>' % nm),
            'idref': ('', '<e i="%s"/><e f="%s"/>' % (nm, nm)),
            'idrefs': ('', '<e i="a"/><e fs="%s"/>' % (' '.join(['a'] * (L // 2 + 1)))),
            'enum': (nm, '<e em="%s"/>' % nm),
            'entity-attr': ('<!ENTITY %s SYSTEM "u" NDATA n>' % nm, '<e en="%s"/>' % nm),
            'entities-attr': ('', '<e ens="%s"/>' % ' '.join(['u'] * (L // 2 + 1))),
            'element-name': ('<!ELEMENT %s EMPTY>' % nm, '<%s/>' % nm),
            'attr-name': ('<!ATTLIST e %s CDATA #IMPLIED>' % nm, '<e %s="1"/>' % nm),
            'entity-ref': ('<!ENTITY %s "v">' % nm, '&%s;' % nm),
            'pi-target': ('', '<?%s d?>' % nm),
            'text': ('', s + '<e/>' + s),
            'comment': ('', '<!--%s-->' % s),
            'default-value': ('<!ATTLIST e dv NMTOKEN "%s">' % (s or 'x'), '<e/>'),
            'pubid-sysid': ('<!ENTITY x PUBLIC "%s" "%s">' % (s, s), '<e/>'),
            'ns-prefix-uri': ('<!ATTLIST r xmlns:%s CDATA #IMPLIED>' % nm, '<e/>'),
        }
        for vname, (decl, body) in variants.items():
            enum = nm if vname == 'enum' else 'v'
            if vname == 'enum':
                decl = ''
            text = (D % (enum, decl)) + ('<r xmlns:%s="u%s">' % (nm, s) if vname == 'ns-prefix-uri' else '<r>') + body + '</r>'
            for cfg in (('sax2', 'always', 'IG'), ('dom', 'never', 'IG'), ('sax2', 'always', 'DG')) if L <= top else (('sax2', 'always', 'IG'),):
                if cfg[1] == 'never' and L % 4:
                    continue
                if cfg[2] == 'DG' and L % 3:
                    continue
                C.append(core.Case('len.%s.%d.%s.%s.%s' % (vname, L, cfg[0], cfg[1], cfg[2]), 'parse', dict(api=cfg[0], val=cfg[1], scanner=cfg[2], ns=1, dump=0),
                                   meta={'class': 'length-sweep:' + vname}).doc(text.encode()))
    return C


def run(tier):
    ck = core.Check(PID, tier)
    build.build_lib('asan')
    fz = build.build_named_driver('asan', 'fuzz_parse')
    binary = build.driver('asan', ['parse', 'domdump'])
    work = core._scratch('c01')
    stats = collections.Counter()
    try:
        seeds = os.path.join(work, 'seeds')
        os.makedirs(seeds)
        nseeds = seed_corpus(ck, seeds)
        for f in glob.glob(os.path.join(build.VERIF, 'corpus', 'c01', '*')):
            shutil.copy(f, seeds)
        runs = 4000 if tier == 'quick' else 200000
        maxlen = 4096 if tier == 'quick' else 65536
        shards = core.NCPU
        ck.note('fuzzing: %d shards x %d runs, %d seeds' % (shards, runs, nseeds))
        tf = time.time()
        with ThreadPoolExecutor(shards) as ex:
            futs = [ex.submit(run_fuzz_shard, fz, i, seeds, work, runs, maxlen, ck.seed * 1000 + i, os.path.join(build.VERIF, 'corpus', 'xml.dict'), 900 if tier == 'quick' else 6 * 3600) for i in range(shards)]
            res = [f.result() for f in futs]
        stats['fuzz_wall_s'] = int(time.time() - tf)
        cov = []
        for rs in res:
            err = rs['err']
            m = re.search(r'stat::number_of_executed_units:\s*(\d+)', err)
            ex_n = int(m.group(1)) if m else 0
            stats['fuzz_executions'] += ex_n
            ck.evaluations += ex_n
            m = re.findall(r'#\d+\s+(?:DONE|NEW|REDUCE|pulse|INITED)\s+cov: (\d+) ft: (\d+) corp: (\d+)', err)
            if m:
                cov.append(tuple(int(x) for x in m[-1]))
            newu = len(glob.glob(os.path.join(rs['out'], '*')))
            stats['fuzz_new_corpus_units'] += newu
            for u in glob.glob(os.path.join(rs['out'], '*')):
                ck.add_distinct(os.path.basename(u))
            if rs['rc'] not in (0,):
                reps = core.parse_san(err)
                data = b''
                if rs['artifacts']:
                    data = open(rs['artifacts'][0], 'rb').read()
                if 'XV-FOREIGN-EXCEPTION' in err:
                    ty = re.search(r'XV-FOREIGN-EXCEPTION (\S+)', err).group(1)
                    key = 'C01:foreign-exception:' + ty
                elif reps:
                    key = 'C01:' + reps[0].key()
                elif rs['rc'] == 'watchdog':
                    key = 'C01:fuzz-shard-watchdog'
                else:
                    key = 'C01:fuzz-exit-%s' % rs['rc']
                if ('libfuzzer:timeout' in key or key == 'C01:fuzz-shard-watchdog') and data:
                    # wall-clock alone never decides: re-run the input alone, generously
                    ok = replay_input(fz, data, 600)
                    if ok:
                        stats['fuzz_timeouts_not_reproduced_alone'] += 1
                        continue
                    key = 'C01:hang:fuzz-input'
                i0 = max(0, min([x for x in (err.find('ERROR: AddressSanitizer'), err.find('runtime error:'), err.find('XV-FOREIGN'), err.find('ERROR: libFuzzer')) if x >= 0] or [len(err) - 6000]) - 300)
                ck.violation(key, 'fuzz shard %d stopped: %s' % (rs['shard'], key), {'input_hex': data.hex(), 'report': err[i0:i0 + 7000], 'kind': 'fuzz'})
        if cov:
            ck.cov['libfuzzer_final'] = {'edges_covered_max': max(c[0] for c in cov), 'features_max': max(c[1] for c in cov), 'corpus_units_max': max(c[2] for c in cov)}
        # seeds are distinct non-trivial inputs as well
        for f in glob.glob(os.path.join(seeds, '*')):
            ck.add_distinct(os.path.basename(f))
        stats['seed_inputs'] = nseeds
        # ------------------------------------------------ pathological shapes
        cases = pathological_cases(ck, tier) + length_sweep_cases(ck, tier)
        tp = time.time()
        recs = core.run_cases(binary, cases, tag='c01p', per_case_timeout=120, shards=16)
        for c in cases:
            r_ = recs.get(c.id)
            if r_ is None:
                continue
            if not r_.complete or r_.crash or r_.hang:
                if r_.hang and not r_.crash:
                    # re-run once alone before calling it a hang
                    again = core.run_cases(binary, [c], shards=1, per_case_timeout=300)
                    r2 = again.get(c.id)
                    if r2 is not None and r2.complete and not r2.crash:
                        stats['watchdog_false_alarm'] += 1
                        r_ = r2
                    else:
                        ck.crash_violation(r_, c, 'C01:')
                        continue
                else:
                    ck.crash_violation(r_, c, 'C01:')
                    continue
            ck.evaluations += 1
            stats['pathological_cases'] += 1
            lines = r_.lines
            st = next((l for l in lines if l.startswith('R\t')), '')
            exc = [l for l in lines if l.startswith('EXC\t')]
            if 'foreign' in st or any('FOREIGN' in e for e in exc):
                ck.violation('C01:foreign-exception:%s' % (exc[0].split('\t')[1] if exc else '?'), 'undocumented exception type escaped parse()', {'case': c.to_json() if len(c.steps[0][1]) < 200000 else {'id': c.id}})
            hk = next((l for l in lines if l.startswith('HK\t')), None)
            if hk and c.meta['class'] == 'entity-bomb-limited':
                push = int(hk.split('\t')[4])
                ck.cov['entity_bomb_pushes_with_limit_1000'] = push
                if push > 1000 + 20:
                    ck.violation('C01:unbounded:general-entity-limit', 'more general entity expansions (%d) than the limit (1000) allows' % push, {'case': c.to_json()})
            ck.add_distinct(c.id)
        stats['pathological_wall_s'] = int(time.time() - tp)
        ck.cov['pathological_classes'] = sorted(set(c.meta['class'] for c in cases))
    finally:
        shutil.rmtree(work, ignore_errors=True)
    ck.cov['stats'] = dict(stats)
    ck.rule = ('libFuzzer executions of the 4-API harness (first two bytes = configuration; entity channel after a marker) plus generated pathological documents; '
               'distinct_nontrivial counts the seed inputs, the new corpus units libFuzzer kept (each covers a feature no earlier input covered) and the pathological cases')
    ck.sample({'harness_input_layout': 'byte0: api(2) scanner(2) validation(2) namespaces(1) schema(1); byte1: fullchecking, continue-after-fatal, load-external-dtd, '
               'entity-reference-nodes/ns-prefixes, small entity-expansion limit, chunked delivery, xinclude, identity constraints; then document [marker entity]',
               'example_seed_hex': (b'\x10\x04<!DOCTYPE a SYSTEM "a.dtd"><a>&e;</a>' + MARK + b'<!ELEMENT a (#PCDATA)><!ENTITY e "x">').hex()})
    ck.assumptions = ['a clean sanitizer run is not memory safety: red-zone tools miss intra-object overflows and reuse inside Xerces\' own pools',
                      'parameter-entity expansion is not bounded by the SecurityManager (known finding under C19); the bounded-work oracle here covers general entities only',
                      'parsers are reused for 256 inputs, then recreated; an artifact is replayed on fresh parsers']
    if stats['fuzz_executions'] < 1000:
        ck.inconclusive.append('fuzzer executed too few inputs')
    return ck.finish()


def replay(j):
    w = j['witness']
    if w.get('kind') == 'fuzz':
        build.build_lib('asan')
        fz = build.build_named_driver('asan', 'fuzz_parse')
        d = core._scratch('c01r')
        try:
            p = os.path.join(d, 'input')
            open(p, 'wb').write(bytes.fromhex(w['input_hex']))
            env = dict(os.environ)
            env.update(core.SAN_ENV)
            env['XV_FUZZ_FRESH'] = '1'
            r = subprocess.run([fz, p], env=env, capture_output=True, text=True, timeout=600)
            print(r.stderr[-4000:])
            return 1 if r.returncode != 0 else 0
        finally:
            shutil.rmtree(d, ignore_errors=True)
    binary = build.ensure('asan', parts=['parse', 'domdump'])
    c = core.Case.from_json(w['case'])
    recs = core.run_cases(binary, [c], shards=1, per_case_timeout=300)
    r = recs[c.id]
    print(r.crash.text if r.crash else '\n'.join(r.lines[-20:]))
    return 1 if (r.crash or r.hang) else 0
